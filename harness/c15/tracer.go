package c15

// A minimal ptrace(2) tracer with ONE counter for the whole traced process: it kills the process on
// ENTRY of the G-th call (in the global order in which the tracer observes syscall entries of all
// threads) of any syscall of a given set. strace's own injection counter is per (thread, syscall name)
// and therefore never reaches e.g. the second thread's first ftruncate; this tracer does.
// linux/amd64 only (syscall numbers below).

import (
	"fmt"
	"os"
	"runtime"
	"syscall"
	"time"
	"unsafe"
)

// file-system syscalls that change or publish state (amd64 numbers)
var fsSyscalls = map[uint64]string{
	1: "write", 2: "open", 3: "close", 9: "mmap", 11: "munmap", 18: "pwrite64", 20: "writev", 25: "mremap", 26: "msync",
	73: "flock", 74: "fsync", 75: "fdatasync", 76: "truncate", 77: "ftruncate", 82: "rename", 83: "mkdir", 85: "creat",
	87: "unlink", 257: "openat", 258: "mkdirat", 263: "unlinkat", 264: "renameat", 277: "sync_file_range", 285: "fallocate",
	296: "pwritev", 316: "renameat2",
}

const (
	ptraceGetSyscallInfo = 0x420e
	ptraceOExitKill      = 0x100000
	sysInfoEntry         = 1
)

type syscallInfo struct {
	Op   uint8
	_    [3]uint8
	Arch uint32
	IP   uint64
	SP   uint64
	Nr   uint64
	Args [6]uint64
}

type traceRes struct {
	Fired    bool
	Calls    int    // counted calls whose entry was observed
	KilledAt string // name of the syscall the kill landed on
	Exit     int
	Signaled bool
	Err      string
	Seq      []string // names of the counted calls in the order observed
}

// setOf returns the syscall numbers that carry this name ("" = all of fsSyscalls).
func setOf(name string) map[uint64]string {
	if name == "" {
		return fsSyscalls
	}
	m := map[uint64]string{}
	for nr, n := range fsSyscalls {
		if n == name {
			m[nr] = n
		}
	}
	return m
}

// counted reports whether this syscall entry counts. Anonymous mappings (Go heap growth) are not
// file-system operations and are skipped.
func counted(set map[uint64]string, si *syscallInfo) (string, bool) {
	name, ok := set[si.Nr]
	if !ok {
		return "", false
	}
	if si.Nr == 9 && int32(si.Args[4]) < 0 {
		return "", false
	}
	return name, true
}

const markerLen = 0xC15

// markStart is called by the traced program where counting should begin: a pwrite64 on fd -1 (fails
// with EBADF, no effect) with a length that nothing else uses.
func markStart() {
	syscall.Syscall6(syscall.SYS_PWRITE64, ^uintptr(0), 0, markerLen, 0, 0, 0)
}

func isMarker(si *syscallInfo) bool {
	return si.Nr == 18 && int32(si.Args[0]) == -1 && si.Args[2] == markerLen
}

// traceRun starts argv (files = stdin, stdout, stderr of the child) under ptrace and kills it on entry
// of the g-th counted call (g <= 0: never). started is closed once the child exists. It must own its
// OS thread for the whole time: all ptrace requests have to come from the thread that forked.
//
// afterMarker: counting starts only after the traced program issued the marker call (see markStart),
// so that the dynamic loader's and the Go runtime's start-up calls are not crash points.
func traceRun(argv []string, env []string, files []*os.File, set map[uint64]string, g int, afterMarker bool, limit time.Duration, started chan<- struct{}) traceRes {
	runtime.LockOSThread()
	defer runtime.UnlockOSThread()
	var res traceRes
	p, err := os.StartProcess(argv[0], argv, &os.ProcAttr{Files: files, Env: env,
		Sys: &syscall.SysProcAttr{Ptrace: true, Setpgid: true}})
	close(started)
	if err != nil {
		res.Err = "start: " + err.Error()
		return res
	}
	pid := p.Pid
	defer p.Release()
	timedOut := false
	timer := time.AfterFunc(limit, func() { timedOut = true; syscall.Kill(-pid, syscall.SIGKILL) })
	defer timer.Stop()
	known := map[int]bool{}
	first := true
	armed := !afterMarker
	for {
		var ws syscall.WaitStatus
		wpid, err := syscall.Wait4(-pid, &ws, syscall.WALL, nil)
		if err == syscall.EINTR {
			continue
		}
		if err != nil {
			break // ECHILD: every thread has been reaped
		}
		if ws.Exited() || ws.Signaled() {
			if wpid == pid {
				res.Exit = ws.ExitStatus()
				res.Signaled = ws.Signaled()
			}
			continue
		}
		if !ws.Stopped() {
			continue
		}
		sig := ws.StopSignal()
		switch {
		case first:
			// the exec stop of the new process
			first = false
			known[wpid] = true
			if err := syscall.PtraceSetOptions(wpid, syscall.PTRACE_O_TRACESYSGOOD|syscall.PTRACE_O_TRACECLONE|syscall.PTRACE_O_TRACEFORK|syscall.PTRACE_O_TRACEVFORK|ptraceOExitKill); err != nil {
				res.Err = "setoptions: " + err.Error()
				syscall.Kill(-pid, syscall.SIGKILL)
				continue
			}
			syscall.PtraceSyscall(wpid, 0)
		case sig == syscall.SIGTRAP|0x80:
			var si syscallInfo
			_, _, e := syscall.Syscall6(syscall.SYS_PTRACE, ptraceGetSyscallInfo, uintptr(wpid), unsafe.Sizeof(si), uintptr(unsafe.Pointer(&si)), 0, 0)
			if e != 0 {
				if e != syscall.ESRCH {
					res.Err = "get_syscall_info: " + e.Error()
				}
				syscall.PtraceSyscall(wpid, 0)
				continue
			}
			if si.Op == sysInfoEntry && !armed && isMarker(&si) {
				armed = true
			} else if si.Op == sysInfoEntry && !res.Fired && armed {
				if name, ok := counted(set, &si); ok {
					res.Calls++
					res.Seq = append(res.Seq, name)
					if res.Calls == g {
						// the thread sits in syscall-enter-stop: SIGKILL ends the process before the call runs
						res.Fired = true
						res.KilledAt = name
						syscall.Kill(pid, syscall.SIGKILL)
						continue
					}
				}
			}
			syscall.PtraceSyscall(wpid, 0)
		case sig == syscall.SIGTRAP && ws.TrapCause() > 0:
			syscall.PtraceSyscall(wpid, 0) // PTRACE_EVENT_CLONE etc.
		case !known[wpid] && sig == syscall.SIGSTOP:
			known[wpid] = true // first stop of an auto-attached new thread
			syscall.PtraceSyscall(wpid, 0)
		default:
			known[wpid] = true
			syscall.PtraceSyscall(wpid, int(sig)) // a real signal (Go preemption uses SIGURG): deliver it
		}
	}
	if timedOut {
		res.Err = fmt.Sprintf("traced process exceeded %v", limit)
	}
	return res
}

// ------------------------------------------------------------------------------------------------
// Self-test of the tracer (run at the start of every run): a two-thread ping-pong whose global order
// of pwrite64 calls is forced by channels: a1 a2 | b1 b2 b3 | a3 a4.

func childPingPong(dir string) {
	fa, _ := os.Create(dir + "/A")
	fb, _ := os.Create(dir + "/B")
	a2b, b2a, done := make(chan int), make(chan int), make(chan int)
	go func() {
		runtime.LockOSThread()
		syscall.Pwrite(int(fa.Fd()), []byte("a1"), 0)
		syscall.Pwrite(int(fa.Fd()), []byte("a2"), 2)
		a2b <- 1
		<-b2a
		syscall.Pwrite(int(fa.Fd()), []byte("a3"), 4)
		syscall.Pwrite(int(fa.Fd()), []byte("a4"), 6)
		done <- 1
	}()
	go func() {
		runtime.LockOSThread()
		<-a2b
		syscall.Pwrite(int(fb.Fd()), []byte("b1"), 0)
		syscall.Pwrite(int(fb.Fd()), []byte("b2"), 2)
		syscall.Pwrite(int(fb.Fd()), []byte("b3"), 4)
		b2a <- 1
	}()
	<-done
	out("DONE\n")
	os.Exit(0)
}

// tracerSelfTest returns "" when kill-at-G behaves as claimed: global counter over threads, kill on
// entry (the G-th call has no effect), no kill when G exceeds the number of calls.
func tracerSelfTest() string {
	wantA := []string{"", "a1", "a1a2", "a1a2", "a1a2", "a1a2", "a1a2a3", "a1a2a3a4", "a1a2a3a4"}
	wantB := []string{"", "", "", "b1", "b1b2", "b1b2b3", "b1b2b3", "b1b2b3", "b1b2b3"}
	devnull, err := os.OpenFile(os.DevNull, os.O_RDWR, 0)
	if err != nil {
		return err.Error()
	}
	defer devnull.Close()
	for g := 1; g <= 9; g++ {
		dir := scratch()
		started := make(chan struct{})
		r := traceRun(append([]string{os.Args[0]}, selfArgs("pingpong", dir)...), os.Environ(), []*os.File{devnull, devnull, devnull}, map[uint64]string{18: "pwrite64"}, g, false, childLimit, started)
		a, _ := os.ReadFile(dir + "/A")
		b, _ := os.ReadFile(dir + "/B")
		os.RemoveAll(dir)
		wa, wb, wfired := wantA[g-1], wantB[g-1], g <= 7
		if r.Err != "" || string(a) != wa || string(b) != wb || r.Fired != wfired || (wfired && !r.Signaled) || (!wfired && (r.Exit != 0 || r.Signaled || r.Calls != 7)) {
			return fmt.Sprintf("g=%d: A=%q B=%q (want %q %q) %+v", g, a, b, wa, wb, r)
		}
	}
	return ""
}
