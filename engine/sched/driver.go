package sched

import (
	"encoding/json"
	"fmt"
	"strings"
	"time"

	"github.com/emitter-io/emitter/internal/verifx/engine/core"
)

// Drive explores the named scenarios bound-major (every scenario at bound b before any at b+1) in worker
// processes; when the calling binary is not the instrumented one the workers are started from the scheduled
// binary that was built next to it. Worker arguments: "sched" <scenario> <bound> <shard> <nshards>.
// Returns the highest bound completed without a violation and without the soft deadline cutting it (-1: none).
func Drive(c *core.Ctx, names []string, maxBound int) int {
	if !core.Instrumented {
		sb := core.SchedBin()
		if sb == "" {
			core.HarnessFailure("%s: the scheduled binary (verifx-sched) is not built next to %s", c.ID, "this binary")
		}
		c.WorkerBin = sb
		defer func() { c.WorkerBin = "" }()
	}
	n := core.NumWorkers()
	completed := -1
	before := c.ViolationCount()
	for b := 0; b <= maxBound && !c.Expired(); b++ {
		for _, name := range names {
			shards := n
			if b < 2 {
				shards = 1
			}
			outs := c.Shard(shards, n, func(i int) []string {
				return []string{"sched", name, fmt.Sprint(b), fmt.Sprint(i), fmt.Sprint(shards)}
			}, 20*time.Minute)
			c.CheckShards(outs)
		}
		if !c.Expired() && c.ViolationCount() == before {
			completed = b
		}
	}
	return completed
}

// WorkerMain is the worker side of Drive: args = <scenario> <bound> <shard> <nshards> (after "sched").
func WorkerMain(c *core.Ctx, scs map[string]*Scenario, args []string) {
	var bound, shard, n int
	fmt.Sscan(args[1], &bound)
	fmt.Sscan(args[2], &shard)
	fmt.Sscan(args[3], &n)
	sc := scs[args[0]]
	if sc == nil {
		core.HarnessFailure("unknown scenario %q", args[0])
	}
	if !core.Instrumented {
		core.HarnessFailure("scenario %s started in a binary without instrumentation", sc.Name)
	}
	e := &Explorer{Sc: sc, Bound: bound, Shard: shard, NShards: n, Deadline: c.Deadline}
	st := e.Explore()
	c.Add("schedules:"+sc.Name, st.Executions)
	c.Add("schedules", st.Executions)
	c.Add("replay_divergences", st.Divergences)
	for o := range st.Outcomes {
		c.Distinct("outcomes:"+sc.Name, o)
	}
	if !st.Exhaustive {
		c.NotExhaustive(fmt.Sprintf("scenario %s bound %d shard %d hit the time cap", sc.Name, bound, shard))
	}
	if shard == 0 && bound == 0 {
		c.Sample(map[string]interface{}{"scenario": sc.Name, "default_schedule_observations": st.FirstTrace, "max_branch_points": st.MaxPoints})
	}
	for _, f := range st.Violations {
		c.ViolatePart("sched:"+sc.Name, "sched:"+sc.Name+":"+f.Sig, f.What+fmt.Sprintf(" | preempted at %v", f.Sites),
			map[string]interface{}{"part": "sched:" + sc.Name, "choices": f.Choices, "obs": f.Obs, "bound": bound})
	}
}

// ReplayCase re-executes a recorded schedule of one of the scenarios (case JSON as written by WorkerMain).
// It reports whether the case was a scheduled one.
func ReplayCase(c *core.Ctx, scs map[string]*Scenario, raw json.RawMessage) bool {
	var probe struct {
		Part    string `json:"part"`
		Choices []int  `json:"choices"`
	}
	if json.Unmarshal(raw, &probe) != nil || !strings.HasPrefix(probe.Part, "sched:") {
		return false
	}
	sc := scs[strings.TrimPrefix(probe.Part, "sched:")]
	if sc == nil {
		core.HarnessFailure("unknown scenario in replay: %s", probe.Part)
	}
	if !core.Instrumented {
		core.HarnessFailure("a scheduled case must be replayed by the scheduled binary")
	}
	EnableFiles(sc.Files...)
	YieldsOnly = sc.YieldsOnly
	x := Run(probe.Choices, true, sc.Body)
	sig, what := "", ""
	if x.Deadlock {
		sig, what = "deadlock", strings.Join(x.Blocked, ";")
	} else if len(x.Panics) > 0 {
		sig, what = "panic", x.Panics[0]
	} else {
		sig, what = sc.Check(x)
	}
	if sig != "" {
		c.Violate("sched:"+sc.Name+":"+sig, what, probe)
	}
	return true
}
