// Package c17: transport adapters deliver the byte stream unchanged.
//
// Sequential parts (bounded exhaustive enumeration against the real code):
//
//	(a) the protocol-sniffing listener: every composition of a stream into socket reads x EOF
//	    placement x matcher set x consumer buffer, through the real Listener.Serve / sniffer
//	(b) the write queue of listener.Conn: every sequence of <= 4 writes x limiter answers x flushes
//	(d) the WebSocket adapter: every composition of a stream into messages and reader chunks,
//	    with empty messages and control frames in between, read directly and through bufio
//
// The oracle is the statement: bytes out == bytes in, in order, once each (plain byte slices).
package c17

import (
	"bytes"
	"encoding/hex"
	"encoding/json"
	"fmt"
	"runtime"
	"sort"
	"sync"
	"time"

	"github.com/emitter-io/emitter/internal/verifx/engine/core"
)

func init() {
	core.Register(&core.Check{ID: "C17", Level: "model_checking", Run: run, Replay: replay, Worker: workerC})
}

// hangAfter is the (generous) hang detector; nothing else in this check depends on wall-clock time.
const hangAfter = 30 * time.Second

// verdict of one case; Kind == "" means the case conforms to the statement.
type verdict struct {
	Kind  string // byte-mismatch | lost | duplicated | reordered | early-eof | missing-eof | wrong-listener | hang | panic
	Shape string // the input shape that triggers it (part of the signature)
	What  string
}

func (v verdict) ok() bool { return v.Kind == "" }

// agg collects violations from parallel workers and keeps, per signature, the case that comes first
// in enumeration order (so the reported case does not depend on goroutine timing).
type agg struct {
	mu sync.Mutex
	m  map[string]*aggEntry
}

type aggEntry struct {
	count int
	ord   int64
	what  string
	cs    interface{}
}

func newAgg() *agg { return &agg{m: map[string]*aggEntry{}} }

func (a *agg) add(sig, what string, ord int64, mk func() interface{}) {
	a.mu.Lock()
	e := a.m[sig]
	if e == nil {
		e = &aggEntry{ord: ord, what: what, cs: mk()}
		a.m[sig] = e
	} else if ord < e.ord {
		e.ord, e.what, e.cs = ord, what, mk()
	}
	e.count++
	a.mu.Unlock()
}

func (a *agg) flush(c *core.Ctx) {
	a.mu.Lock()
	defer a.mu.Unlock()
	var sigs []string
	for s := range a.m {
		sigs = append(sigs, s)
	}
	sort.Strings(sigs)
	for _, s := range sigs {
		e := a.m[s]
		c.Violate(s, e.what, e.cs)
		for i := 1; i < e.count; i++ {
			c.Violate(s, e.what, nil) // occurrence count only
		}
	}
	a.m = map[string]*aggEntry{}
}

// classify names the difference between what was sent and what arrived.
func classify(want, got []byte, endedEOF bool) string {
	switch {
	case bytes.Equal(want, got):
		return ""
	case len(got) < len(want) && bytes.Equal(want[:len(got)], got):
		if endedEOF {
			return "early-eof"
		}
		return "lost"
	case len(got) > len(want):
		return "duplicated"
	case len(got) < len(want):
		return "lost"
	}
	a, b := append([]byte(nil), want...), append([]byte(nil), got...)
	sort.Slice(a, func(i, j int) bool { return a[i] < a[j] })
	sort.Slice(b, func(i, j int) bool { return b[i] < b[j] })
	if bytes.Equal(a, b) {
		return "reordered"
	}
	return "byte-mismatch"
}

// compositionLens turns a cut mask over the n-1 inner positions into chunk lengths.
func compositionLens(n int, mask int) []int {
	if n == 0 {
		return nil
	}
	var out []int
	cur := 1
	for i := 0; i < n-1; i++ {
		if mask&(1<<uint(i)) != 0 {
			out = append(out, cur)
			cur = 1
		} else {
			cur++
		}
	}
	return append(out, cur)
}

func numCompositions(n int) int {
	if n <= 1 {
		return 1
	}
	return 1 << uint(n-1)
}

func hx(b []byte) string { return hex.EncodeToString(b) }

func unhx(s string) []byte { b, _ := hex.DecodeString(s); return b }

func workers() int {
	n := runtime.NumCPU()
	if n > 16 {
		n = 16
	}
	if n < 1 {
		n = 1
	}
	return n
}

// partDeadline gives a part a share of the remaining soft budget.
func partDeadline(c *core.Ctx, share float64) time.Time {
	rem := time.Until(c.Deadline)
	if rem < 0 {
		rem = 0
	}
	return time.Now().Add(time.Duration(float64(rem) * share))
}

func safely(f func()) (panicked string) {
	defer func() {
		if r := recover(); r != nil {
			panicked = fmt.Sprint(r)
		}
	}()
	f()
	return ""
}

func run(c *core.Ctx) {
	ag := newAgg()

	partA(c, ag, partDeadline(c, 0.45))
	ag.flush(c)

	partB(c, ag) // single-threaded: rate.VerifLimit is a process-global
	ag.flush(c)

	partC(c) // concurrent write path under the controlled scheduler (worker processes)

	// Reusable pieces: RecConn (recconn.go: records every Write call, scripted Reads),
	// limiterScript (partb.go) and the byte-level oracle classify().

	partD(c, ag, partDeadline(c, 0.9))
	ag.flush(c)

	partE(c) // concurrently accepted connections under the controlled scheduler (worker processes); last

	cases := c.Count("cases_sniffer") + c.Count("cases_write") + c.Count("cases_websocket_read") +
		c.Count("cases_websocket_write") + c.Count("cases_websocket_gorilla") + c.Count("cases_write_concurrent_schedules")
	c.Set("states", cases)
	c.Set("transitions", cases)
	c.Set("traces_validated_against_impl", cases)
	c.Set("unit", "one case = one complete script replayed against the real adapter and compared byte for byte; adapter_calls counts the Read/Write/Flush calls made on the adapters")
	c.Assume("the fake socket hands out each scripted chunk as one read (split further only when the caller's buffer is smaller) and keeps answering io.EOF after the end; real sockets, TLS and OS scheduling are not modelled")
	c.Assume("a socket Write is atomic and complete (TCP/TLS serialise whole writes)")
	c.Assume("an open stream handed to the sniffer carries at least as many bytes as the longest matcher peeks (a matcher legitimately blocks on a shorter open stream)")
	c.Assume("(0, nil) reads are legal io.Reader behaviour; a consumer retries them")
}

func replay(c *core.Ctx, raw json.RawMessage) {
	var head struct {
		Part string `json:"part"`
	}
	if err := json.Unmarshal(raw, &head); err != nil {
		core.HarnessFailure("C17 replay: unreadable case: %v", err)
		return
	}
	ag := newAgg()
	switch head.Part {
	case "c":
		var cc struct {
			Choices   []int  `json:"choices"`
			Prequeued bool   `json:"prequeued"`
			Scenario  string `json:"scenario"`
		}
		json.Unmarshal(raw, &cc)
		replayC(c, cc.Choices, cc.Prequeued, cc.Scenario)
	case "a":
		replayA(c, ag, raw)
	case "b":
		replayB(c, ag, raw)
	case "d-read":
		replayDRead(c, ag, raw)
	case "d-write":
		replayDWrite(c, ag, raw)
	case "d-gorilla":
		replayGorilla(c, ag, raw)
	default:
		core.HarnessFailure("C17 replay: unknown part %q", head.Part)
	}
	ag.flush(c)
}
