// Package c03: channel keys authorize exactly what they were issued for.
//
// Bounded-exhaustive enumeration of (key target, permission mask, expiry, requested channel,
// operation) against the real broker.Service.Authorize of a real broker per license version, with
// keys minted by the real key generator, compared in both directions with the string-level
// reference predicate of ref.go (written from the property statement).
package c03

import (
	"encoding/json"
	"fmt"
	"runtime"
	"sort"
	"strings"
	"sync"
	"time"

	"github.com/emitter-io/emitter/internal/config"
	"github.com/emitter-io/emitter/internal/event"
	"github.com/emitter-io/emitter/internal/security"
	"github.com/emitter-io/emitter/internal/security/license"
	"github.com/emitter-io/emitter/internal/verifx/engine/brokerx"
	"github.com/emitter-io/emitter/internal/verifx/engine/core"
	"github.com/emitter-io/emitter/internal/verifx/engine/sched"
)

func init() {
	core.Register(&core.Check{ID: "C03", Level: "exploration", Run: run, Replay: replay, Worker: schedWorker})
}

// ---- the bounded grammar -------------------------------------------------------------------

var alphabet = []string{"a", "b", "c", "+"}

func sequences(minDepth, maxDepth int) [][]string {
	var out [][]string
	for d := minDepth; d <= maxDepth; d++ {
		idx := make([]int, d)
		for {
			s := make([]string, d)
			for i, x := range idx {
				s[i] = alphabet[x]
			}
			out = append(out, s)
			i := d - 1
			for ; i >= 0; i-- {
				idx[i]++
				if idx[i] < len(alphabet) {
					break
				}
				idx[i] = 0
			}
			if i < 0 {
				break
			}
		}
	}
	return out
}

// targets: "#/" and every sequence of depth 1..3 over {a,b,c,+}, exact and with "#/" (169).
func allTargets() []string {
	out := []string{"#/"}
	for _, s := range sequences(1, 3) {
		out = append(out, joinLevels(s, false), joinLevels(s, true))
	}
	return out
}

// requests: every sequence of depth 1..4 over {a,b,c,+}, plain and with a trailing '#', plus "#/" (681).
func allRequests() []string {
	out := []string{"#/"}
	for _, s := range sequences(1, 4) {
		out = append(out, joinLevels(s, false), joinLevels(s, true))
	}
	return out
}

var expiries = []string{"none", "future", "past"}

// representative (target, request) pairs for the all-masks product of the quick tier.
var reprPairs = [][2]string{
	{"a/", "a/"},
	{"a/b/", "a/b/"},
	{"a/#/", "a/b/c/"},
	{"#/", "b/"},
	{"+/b/", "a/b/"},
	{"a/+/c/#/", "a/b/c/+/"},
	{"a/b/", "a/c/"},
	{"a/b/", "a/+/"},
	{"a/+/", "a/b/"},
	{"a/b/", "a/b/#/"},
}

// undecryptable key strings.
var garbage = []struct{ name, s string }{
	{"short31", "AAAAAAAAAAAAAAAAAAAAAAAAAAAAAAA"},
	{"long33", "AAAAAAAAAAAAAAAAAAAAAAAAAAAAAAAAA"},
	{"badchar32", "AAAAAAAAAAAAAAAA!AAAAAAAAAAAAAAA"},
	{"padding32", "AAAAAAAAAAAAAAAAAAAAAAAAAAAAAA=="},
	{"zeros32", "AAAAAAAAAAAAAAAAAAAAAAAAAAAAAAAA"},
	{"ones32", "________________________________"},
	{"pattern32", "0123456789abcdefghijklmnopqrstuv"},
	{"emitter", "emitter"},
	{"one", "k"},
}

// Tuple is one evaluated point of the quantifier.
type Tuple struct {
	License int     `json:"license"`
	Key     keySpec `json:"key"`
	Request string  `json:"request"`
	Op      string  `json:"op"`
}

type caseRec struct {
	Tuple
	RefPermits  bool   `json:"reference_permits"`
	ImplPermits bool   `json:"authorize_permits"`
	Clause      string `json:"clause"`
	FoundAs     *Tuple `json:"found_as,omitempty"`
	KeyString   string `json:"key_string,omitempty"`
}

// ---- a worker: its own brokers, one per license version --------------------------------------

type worker struct {
	c      *core.Ctx
	now    time.Time
	envs   map[int]*brokerx.Env
	bans   map[int]*brokerx.Env
	others map[int]license.Cipher
	shapes *shapeTable
	counts map[string]int64           // failing evaluations per signature
	raw    map[string]map[string]bool // signature -> "target shape|request shape" of the cases as found
	seen   map[string]bool            // signatures already handed to c.Violate by this worker
}

func newWorker(c *core.Ctx, now time.Time, shapes *shapeTable) *worker {
	return &worker{c: c, now: now, envs: map[int]*brokerx.Env{}, bans: map[int]*brokerx.Env{}, others: map[int]license.Cipher{},
		shapes: shapes, counts: map[string]int64{}, seen: map[string]bool{}, raw: map[string]map[string]bool{}}
}

func (w *worker) close() {
	for _, e := range w.envs {
		e.Close()
	}
	for _, e := range w.bans {
		e.Close()
	}
}

func (w *worker) env(lic int) *brokerx.Env {
	if e := w.envs[lic]; e != nil {
		return e
	}
	e := brokerx.MustNew(brokerx.Options{LicenseVersion: lic})
	w.envs[lic] = e
	return e
}

// banEnv is a broker with a cluster configured (in-memory replicated state, never listening), the
// only configuration in which Authorize consults the ban list.
func (w *worker) banEnv(lic int) *brokerx.Env {
	if e := w.bans[lic]; e != nil {
		return e
	}
	e := brokerx.MustNew(brokerx.Options{LicenseVersion: lic, Cluster: &config.ClusterConfig{
		NodeName: "02:00:00:00:00:03", ListenAddr: "127.0.0.1:4000", AdvertiseAddr: "127.0.0.1:4000", Directory: ":memory:"}})
	w.bans[lic] = e
	return e
}

// otherCipher is the cipher of a different license of the same version whose contract id and
// signature are made equal to the broker's: only the encryption key differs.
func (w *worker) otherCipher(lic int) license.Cipher {
	if c := w.others[lic]; c != nil {
		return c
	}
	own := w.env(lic).License
	l := brokerx.FixedLicense(lic, 2)
	switch v := l.(type) {
	case *license.V1:
		v.User, v.Sign = own.Contract(), own.Signature()
	case *license.V2:
		v.User, v.Sign = own.Contract(), own.Signature()
	case *license.V3:
		v.User, v.Sign = own.Contract(), own.Signature()
	}
	c, err := l.Cipher()
	if err != nil {
		panic(err)
	}
	w.others[lic] = c
	return c
}

func (w *worker) expiry(e string) time.Time {
	switch e {
	case "past":
		return w.now.Add(-time.Hour)
	case "future":
		return w.now.Add(time.Hour)
	}
	return time.Unix(0, 0)
}

func usesBanEnv(kind string) bool {
	return kind == kBanned || kind == kBanControl || kind == kBannedAlias
}

const kBanControl = "ban-control" // minted on the cluster-enabled broker and not banned

func (w *worker) envFor(lic int, kind string) *brokerx.Env {
	if usesBanEnv(kind) {
		return w.banEnv(lic)
	}
	return w.env(lic)
}

// mint produces the key string described by the spec.
func (w *worker) mint(lic int, k keySpec) (string, error) {
	if strings.HasPrefix(k.Kind, kGarbage) {
		name := strings.TrimPrefix(k.Kind, kGarbage)
		for _, g := range garbage {
			if g.name == name {
				return g.s, nil
			}
		}
		return "", fmt.Errorf("unknown garbage %q", name)
	}
	env := w.envFor(lic, k.Kind)
	s, err := env.Key(k.Target, k.Mask, w.expiry(k.Expiry))
	if err != nil {
		return "", err
	}
	switch k.Kind {
	case kMinted, kBanControl:
		return s, nil
	case kBanned:
		b := event.Ban(s)
		env.Svc.VerifCluster().VerifState().Add(&b)
		return s, nil
	case kBannedAlias:
		// a key whose text contains '-' (about every third one), banned as issued, presented respelled
		for try := 0; !strings.Contains(s, "-") && try < 200; try++ {
			if s, err = env.Key(k.Target, k.Mask, w.expiry(k.Expiry)); err != nil {
				return "", err
			}
		}
		b := event.Ban(s)
		env.Svc.VerifCluster().VerifState().Add(&b)
		return strings.ReplaceAll(s, "-", "+"), nil
	}
	raw, err := env.Cipher.DecryptKey([]byte(s))
	if err != nil {
		return "", err
	}
	l := env.License
	switch k.Kind {
	case kRecrafted:
	case kContractP1:
		raw.SetContract(l.Contract() + 1)
	case kContract0:
		raw.SetContract(0)
	case kSignature:
		raw.SetSignature(l.Signature() + 1)
	case kMaster2:
		raw.SetMaster(2)
	case kMaster0:
		raw.SetMaster(0)
	case kAllForeign:
		raw.SetContract(l.Contract() ^ 0x00010000)
		raw.SetSignature(l.Signature() ^ 0x00000100)
		raw.SetMaster(7)
	case kOtherCipher:
		return w.otherCipher(lic).EncryptKey(raw)
	case kOtherBoth:
		raw.SetContract(l.Contract() + 1)
		return w.otherCipher(lic).EncryptKey(raw)
	default:
		return "", fmt.Errorf("unknown key kind %q", k.Kind)
	}
	return env.RawKey(raw), nil
}

// authorize is the system under test: parse "<key>/<request>" the way the broker does for every
// subscribe/publish and ask the real Service.Authorize.
func authorize(env *brokerx.Env, keyStr, request string, bit uint8) bool {
	ch := security.ParseChannel([]byte(keyStr + "/" + request))
	_, _, ok := env.Svc.Authorize(ch, bit)
	return ok
}

// evaluate mints a fresh key for the tuple and returns (reference verdict, clause, real verdict).
func (w *worker) evaluate(t Tuple) (want bool, clause string, got bool, keyStr string, err error) {
	keyStr, err = w.mint(t.License, t.Key)
	if err != nil {
		return
	}
	want, clause = refPermit(t.Key, t.Op, t.Request)
	got = authorize(w.envFor(t.License, t.Key.Kind), keyStr, t.Request, opBit[t.Op])
	return
}

func (w *worker) accepts(t Tuple) bool {
	keyStr, err := w.mint(t.License, t.Key)
	if err != nil {
		return false
	}
	return authorize(w.envFor(t.License, t.Key.Kind), keyStr, t.Request, opBit[t.Op])
}

// failure classifies a tuple: dir is "" when reference and real code agree. For over-permission the
// class is the first clause of the reference that fails. For under-permission every clause of the
// reference holds, so the culprit is located by substituting trivial values one clause at a time
// and asking the real code again: class is expiry, permission, cover, ban, recraft or key.
func (w *worker) failure(t Tuple) (dir, class string) {
	want, clause, got, _, err := w.evaluate(t)
	if err != nil {
		return "mint", "mint"
	}
	if want == got {
		return "", ""
	}
	if got {
		return "over", clause
	}
	p := t
	if p.Key.Kind != kMinted {
		p.Key.Kind = kMinted
		if w.accepts(p) {
			if t.Key.Kind == kBanControl {
				return "under", clBan
			}
			return "under", "recraft"
		}
	}
	if p.Key.Expiry != "none" {
		p.Key.Expiry = "none"
		if w.accepts(p) {
			return "under", clExpiry
		}
	}
	if p.Key.Mask != 0xFE {
		p.Key.Mask = 0xFE
		if w.accepts(p) {
			return "under", clPermission
		}
	}
	// the two simplest covered pairs: an exact one-level target and the open target
	for _, triv := range [][2]string{{"a/", "a/"}, {"#/", "a/"}} {
		p.Key.Target, p.Request = triv[0], triv[1]
		if w.accepts(p) {
			return "under", "cover"
		}
	}
	return "under", "key"
}

// ---- shrinking a failing tuple to a minimal one, and its signature ----------------------------

func validTarget(levels []string, multi bool) bool  { return len(levels) > 0 || multi }
func validRequest(levels []string, multi bool) bool { return len(levels) > 0 || multi }

func without(s []string, i int) []string {
	out := make([]string, 0, len(s)-1)
	out = append(out, s[:i]...)
	return append(out, s[i+1:]...)
}

func withLevel(s []string, i int, v string) []string {
	out := append([]string(nil), s...)
	out[i] = v
	return out
}

// candidates lists strictly simpler tuples, most simplifying first.
func candidates(t Tuple) []Tuple {
	var out []Tuple
	for v := 1; v < t.License; v++ {
		c := t
		c.License = v
		out = append(out, c)
	}
	for _, op := range opNames {
		if op == t.Op {
			break
		}
		c := t
		c.Op = op
		out = append(out, c)
	}
	if strings.HasPrefix(t.Key.Kind, kGarbage) {
		if t.Request != "a/" {
			c := t
			c.Request = "a/"
			out = append(out, c)
		}
		return out
	}
	if t.Key.Kind == kRecrafted || t.Key.Kind == kBanControl {
		c := t
		c.Key.Kind = kMinted
		out = append(out, c)
	}
	if t.Key.Expiry != "none" {
		c := t
		c.Key.Expiry = "none"
		out = append(out, c)
	}
	if t.Key.Mask != 0xFE {
		c := t
		c.Key.Mask = 0xFE
		out = append(out, c)
		if t.Key.Mask != opBit[t.Op] {
			c.Key.Mask = opBit[t.Op]
			out = append(out, c)
		}
	}
	tl, tm := splitLevels(t.Key.Target)
	rl, rm := splitLevels(t.Request)
	add := func(ntl []string, ntm bool, nrl []string, nrm bool) {
		if !validTarget(ntl, ntm) || !validRequest(nrl, nrm) {
			return
		}
		c := t
		c.Key.Target, c.Request = joinLevels(ntl, ntm), joinLevels(nrl, nrm)
		if c.Key.Target != t.Key.Target || c.Request != t.Request {
			out = append(out, c)
		}
	}
	add([]string{"a"}, false, []string{"a"}, false) // the simplest covered pair
	for i := 0; i < len(tl) && i < len(rl); i++ {
		add(without(tl, i), tm, without(rl, i), rm)
	}
	if len(rl) > len(tl) {
		add(tl, tm, rl[:len(rl)-1], rm)
	}
	if len(tl) > len(rl) {
		add(tl[:len(tl)-1], tm, rl, rm)
	}
	if rm {
		add(tl, tm, rl, false)
	}
	if tm {
		add(tl, false, rl, rm)
	}
	for i, r := range rl {
		if r == "+" {
			lit := "a"
			if i < len(tl) && tl[i] != "+" {
				lit = tl[i]
			}
			add(tl, tm, withLevel(rl, i, lit), rm)
		}
	}
	for i, l := range tl {
		if l == "+" {
			lit := "a"
			if i < len(rl) && rl[i] != "+" {
				lit = rl[i]
			}
			add(withLevel(tl, i, lit), tm, rl, rm)
		}
	}
	// canonical names: literals renamed a, b, c in order of first appearance
	ren := map[string]string{}
	next := 0
	name := func(l string) string {
		if l == "+" {
			return l
		}
		if _, ok := ren[l]; !ok {
			ren[l] = alphabet[next]
			next++
		}
		return ren[l]
	}
	ntl := make([]string, len(tl))
	for i, l := range tl {
		ntl[i] = name(l)
	}
	nrl := make([]string, len(rl))
	for i, l := range rl {
		nrl[i] = name(l)
	}
	add(ntl, tm, nrl, rm)
	return out
}

// shrink greedily minimises a failing tuple while it keeps failing in the same direction and class.
func (w *worker) shrink(t Tuple, dir, class string) Tuple {
	for steps := 0; steps < 200; steps++ {
		progressed := false
		for _, cand := range candidates(t) {
			if d, cl := w.failure(cand); d == dir && cl == class {
				t = cand
				progressed = true
				break
			}
		}
		if !progressed {
			break
		}
	}
	return t
}

// clauseOf turns the class of a minimal failing tuple into the clause named in the signature.
func clauseOf(t Tuple, dir, class string) string {
	if dir != "under" || class != "cover" {
		return class
	}
	// under-permission on coverage: every clause of the reference holds; name the kind of rule the
	// minimal case leans on (a wildcard level in the request, else a wildcard/'#' in the target
	// whose only content is depth, else plain literals).
	if strings.ContainsAny(t.Request, "+#") {
		return clWildcard
	}
	if strings.ContainsAny(t.Key.Target, "+#") {
		return clDepth
	}
	return clLiteral
}

func signature(t Tuple, dir, class string) string {
	ts := shape(t.Key.Target)
	if strings.HasPrefix(t.Key.Kind, kGarbage) {
		ts = "-"
	}
	sig := fmt.Sprintf("%s:v%d:%s:target=%s:request=%s:%s", dir, t.License, t.Op, ts, shape(t.Request), clauseOf(t, dir, class))
	if t.Key.Kind != kMinted {
		sig += ":key=" + t.Key.Kind
	}
	return sig
}

type shapeKey struct {
	lic                          int
	dir, class, op, kind, ts, rs string
	expiry                       string
}

type shapeMemo struct {
	sig   string
	min   Tuple
	n     int
	mixed bool
}

// report handles one disagreement found by the enumeration.
func (w *worker) report(t Tuple, failedKey string) {
	want, refClause := refPermit(t.Key, t.Op, t.Request)
	dir, cls := "under", ""
	if !want {
		dir, cls = "over", refClause
	}
	// The operation is part of the memo key unless the reference refuses on a coverage clause, which
	// does not look at the operation at all.
	op := t.Op
	if cls == clDepth || cls == clLiteral || cls == clWildcard {
		op = "*"
	}
	sk := shapeKey{t.License, dir, cls, op, t.Key.Kind, shape(t.Key.Target), shape(t.Request), t.Key.Expiry}
	if sig, min, ok := w.shapes.lookup(sk); ok {
		w.violate(sig, min, dir, &t, "")
		return
	}
	// reproduce with a freshly minted key (another salt) and classify
	d, class := w.failure(t)
	if d == "mint" {
		return
	}
	if d != dir {
		sig := fmt.Sprintf("salt-dependent:%s:v%d:%s:target=%s:request=%s", dir, t.License, t.Op, shape(t.Key.Target), shape(t.Request))
		w.violate(sig, t, dir, nil, failedKey)
		return
	}
	min := w.shrink(t, dir, class)
	sig := signature(min, dir, class)
	w.shapes.record(sk, sig, min)
	w.violate(sig, min, dir, &t, "")
}

// shapeTable remembers, per (license, direction, reference clause, operation, key kind, target
// shape, request shape, expiry), the signature the shrinker arrived at. Once two cases of one such
// class have shrunk to the same signature, further cases of the class are booked under it without
// being shrunk again (they are still counted, and their shapes listed in the evidence).
type shapeTable struct {
	mu sync.RWMutex
	m  map[shapeKey]*shapeMemo
}

func newShapeTable() *shapeTable { return &shapeTable{m: map[shapeKey]*shapeMemo{}} }

func (s *shapeTable) lookup(k shapeKey) (string, Tuple, bool) {
	s.mu.RLock()
	defer s.mu.RUnlock()
	if m := s.m[k]; m != nil && m.n >= 2 && !m.mixed {
		return m.sig, m.min, true
	}
	return "", Tuple{}, false
}

func (s *shapeTable) record(k shapeKey, sig string, min Tuple) {
	s.mu.Lock()
	defer s.mu.Unlock()
	m := s.m[k]
	if m == nil {
		m = &shapeMemo{sig: sig, min: min}
		s.m[k] = m
	} else if m.sig != sig {
		m.mixed = true
	}
	m.n++
}

func (w *worker) violate(sig string, min Tuple, dir string, foundAs *Tuple, keyStr string) {
	w.counts[sig]++
	if foundAs != nil {
		if w.raw[sig] == nil {
			w.raw[sig] = map[string]bool{}
		}
		w.raw[sig][shape(foundAs.Key.Target)+"|"+shape(foundAs.Request)] = true
	}
	if w.seen[sig] {
		return
	}
	w.seen[sig] = true
	want, clause := refPermit(min.Key, min.Op, min.Request)
	rec := caseRec{Tuple: min, RefPermits: want, ImplPermits: !want, Clause: clause, KeyString: keyStr}
	if foundAs != nil && *foundAs != min {
		rec.FoundAs = foundAs
	}
	w.c.Violate(sig, describe(min, want, clause), rec)
}

func describe(t Tuple, want bool, clause string) string {
	k := fmt.Sprintf("%s key for target %s (mask 0x%02x, expiry %s)", t.Key.Kind, t.Key.Target, t.Key.Mask, t.Key.Expiry)
	if strings.HasPrefix(t.Key.Kind, kGarbage) {
		k = "undecryptable key string " + strings.TrimPrefix(t.Key.Kind, kGarbage)
	}
	if want {
		return fmt.Sprintf("license v%d: %s is REFUSED for %s on %s although every clause of the statement holds (under-permission)", t.License, k, t.Op, t.Request)
	}
	return fmt.Sprintf("license v%d: %s is ACCEPTED for %s on %s although the statement refuses it (clause: %s) (over-permission)", t.License, k, t.Op, t.Request, clause)
}

// flush moves the worker's counts to the shared context.
func (w *worker) flush(total map[string]int64, raw map[string]map[string]bool, mu *sync.Mutex) {
	mu.Lock()
	for k, v := range w.counts {
		total[k] += v
	}
	for k, m := range w.raw {
		if raw[k] == nil {
			raw[k] = map[string]bool{}
		}
		for s := range m {
			raw[k][s] = true
		}
	}
	mu.Unlock()
	w.counts = map[string]int64{}
}

// ---- the products -----------------------------------------------------------------------------

type stats struct {
	evals, permit, refuse, fails int64
}

// product runs target x masks x expiries x all requests x all ops on one license.
func (w *worker) product(lic int, target string, requests []string, masks []uint8, exps []string, reuse bool, st *stats) bool {
	var buf []byte
	env := w.env(lic)
	cov := make([]bool, len(requests))
	for i, r := range requests {
		cov[i], _ = refCovers(target, r)
	}
	var bits [6]uint8
	for i, op := range opNames {
		bits[i] = opBit[op]
	}
	for _, m := range masks {
		for _, e := range exps {
			if w.c.Expired() {
				return false
			}
			spec := keySpec{Kind: kMinted, Target: target, Mask: m, Expiry: e}
			keyStr, err := w.mint(lic, spec)
			if err != nil {
				w.c.Violate(fmt.Sprintf("mint-failed:v%d:target=%s", lic, shape(target)), fmt.Sprintf("keygen refused to mint a key for %s: %v", target, err), Tuple{License: lic, Key: spec, Request: "a/", Op: "read"})
				continue
			}
			var keyOK [6]bool
			for i, op := range opNames {
				keyOK[i] = refKeyClause(spec, op) == ""
			}
			for ri, r := range requests {
				var ch *security.Channel
				var ctype uint8
				if reuse {
					// The big product parses "<key>/<request>" once and asks for the six operations on
					// the same parsed channel (a broker parses once per packet); the parsed channel
					// must come back untouched.
					buf = append(append(append(buf[:0], keyStr...), '/'), r...)
					ch = security.ParseChannel(buf)
					ctype = ch.ChannelType
				}
				for oi := range opNames {
					var got bool
					if reuse {
						_, _, got = env.Svc.Authorize(ch, bits[oi])
					} else {
						got = authorize(env, keyStr, r, bits[oi])
					}
					want := keyOK[oi] && cov[ri]
					st.evals++
					if want {
						st.permit++
					} else {
						st.refuse++
					}
					if got != want {
						st.fails++
						w.report(Tuple{License: lic, Key: spec, Request: r, Op: opNames[oi]}, keyStr)
					}
				}
				if reuse && (string(ch.Key) != keyStr || string(ch.Channel) != r || ch.ChannelType != ctype) {
					w.c.Violate(fmt.Sprintf("authorize-changed-channel:v%d", lic), "Authorize modified the parsed channel it was given", Tuple{License: lic, Key: spec, Request: r, Op: "read"})
				}
			}
		}
	}
	return true
}

// check evaluates one tuple through the generic path (fresh key per tuple).
func (w *worker) check(t Tuple, st *stats) {
	want, _, got, keyStr, err := w.evaluate(t)
	if err != nil {
		w.c.Violate(fmt.Sprintf("mint-failed:v%d:target=%s:key=%s", t.License, shape(t.Key.Target), t.Key.Kind), fmt.Sprintf("could not make the key: %v", err), t)
		return
	}
	st.evals++
	if want {
		st.permit++
	} else {
		st.refuse++
	}
	if want != got {
		st.fails++
		w.report(t, keyStr)
	}
}

// keyKinds runs the foreign / undecryptable / banned keys of one license.
func (w *worker) keyKinds(lic int, withBan bool, st *stats) {
	kinds := []string{kRecrafted, kContractP1, kContract0, kSignature, kMaster2, kMaster0, kAllForeign, kOtherCipher, kOtherBoth}
	if withBan {
		kinds = append(kinds, kBanControl, kBanned, kBannedAlias)
	}
	for _, kind := range kinds {
		for _, p := range reprPairs {
			for _, e := range expiries {
				for _, m := range []uint8{0xFE, 0x06, 0x00} {
					for _, op := range opNames {
						w.check(Tuple{License: lic, Key: keySpec{Kind: kind, Target: p[0], Mask: m, Expiry: e}, Request: p[1], Op: op}, st)
					}
				}
			}
		}
	}
	for _, g := range garbage {
		for _, r := range []string{"a/", "a/b/", "+/", "#/", "a/b/c/d/"} {
			for _, op := range opNames {
				w.check(Tuple{License: lic, Key: keySpec{Kind: kGarbage + g.name, Expiry: "none"}, Request: r, Op: op}, st)
			}
		}
	}
}

// ---- run ------------------------------------------------------------------------------------

type task func(w *worker, st *stats)

func run(c *core.Ctx) {
	now := time.Now()
	targets, requests := allTargets(), allRequests()
	licenses := []int{1, 2, 3}
	c.Set("targets", len(targets))
	c.Set("requests", len(requests))
	c.Set("licenses", licenses)
	c.Set("rule", "a (target, request) pair is non-trivial when either side contains '+' or '#' or the depths differ, i.e. the verdict rests on the wildcard/depth rules rather than on comparing two literal strings of equal depth; distinct pairs are counted once whatever the license, mask, expiry or operation")
	c.Assume("the broker uses the single-contract provider (one contract, master id 1): 'another contract' is exercised through keys carrying another contract id / signature / master id and through keys encrypted under another license, not through a second live contract")
	c.Assume("key salts are whatever the real key generator draws (crypto/rand); a disagreement is re-checked with a freshly minted key before it is classified")
	c.Assume("expiry values are one hour away from the clock; 'none' is time.Unix(0,0)")
	c.Assume("ban list: consulted only when a cluster is configured; exercised on a cluster-enabled broker with in-memory replicated state by adding the ban event before the key is first looked up (un-banning and the 60 s read cache are C14's subject)")

	var tasks []task
	// (1) foreign, undecryptable and banned keys on every license
	// ... and on a license whose contract signature is 0 (id 4: version 1 cipher, signature field at its boundary)
	for _, lic := range append(append([]int{}, licenses...), 4) {
		lic := lic
		tasks = append(tasks, func(w *worker, st *stats) { w.keyKinds(lic, true, st) })
	}
	// (2) the full target x request product with one mask (0xFE, no expiry), every op, every license
	for _, lic := range licenses {
		for _, tg := range targets {
			lic, tg := lic, tg
			tasks = append(tasks, func(w *worker, st *stats) {
				w.product(lic, tg, requests, []uint8{0xFE}, []string{"none"}, false, st)
			})
		}
	}
	// (2b) deep targets: the key records which of its (up to 23) levels are literals in a 3-byte path field; depths
	// around the byte boundaries of that field (8/9, 16/17) and at the maximum, exact and '#/' targets, with a '+'
	// at each third position; requests: the same channel, one level changed at every position, one level more, one less
	for _, lic := range licenses {
		for _, depth := range []int{7, 8, 9, 15, 16, 17, 22, 23} {
			for variant := 0; variant < 3; variant++ {
				lv := make([]string, depth)
				for i := range lv {
					lv[i] = "a"
					if variant > 0 && i%3 == variant-1 {
						lv[i] = "+"
					}
				}
				for _, suffix := range []string{"", "#/"} {
					tg := strings.Join(lv, "/") + "/" + suffix
					var reqs []string
					plain := make([]string, depth)
					for i := range plain {
						plain[i] = "a"
					}
					reqs = append(reqs, strings.Join(plain, "/")+"/")
					for i := 0; i < depth; i++ {
						ch := append([]string(nil), plain...)
						ch[i] = "b"
						reqs = append(reqs, strings.Join(ch, "/")+"/")
					}
					reqs = append(reqs, strings.Join(plain, "/")+"/a/", strings.Join(plain[:depth-1], "/")+"/", strings.Join(plain, "/")+"/#/")
					lic, tg := lic, tg
					tasks = append(tasks, func(w *worker, st *stats) {
						w.product(lic, tg, reqs, []uint8{0xFE}, []string{"none"}, false, st)
					})
				}
			}
		}
	}
	// (3) every mask x expiry x op on the representative pairs, every license
	allMasks := make([]uint8, 256)
	for i := range allMasks {
		allMasks[i] = uint8(i)
	}
	for _, lic := range licenses {
		for _, p := range reprPairs {
			lic, p := lic, p
			tasks = append(tasks, func(w *worker, st *stats) {
				w.product(lic, p[0], []string{p[1]}, allMasks, expiries, false, st)
			})
		}
	}
	nBase := len(tasks)
	// (4) thorough: the full product — every target x every mask x every expiry x every request x
	// every op on every license, in two passes so that a soft-deadline cut leaves a meaningful slice:
	// first the 18 masks with at most one bit set or at most one bit clear on every (license, target)
	// block, then the other 238 masks, target-major so that the three licenses advance together.
	var edgeMasks, otherMasks []uint8
	for _, m := range allMasks {
		n := 0
		for b := uint(0); b < 8; b++ {
			n += int(m>>b) & 1
		}
		if n <= 1 || n >= 7 {
			edgeMasks = append(edgeMasks, m)
		} else {
			otherMasks = append(otherMasks, m)
		}
	}
	nBlocks := 0
	if !c.Quick() {
		for pass, masks := range [][]uint8{edgeMasks, otherMasks} {
			counter := []string{"full_product_edge_mask_blocks_done", "full_product_other_mask_blocks_done"}[pass]
			for _, tg := range targets {
				for _, lic := range licenses {
					lic, tg, masks := lic, tg, masks
					tasks = append(tasks, func(w *worker, st *stats) {
						if w.product(lic, tg, requests, masks, expiries, true, st) {
							w.c.Add(counter, 1)
						}
					})
				}
			}
		}
		nBlocks = len(targets) * len(licenses)
	}

	// distinct non-trivial pairs and reference verdict counts (measured once, not per license)
	var pairsPermitted, pairsRefused int
	for _, tg := range targets {
		for _, r := range requests {
			ok, _ := refCovers(tg, r)
			if ok {
				pairsPermitted++
			} else {
				pairsRefused++
			}
			if nontrivial(tg, r) {
				c.Distinct("nontrivial", tg+"|"+r)
			}
		}
	}
	c.Set("pairs", len(targets)*len(requests))
	c.Set("pairs_covered_by_reference", pairsPermitted)
	c.Set("pairs_not_covered_by_reference", pairsRefused)

	par := runtime.GOMAXPROCS(0)
	if par > 16 {
		par = 16
	}
	if par > len(tasks) {
		par = len(tasks)
	}
	var mu sync.Mutex
	shapes := newShapeTable()
	total := map[string]int64{}
	rawShapes := map[string]map[string]bool{}
	var all stats
	next := 0
	var wg sync.WaitGroup
	for g := 0; g < par; g++ {
		wg.Add(1)
		go func() {
			defer wg.Done()
			w := newWorker(c, now, shapes)
			defer w.close()
			var st stats
			for {
				mu.Lock()
				i := next
				next++
				mu.Unlock()
				if i >= len(tasks) {
					break
				}
				if c.Expired() {
					if i < nBase {
						c.NotExhaustive("soft deadline reached before the base enumeration finished")
					}
					continue
				}
				tasks[i](w, &st)
			}
			w.flush(total, rawShapes, &mu)
			mu.Lock()
			all.evals += st.evals
			all.permit += st.permit
			all.refuse += st.refuse
			all.fails += st.fails
			mu.Unlock()
		}()
	}
	wg.Wait()

	if !c.Quick() {
		edge, other := c.Count("full_product_edge_mask_blocks_done"), c.Count("full_product_other_mask_blocks_done")
		c.Set("full_product_blocks", nBlocks)
		c.Set("full_product_edge_masks", len(edgeMasks))
		c.Set("full_product_other_masks", len(otherMasks))
		if int(edge) != nBlocks || int(other) != nBlocks {
			c.NotExhaustive(fmt.Sprintf("soft deadline: of %d (license, target) blocks, %d finished the %d masks with <=1 bit set or clear and %d finished the other %d masks (x 3 expiries x 681 requests x 6 operations each); the one-mask product over all pairs and the all-mask product on the representative pairs are complete", nBlocks, edge, len(edgeMasks), other, len(otherMasks)))
		}
	}
	{
		uw := newWorker(c, now, newShapeTable())
		uw.partAfterUse(c)
		uw.close()
	}
	partContract(c)
	c.Set("evaluations", all.evals)
	// (conc) two simultaneous requests: one preemption in the quick tier (XTEA is a long straight line), two in the thorough tier
	bound := 1
	if !c.Quick() {
		bound = 2
	}
	c.Set("sched_bound_completed", sched.Drive(c, concOrder(), bound))
	c.Set("sched_schedules", c.Count("schedules"))
	c.Assume("concurrent requests: statement-level, sequentially consistent interleavings of two callers through channel parsing, key decryption and target validation; contract lookup and ban list are not part of the interleaved region")
	c.Set("reference_permits", all.permit)
	c.Set("reference_refuses", all.refuse)
	c.Set("disagreeing_evaluations", all.fails)
	c.Set("distinct_nontrivial", c.DistinctCount("nontrivial"))
	if len(total) > 0 {
		c.Set("disagreeing_evaluations_by_signature", total)
		found := map[string][]string{}
		for k, m := range rawShapes {
			for s := range m {
				found[k] = append(found[k], s)
			}
			sort.Strings(found[k])
		}
		c.Set("disagreeing_shapes_by_signature", found)
	}
	c.Set("masks", "quick: 0xFE on every pair + all 256 on the representative pairs; thorough: all 256 on every pair")
	c.Set("representative_pairs", reprPairs)

	// samples: a few evaluated tuples with both verdicts
	sw := newWorker(c, now, shapes)
	defer sw.close()
	for _, t := range []Tuple{
		{3, keySpec{kMinted, "a/+/c/", 0xFE, "none"}, "a/b/c/", "read"},
		{3, keySpec{kMinted, "a/+/c/", 0xFE, "none"}, "a/b/+/", "read"},
		{2, keySpec{kMinted, "a/b/#/", 0x04, "future"}, "a/b/c/+/", "write"},
		{1, keySpec{kMinted, "a/b/#/", 0x04, "future"}, "a/b/", "read"},
		{1, keySpec{kMinted, "#/", 0xFE, "past"}, "a/", "load"},
		{2, keySpec{kContractP1, "a/", 0xFE, "none"}, "a/", "read"},
	} {
		want, clause, got, _, err := sw.evaluate(t)
		c.Sample(map[string]interface{}{"tuple": t, "reference_permits": want, "clause_failing": clause, "authorize_permits": got, "mint_error": fmt.Sprint(err)})
	}
}

// replay re-runs one recorded (minimal) case against the real code.
func schedWorker(c *core.Ctx, args []string) {
	if len(args) > 0 && args[0] == "sched" {
		sched.WorkerMain(c, concScenarios(), args[1:])
	}
}

func replay(c *core.Ctx, raw json.RawMessage) {
	if sched.ReplayCase(c, concScenarios(), raw) {
		return
	}
	var cc contractCase
	if json.Unmarshal(raw, &cc) == nil && cc.Part == "contract" {
		runContract(c, cc)
		return
	}
	var ac afterUseCase
	if json.Unmarshal(raw, &ac) == nil && ac.Part == "use" {
		uw := newWorker(c, time.Now(), newShapeTable())
		defer uw.close()
		uw.afterUse(c, ac)
		return
	}
	var rec caseRec
	if err := json.Unmarshal(raw, &rec); err != nil {
		c.Violate("replay:bad-case", err.Error(), nil)
		return
	}
	w := newWorker(c, time.Now(), newShapeTable())
	defer w.close()
	t := rec.Tuple
	dir, class := w.failure(t)
	if dir == "" {
		return
	}
	if dir == "mint" {
		c.Violate(fmt.Sprintf("mint-failed:v%d:target=%s", t.License, shape(t.Key.Target)), "could not make the key", rec)
		return
	}
	min := w.shrink(t, dir, class)
	want, clause := refPermit(min.Key, min.Op, min.Request)
	c.Violate(signature(min, dir, class), describe(min, want, clause), caseRec{Tuple: min, RefPermits: want, ImplPermits: !want, Clause: clause})
}
