package c09

import (
	"encoding/json"
	"fmt"
	"sort"
	"strconv"
	"strings"
)

// ---------------------------------------------------------------------------------------
// Annotated MQTT 3.1.1 encoder (independent of internal/network/mqtt): every packet remembers
// where its remaining-length and its 2-byte length fields are, so that the deviation menu can
// address them by name.

type f16 struct {
	Name string
	Off  int // offset of the 2-byte field inside the packet
}

type packet struct {
	Name   string
	B      []byte
	RemOff int // offset of the remaining-length varint (always 1)
	RemLen int // its byte length
	F16    []f16
}

type pbuilder struct {
	name string
	tf   byte
	body []byte
	f    []f16
}

func newPB(name string, typ, flags byte) *pbuilder {
	return &pbuilder{name: name, tf: typ<<4 | flags&0x0f}
}

func (p *pbuilder) str(name string, s []byte) *pbuilder {
	p.f = append(p.f, f16{name, len(p.body)})
	p.body = append(p.body, byte(len(s)>>8), byte(len(s)))
	p.body = append(p.body, s...)
	return p
}
func (p *pbuilder) u16(v uint16) *pbuilder { p.body = append(p.body, byte(v>>8), byte(v)); return p }
func (p *pbuilder) u8(v byte) *pbuilder    { p.body = append(p.body, v); return p }
func (p *pbuilder) raw(b []byte) *pbuilder { p.body = append(p.body, b...); return p }

func encRemLen(n int) []byte {
	var out []byte
	for {
		d := byte(n % 128)
		n /= 128
		if n > 0 {
			d |= 0x80
		}
		out = append(out, d)
		if n == 0 {
			return out
		}
	}
}

func (p *pbuilder) done() packet {
	rl := encRemLen(len(p.body))
	b := append([]byte{p.tf}, rl...)
	b = append(b, p.body...)
	pk := packet{Name: p.name, B: b, RemOff: 1, RemLen: len(rl)}
	for _, f := range p.f {
		pk.F16 = append(pk.F16, f16{f.Name, f.Off + 1 + len(rl)})
	}
	return pk
}

// ---------------------------------------------------------------------------------------
// Seeds of the client port. A seed is a valid session prefix plus one target packet; the
// deviations address the target packet (truncation addresses the whole stream).

// Keys are minted once by the parent through the real key generator (the license is fixed, so
// they are valid on every worker's broker).
type Keys struct {
	All    string `json:"all"`    // rwslp on #/
	Ext    string `json:"ext"`    // extendable key on a/b/
	Master string `json:"master"` // master key
	Victim string `json:"victim"` // a key only ever used as the target of keyban
	Canary string `json:"canary"` // rw on canary/#/
	Exact  string `json:"exact"`  // rw on exactly a/b/ (a target without '#': the depth of a request matters to it)
}

type kv struct{ K, V string }

// clientSeed is the symbolic form of one seed.
type clientSeed struct {
	Name    string
	Kind    string // connect | subscribe | unsubscribe | publish | request | ping
	Prefix  []string
	Channel string // channel without key and options, e.g. "a/b/"
	Opts    []kv   // channel options
	QoS     byte
	Retain  bool
	Payload string
	Req     string // emitter/<Req>/
	JSON    []kv   // ordered request fields, V is raw JSON text ($ALL etc. are substituted)
	KeyName string // which key prefixes the channel
}

const (
	tFrom  = "1600000000"
	tUntil = "1900000000"
)

func clientSeeds() []clientSeed {
	return []clientSeed{
		{Name: "connect", Kind: "connect"},
		{Name: "ping", Kind: "ping", Prefix: []string{"connect"}},
		// last wills are published when the connection has ended, i.e. outside the request loop: will channels of every
		// shape, with a key for everything and with a key for exactly one channel
		{Name: "connect-will-all", Kind: "connect", Channel: "a/b/", KeyName: "all"},
		{Name: "connect-will-exact", Kind: "connect", Channel: "a/b/", KeyName: "exact"},
		// the same shapes on the request path with the exact-target key
		{Name: "subscribe-exact", Kind: "subscribe", Prefix: []string{"connect"}, Channel: "a/b/", KeyName: "exact"},
		{Name: "publish-exact", Kind: "publish", Prefix: []string{"connect"}, Channel: "a/b/", QoS: 1, Payload: "hello", KeyName: "exact"},
		{Name: "subscribe", Kind: "subscribe", Prefix: []string{"connect"}, Channel: "a/b/", KeyName: "all"},
		{Name: "subscribe-last", Kind: "subscribe", Prefix: []string{"connect"}, Channel: "a/b/", Opts: []kv{{"last", "5"}}, KeyName: "all"},
		{Name: "subscribe-window", Kind: "subscribe", Prefix: []string{"connect"}, Channel: "a/b/", Opts: []kv{{"from", tFrom}, {"until", tUntil}, {"last", "3"}}, KeyName: "all"},
		{Name: "unsubscribe", Kind: "unsubscribe", Prefix: []string{"connect", "subscribe"}, Channel: "a/b/", KeyName: "all"},
		{Name: "publish-q0", Kind: "publish", Prefix: []string{"connect"}, Channel: "a/b/", QoS: 0, Payload: "hello", KeyName: "all"},
		{Name: "publish-q1-retain-ttl", Kind: "publish", Prefix: []string{"connect"}, Channel: "a/b/", Opts: []kv{{"ttl", "60"}}, QoS: 1, Retain: true, Payload: "hello", KeyName: "all"},
		{Name: "publish-me0", Kind: "publish", Prefix: []string{"connect", "subscribe"}, Channel: "a/b/", Opts: []kv{{"me", "0"}}, QoS: 1, Payload: "hello", KeyName: "all"},
		{Name: "keygen", Kind: "request", Prefix: []string{"connect"}, Req: "keygen", JSON: []kv{{"key", `"$MASTER"`}, {"channel", `"a/b/"`}, {"type", `"rwlsp"`}, {"ttl", `600`}}},
		{Name: "keygen-extend", Kind: "request", Prefix: []string{"connect"}, Req: "keygen", JSON: []kv{{"key", `"$EXT"`}, {"channel", `"a/b/"`}, {"type", `"rw"`}, {"ttl", `600`}}},
		{Name: "keyban", Kind: "request", Prefix: []string{"connect"}, Req: "keyban", JSON: []kv{{"secret", `"$MASTER"`}, {"target", `"$VICTIM"`}, {"banned", `true`}}},
		{Name: "keyunban", Kind: "request", Prefix: []string{"connect", "keyban"}, Req: "keyban", JSON: []kv{{"secret", `"$MASTER"`}, {"target", `"$VICTIM"`}, {"banned", `false`}}},
		{Name: "link", Kind: "request", Prefix: []string{"connect"}, Req: "link", JSON: []kv{{"name", `"l1"`}, {"key", `"$ALL"`}, {"channel", `"a/b/"`}, {"subscribe", `true`}}},
		{Name: "me", Kind: "request", Prefix: []string{"connect", "link"}, Req: "me", JSON: []kv{}},
		{Name: "presence", Kind: "request", Prefix: []string{"connect", "subscribe"}, Req: "presence", JSON: []kv{{"key", `"$ALL"`}, {"channel", `"a/b/"`}, {"status", `true`}, {"changes", `true`}}},
		{Name: "history", Kind: "request", Prefix: []string{"connect", "publish-q1-retain-ttl"}, Req: "history", JSON: []kv{{"key", `"$ALL"`}, {"channel", `"$ALL/a/b/?last=5"`}, {"startFromID", `null`}}},
	}
}

func seedByName(name string) (clientSeed, bool) {
	for _, s := range clientSeeds() {
		if s.Name == name {
			return s, true
		}
	}
	return clientSeed{}, false
}

func (k Keys) subst(s string) string {
	s = strings.ReplaceAll(s, "$MASTER", k.Master)
	s = strings.ReplaceAll(s, "$ALL", k.All)
	s = strings.ReplaceAll(s, "$EXT", k.Ext)
	s = strings.ReplaceAll(s, "$VICTIM", k.Victim)
	return s
}

func (k Keys) byName(n string) string {
	switch n {
	case "all":
		return k.All
	case "ext":
		return k.Ext
	case "canary":
		return k.Canary
	case "exact":
		return k.Exact
	}
	return k.All
}

// expandValue turns the symbolic value of a json deviation into JSON text.
//
//	raw:<text>         the text itself
//	rep:<unit>*<n>     a JSON string made of n copies of unit
//	nest:<n>           n nested arrays
//	nestobj:<n>        n nested objects {"a":{"a":...}}
func expandValue(v string) string {
	switch {
	case strings.HasPrefix(v, "raw:"):
		return v[4:]
	case strings.HasPrefix(v, "rep:"):
		i := strings.LastIndex(v, "*")
		n, _ := strconv.Atoi(v[i+1:])
		b, _ := json.Marshal(strings.Repeat(v[4:i], n))
		return string(b)
	case strings.HasPrefix(v, "nest:"):
		n, _ := strconv.Atoi(v[5:])
		return strings.Repeat("[", n) + strings.Repeat("]", n)
	case strings.HasPrefix(v, "nestobj:"):
		n, _ := strconv.Atoi(v[8:])
		return strings.Repeat(`{"a":`, n) + "0" + strings.Repeat("}", n)
	}
	return v
}

// topicOf renders key/channel?opts.
func topicOf(key, channel string, opts []kv) string {
	t := key + "/" + channel
	for i, o := range opts {
		if i == 0 {
			t += "?"
		} else {
			t += "&"
		}
		t += o.K + "=" + o.V
	}
	return t
}

// buildPacket renders the target packet of a seed after the semantic deviations (opt / json /
// payload) have been applied to the symbolic form.
func buildPacket(s clientSeed, k Keys, devs []Dev, msgID uint16) (packet, error) {
	opts := append([]kv(nil), s.Opts...)
	fields := append([]kv(nil), s.JSON...)
	wholeJSON := ""
	channel := s.Channel
	for _, d := range devs {
		switch d.Kind {
		case "chan":
			channel = d.Value
			if strings.HasPrefix(d.Value, "rep:") {
				i := strings.LastIndex(d.Value, "*")
				tail := ""
				numEnd := len(d.Value)
				for numEnd > i+1 && (d.Value[numEnd-1] < '0' || d.Value[numEnd-1] > '9') {
					numEnd--
				}
				tail = d.Value[numEnd:]
				n, _ := strconv.Atoi(d.Value[i+1 : numEnd])
				channel = strings.Repeat(d.Value[4:i], n) + tail
			}
		case "opt":
			found := false
			for i := range opts {
				if opts[i].K == d.Field {
					opts[i].V = d.Value
					found = true
				}
			}
			if !found {
				opts = append(opts, kv{d.Field, d.Value})
			}
		case "json":
			if d.Field == "*" {
				wholeJSON = expandValue(d.Value)
				if wholeJSON == "" {
					wholeJSON = "\x00empty"
				}
				continue
			}
			if strings.HasPrefix(d.Field, "+") { // extra field
				fields = append(fields, kv{d.Field[1:], expandValue(d.Value)})
				continue
			}
			found := false
			for i := range fields {
				if fields[i].K == d.Field {
					found = true
					if d.Value == "absent" {
						fields = append(fields[:i:i], fields[i+1:]...)
					} else {
						fields[i].V = expandValue(d.Value)
					}
					break
				}
			}
			if !found {
				return packet{}, fmt.Errorf("seed %s has no json field %s", s.Name, d.Field)
			}
		}
	}
	switch s.Kind {
	case "connect":
		pb := newPB("CONNECT", 1, 0)
		pb.str("protoname", []byte("MQTT")).u8(4)
		pb.u8(0x02 | 0x04 | 1<<3 | 0x20 | 0x80 | 0x40) // clean, will, will qos 1, will retain, username, password
		pb.u16(30)
		pb.str("clientid", []byte("hostile-client"))
		if s.Channel != "" || channel != "" {
			// a seed with its own will channel (and key); the channel deviations apply to it
			pb.str("willtopic", []byte(topicOf(k.byName(s.KeyName), channel, opts)))
		} else {
			pb.str("willtopic", []byte(topicOf(k.All, "will/", nil)))
		}
		pb.str("willmsg", []byte("gone"))
		pb.str("username", []byte("mallory"))
		pb.str("password", []byte("secret"))
		return pb.done(), nil
	case "ping":
		return newPB("PINGREQ", 12, 0).done(), nil
	case "subscribe":
		pb := newPB("SUBSCRIBE", 8, 2).u16(msgID)
		pb.str("topic", []byte(topicOf(k.byName(s.KeyName), channel, opts))).u8(1)
		return pb.done(), nil
	case "unsubscribe":
		pb := newPB("UNSUBSCRIBE", 10, 2).u16(msgID)
		pb.str("topic", []byte(topicOf(k.byName(s.KeyName), channel, opts)))
		return pb.done(), nil
	case "publish":
		fl := s.QoS << 1
		if s.Retain {
			fl |= 1
		}
		pb := newPB("PUBLISH", 3, fl)
		pb.str("topic", []byte(topicOf(k.byName(s.KeyName), channel, opts)))
		if s.QoS > 0 {
			pb.u16(msgID)
		}
		pb.raw([]byte(s.Payload))
		return pb.done(), nil
	case "request":
		var body string
		if wholeJSON != "" {
			body = strings.TrimPrefix(wholeJSON, "\x00empty")
			if wholeJSON == "\x00empty" {
				body = ""
			}
		} else {
			var sb strings.Builder
			sb.WriteString("{")
			for i, f := range fields {
				if i > 0 {
					sb.WriteString(",")
				}
				kb, _ := json.Marshal(f.K)
				sb.Write(kb)
				sb.WriteString(":")
				sb.WriteString(k.subst(f.V))
			}
			sb.WriteString("}")
			body = sb.String()
		}
		pb := newPB("PUBLISH", 3, 1<<1)
		pb.str("topic", []byte("emitter/"+s.Req+"/")).u16(msgID)
		pb.raw([]byte(body))
		return pb.done(), nil
	}
	return packet{}, fmt.Errorf("unknown seed kind %s", s.Kind)
}

// clientInput is a rendered hostile stream.
type clientInput struct {
	Stream    []byte
	TargetOff int // offset of the target packet in the stream
	Target    packet
}

// devOrder is the canonical application order of byte-level deviations.
var devOrder = map[string]int{"opt": 0, "json": 0, "chan": 0, "len16": 1, "type": 2, "flags": 3, "remlen": 4, "trunc": 5}

func sortDevs(devs []Dev) []Dev {
	out := append([]Dev(nil), devs...)
	sort.SliceStable(out, func(i, j int) bool { return devOrder[out[i].Kind] < devOrder[out[j].Kind] })
	return out
}

// lenValue resolves the symbolic value of a length deviation against the actual length.
func lenValue(v string, actual int) (int, error) {
	switch v {
	case "len-1":
		return actual - 1, nil
	case "len+1":
		return actual + 1, nil
	}
	n, err := strconv.Atoi(v)
	return n, err
}

// buildClient renders a client case. ok=false means the combination does not apply (for example a
// truncation offset beyond the stream) and the case is skipped by the enumerator.
func buildClient(seedName string, k Keys, devs []Dev) (in clientInput, ok bool, err error) {
	s, found := seedByName(seedName)
	if !found {
		return in, false, fmt.Errorf("unknown seed %s", seedName)
	}
	devs = sortDevs(devs)
	var stream []byte
	id := uint16(10)
	for _, pn := range s.Prefix {
		ps, _ := seedByName(pn)
		p, err := buildPacket(ps, k, nil, id)
		if err != nil {
			return in, false, err
		}
		id++
		stream = append(stream, p.B...)
	}
	tp, err := buildPacket(s, k, devs, id)
	if err != nil {
		return in, false, err
	}
	in.TargetOff = len(stream)
	b := append([]byte(nil), tp.B...)
	hdr := 1 + tp.RemLen
	body := append([]byte(nil), b[hdr:]...)
	first := b[0]
	rem := append([]byte(nil), b[1:hdr]...)
	for _, d := range devs {
		switch d.Kind {
		case "len16":
			off := -1
			for _, f := range tp.F16 {
				if f.Name == d.Field {
					off = f.Off - hdr
				}
			}
			if off < 0 {
				return in, false, nil
			}
			actual := int(body[off])<<8 | int(body[off+1])
			v, err := lenValue(d.Value, actual)
			if err != nil {
				return in, false, err
			}
			if v < 0 || v > 65535 || v == actual {
				return in, false, nil
			}
			body[off], body[off+1] = byte(v>>8), byte(v)
		case "type":
			n, _ := strconv.Atoi(d.Value)
			if byte(n) == first>>4 {
				return in, false, nil
			}
			first = byte(n)<<4 | first&0x0f
		case "flags":
			n, _ := strconv.Atoi(d.Value)
			if byte(n) == first&0x0f {
				return in, false, nil
			}
			first = first&0xf0 | byte(n)
		case "remlen":
			actual := len(body)
			switch {
			case strings.HasPrefix(d.Value, "bytes:"):
				rem = nil
				for _, h := range strings.Fields(d.Value[6:]) {
					x, _ := strconv.ParseUint(h, 16, 8)
					rem = append(rem, byte(x))
				}
			default:
				v, err := lenValue(strings.Replace(d.Value, "actual", "len", 1), actual)
				if err != nil {
					return in, false, err
				}
				if v < 0 || v == actual {
					return in, false, nil
				}
				rem = encRemLen(v)
			}
		}
	}
	pkt := append([]byte{first}, rem...)
	pkt = append(pkt, body...)
	stream = append(stream, pkt...)
	for _, d := range devs {
		if d.Kind == "trunc" {
			n, _ := strconv.Atoi(d.Value)
			if n >= len(stream) {
				return in, false, nil
			}
			stream = stream[:n]
		}
	}
	in.Stream = stream
	in.Target = tp
	return in, true, nil
}
