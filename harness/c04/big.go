package c04

// Part (big): a full snapshot of a large state. A broker that joins (or missed deltas) gets the complete state in one
// payload; that must work for every state size the sender puts on the wire in full — here a durable ban set with as
// many entries as the durable encoder sends at most (and one fewer), every tenth ban lifted again. After one
// encode/decode/merge hop the receiver holds the same entries with the same times and answers.

import (
	"fmt"

	"github.com/emitter-io/emitter/internal/event"
	"github.com/emitter-io/emitter/internal/event/crdt"
	"github.com/emitter-io/emitter/internal/verifx/engine/core"
)

type bigCase struct {
	Part     string `json:"part"` // "big"
	Size     int    `json:"entries"`
	Volatile bool   `json:"volatile_sender,omitempty"` // the sender's state is a volatile one (a delta or a union of queued payloads): it is sent in full whatever its size
}

func runBig(c *core.Ctx, bc bigCase) {
	orig := crdt.Now
	defer func() { crdt.Now = orig }()
	var clock int64
	crdt.Now = func() int64 { return clock }
	dir, backend := ":memory:", "state-dur"
	if bc.Volatile {
		dir, backend = "", "state-vol"
	}
	sender := event.NewState(dir)
	defer sender.Close()
	for i := 0; i < bc.Size; i++ {
		ev := event.Ban(fmt.Sprintf("key-%06d", i))
		clock = int64(1000 + i)
		sender.Add(&ev)
		if i%10 == 0 {
			clock = int64(1000 + bc.Size + i)
			sender.Del(&ev)
		}
	}
	receiver := event.NewState(":memory:")
	defer receiver.Close()
	for _, buf := range sender.Encode() {
		snap, err := event.DecodeState(buf)
		if err != nil {
			c.Violate(backend+":diverged:full-snapshot-refused", fmt.Sprintf("the full snapshot of a state with %d bans is refused by the receiver: %v", bc.Size, err), bc)
			return
		}
		receiver.Merge(snap)
	}
	missing, wrong := 0, 0
	for i := 0; i < bc.Size; i++ {
		ev := event.Ban(fmt.Sprintf("key-%06d", i))
		want := i%10 != 0
		if sender.Has(&ev) != want {
			c.Violate("harness:big", "the sender itself does not hold what was written", bc)
			return
		}
		if receiver.Has(&ev) != want {
			if want {
				missing++
			} else {
				wrong++
			}
		}
	}
	if missing+wrong > 0 {
		c.Violate(backend+":diverged:full-snapshot", fmt.Sprintf("after the full snapshot of %d bans (every tenth lifted) the receiver misses %d active bans and has %d lifted ones as active", bc.Size, missing, wrong), bc)
	}
}

func partBig(c *core.Ctx) {
	sizes := []int{50000}
	if !c.Quick() {
		sizes = []int{1000, 49999, 50000}
	}
	for _, n := range sizes {
		runBig(c, bigCase{Part: "big", Size: n})
		c.Add("big_snapshot_cases", 1)
		c.Add("transitions", int64(n))
	}
	// a volatile payload (delta, union of queued payloads) is encoded entry by entry: sizes around and beyond what the
	// durable encoder would send
	vsizes := []int{50001}
	if !c.Quick() {
		vsizes = []int{49999, 50000, 50001, 70000}
	}
	for _, n := range vsizes {
		runBig(c, bigCase{Part: "big", Size: n, Volatile: true})
		c.Add("big_snapshot_cases", 1)
		c.Add("transitions", int64(n))
	}
}
