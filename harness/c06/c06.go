// Package c06: history queries return exactly the stored, live, matching messages.
//
// Bounded-exhaustive enumeration of store histories x queries against the real storage.InMemory
// and storage.SSD providers (one fresh store per history and provider), compared with a list
// filter written from the property statement (see ref.go).
package c06

import (
	"encoding/json"
	"fmt"
	"os"
	"path/filepath"
	"runtime"
	"sort"
	"strings"
	"sync/atomic"
	"time"

	"github.com/emitter-io/emitter/internal/message"
	"github.com/emitter-io/emitter/internal/provider/storage"
	"github.com/emitter-io/emitter/internal/verifx/engine/core"
)

func init() {
	core.Register(&core.Check{ID: "C06", Level: "exploration", Run: run, Worker: worker, Replay: replay})
}

// ---- alphabet ----------------------------------------------------------------------------

const (
	wordX = uint32(0x78787801) // deeper level "x"
	wordY = uint32(0x79797902) // deeper level "y"

	ttlShort = uint32(20)     // with the ages below: expired >= 80 s ago
	ttlLong  = uint32(100000) // live for more than a day

	smallPayload = 8
	bigPayload   = 30 * 1024 // two fit under the 64 KiB reply cap, three do not
)

// ages of the stored messages in seconds before "now"; index = Tmpl.T
var ages = []int64{1000, 500, 100}

// Tmpl is one message template of the alphabet.
type Tmpl struct {
	C   uint32 `json:"contract"`
	L   uint32 `json:"level1"`
	D   string `json:"deeper"` // "", "x", "y"
	T   int    `json:"time"`   // index into ages: now-1000, now-500, now-100
	Exp bool   `json:"expired"`
	Big bool   `json:"big"`
}

func (t Tmpl) String() string {
	s := fmt.Sprintf("c%d/%d", t.C, t.L)
	if t.D != "" {
		s += "/" + t.D
	}
	s += fmt.Sprintf("@-%d", ages[t.T])
	if t.Exp {
		s += ",expired"
	}
	if t.Big {
		s += ",30K"
	}
	return s
}

func (t Tmpl) ssid() []uint32 {
	s := []uint32{t.C, t.L}
	switch t.D {
	case "x":
		s = append(s, wordX)
	case "y":
		s = append(s, wordY)
	}
	return s
}

func (t Tmpl) channel() string {
	s := fmt.Sprintf("%d/", t.L)
	if t.D != "" {
		s += t.D + "/"
	}
	return s
}

type pair struct{ c, l uint32 }
type kind struct{ exp, big bool }

var (
	collide = []pair{{1, 2}, {2, 1}}                 // contract^level = 3 for both
	allPair = []pair{{1, 2}, {2, 1}, {1, 1}, {2, 2}} // the latter two collide on 0
	kLS     = kind{false, false}
	kLB     = kind{false, true}
	kES     = kind{true, false}
	kEB     = kind{true, true}
)

func product(pairs []pair, deep []string, times []int, kinds []kind) []Tmpl {
	var out []Tmpl
	for _, k := range kinds {
		for _, t := range times {
			for _, d := range deep {
				for _, p := range pairs {
					out = append(out, Tmpl{C: p.c, L: p.l, D: d, T: t, Exp: k.exp, Big: k.big})
				}
			}
		}
	}
	return out
}

type level struct {
	n     int
	alpha []Tmpl
	desc  string
}

func plan(quick bool) []level {
	full := product(allPair, []string{"", "x", "y"}, []int{1, 2, 0}, []kind{kLS, kLB, kES, kEB})
	if quick {
		return []level{
			{1, full, "length 1: all 144 templates (contract{1,2} x level{2,1} x deeper{-,x,y} x time{-1000,-500,-100} x ttl{expired,live} x payload{8B,30KiB})"},
			{2, product(collide, []string{"", "x"}, []int{1, 2}, []kind{kLS, kLB, kES}), "length 2: all ordered pairs over 24 templates (colliding pair (1,2)/(2,1) x deeper{-,x} x time{-500,-100} x {live 8B, live 30KiB, expired 8B})"},
			{3, append(product(collide, []string{"", "x"}, []int{1}, []kind{kLS, kLB}), product(collide, []string{"", "x"}, []int{2}, []kind{kLS})...), "length 3: all ordered triples over 12 templates (colliding pair x deeper{-,x} x {(-500, live 8B), (-500, live 30KiB), (-100, live 8B)})"},
		}
	}
	one := []pair{{1, 2}}
	return []level{
		{1, full, "length 1: all 144 templates (contract{1,2} x level{2,1} x deeper{-,x,y} x time{-1000,-500,-100} x ttl{expired,live} x payload{8B,30KiB})"},
		{2, product(allPair, []string{"", "x", "y"}, []int{1, 2}, []kind{kLS, kLB, kES}), "length 2: all ordered pairs over 72 templates (contract{1,2} x level{2,1} x deeper{-,x,y} x time{-500,-100} x {live 8B, live 30KiB, expired 8B})"},
		{3, product(collide, []string{"", "x"}, []int{1, 2}, []kind{kLS, kLB}), "length 3: all ordered triples over 16 templates (colliding pair x deeper{-,x} x time{-500,-100} x {live 8B, live 30KiB})"},
		{3, append(product(collide, []string{""}, []int{1}, []kind{kLS, kES}), product(one, []string{"", "x"}, []int{1, 2}, []kind{kLS, kES})...), "length 3: all ordered triples over 10 templates with expiry ((1,2)/(2,1) plain at -500 x {live, expired}; (1,2) x deeper{-,x} x time{-500,-100} x {live, expired}; 8B)"},
		{4, append(product(collide, []string{""}, []int{1}, []kind{kLS, kLB}), product(one, []string{"x"}, []int{1}, []kind{kLS, kLB})...), "length 4: all ordered 4-tuples over 6 templates in one second ((1,2), (2,1), (1,2)/x at -500 x {live 8B, live 30KiB})"},
		{4, append(product(collide, []string{""}, []int{1, 2}, []kind{kLS}), product(one, []string{"x"}, []int{1, 2}, []kind{kLS})...), "length 4: all ordered 4-tuples over 6 templates in two seconds ((1,2), (2,1), (1,2)/x x time{-500,-100}, live 8B)"},
	}
}

func histories(quick bool) (hs [][]Tmpl, descs []string) {
	seen := map[string]bool{}
	for _, lv := range plan(quick) {
		descs = append(descs, lv.desc)
		idx := make([]int, lv.n)
		for {
			h := make([]Tmpl, lv.n)
			for i, j := range idx {
				h[i] = lv.alpha[j]
			}
			k := fmt.Sprint(h)
			if !seen[k] {
				seen[k] = true
				hs = append(hs, h)
			}
			// odometer, last position fastest
			p := lv.n - 1
			for p >= 0 {
				idx[p]++
				if idx[p] < len(lv.alpha) {
					break
				}
				idx[p] = 0
				p--
			}
			if p < 0 {
				break
			}
		}
	}
	return
}

// ---- queries -----------------------------------------------------------------------------

// Query is one history query; times are offsets so that a case can be replayed later.
type Query struct {
	Ssid   []uint32 `json:"ssid"`
	Window int      `json:"window"` // see windowOf
	Limit  int      `json:"limit"`
	Cont   int      `json:"continue_from"` // index (in the history) of the message whose id is passed as startFromID; -1 none
	Label  string   `json:"filter_kind"`
}

var limits = []int{0, 1, 2, 3, 100, 1000000}

// the very large limit is evaluated for every bigEvery-th history only (see runHistory)
const bigEvery = 97

var windowNames = []string{"open", "range", "point", "from", "until"}

// windowOf: 0 open; 1 [now-600,now-200] (holds the -500 messages strictly inside); 2 [now-500,now-500]
// (both ends on a stored time); 3 [now-500, open); 4 (open, now-500]. A zero bound is passed as
// time.Unix(0,0), which is what security.Channel.Window hands to the store for an absent option.
func windowOf(w int, now int64) (from, until int64) {
	switch w {
	case 1:
		return now - 600, now - 200
	case 2:
		return now - 500, now - 500
	case 3:
		return now - 500, 0
	case 4:
		return 0, now - 500
	}
	return 0, 0
}

func limitClass(l int) string {
	switch {
	case l <= 0:
		return "0"
	case l <= 3:
		return "few" // 1..3: can be below the number of stored messages
	}
	return "all" // 100, 10^6: above the number of stored messages
}

func shapeOf(ssid []uint32) string {
	single, multi, _, _ := message.VerifWildcards()
	var b strings.Builder
	for _, w := range ssid[1:] {
		switch w {
		case single:
			b.WriteByte('+')
		case multi:
			b.WriteByte('#')
		default:
			b.WriteByte('L')
		}
	}
	return b.String()
}

type filter struct {
	ssid  []uint32
	label string
}

// filtersFor derives the query filters from the channels stored in the history.
func filtersFor(h []Tmpl) []filter {
	single, multi, _, _ := message.VerifWildcards()
	var out []filter
	seen := map[string]bool{}
	add := func(label string, s []uint32) {
		k := fmt.Sprint(s)
		if seen[k] {
			return
		}
		seen[k] = true
		out = append(out, filter{append([]uint32(nil), s...), label})
	}
	cp := func(s []uint32) []uint32 { return append([]uint32(nil), s...) }
	for _, t := range h {
		s := t.ssid()
		add("exact", s)
		if len(s) >= 3 {
			add("shorter", s[:len(s)-1])
		}
		add("longer", append(cp(s), wordX))
		for _, w := range []uint32{single, multi} {
			if len(s) >= 3 {
				q := cp(s)
				q[2] = w
				add("wildcard", q)
			} else {
				add("wildcard", append(cp(s), w))
			}
		}
		other := 3 - t.C
		q := cp(s)
		q[0] = other
		add("other-contract", q)
		q = cp(s)
		q[0], q[1] = other, t.C^t.L^other // same 32-bit key prefix, different contract
		add("colliding-contract", q)
	}
	return out
}

// ---- running one history -----------------------------------------------------------------

// Case is the replayable description of one evaluated case.
type Case struct {
	Provider string   `json:"provider"`
	History  []Tmpl   `json:"history"`
	Query    Query    `json:"query"`
	Stored   []string `json:"stored,omitempty"`   // informative
	Returned []string `json:"returned,omitempty"` // informative
	Expected []string `json:"expected,omitempty"` // informative
	Now      int64    `json:"now,omitempty"`      // informative
}

type stats struct {
	evals, nontrivial, stores, pages2, histories int64
	tOpen, tStore, tQuery, tBig, tClose          time.Duration
	profiles                                     map[string]struct{}
	viols                                        map[string]*violOut // per signature: first case of the enumeration + count
	sample                                       []interface{}
}

func safely(f func()) (panicked string) {
	defer func() {
		if r := recover(); r != nil {
			panicked = fmt.Sprint(r)
			if len(panicked) > 200 {
				panicked = panicked[:200]
			}
		}
	}()
	f()
	return ""
}

var payloadSeed byte

func payloadFor(i int, big bool) []byte {
	n := smallPayload
	if big {
		n = bigPayload
	}
	b := make([]byte, n)
	for j := range b {
		b[j] = payloadSeed + byte(i*31) + byte(j*7) + byte(j>>8)
	}
	return b
}

func openStore(provider, root string, serial int64) (st storage.Storage, dir string, err error) {
	switch provider {
	case "inmemory":
		s := storage.NewInMemory(nil)
		err = s.Configure(map[string]interface{}{})
		st = s
	default:
		dir = filepath.Join(root, fmt.Sprintf("s%d", serial))
		s := storage.NewSSD(nil)
		err = s.Configure(map[string]interface{}{"dir": dir})
		st = s
	}
	return
}

var storeSerial int64

// runHistory stores the history into a fresh store of the provider and evaluates the queries
// (all derived ones, or only `only`). hIdx is used to order violations.
func runHistory(provider, root string, hIdx int, h []Tmpl, only *Query, big bool, st *stats) {
	var store storage.Storage
	var dir string
	var err error
	base := Case{Provider: provider, History: h}
	fail := func(qi int, kind, shape, what string, cs Case) {
		mergeViol(st.viols, violOut{H: hIdx, Q: qi, Sig: provider + ":" + kind + ":" + shape, What: what, Case: cs, Count: 1})
	}
	t0 := time.Now()
	if p := safely(func() { store, dir, err = openStore(provider, root, atomic.AddInt64(&storeSerial, 1)) }); p != "" || err != nil {
		// not a property violation: the harness could not create its store
		panic(fmt.Sprintf("c06: cannot open %s store: %v %s", provider, err, p))
	}
	st.tOpen += time.Since(t0)
	defer func() {
		t0 := time.Now()
		defer func() { st.tClose += time.Since(t0) }()
		if p := safely(func() { err = store.Close() }); p != "" {
			fail(1<<30, "panic", "close", "Close panicked: "+p, base)
		}
		if dir != "" {
			os.RemoveAll(dir)
		}
	}()

	now := time.Now().Unix()
	base.Now = now
	msgs := make([]smsg, len(h))
	for i, t := range h {
		ssid := t.ssid()
		id := message.NewID(message.Ssid(ssid))
		id.SetTime(now - ages[t.T])
		ttl := ttlLong
		if t.Exp {
			ttl = ttlShort
		}
		m := message.Message{ID: id, Channel: []byte(t.channel()), Payload: payloadFor(i, t.Big), TTL: ttl}
		msgs[i] = smsg{idx: i, key: string(id), ssid: ssid, time: now - ages[t.T], ttl: ttl,
			size: len(m.Payload) + len(m.ID) + len(m.Channel), channel: t.channel(), payload: m.Payload, name: fmt.Sprintf("#%d:%s", i, t)}
		cp := m // Store may rewrite the TTL of its argument
		var serr error
		t1 := time.Now()
		if p := safely(func() { serr = store.Store(&cp) }); p != "" || serr != nil {
			fail(-1, "panic", "store", fmt.Sprintf("Store(%s) failed: %v %s", t, serr, p), base)
			return
		}
		st.stores++
		st.tStore += time.Since(t1)
	}
	for _, m := range msgs {
		base.Stored = append(base.Stored, m.name)
	}
	byKey := map[string]int{}
	for i, m := range msgs {
		byKey[m.key] = i
	}

	// doQuery runs one page against the real store and decodes the answer into indices.
	doQuery := func(q Query, startFrom message.ID) (res []int, phantom []string, altered []string, panicked string) {
		from, until := windowOf(q.Window, now)
		var frame message.Frame
		var qerr error
		t0 := time.Now()
		defer func() {
			if q.Limit > 100 {
				st.tBig += time.Since(t0)
			} else {
				st.tQuery += time.Since(t0)
			}
		}()
		panicked = safely(func() {
			frame, qerr = store.Query(message.Ssid(q.Ssid), time.Unix(from, 0), time.Unix(until, 0), startFrom, q.Limit)
		})
		if panicked == "" && qerr != nil {
			panicked = "error: " + qerr.Error()
		}
		for _, m := range frame {
			i, ok := byKey[string(m.ID)]
			if !ok {
				phantom = append(phantom, fmt.Sprintf("%x", []byte(m.ID)))
				continue
			}
			res = append(res, i)
			if string(m.Channel) != msgs[i].channel || string(m.Payload) != string(msgs[i].payload) || m.TTL != msgs[i].ttl {
				altered = append(altered, msgs[i].name)
			}
		}
		return
	}
	names := func(idx []int) []string {
		out := []string{}
		for _, i := range idx {
			out = append(out, msgs[i].name)
		}
		return out
	}

	qi := 0
	evalOne := func(q Query) {
		qi++
		myq := qi
		shape := fmt.Sprintf("q=%s:w=%s:l=%s", shapeOf(q.Ssid), windowNames[q.Window], limitClass(q.Limit))
		from, until := windowOf(q.Window, now)
		r := newRef(msgs, q.Ssid, from, until, now)
		// ---- first page
		p1, phantom, altered, pan := doQuery(Query{Ssid: q.Ssid, Window: q.Window, Limit: q.Limit}, nil)
		st.evals++
		cs := base
		cs.Query = q
		cs.Query.Cont = -1
		cs.Returned = names(p1)
		cs.Expected = names(maskList(r.expect(-1, q.Limit)))
		if len(st.sample) == 0 && len(p1) > 0 && len(p1) < len(msgs) {
			st.sample = append(st.sample, cs)
		}
		if prof, ok := r.profile(-1, q.Limit); ok {
			st.nontrivial++
			st.profiles[provider+"|"+shape+"|p1|"+prof] = struct{}{}
		}
		if pan != "" {
			fail(myq, "panic", shape+":p1", "Query panicked or failed: "+pan, cs)
			return
		}
		k, what := r.judge(p1, phantom, altered, -1, nil, q.Limit)
		if k != "" {
			fail(myq, k, shape+":p1", fmt.Sprintf("stored %v; query %s %v limit %d returned %v, the statement allows %v: %s", base.Stored, describe(q.Ssid), windowNames[q.Window], q.Limit, cs.Returned, cs.Expected, what), cs)
			return
		}
		// ---- continuation pages (limit 1, 2 and 3, from every id of the first page)
		if q.Limit < 1 || q.Limit > 3 {
			return
		}
		for _, x := range p1 {
			if only != nil && only.Cont >= 0 && only.Cont != x {
				continue
			}
			p2, phantom, altered, pan := doQuery(q, message.ID(msgs[x].key))
			st.evals++
			st.pages2++
			cs2 := cs
			cs2.Query.Cont = x
			cs2.Returned = append(append(names(p1), "| page 2 from "+msgs[x].name+":"), names(p2)...)
			cs2.Expected = names(maskList(r.expect(x, q.Limit)))
			if prof, ok := r.profile(x, q.Limit); ok {
				st.nontrivial++
				st.profiles[provider+"|"+shape+"|p2|"+prof] = struct{}{}
			}
			if len(st.sample) == 1 && len(p2) > 0 && len(msgs) > 2 {
				st.sample = append(st.sample, cs2)
			}
			if pan != "" {
				fail(myq, "panic", shape+":p2", "continuation Query panicked or failed: "+pan, cs2)
				continue
			}
			k, what := r.judge(p2, phantom, altered, x, p1, q.Limit)
			if k != "" {
				fail(myq, k, shape+":p2", fmt.Sprintf("stored %v; query %s %v limit %d: first page %v, continuation from %s returned %v, the statement allows %v: %s", base.Stored, describe(q.Ssid), windowNames[q.Window], q.Limit, names(p1), msgs[x].name, names(p2), cs2.Expected, what), cs2)
			}
		}
	}

	if only != nil {
		evalOne(*only)
		return
	}
	for fi, f := range filtersFor(h) {
		for w := range windowNames {
			for _, l := range limits {
				if l > 100 && (w != 0 || fi != 0 || !big) {
					// the provider allocates `limit` frame slots up front (80 MB for 10^6, about
					// 0.1 s of page faults that do not scale over threads): the very large limit is
					// used with the open window and the exact filter of the first message, for
					// every bigEvery-th history of the enumeration
					continue
				}
				evalOne(Query{Ssid: f.ssid, Window: w, Limit: l, Cont: -1, Label: f.label})
			}
		}
	}
	st.histories++
}

func describe(ssid []uint32) string {
	single, multi, _, _ := message.VerifWildcards()
	s := fmt.Sprintf("c%d", ssid[0])
	for _, w := range ssid[1:] {
		switch w {
		case single:
			s += "/+"
		case multi:
			s += "/#"
		case wordX:
			s += "/x"
		case wordY:
			s += "/y"
		default:
			s += fmt.Sprintf("/%d", w)
		}
	}
	return s
}

// ---- driver ------------------------------------------------------------------------------

var providers = []string{"inmemory", "ssd"}

func quietBadger() func() {
	// badger's default logger is created inside Configure from os.Stderr
	devnull, err := os.OpenFile(os.DevNull, os.O_WRONLY, 0)
	if err != nil {
		return func() {}
	}
	saved := os.Stderr
	os.Stderr = devnull
	return func() { os.Stderr = saved; devnull.Close() }
}

// One worker process = one shard of the (history, provider) units, taken in enumeration order,
// one at a time. Processes rather than goroutines because opening a store is dominated by
// clearing its 80 MB arena (page faults), which serialises inside one address space.
const violTag = "C06-VIOLATIONS "

type violOut struct {
	H     int    `json:"h"`
	Q     int    `json:"q"`
	Sig   string `json:"sig"`
	What  string `json:"what"`
	Case  Case   `json:"case"`
	Count int    `json:"count"`
}

func less(a, b violOut) bool {
	if a.H != b.H {
		return a.H < b.H
	}
	if a.Case.Provider != b.Case.Provider {
		return a.Case.Provider < b.Case.Provider
	}
	return a.Q < b.Q
}

func mergeViol(m map[string]*violOut, v violOut) {
	a := m[v.Sig]
	if a == nil {
		cp := v
		m[v.Sig] = &cp
		return
	}
	n := a.Count + v.Count
	if less(v, *a) {
		*a = v
	}
	a.Count = n
}

func worker(c *core.Ctx, args []string) {
	var shard, n int
	fmt.Sscan(args[0], &shard)
	fmt.Sscan(args[1], &n)
	root := filepath.Join(args[2], "shard"+args[0])
	// one unit at a time per process: keep the collector from spreading over every core
	runtime.GOMAXPROCS(2)
	quietBadger()
	hs, _ := histories(c.Quick())
	units := len(hs) * len(providers)
	st := &stats{profiles: map[string]struct{}{}, viols: map[string]*violOut{}}
	var inflight int64 = -1
	var lastProgress = time.Now().Unix()
	fin := make(chan struct{})
	go func() {
		defer close(fin)
		for u := 0; u < units; u++ {
			if (u/len(providers)+u%len(providers))%n != shard {
				continue
			}
			if c.Expired() {
				c.NotExhaustive(fmt.Sprintf("soft deadline: shard %d/%d stopped at unit %d of %d", shard, n, u, units))
				return
			}
			atomic.StoreInt64(&inflight, int64(u))
			h := hs[u/len(providers)]
			runHistory(providers[u%len(providers)], root, u/len(providers), h, nil, (u/len(providers))%bigEvery == 0, st)
			atomic.StoreInt64(&lastProgress, time.Now().Unix())
		}
	}()
	hung := false
wait:
	for {
		select {
		case <-fin:
			break wait
		case <-time.After(time.Second):
			if time.Now().Unix()-atomic.LoadInt64(&lastProgress) > 180 {
				hung = true
				break wait
			}
		}
	}
	agg := map[string]*violOut{}
	if hung {
		// generous hang detector: one (history, provider) unit normally takes well under a second
		u := int(atomic.LoadInt64(&inflight))
		cs := Case{Provider: providers[u%len(providers)], History: hs[u/len(providers)], Query: Query{Ssid: []uint32{0, 0}, Cont: -1}}
		mergeViol(agg, violOut{H: u / len(providers), Sig: cs.Provider + ":panic:hang", What: "one history did not finish within 180 s", Case: cs, Count: 1})
		c.NotExhaustive(fmt.Sprintf("shard %d/%d hung", shard, n))
	} else {
		agg = st.viols
		c.Add("evaluations", st.evals)
		c.Add("nontrivial_evaluations", st.nontrivial)
		c.Add("messages_stored", st.stores)
		c.Add("continuation_pages", st.pages2)
		c.Add("history_provider_units_done", st.histories)
		c.Add("ms_open", st.tOpen.Milliseconds())
		c.Add("ms_store", st.tStore.Milliseconds())
		c.Add("ms_query", st.tQuery.Milliseconds())
		c.Add("ms_query_limit_1e6", st.tBig.Milliseconds())
		c.Add("ms_close", st.tClose.Milliseconds())
		for p := range st.profiles {
			c.Distinct("nontrivial", p)
		}
		if shard == 0 {
			for _, s := range st.sample {
				c.Sample(s)
			}
		}
	}
	var list []violOut
	for _, v := range agg {
		list = append(list, *v)
	}
	sort.Slice(list, func(i, j int) bool { return list[i].Sig < list[j].Sig })
	b, _ := json.Marshal(list)
	fmt.Println(violTag + string(b))
}

func run(c *core.Ctx) {
	root, err := os.MkdirTemp("", "c06-*")
	if err != nil {
		panic(err)
	}
	defer os.RemoveAll(root)

	hs, descs := histories(c.Quick())
	n := core.NumWorkers()
	outs := c.Shard(n, n, func(i int) []string { return []string{fmt.Sprint(i), fmt.Sprint(n), root} }, 15*time.Minute)
	// merge the violations deterministically: per signature the case that comes first in the
	// enumeration (history index, provider, query index), whatever shard found it
	agg := map[string]*violOut{}
	for _, o := range outs {
		for _, line := range strings.Split(o.Stdout, "\n") {
			if strings.HasPrefix(line, violTag) {
				var list []violOut
				if err := json.Unmarshal([]byte(line[len(violTag):]), &list); err != nil {
					core.HarnessFailure("cannot decode the violations of worker %v: %v", o.Args, err)
				}
				for _, v := range list {
					mergeViol(agg, v)
				}
			}
		}
	}
	var sigs []string
	for s := range agg {
		sigs = append(sigs, s)
	}
	sort.Strings(sigs)
	for _, s := range sigs {
		a := agg[s]
		for i := 0; i < a.Count; i++ {
			c.Violate(s, a.What, a.Case)
		}
	}
	c.CheckShards(outs)
	partPeer(c, root)

	last := hs[len(hs)-1]
	c.Sample(map[string]interface{}{"last_history": last, "providers": providers, "filters_derived_for_it": len(filtersFor(last))})
	c.Set("evaluations", c.Count("evaluations"))
	c.Set("distinct_nontrivial", c.DistinctCount("nontrivial"))
	c.Set("histories", len(hs))
	c.Set("shards", n)
	c.Set("bounds", descs)
	c.Set("queries", "per history: filters derived from every stored channel {exact, one level shorter, one longer, + and # at level 2, other contract, other contract with the same 32-bit key prefix} x window {open, [now-600,now-200], [now-500,now-500], [now-500,open), (open,now-500]} x limit {0,1,2,3,100, and 10^6 for every 97th history of the enumeration with the open window and the exact filter of its first message}; continuation from every id of every first page with limit 1, 2 and 3")
	c.Set("rule", "a case is (provider, history, query[, continuation id]); every enumerated case is distinct by construction; it is non-trivial when the reference answer is non-empty and at least one stored message is excluded from it; distinct_nontrivial counts the distinct abstract profiles among them: provider, query shape, window, limit class, page, the sorted per-message classification (foreign-colliding / foreign / other first level / non-matching / matching, in or out of window, expired, 30 KiB) and the size of the reference answer")
	c.Assume("message times are 100/500/1000 s in the past, ttl 20 s (expired >= 80 s ago) or 100000 s: behaviour at an expiry instant is not explored")
	c.Assume("order inside one second is free: the reference accepts every selection and continuation that is consistent with some fixed order of the messages that is non-increasing in time")
	c.Assume("reply-size cap read as: newest first, stop at the first message whose cumulative payload+id+channel length exceeds mqtt.MaxMessageSize")
	c.Assume("survey = nil (no cluster); limits of memory scale (2^31-1) belong to C09; negative limits cannot be written in a channel option")
	c.Assume("colliding key prefixes are produced with contract XOR first level (1^2 = 2^1, 1^1 = 2^2); murmur collisions of real channel names are outside the bound")
}

func replay(c *core.Ctx, raw json.RawMessage) {
	var pc peerCase
	if json.Unmarshal(raw, &pc) == nil && (pc.Part == "peer" || pc.Part == "retained" || pc.Part == "many") {
		restore := quietBadger()
		defer restore()
		root, _ := os.MkdirTemp("", "c06-*")
		defer os.RemoveAll(root)
		if pc.Part == "peer" {
			runPeer(c, root, pc)
		} else if pc.Part == "many" {
			runMany(c, root, pc)
		} else {
			runRetained(c, root, pc)
		}
		return
	}
	var cs Case
	if err := json.Unmarshal(raw, &cs); err != nil || len(cs.History) == 0 || len(cs.Query.Ssid) < 2 {
		c.Violate("replay:bad-case", "cannot decode the replay case", string(raw))
		return
	}
	payloadSeed = byte(c.Seed)
	restore := quietBadger()
	defer restore()
	root, err := os.MkdirTemp("", "c06-*")
	if err != nil {
		panic(err)
	}
	defer os.RemoveAll(root)
	st := &stats{profiles: map[string]struct{}{}, viols: map[string]*violOut{}}
	q := cs.Query
	runHistory(cs.Provider, root, 0, cs.History, &q, true, st)
	var sigs []string
	for s := range st.viols {
		sigs = append(sigs, s)
	}
	sort.Strings(sigs)
	for _, s := range sigs {
		c.Violate(s, st.viols[s].What, st.viols[s].Case)
	}
	c.Sample(cs)
}
