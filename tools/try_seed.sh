#!/bin/bash
# tools/try_seed.sh <ID> <patch.diff> [tier] [extra check ids...]
# Applies a seeded change to a scratch worktree of /repo HEAD, runs the repository's own tests for the
# touched packages and the check(s) against it, then removes the worktree.
id=$1; patch=$2; tier=${3:-quick}; shift 3 2>/dev/null
checks="$id $@"
wt=/tmp/ts-$id-$$
git -C /repo worktree add --detach $wt HEAD >/dev/null 2>&1 || exit 2
trap "rm -rf $wt-xdg; git -C /repo worktree remove --force $wt >/dev/null 2>&1; rm -rf $wt-build" EXIT
if ! git -C $wt apply $patch; then echo "PATCH-DOES-NOT-APPLY"; exit 2; fi
echo "== patch touches: $(git -C $wt diff --stat | tail -1)"
pk=$(git -C $wt diff --name-only | xargs -n1 dirname | sort -u | sed 's|^|./|' | tr '\n' ' ')
( cd $wt && GOFLAGS=-mod=mod GOPROXY=off go build ./... && GOFLAGS=-mod=mod GOPROXY=off env GOCACHE=$(go env GOCACHE) XDG_CACHE_HOME=$wt-xdg unshare -n -- sh -c 'ip link set lo up; exec "$@"' sh go test -vet=off -count=1 $pk 2>&1 | grep -E "^(--- FAIL|FAIL|ok)" | grep -v -E "TestJoin|TestNewClient|TestStatsd" | tr '\n' ' ' ; echo )
for c in $checks; do
  lc=$(echo $c | tr A-Z a-z)
  out=$(cd /verif && VERIF_EVIDENCE_DIR=$wt-build/evidence VERIF_REPLAY_DIR=$wt-build/replays VERIF_REPO=$wt VERIF_BUILD=$wt-build VERIF_ONLY=$lc ./check $c --tier $tier 2>&1)
  echo "== $c: $(echo "$out" | grep -E '^RESULT|BUILD-FAILED|HARNESS' )"
  echo "$out" | grep -E "^  signature" | head -4 | cut -c1-400
done
