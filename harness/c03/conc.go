package c03

// Part (conc): two connections present keys at the same time; the scenarios are shared with C12 (engine/authconc).

import (
	"github.com/emitter-io/emitter/internal/verifx/engine/authconc"
	"github.com/emitter-io/emitter/internal/verifx/engine/sched"
)

func concScenarios() map[string]*sched.Scenario { return authconc.Scenarios() }
func concOrder() []string                       { return authconc.Order() }
