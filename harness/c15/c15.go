// Package c15: stored messages survive broker restarts and crashes.
//
// Fault enumeration on the REAL disk-backed store (storage.NewSSD + badger on a scratch directory).
// A child process of this binary opens the store, stores a fixed, index-derived history and writes an
// unbuffered "ACK k" line to a pipe right after each Store returns. The parent decides where the child
// dies:
//
//	(i)   after every ack k = 0..4: clean Close, exit without Close, SIGKILL while the child is blocked
//	      on stdin (so the kill provably lands between two stores);
//	(ii)  inside the calls: the child runs under `strace -f -e trace=S -e inject=S:signal=KILL:when=N`
//	      for every file-system syscall S and N = 1,2,3,... until the injection stops firing;
//	(iii) three consecutive crash/restart cycles on one directory, every combination of endings.
//
// A fresh process then reopens the directory and runs history queries; the parent compares them with
// the list of messages derived from the index (written from the property statement: acknowledged =>
// present and identical; never passed to Store => absent; in flight => either).
package c15

import (
	"bufio"
	"bytes"
	"crypto/sha256"
	"encoding/hex"
	"encoding/json"
	"fmt"
	"io"
	"os"
	"os/exec"
	"sort"
	"strconv"
	"strings"
	"sync"
	"syscall"
	"time"

	"github.com/emitter-io/emitter/internal/message"
	"github.com/emitter-io/emitter/internal/provider/storage"
	"github.com/emitter-io/emitter/internal/verifx/engine/core"
)

func init() {
	core.Register(&core.Check{ID: "C15", Level: "fault_enumeration", Run: run, Replay: replay, Worker: worker})
}

// ------------------------------------------------------------------------------------------------
// The fixed history: everything is a function of (t0, index).

const (
	retainCfg   = uint32(604800) // configured retention (7 days) that replaces RetainedTTL
	histLen     = 4
	bigIndex    = 2
	bigSize     = 30 * 1024
	childLimit  = 120 * time.Second // hang detector for one child process
	uniqueField = uint32(0xC15C15C1)
)

var (
	ssidA      = message.Ssid{0x0C150001, 0x51000AAA, 0x0A0A0A01} // channel x/a/
	ssidB      = message.Ssid{0x0C150001, 0x51000AAA, 0x0B0B0B02} // channel x/b/
	ssidParent = message.Ssid{0x0C150001, 0x51000AAA}             // x/  (covers both; used to look for phantoms)
	queryNames = []string{"x/a/", "x/b/", "x/"}
)

func querySsid(i int) message.Ssid { return []message.Ssid{ssidA, ssidB, ssidParent}[i] }

func ssidOf(idx int) (message.Ssid, string) {
	if idx%2 == 0 {
		return ssidA, "x/a/"
	}
	return ssidB, "x/b/"
}

// storedTTL is the ttl handed to Store; wantTTL is what the statement says must come back.
func storedTTL(idx int) uint32 {
	if idx%4 == 1 {
		return message.RetainedTTL
	}
	return uint32(7200 + 10000*idx) // >= 2 h: far away from any expiry during a run
}

func wantTTL(idx int) uint32 {
	if idx%4 == 1 {
		return retainCfg
	}
	return uint32(7200 + 10000*idx)
}

func payloadOf(idx int) []byte {
	switch {
	case idx == bigIndex:
		b := make([]byte, bigSize)
		for i := range b {
			b[i] = byte(i*7 + i/251 + 3)
		}
		return b
	case idx == 3:
		return []byte{0x00, 0xff, 0x01, 0xfe, 0x00, 0x80, 0x7f, '\n', 0x00}
	default:
		return []byte(fmt.Sprintf("payload-%d-of-the-fixed-history", idx))
	}
}

func timeOf(t0 int64, idx int) int64 { return t0 - 1000 + int64(idx)*10 }

// makeMessage builds message idx. The id comes from message.NewID + SetTime; the per-process counter
// and random fields of the id (bytes 8..16) are overwritten with index-derived values so that every
// process derives the same id.
func makeMessage(t0 int64, idx int) message.Message {
	ssid, ch := ssidOf(idx)
	id := message.NewID(ssid)
	id.SetTime(timeOf(t0, idx))
	put32(id[8:12], ^uint32(idx+1))
	put32(id[12:16], uniqueField)
	return message.Message{ID: id, Channel: []byte(ch), Payload: payloadOf(idx), TTL: storedTTL(idx)}
}

func put32(b []byte, v uint32) {
	b[0], b[1], b[2], b[3] = byte(v>>24), byte(v>>16), byte(v>>8), byte(v)
}

// ------------------------------------------------------------------------------------------------
// Worker entry: the child processes.

func out(s string) { os.Stdout.Write([]byte(s)) } // unbuffered: one write(2) per line

func worker(c *core.Ctx, args []string) {
	if len(args) == 0 {
		os.Exit(2)
	}
	switch args[0] {
	case "child":
		childStore(args[1:])
	case "verify":
		childVerify(args[1:])
	case "pingpong":
		childPingPong(args[1])
	case "ownstore":
		childStoreOwn(args[1:])
	case "ownverify":
		childVerifyOwn(args[1:])
	case "seq": // debugging aid: print the counted call sequence of one untouched traced run
		tierArg = c.Tier
		dir := scratch()
		_, tr := runStoreGlobal("", 0, dir, time.Now().Unix(), 0, histLen, "close", 0)
		os.RemoveAll(dir)
		fmt.Println(len(tr.Seq), strings.Join(tr.Seq, " "))
		os.Exit(0)
	}
	os.Exit(2)
}

// firstLine drops the stack trace that badger's wrapped errors carry.
func firstLine(s string) string { return strings.SplitN(s, "\n", 2)[0] }

func atoi(s string) int { n, _ := strconv.Atoi(s); return n }

// childStore: <dir> <t0> <first> <count> <end close|exit> <wait 0|1> <linger ms>
// linger: idle time between the last ack and the end, so that badger's background work (flush of a
// recovered memtable) happens inside the process and its syscalls are crash points too; -1 = until the
// memtable file of the previous generation is gone, at most 5 s.
func childStore(a []string) {
	dir, t0, first, count, end, wait := a[0], int64(atoi(a[1])), atoi(a[2]), atoi(a[3]), a[4], a[5] == "1"
	linger := atoi(a[6])
	if os.Getenv("C15_MARK") != "" {
		markStart() // start of the traced region for the package's own tracer (a failing no-op call)
	}
	s := storage.NewSSD(nil)
	if err := s.Configure(map[string]interface{}{"dir": dir, "retain": float64(retainCfg)}); err != nil {
		out("OPENFAIL " + firstLine(err.Error()) + "\n")
		os.Exit(4)
	}
	finish := func(how string) {
		if how == "close" {
			if err := s.Close(); err != nil {
				out("CLOSED " + strings.ReplaceAll(err.Error(), "\n", " ") + "\n")
			} else {
				out("CLOSED ok\n")
			}
		}
		out("DONE\n")
		os.Exit(0)
	}
	control := func(last bool) {
		if !wait {
			if last {
				if linger < 0 {
					// until badger has flushed and deleted the memtable file recovered at open (bounded);
					// Lstat is not one of the traced syscalls
					for i := 0; i < 500; i++ {
						if _, err := os.Lstat(dir + "/00001.mem"); err != nil {
							break
						}
						time.Sleep(10 * time.Millisecond)
					}
					linger = 50
				}
				time.Sleep(time.Duration(linger) * time.Millisecond)
				finish(end)
			}
			return
		}
		var b [1]byte
		if n, _ := os.Stdin.Read(b[:]); n != 1 {
			os.Exit(3) // parent went away
		}
		switch b[0] {
		case 'c':
			finish("close")
		case 'x':
			finish("exit")
		}
		if last {
			finish(end)
		}
	}
	out("ACK 0\n")
	control(count == 0)
	for j := 1; j <= count; j++ {
		m := makeMessage(t0, first+j-1)
		if err := s.Store(&m); err != nil {
			out(fmt.Sprintf("STOREERR %d %s\n", j, strings.ReplaceAll(err.Error(), "\n", " ")))
			os.Exit(5)
		}
		out(fmt.Sprintf("ACK %d\n", j))
		control(j == count)
	}
}

// wireMsg is a returned message as reported by the verifying process.
type wireMsg struct {
	ID      string `json:"id"`
	Channel string `json:"ch"`
	Len     int    `json:"len"`
	SHA     string `json:"sha"`
	TTL     uint32 `json:"ttl"`
}

type verifyOut struct {
	OpenErr   string       `json:"open_err,omitempty"`
	Q1        [3][]wireMsg `json:"q1"`
	QErr      string       `json:"q_err,omitempty"`
	CloseErr  string       `json:"close_err,omitempty"`
	ReopenErr string       `json:"reopen_err,omitempty"`
	Q2        [3][]wireMsg `json:"q2"`
	Rounds    int          `json:"rounds"`
	Crash     string       `json:"crash,omitempty"` // filled by the parent when no VERIFY line came back
}

func sha(b []byte) string { h := sha256.Sum256(b); return hex.EncodeToString(h[:8]) }

func queryAll(s *storage.SSD) (res [3][]wireMsg, qerr string) {
	for i := 0; i < 3; i++ {
		// open window exactly as the broker does for a request without from/until options
		f, err := s.Query(querySsid(i), time.Unix(0, 0), time.Unix(0, 0), nil, 100)
		if err != nil {
			qerr = err.Error()
		}
		res[i] = []wireMsg{}
		for _, m := range f {
			res[i] = append(res[i], wireMsg{ID: hex.EncodeToString(m.ID), Channel: string(m.Channel), Len: len(m.Payload), SHA: sha(m.Payload), TTL: m.TTL})
		}
	}
	return
}

// childVerify: <dir> <rounds>. Opens, queries and (rounds = 2) closes cleanly, opens again, queries;
// exits without Close.
func childVerify(a []string) {
	dir, rounds := a[0], atoi(a[1])
	var v verifyOut
	emit := func() {
		b, _ := json.Marshal(v)
		out("VERIFY " + string(b) + "\n")
		os.Exit(0)
	}
	cfg := map[string]interface{}{"dir": dir, "retain": float64(retainCfg)}
	s := storage.NewSSD(nil)
	if err := s.Configure(cfg); err != nil {
		v.OpenErr = firstLine(err.Error())
		emit()
	}
	v.Q1, v.QErr = queryAll(s)
	if rounds < 2 {
		v.Rounds = 1
		settle(dir) // do not exit in the middle of the background flush: that instant belongs to part (ii)
		emit()
	}
	v.Rounds = 2
	if err := s.Close(); err != nil {
		v.CloseErr = err.Error()
	}
	s2 := storage.NewSSD(nil)
	if err := s2.Configure(cfg); err != nil {
		v.ReopenErr = firstLine(err.Error())
		emit()
	}
	v.Q2, _ = queryAll(s2)
	emit()
}

// ------------------------------------------------------------------------------------------------
// Parent side: running one child.

type injection struct {
	Syscall string `json:"syscall"`
	N       int    `json:"n"`
}

type childRes struct {
	Acks     int    // highest "ACK j" read (-1: none, 0: store opened)
	OpenFail string // OPENFAIL text
	StoreErr string
	Closed   string // text after CLOSED
	Done     bool
	Killed   bool // died by SIGKILL (ours or the injected one)
	Exit     int
	TimedOut bool
	Stderr   string
}

type capBuf struct {
	mu sync.Mutex
	b  []byte
}

func (w *capBuf) Write(p []byte) (int, error) {
	w.mu.Lock()
	w.b = append(w.b, p...)
	if len(w.b) > 6000 {
		w.b = w.b[len(w.b)-4000:]
	}
	w.mu.Unlock()
	return len(p), nil
}

func (w *capBuf) String() string { w.mu.Lock(); defer w.mu.Unlock(); return string(w.b) }

var tierArg = "quick"

func selfArgs(rest ...string) []string {
	return append([]string{"worker", "C15", tierArg}, rest...)
}

// runStore runs one storing child. ctl is called after each ack j and returns 'g' (go on),
// 'c' (Close now), 'x' (exit now without Close) or 'K' (SIGKILL now). ctl == nil: the child does not
// wait and ends by `end` after its last ack.
func runStore(inj *injection, dir string, t0 int64, first, count int, end string, lingerMs int, ctl func(j int) byte) childRes {
	wait := "0"
	if ctl != nil {
		wait = "1"
	}
	args := selfArgs("child", dir, fmt.Sprint(t0), fmt.Sprint(first), fmt.Sprint(count), end, wait, fmt.Sprint(lingerMs))
	var cmd *exec.Cmd
	if inj != nil {
		sa := []string{"-f", "-o", "/dev/null", "-e", "trace=" + inj.Syscall, "-e", fmt.Sprintf("inject=%s:signal=KILL:when=%d", inj.Syscall, inj.N), os.Args[0]}
		cmd = exec.Command("strace", append(sa, args...)...)
	} else {
		cmd = exec.Command(os.Args[0], args...)
	}
	cmd.SysProcAttr = &syscall.SysProcAttr{Setpgid: true}
	se := &capBuf{}
	cmd.Stderr = se
	stdout, _ := cmd.StdoutPipe()
	var stdin io.WriteCloser
	if ctl != nil {
		stdin, _ = cmd.StdinPipe()
	}
	res := childRes{Acks: -1}
	if err := cmd.Start(); err != nil {
		core.HarnessFailure("cannot start child: %v", err)
	}
	timer := time.AfterFunc(childLimit, func() {
		res.TimedOut = true
		syscall.Kill(-cmd.Process.Pid, syscall.SIGKILL)
	})
	readAcks(stdout, &res, func(j int) {
		if ctl != nil {
			switch b := ctl(j); b {
			case 'K':
				syscall.Kill(-cmd.Process.Pid, syscall.SIGKILL)
			default:
				stdin.Write([]byte{b})
			}
		}
	})
	err := cmd.Wait()
	timer.Stop()
	if stdin != nil {
		stdin.Close()
	}
	if err != nil {
		if ee, ok := err.(*exec.ExitError); ok {
			res.Exit = ee.ExitCode()
			if ws, ok := ee.Sys().(syscall.WaitStatus); ok && ws.Signaled() && ws.Signal() == syscall.SIGKILL {
				res.Killed = true
			}
			if res.Exit == 137 { // strace re-raises; some shells report 128+9
				res.Killed = true
			}
		} else {
			res.Exit = -1
		}
	}
	res.Stderr = se.String()
	return res
}

// readAcks parses the child's protocol lines until EOF.
func readAcks(r io.Reader, res *childRes, onAck func(j int)) {
	rd := bufio.NewReader(r)
	for {
		line, err := rd.ReadString('\n')
		if err != nil {
			return // EOF: a partial line is not an acknowledgement
		}
		line = strings.TrimRight(line, "\n")
		switch {
		case strings.HasPrefix(line, "ACK "):
			res.Acks = atoi(line[4:])
			onAck(res.Acks)
		case strings.HasPrefix(line, "OPENFAIL "):
			res.OpenFail = line[9:]
		case strings.HasPrefix(line, "STOREERR "):
			res.StoreErr = line[9:]
		case strings.HasPrefix(line, "CLOSED "):
			res.Closed = line[7:]
		case line == "DONE":
			res.Done = true
		}
	}
}

// runStoreGlobal runs a non-waiting storing child under the package's own tracer and kills it on
// entry of the g-th call of syscall `name` made by the PROCESS (one counter for all threads, in the
// order in which the tracer sees the entries; name "" = any file-system syscall; g = 0: only count).
// The child runs with GOMAXPROCS=1, which makes the order of its calls far more repeatable.
func runStoreGlobal(name string, g int, dir string, t0 int64, first, count int, end string, lingerMs int) (childRes, traceRes) {
	argv := append([]string{os.Args[0]}, selfArgs("child", dir, fmt.Sprint(t0), fmt.Sprint(first), fmt.Sprint(count), end, "0", fmt.Sprint(lingerMs))...)
	devnull, _ := os.OpenFile(os.DevNull, os.O_RDWR, 0)
	pr, pw, err := os.Pipe()
	if err != nil || devnull == nil {
		core.HarnessFailure("pipe: %v", err)
	}
	defer devnull.Close()
	defer pr.Close()
	started := make(chan struct{})
	done := make(chan traceRes, 1)
	go func() {
		done <- traceRun(argv, append(os.Environ(), "GOMAXPROCS=1", "C15_MARK=1"), []*os.File{devnull, pw, devnull}, setOf(name), g, true, childLimit, started)
	}()
	<-started
	pw.Close()
	res := childRes{Acks: -1}
	readAcks(pr, &res, func(int) {})
	tr := <-done
	res.Exit, res.Killed = tr.Exit, tr.Signaled
	if strings.HasPrefix(tr.Err, "traced process exceeded") {
		res.TimedOut = true
	}
	return res, tr
}

func runVerify(dir string, rounds int) verifyOut {
	cmd := exec.Command(os.Args[0], selfArgs("verify", dir, fmt.Sprint(rounds))...)
	cmd.SysProcAttr = &syscall.SysProcAttr{Setpgid: true}
	var so bytes.Buffer
	se := &capBuf{}
	cmd.Stdout = &so
	cmd.Stderr = se
	if err := cmd.Start(); err != nil {
		core.HarnessFailure("cannot start verifier: %v", err)
	}
	timedOut := false
	timer := time.AfterFunc(childLimit, func() {
		timedOut = true
		syscall.Kill(-cmd.Process.Pid, syscall.SIGKILL)
	})
	werr := cmd.Wait()
	timer.Stop()
	for _, line := range strings.Split(so.String(), "\n") {
		if strings.HasPrefix(line, "VERIFY ") {
			var v verifyOut
			if json.Unmarshal([]byte(line[7:]), &v) == nil {
				return v
			}
		}
	}
	st := se.String()
	if len(st) > 1500 {
		st = st[len(st)-1500:]
	}
	if timedOut {
		return verifyOut{Crash: fmt.Sprintf("the reopening process hung for %v: %s", childLimit, st)}
	}
	return verifyOut{Crash: fmt.Sprintf("the reopening process died (%v): %s", werr, st)}
}

// ------------------------------------------------------------------------------------------------
// The oracle, from the statement.

type failure struct {
	Kind   string // reopen-failed | acked-missing | altered | phantom
	Detail string
}

// judge: acked = indices whose Store had returned (ack read by the parent); passed = indices that were
// passed to Store at all (acked plus the ones in flight when the process died).
func judge(t0 int64, acked, passed []int, v verifyOut) []failure {
	var fs []failure
	if v.Crash != "" {
		return []failure{{"reopen-failed", v.Crash}}
	}
	if v.OpenErr != "" {
		return []failure{{"reopen-failed", "Configure returned: " + v.OpenErr}}
	}
	if v.ReopenErr != "" {
		fs = append(fs, failure{"reopen-failed", "second Configure (after a clean Close of the reopened store) returned: " + v.ReopenErr})
	}
	type want struct {
		idx int
		ch  string
		n   int
		sha string
		ttl uint32
		q   int
	}
	byID := map[string]want{}
	for _, idx := range passed {
		m := makeMessage(t0, idx)
		q := idx % 2
		byID[hex.EncodeToString(m.ID)] = want{idx, string(m.Channel), len(m.Payload), sha(m.Payload), wantTTL(idx), q}
	}
	isAcked := map[int]bool{}
	for _, i := range acked {
		isAcked[i] = true
	}
	rounds := [][3][]wireMsg{v.Q1}
	if v.ReopenErr == "" && v.Rounds == 2 {
		rounds = append(rounds, v.Q2)
	}
	for r, qs := range rounds {
		where := []string{"first reopen", "second reopen (after clean Close)"}[r]
		for qi := 0; qi < 3; qi++ {
			seen := map[string]bool{}
			for _, m := range qs[qi] {
				w, ok := byID[m.ID]
				if !ok {
					fs = append(fs, failure{"phantom", fmt.Sprintf("%s, query %s returned id %s (channel %q, %d bytes, ttl %d) which was never passed to Store", where, queryNames[qi], m.ID, m.Channel, m.Len, m.TTL)})
					continue
				}
				if seen[m.ID] {
					fs = append(fs, failure{"phantom", fmt.Sprintf("%s, query %s returned message %d twice", where, queryNames[qi], w.idx)})
				}
				seen[m.ID] = true
				if qi < 2 && w.q != qi {
					fs = append(fs, failure{"phantom", fmt.Sprintf("%s, query %s returned message %d which was stored on %s", where, queryNames[qi], w.idx, w.ch)})
				}
				if m.Channel != w.ch || m.Len != w.n || m.SHA != w.sha || m.TTL != w.ttl {
					fs = append(fs, failure{"altered", fmt.Sprintf("%s, query %s: message %d came back as channel=%q len=%d sha=%s ttl=%d, stored channel=%q len=%d sha=%s ttl=%d", where, queryNames[qi], w.idx, m.Channel, m.Len, m.SHA, m.TTL, w.ch, w.n, w.sha, w.ttl)})
				}
			}
			if qi < 2 {
				for id, w := range byID {
					if w.q == qi && isAcked[w.idx] && !seen[id] {
						fs = append(fs, failure{"acked-missing", fmt.Sprintf("%s, query %s does not return acknowledged message %d (id %s)", where, queryNames[qi], w.idx, id)})
					}
				}
			}
		}
	}
	sort.Slice(fs, func(i, j int) bool {
		if fs[i].Kind != fs[j].Kind {
			return fs[i].Kind < fs[j].Kind
		}
		return fs[i].Detail < fs[j].Detail
	})
	return fs
}

func seq(from, n int) []int {
	var o []int
	for i := 0; i < n; i++ {
		o = append(o, from+i)
	}
	return o
}

// ------------------------------------------------------------------------------------------------
// Cases.

// Case is one crash point (or one 3-cycle pattern).
type Case struct {
	Kind    string   `json:"kind"`              // ack | sys | cycles
	K       int      `json:"k,omitempty"`       // ack: stop after ack k
	Mode    string   `json:"mode,omitempty"`    // ack: close | exit | kill
	Variant string   `json:"variant,omitempty"` // sys: fresh-exit | fresh-close | restart
	Syscall string   `json:"syscall,omitempty"`
	N       int      `json:"n,omitempty"`
	Stores  []int    `json:"stores,omitempty"` // cycles: number of stores in each cycle
	Modes   []string `json:"modes,omitempty"`  // cycles: ending of each cycle
	Between bool     `json:"verify_between,omitempty"`
}

type outcome struct {
	Fired    bool   // the stop really happened (kill landed / clean stop executed)
	Acks     int    // acks seen in the (last) storing process
	Phase    string // open | store | end
	Anomaly  string // harness-level oddity (never a violation)
	Failures []failure
	Class    string // signature prefix
	Where    string // extra description of the crash point
	At       string // syscall the kill landed on
	Seq      []string
}

func ordClass(n int) string {
	switch {
	case n == 1:
		return "n1"
	case n <= 4:
		return "n2-4"
	default:
		return "n5+"
	}
}

// settle waits (bounded) until badger's background flush of the memtable recovered at open is over:
// exactly one non-empty *.mem file is left. It only fixes the instant of the stop for the cycle cases
// (stops DURING that flush are enumerated by the "restart" syscall variant); the oracle does not
// depend on it.
func settle(dir string) {
	for i := 0; i < 500; i++ {
		es, _ := os.ReadDir(dir)
		n, ok := 0, true
		for _, e := range es {
			if strings.HasSuffix(e.Name(), ".mem") {
				n++
				if fi, err := e.Info(); err != nil || fi.Size() == 0 {
					ok = false
				}
			}
		}
		if n == 1 && ok {
			break
		}
		time.Sleep(10 * time.Millisecond)
	}
	time.Sleep(30 * time.Millisecond)
}

func scratch() string {
	d, err := os.MkdirTemp("", "c15-")
	if err != nil {
		core.HarnessFailure("MkdirTemp: %v", err)
	}
	return d
}

func runCase(t0 int64, cs Case) outcome {
	dir := scratch()
	defer os.RemoveAll(dir)
	switch cs.Kind {
	case "ack":
		o := outcome{Class: fmt.Sprintf("after-ack:k=%d:%s", cs.K, cs.Mode)}
		r := runStore(nil, dir, t0, 0, histLen, "exit", 0, func(j int) byte {
			if j < cs.K {
				return 'g'
			}
			return map[string]byte{"close": 'c', "exit": 'x', "kill": 'K'}[cs.Mode]
		})
		o.Acks = r.Acks
		switch {
		case r.OpenFail != "":
			o.Failures = []failure{{"reopen-failed", "first open of an empty directory failed: " + r.OpenFail}}
			return o
		case r.TimedOut || r.StoreErr != "" || r.Acks != cs.K:
			o.Anomaly = fmt.Sprintf("child ended unexpectedly: %+v", r)
			return o
		case cs.Mode == "kill" && !r.Killed, cs.Mode != "kill" && (!r.Done || r.Exit != 0):
			o.Anomaly = fmt.Sprintf("child did not stop as instructed: %+v", r)
			return o
		}
		o.Fired = true
		if cs.Mode == "close" && r.Closed != "ok" {
			o.Anomaly = "Close returned " + r.Closed // not part of the statement; still verified below
		}
		o.Failures = judge(t0, seq(0, cs.K), seq(0, cs.K), runVerify(dir, 2))
		return o

	case "sys", "gsys":
		first, count, end, linger := 0, histLen, "exit", 0
		var ackedBefore []int
		switch cs.Variant {
		case "fresh-close":
			end = "close"
		case "restart":
			// generation 1 (native): open, store 0 and 1, killed while idle after ack 2
			r := runStore(nil, dir, t0, 0, 2, "exit", 0, func(j int) byte {
				if j < 2 {
					return 'g'
				}
				return 'K'
			})
			if r.Acks != 2 || !r.Killed {
				return outcome{Anomaly: fmt.Sprintf("generation 1 ended unexpectedly: %+v", r), Class: "syscall"}
			}
			first, count, linger = 2, 2, -1
			ackedBefore = seq(0, 2)
		}
		var r childRes
		var o0 outcome
		at := cs.Syscall
		if cs.Kind == "gsys" {
			var tr traceRes
			r, tr = runStoreGlobal(cs.Syscall, cs.N, dir, t0, first, count, end, linger)
			o0.Seq = tr.Seq
			if tr.Err != "" && !r.TimedOut {
				return outcome{Anomaly: "tracer: " + tr.Err, Class: "syscall"}
			}
			if !tr.Fired {
				r.Killed = false
			}
			if tr.KilledAt != "" {
				at = tr.KilledAt
			}
		} else {
			r = runStore(&injection{cs.Syscall, cs.N}, dir, t0, first, count, end, linger, nil)
		}
		o := outcome{Acks: r.Acks, At: at, Seq: o0.Seq}
		switch {
		case r.Acks < 0:
			o.Phase = "open"
		case r.Acks < count:
			o.Phase = "store"
		default:
			o.Phase = "end"
		}
		// Which ordinal reaches a given call, and whether a background call falls before or after an
		// ack, depends on goroutine scheduling; the signature therefore names only the syscall the kill
		// landed on and the variant, ordinal and phase go into the description.
		o.Class = fmt.Sprintf("kill@%s:%s", at, cs.Variant)
		if cs.Kind == "gsys" {
			o.Where = fmt.Sprintf("kill on entry of call #%d of %s by the process (all threads, GOMAXPROCS=1), last ack read %d (-1 = none), phase %s", cs.N, at, r.Acks, o.Phase)
		} else {
			o.Where = fmt.Sprintf("kill on entry of call #%d (%s) of %s by some thread, last ack read %d (-1 = none), phase %s", cs.N, ordClass(cs.N), cs.Syscall, r.Acks, o.Phase)
		}
		switch {
		case r.OpenFail != "":
			o.Failures = []failure{{"reopen-failed", "open failed in the traced process: " + r.OpenFail}}
			o.Fired = true
			return o
		case r.TimedOut || r.StoreErr != "":
			o.Anomaly = fmt.Sprintf("traced child ended unexpectedly: %+v", r)
			return o
		case r.Killed && !r.Done:
			o.Fired = true
		case r.Done && r.Exit == 0:
			o.Fired = false // ordinal beyond the last call of S on every thread: a plain run
		default:
			o.Anomaly = fmt.Sprintf("traced child ended unexpectedly: %+v", r)
			return o
		}
		nAck := r.Acks
		if nAck < 0 {
			nAck = 0
		}
		acked := append(append([]int{}, ackedBefore...), seq(first, nAck)...)
		passed := append([]int{}, acked...)
		if nAck < count {
			passed = append(passed, first+nAck) // possibly in flight
		}
		if !o.Fired && cs.N > 0 {
			return o // a plain run to the end: the same as "after ack 4" of part (i), not verified again
		}
		o.Failures = judge(t0, acked, passed, runVerify(dir, 2))
		return o

	case "cycles":
		// signature class = the cycle after which the failure showed and how that cycle ended
		o := outcome{Class: "cycles", Fired: true}
		next := 0
		for cyc := 0; cyc < len(cs.Stores); cyc++ {
			n, mode := cs.Stores[cyc], cs.Modes[cyc]
			r := runStore(nil, dir, t0, next, n, "exit", 0, func(j int) byte {
				if j < n {
					return 'g'
				}
				if cyc > 0 {
					settle(dir)
				}
				return map[string]byte{"close": 'c', "exit": 'x', "kill": 'K'}[mode]
			})
			o.Acks = r.Acks
			o.Class = fmt.Sprintf("cycles:c%d:%s", cyc+1, mode)
			if r.OpenFail != "" {
				if cyc > 0 {
					o.Class = fmt.Sprintf("cycles:c%d:%s", cyc, cs.Modes[cyc-1]) // the previous ending left the directory unopenable
				}
				o.Failures = []failure{{"reopen-failed", fmt.Sprintf("cycle %d: Configure returned: %s", cyc+1, r.OpenFail)}}
				return o
			}
			if r.TimedOut || r.StoreErr != "" || r.Acks != n || (mode == "kill") != r.Killed || (mode != "kill" && !r.Done) {
				o.Anomaly = fmt.Sprintf("cycle %d ended unexpectedly: %+v", cyc+1, r)
				o.Fired = false
				return o
			}
			next += n
			if last := cyc == len(cs.Stores)-1; cs.Between || last {
				// in between: one open + queries, the verifier then exits without Close (one more
				// unclean stop on the directory); at the end: two rounds with a clean Close in between
				rounds := 1
				if last {
					rounds = 2
				}
				if fs := judge(t0, seq(0, next), seq(0, next), runVerify(dir, rounds)); len(fs) > 0 {
					for i := range fs {
						fs[i].Detail = fmt.Sprintf("after cycle %d: %s", cyc+1, fs[i].Detail)
					}
					o.Failures = fs
					return o
				}
			}
		}
		return o
	}
	return outcome{Anomaly: "unknown case kind " + cs.Kind}
}

// errClass names the shape of a reopen error (root-cause class), so that one defect keeps one
// signature prefix whatever crash point exposed it.
func errClass(detail string) string {
	has := func(x string) bool { return strings.Contains(detail, x) }
	switch {
	case has("while opening memtables") && has("Create a new file"):
		return "empty-memtable-file"
	case has("db.vlog.open") && has("Create a new file"):
		return "empty-vlog-file"
	case has("MANIFEST") || has("manifest"):
		return "manifest"
	case has("hung for"):
		return "hang"
	case has("process died"):
		return "crash"
	case has("LOCK") || has("lock"):
		return "lock"
	}
	return "other"
}

func signature(o outcome, f failure) string {
	if f.Kind == "reopen-failed" {
		return f.Kind + ":" + errClass(f.Detail) + ":" + o.Class
	}
	return f.Kind + ":" + o.Class
}

// report turns an outcome into counters / violations.
func report(c *core.Ctx, cs Case, o outcome) {
	if os.Getenv("C15_DEBUG") != "" {
		fmt.Fprintf(os.Stderr, "C15 %+v -> fired=%v at=%s phase=%s acks=%d anomaly=%q failures=%v\n", cs, o.Fired, o.At, o.Phase, o.Acks, o.Anomaly, o.Failures)
	}
	c.Add("runs_total", 1)
	c.Add("runs_"+cs.Kind, 1)
	if o.Anomaly != "" {
		c.Add("anomalies", 1)
		c.Distinct("anomaly", o.Anomaly)
		if c.DistinctCount("anomaly") <= 3 {
			c.Sample(map[string]interface{}{"anomaly": o.Anomaly, "case": cs})
		}
	}
	if o.Fired {
		c.Add("evaluations", 1)
		c.Add("crash_points_"+cs.Kind, 1)
		c.Distinct("nontrivial", fmt.Sprintf("%s|%s|%s|%d|%d|%v|%v|%v", cs.Kind, cs.Mode+cs.Variant, cs.Syscall, cs.N+cs.K, o.Acks, cs.Stores, cs.Modes, cs.Between))
		if cs.Kind == "sys" || cs.Kind == "gsys" {
			c.Distinct("kill_phases", cs.Variant+"|"+o.At+"|"+o.Phase)
		}
	}
	seen := map[string]bool{}
	for _, f := range o.Failures {
		if seen[f.Kind] {
			continue
		}
		seen[f.Kind] = true
		c.Violate(signature(o, f), describe(o, f), cs)
	}
}

func describe(o outcome, f failure) string {
	if o.Where != "" {
		return f.Detail + " | " + o.Where
	}
	return f.Detail
}

// ------------------------------------------------------------------------------------------------

// strace list of DESIGN.md 3.6 plus renameat/renameat2 (what os.Rename really issues here), mremap and flock
var allSyscalls = []string{"openat", "write", "pwrite64", "ftruncate", "fsync", "fdatasync", "msync", "rename", "renameat", "renameat2", "unlink", "unlinkat", "mmap", "munmap", "mremap", "fallocate", "flock", "close"}

const stopAfterQuiet = 3 // ordinals in a row that complete without the injection firing

func run(c *core.Ctx) {
	tierArg = c.Tier
	t0 := time.Now().Unix()
	if _, err := exec.LookPath("strace"); err != nil {
		core.HarnessFailure("strace is not installed: %v", err)
	}
	sem := make(chan struct{}, core.NumWorkers())
	var wg sync.WaitGroup
	var capped sync.Once
	do := func(cs Case) outcome {
		sem <- struct{}{}
		defer func() { <-sem }()
		o := runCase(t0, cs)
		report(c, cs, o)
		return o
	}
	spawn := func(cs Case) {
		wg.Add(1)
		go func() { defer wg.Done(); do(cs) }()
	}

	parts := os.Getenv("C15_PARTS") // debugging aid only: e.g. "ack,sys"; empty = everything
	part := func(p string) bool { return parts == "" || strings.Contains(","+parts+",", ","+p+",") }
	if parts != "" {
		c.NotExhaustive("C15_PARTS=" + parts)
	}

	// (i) after each ack
	for k := 0; k <= histLen && part("ack"); k++ {
		for _, m := range []string{"close", "exit", "kill"} {
			spawn(Case{Kind: "ack", K: k, Mode: m})
		}
	}
	wg.Wait()

	softStop := c.Deadline
	if q := c.Start.Add(quickSoftCap); c.Quick() && q.Before(softStop) {
		softStop = q
	}

	// (iii) three consecutive cycles: every combination of endings x store distributions. They run
	// concurrently with (ii), from a small pool so that both make progress under one time budget.
	dists := [][]int{{2, 1, 1}, {1, 2, 1}, {0, 2, 2}, {1, 1, 2}}
	modes := []string{"kill", "exit", "close"}
	var cyc []Case
	for di, d := range dists {
		for _, bt := range []bool{false, true} {
			if !part("cycles") {
				continue
			}
			if c.Quick() && !(di == 0 && !bt || di == 1 && bt) {
				continue // quick: (2,1,1) verified at the end, (1,2,1) verified after every cycle
			}
			for _, m1 := range modes {
				for _, m2 := range modes {
					for _, m3 := range modes {
						cyc = append(cyc, Case{Kind: "cycles", Stores: d, Modes: []string{m1, m2, m3}, Between: bt})
					}
				}
			}
		}
	}
	cycJobs := make(chan Case, len(cyc))
	for _, cs := range cyc {
		cycJobs <- cs
	}
	close(cycJobs)
	for i := 0; i < 8; i++ {
		wg.Add(1)
		go func() {
			defer wg.Done()
			for cs := range cycJobs {
				if time.Now().After(softStop) {
					capped.Do(func() { c.NotExhaustive("time cap hit before all crash points were run") })
					continue
				}
				do(cs)
			}
		}()
	}

	// (ii) kill on entry of the N-th call of S by some thread.
	// "fresh-close" = open an empty directory, 4 stores, Close (its crash points include those of a
	// child that ends without Close); "restart" = open a directory left by a killed process (recovery
	// and background flush of the recovered memtable), 2 stores, idle until that flush is over, exit without Close.
	type chain struct {
		variant, sc string
		maxN        int
	}
	var chains []chain
	if !part("sys") {
	} else if c.Quick() {
		for _, sc := range allSyscalls {
			chains = append(chains, chain{"fresh-close", sc, quickMaxN})
		}
		for _, sc := range quickRestartSyscalls {
			chains = append(chains, chain{"restart", sc, quickRestartMaxN})
		}
	} else {
		for _, v := range []string{"fresh-close", "restart"} {
			for _, sc := range allSyscalls {
				chains = append(chains, chain{v, sc, 1 << 30})
			}
		}
	}
	type lastN struct {
		variant, sc string
		n           int
		capped      bool
	}
	var lmu sync.Mutex
	var lasts []lastN
	gcapped := false
	for _, ch := range chains {
		{
			v, sc, maxN := ch.variant, ch.sc, ch.maxN
			wg.Add(1)
			go func() {
				defer wg.Done()
				quiet, n, lastFired, wasCapped := 0, 1, 0, false
				const wave = 4
				for quiet < stopAfterQuiet {
					if n > maxN {
						wasCapped = true
						break
					}
					if time.Now().After(softStop) {
						wasCapped = true
						capped.Do(func() { c.NotExhaustive("time cap hit before all crash points were run") })
						break
					}
					if n == 1 {
						// if not even the first call of S by any thread exists, no higher ordinal does
						if !do(Case{Kind: "sys", Variant: v, Syscall: sc, N: 1}).Fired {
							break
						}
						lastFired, n = 1, 2
						continue
					}
					res := make([]outcome, wave)
					var wv sync.WaitGroup
					for i := 0; i < wave && n+i <= maxN; i++ {
						i := i
						wv.Add(1)
						go func() {
							defer wv.Done()
							res[i] = do(Case{Kind: "sys", Variant: v, Syscall: sc, N: n + i})
						}()
					}
					wv.Wait()
					for i := 0; i < wave && n+i <= maxN; i++ {
						if res[i].Fired {
							quiet = 0
							lastFired = n + i
						} else {
							quiet++
						}
					}
					n += wave
				}
				lmu.Lock()
				lasts = append(lasts, lastN{v, sc, lastFired, wasCapped})
				lmu.Unlock()
			}()
		}
	}
	// (ii-b) the same two variants under the package's own tracer, whose counter is per PROCESS:
	// kill on entry of the k-th call of S made by any thread, for every S that occurs and k = 1.. .
	gvariants := []string{"fresh-close", "restart"}
	gmax := 1 << 30
	if c.Quick() {
		gmax = quickGlobalMaxK
	}
	if !part("gsys") {
		gvariants = nil
	} else if st := tracerSelfTest(); st != "" {
		c.NotExhaustive("the ptrace tracer failed its self-test in this environment, process-wide enumeration skipped: " + st)
		gvariants = nil
	}
	gtotal := map[string]interface{}{}
	for _, v := range gvariants {
		// one untouched traced run tells which syscalls occur at all (and gives a sample sequence)
		o := do(Case{Kind: "gsys", Variant: v, Syscall: "", N: 0})
		counts := map[string]int{}
		for _, n := range o.Seq {
			counts[n]++
		}
		if len(o.Seq) == 0 {
			c.NotExhaustive("the counting run of variant " + v + " recorded no calls: " + o.Anomaly)
			continue
		}
		lmu.Lock()
		gtotal[v+":calls_in_one_plain_run"] = counts
		lmu.Unlock()
		if v == "fresh-close" {
			c.Sample(map[string]interface{}{"variant": v, "file_system_calls_of_one_plain_run_in_order": strings.Join(o.Seq, " ")})
		}
		var names []string
		for n := range counts {
			names = append(names, n)
		}
		sort.Strings(names)
		for _, sc := range names {
			v, sc := v, sc
			wg.Add(1)
			go func() {
				defer wg.Done()
				// the counting run said how many calls of sc to expect: all of them plus two probes run at
				// once, then two more at a time while the last two still fired
				quiet, n, lastFired, wasCapped := 0, 1, 0, false
				wave := counts[sc] + 2
				for quiet < 2 {
					if n > gmax {
						wasCapped = true
						break
					}
					if time.Now().After(softStop) {
						wasCapped = true
						capped.Do(func() { c.NotExhaustive("time cap hit before all crash points were run") })
						break
					}
					if n+wave-1 > gmax {
						wave = gmax - n + 1
					}
					res := make([]outcome, wave)
					var wv sync.WaitGroup
					for i := 0; i < wave; i++ {
						i := i
						wv.Add(1)
						go func() {
							defer wv.Done()
							res[i] = do(Case{Kind: "gsys", Variant: v, Syscall: sc, N: n + i})
						}()
					}
					wv.Wait()
					for i := 0; i < wave; i++ {
						if res[i].Fired {
							quiet = 0
							lastFired = n + i
						} else {
							quiet++
						}
					}
					n += wave
					wave = 2
				}
				lmu.Lock()
				if wasCapped {
					gtotal[v+":"+sc] = fmt.Sprintf("%d+ (capped)", lastFired)
					gcapped = true
				} else {
					gtotal[v+":"+sc] = fmt.Sprint(lastFired)
				}
				lmu.Unlock()
			}()
		}
	}
	wg.Wait()
	c.Set("highest_process_wide_ordinal_that_fired", gtotal)
	sort.Slice(lasts, func(i, j int) bool {
		if lasts[i].variant != lasts[j].variant {
			return lasts[i].variant < lasts[j].variant
		}
		return lasts[i].sc < lasts[j].sc
	})
	ords := map[string]interface{}{}
	cappedAny := false
	for _, l := range lasts {
		s := fmt.Sprint(l.n)
		if l.capped {
			s += "+ (capped)"
			cappedAny = true
		}
		ords[l.variant+":"+l.sc] = s
	}
	c.Set("highest_ordinal_that_fired", ords)
	if (cappedAny || gcapped) && c.Quick() {
		c.NotExhaustive(fmt.Sprintf("quick tier: strace injection limited to N <= %d (fresh-close, all 18 syscalls) and N <= %d (restart, %v), process-wide injection limited to k <= %d; the thorough tier runs all syscalls and all ordinals in both variants with both tracers", quickMaxN, quickRestartMaxN, quickRestartSyscalls, quickGlobalMaxK))
	}

	if part("ownids") {
		partOwnIDs(c)
	}
	c.Set("evaluations", c.Count("evaluations"))
	c.Set("distinct_nontrivial", c.DistinctCount("nontrivial"))
	c.Set("rule", "crash point = (i) stop after ack k in {0..4} x {Close, exit without Close, SIGKILL while idle}; "+
		"(ii-a) SIGKILL on ENTRY of the N-th call of syscall S made by some THREAD (strace -f -e inject=S:signal=KILL:when=N keeps its counter per (thread, syscall name)), for each of 18 syscalls and N = 1.. until "+fmt.Sprint(stopAfterQuiet)+" ordinals in a row complete without firing; "+
		"(ii-b) SIGKILL on ENTRY of the k-th call of S made by the PROCESS (own ptrace tracer, one counter for all threads, child with GOMAXPROCS=1), for every S of a list of 26 file-system syscalls that occurs in a plain run and k = 1.. until 2 in a row do not fire; "+
		"both in two variants (fresh-close: open an empty directory, 4 stores, Close; restart: open a directory left by a killed process that had 2 acknowledged stores, 2 more stores, idle until the background flush of the recovered memtable is over, exit without Close); "+
		"(iii) three consecutive cycles on one directory x every combination of the three endings x store distributions, verified after each or only after the last cycle. "+
		"(ii-a) is systematic for the unit 'N-th call of S by some thread', (ii-b) for 'k-th call of S by the process in the order observed in that run'; neither enumerates every global prefix of the whole syscall sequence nor instants between syscalls. "+
		"A crash point counts as non-trivial and distinct by (class, mode/variant, syscall, ordinal or k, acks seen) and only when the stop really happened (kill delivered / Close or exit executed); runs in which an injection did not fire are plain runs to the end (already covered by 'after ack 4'), counted only in runs_total")
	c.Sample(map[string]interface{}{"history": []string{"0: x/a/ 31 B ttl 7200", "1: x/b/ retained (RetainedTTL -> configured 604800)", "2: x/a/ 30 KiB ttl 27200", "3: x/b/ binary payload ttl 37200"}, "queries_after_reopen": queryNames})
	c.Sample(Case{Kind: "ack", K: 2, Mode: "kill"})
	c.Sample(Case{Kind: "sys", Variant: "restart", Syscall: "unlinkat", N: 1})
	c.Sample(Case{Kind: "gsys", Variant: "fresh-close", Syscall: "ftruncate", N: 3})
	c.Sample(Case{Kind: "cycles", Stores: []int{2, 1, 1}, Modes: []string{"kill", "exit", "kill"}})
	if n := c.Count("anomalies"); n > 0 {
		c.NotExhaustive(fmt.Sprintf("%d run(s) ended in a way the harness did not expect and were not evaluated (see the anomaly samples)", n))
	}
	c.Assume("kill = process death: the kernel page cache and MAP_SHARED mappings survive; power loss / kernel crash is outside the statement (ssd.go runs badger with SyncWrites=false, which is not flagged per se)")
	c.Assume("kill instants are syscall entries (and the idle points after each ack); instants between two syscalls inside badger, e.g. between two stores into a memory-mapped file, are not separately enumerated")
	c.Assume("strace's when=N counter is per (thread, syscall name) and the signal is delivered on syscall entry (re-verified in this sandbox with a two-thread ping-pong program); goroutine-to-thread placement varies between runs, so 'all N' means: up to " + fmt.Sprint(stopAfterQuiet) + " consecutive ordinals that no longer fire")
	c.Assume("the package's own ptrace tracer (PTRACE_TRACEME + TRACECLONE, PTRACE_GET_SYSCALL_INFO, SIGKILL while the thread sits in syscall-enter-stop) is checked at the start of every run against a two-thread ping-pong program whose call order is forced: one counter across threads, the call on which the kill lands has no effect, no kill beyond the last call")
	c.Assume("acknowledged = the parent read the complete 'ACK k' line the child wrote (one write(2)) after Store returned; a message whose Store was in flight, or whose ack was not yet written, may or may not be present")
	c.Assume("ids are message.NewID + SetTime with the per-process counter/random fields overwritten by index-derived values, so that the verifier derives the same ids; the broker's own id allocation is not exercised here")
	c.Assume("the verifying process queries the two exact ssids and their common parent with an open window and limit 100, then closes cleanly, reopens and queries again (the verifications between two cycles of part (iii) do only the first round and exit without Close)")
}

var quickRestartSyscalls = []string{"openat", "ftruncate", "unlinkat", "fsync", "msync", "munmap", "write"}

const (
	quickMaxN        = 4
	quickRestartMaxN = 2
	quickGlobalMaxK  = 4
	quickSoftCap     = 75 * time.Second // quick: stop starting new ordinals after this much wall time
)

func replay(c *core.Ctx, raw json.RawMessage) {
	var oc ownCase
	if json.Unmarshal(raw, &oc) == nil && oc.Kind == "ownids" {
		if sig, what := runOwn(c, oc); sig != "" {
			c.Violate(sig, what, oc)
		}
		return
	}
	var cs Case
	if json.Unmarshal(raw, &cs) != nil {
		return
	}
	o := runCase(time.Now().Unix(), cs)
	seen := map[string]bool{}
	for _, f := range o.Failures {
		if !seen[f.Kind] {
			seen[f.Kind] = true
			c.Violate(signature(o, f), describe(o, f), cs)
		}
	}
}
