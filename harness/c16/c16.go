// Package c16: the MQTT codec agrees with MQTT 3.1.1 for every packet it handles.
//
// Bounded-exhaustive enumeration (engine E3) of packet values of all 14 packet types. Every value is
// described by a small parameter tuple (pkt); the byte contents of strings and payloads are fixed
// patterns derived from the tuple. For each value the REAL emitter codec
// (internal/network/mqtt: EncodeTo / DecodePacket) is compared with an independent MQTT 3.1.1
// implementation (github.com/eclipse/paho.mqtt.golang/packets) and with arithmetic written from the
// OASIS MQTT 3.1.1 text (remaining length per section 3.x, length encoding per section 2.2.3):
//
//	(1) emit->ref    emitter EncodeTo -> paho ReadPacket yields the field values of the tuple
//	(2) ref->decode  paho Write -> emitter DecodePacket(maxSize 65536) yields the field values of the tuple
//	(3) round-trip   emitter DecodePacket(emitter EncodeTo(v)) yields the field values of the tuple
//	(4) the remaining-length bytes the emitter writes equal the section 2.2.3 encoding (and paho's)
//	(5) encoding (and decoding of a well-formed packet) never panics; an error is acceptable for "too large"
//
// The expected field values always come from the tuple, never from the implementation under test.
//
// What is NOT asserted (false-alarm control, argued from the specification):
//   - Values the specification itself calls malformed are enumerated (both codecs accept them today) but
//     the emitter is allowed to answer them with an *error* on either path; only a panic or a silently
//     different field value is reported. These are: packet identifier 0 where an identifier is
//     required [MQTT-2.3.1-1]; DUP=1 with QoS 0 [MQTT-3.3.1-2]; fixed-header flags other than 0010 on
//     PUBREL/SUBSCRIBE/UNSUBSCRIBE [MQTT-3.6.1-1, 3.8.1-1, 3.10.1-1]; zero-length topic names/filters
//     and will topics [MQTT-4.7.3-1]; SUBSCRIBE/UNSUBSCRIBE/SUBACK without any tuple [MQTT-3.8.3-3,
//     3.10.3-2]; a zero-length client id without clean session [MQTT-3.1.3-7]; CONNACK return codes
//     above 5 and session-present together with a non-zero return code [MQTT-3.2.2-4]; the 3.1
//     protocol name/level "MQIsdp"/3 (3.1.1 requires "MQTT"/4, [MQTT-3.1.2-1/2]).
//   - paho's UnsubscribePacket.Unpack stops at the first zero-length topic filter (a non-standard
//     shortcut: the filter is illegal, but the framing is well defined). Before paho is used as a judge
//     for a value it must round-trip that value itself (paho Write -> paho ReadPacket == tuple);
//     values for which it does not are only checked with oracles (3), (4), (5) and counted.
//   - An encode *error* is accepted whenever the remaining length exceeds 65530 (the largest body the
//     repository's own Test_LargePacket pins as encodable) or the value is malformed as listed above.
//     A decode error is accepted whenever the remaining length exceeds the size limit 65536.
//   - emitter's Connack struct has no session-present field; the broker keeps no session state, so 0 is
//     the only value it may emit [MQTT-3.2.2-2/3] and the flag is not compared on the decode side.
package c16

import (
	"io"
	"bytes"
	"encoding/json"
	"fmt"
	"runtime"
	"sort"
	"strings"
	"sync"

	"github.com/eclipse/paho.mqtt.golang/packets"
	"github.com/emitter-io/emitter/internal/network/mqtt"
	"github.com/emitter-io/emitter/internal/verifx/engine/core"
	"github.com/emitter-io/emitter/internal/verifx/engine/sched"
)

func init() {
	core.Register(&core.Check{ID: "C16", Level: "exploration", Run: run, Replay: replay, Worker: schedWorker})
}

const (
	sizeLimit  = 65536 // maxMessageSize handed to DecodePacket (compared with the remaining length)
	mustEncode = 65530 // remaining lengths up to here must encode (pinned by the repository's tests)
)

// pkt is one packet value: the parameter tuple of a case (JSON-able, everything replay needs).
type pkt struct {
	T      string `json:"type"`
	Dup    bool   `json:"dup,omitempty"`
	QoS    uint8  `json:"qos,omitempty"`
	Retain bool   `json:"retain,omitempty"`
	ID     uint16 `json:"id,omitempty"`
	// CONNECT
	Proto string `json:"proto,omitempty"`
	Ver   uint8  `json:"ver,omitempty"`
	UF    bool   `json:"username_flag,omitempty"`
	PF    bool   `json:"password_flag,omitempty"`
	WF    bool   `json:"will_flag,omitempty"`
	WR    bool   `json:"will_retain,omitempty"`
	WQ    uint8  `json:"will_qos,omitempty"`
	CS    bool   `json:"clean_session,omitempty"`
	KA    uint16 `json:"keepalive,omitempty"`
	// Lens: CONNECT {clientid, willtopic, willmessage, username, password}; PUBLISH {topic, payload};
	// SUBSCRIBE/UNSUBSCRIBE one per tuple.
	Lens []int `json:"lens,omitempty"`
	// Codes: SUBSCRIBE requested QoS per tuple; SUBACK return codes.
	Codes codeList `json:"codes,omitempty"`
	// NCodes > 0: SUBACK with that many return codes following the fixed pattern 0,1,2,0x80,...
	NCodes int `json:"ncodes,omitempty"`
	// CONNACK
	RC uint8 `json:"rc,omitempty"`
	SP bool  `json:"session_present,omitempty"` // only what the reference emits; emitter cannot express it
	// Seed shifts the byte patterns (VERIF_SEED); recorded so that a replay uses the same bytes.
	Seed int64 `json:"seed,omitempty"`
}

// codeList is a []uint8 that is written as a JSON array of numbers (not base64).
type codeList []uint8

func (l codeList) MarshalJSON() ([]byte, error) {
	v := make([]int, len(l))
	for i, x := range l {
		v[i] = int(x)
	}
	return json.Marshal(v)
}

func (l *codeList) UnmarshalJSON(b []byte) error {
	var v []int
	if err := json.Unmarshal(b, &v); err != nil {
		return err
	}
	*l = nil
	for _, x := range v {
		*l = append(*l, uint8(x))
	}
	return nil
}

var typeCode = map[string]byte{"CONNECT": 1, "CONNACK": 2, "PUBLISH": 3, "PUBACK": 4, "PUBREC": 5, "PUBREL": 6, "PUBCOMP": 7,
	"SUBSCRIBE": 8, "SUBACK": 9, "UNSUBSCRIBE": 10, "UNSUBACK": 11, "PINGREQ": 12, "PINGRESP": 13, "DISCONNECT": 14}

// ---- byte patterns -------------------------------------------------------------------

// Patterns are pure functions of (kind, length, tag, seed); they are memoised because the same few
// lengths recur in every case. Neither codec writes into the slices it is handed (EncodeTo and paho's
// Write copy them), and the workers only read them.
type patKey struct {
	bin  bool
	n    int
	tag  int
	seed int64
}

var patCache sync.Map

func cached(k patKey, mk func() []byte) []byte {
	if v, ok := patCache.Load(k); ok {
		return v.([]byte)
	}
	v, _ := patCache.LoadOrStore(k, mk())
	return v.([]byte)
}

const textAlphabet = "abcdefghijklmnopqrstuvwxyz0123456789/-_ABCDEFGHIJKLMNOPQRSTUVWXYZ"

// text: a UTF-8 string field (section 1.5.3): printable ASCII, no U+0000, no wildcards. Every field uses
// a different tag so that two fields swapped by a codec never compare equal.
func text(n int, tag int, seed int64) []byte {
	return cached(patKey{false, n, tag, seed}, func() []byte { return mkText(n, tag, seed) })
}

func mkText(n int, tag int, seed int64) []byte {
	b := make([]byte, n)
	s := int(seed&0xffff) + tag*5
	for i := range b {
		b[i] = textAlphabet[(s+i*7+(i>>8))%len(textAlphabet)]
	}
	return b
}

// binary: payload / will message / password — any byte including 0x00 and 0xff.
func binary(n int, tag int, seed int64) []byte {
	return cached(patKey{true, n, tag, seed}, func() []byte { return mkBinary(n, tag, seed) })
}

func mkBinary(n int, tag int, seed int64) []byte {
	b := make([]byte, n)
	s := int(seed&0xffff) + tag*31
	for i := range b {
		b[i] = byte(s + i*7 + (i >> 8))
	}
	if n > 0 {
		b[n-1] = 0xff
	}
	if n > 1 {
		b[0] = 0x00
	}
	return b
}

var codePattern = []uint8{0, 1, 2, 0x80}

func (p *pkt) codes() []uint8 {
	if p.NCodes > 0 {
		b := make([]uint8, p.NCodes)
		for i := range b {
			b[i] = codePattern[(i+i/4)%4]
		}
		return b
	}
	return p.Codes
}

func (p *pkt) strs() [][]byte {
	out := make([][]byte, len(p.Lens))
	for i, n := range p.Lens {
		bin := false
		switch p.T {
		case "CONNECT":
			bin = i == 2 || i == 4
		case "PUBLISH":
			bin = i == 1
		}
		if bin {
			out[i] = binary(n, i+1, p.Seed)
		} else {
			out[i] = text(n, i+1, p.Seed)
		}
	}
	return out
}

// ---- reference arithmetic from the specification ---------------------------------------

// remaining computes the remaining length of the value from sections 3.1-3.14.
func (p *pkt) remaining() int {
	sum := func(per int) int {
		n := 0
		for _, l := range p.Lens {
			n += per + l
		}
		return n
	}
	switch p.T {
	case "CONNECT":
		n := 2 + len(p.Proto) + 1 + 1 + 2 + 2 + p.Lens[0]
		if p.WF {
			n += 2 + p.Lens[1] + 2 + p.Lens[2]
		}
		if p.UF {
			n += 2 + p.Lens[3]
		}
		if p.PF {
			n += 2 + p.Lens[4]
		}
		return n
	case "PUBLISH":
		n := 2 + p.Lens[0] + p.Lens[1]
		if p.QoS > 0 {
			n += 2
		}
		return n
	case "SUBSCRIBE":
		return 2 + sum(3)
	case "UNSUBSCRIBE":
		return 2 + sum(2)
	case "SUBACK":
		return 2 + len(p.codes())
	case "PINGREQ", "PINGRESP", "DISCONNECT":
		return 0
	}
	return 2
}

// specLength is the algorithm of section 2.2.3 ("do ... while (X > 0)").
func specLength(x int) []byte {
	var out []byte
	for {
		d := byte(x % 128)
		x /= 128
		if x > 0 {
			d |= 128
		}
		out = append(out, d)
		if x == 0 {
			return out
		}
	}
}

// wellFormed: the value is legal MQTT 3.1.1 (see the package comment for the clauses).
func (p *pkt) wellFormed() bool {
	anyEmpty := func() bool {
		for _, l := range p.Lens {
			if l == 0 {
				return true
			}
		}
		return false
	}
	switch p.T {
	case "CONNECT":
		if p.Proto != "MQTT" || p.Ver != 4 {
			return false
		}
		if p.Lens[0] == 0 && !p.CS {
			return false
		}
		if p.WF && p.Lens[1] == 0 {
			return false
		}
		return true
	case "CONNACK":
		return p.RC <= 5 && !(p.SP && p.RC != 0)
	case "PUBLISH":
		if p.Lens[0] == 0 || (p.QoS == 0 && p.Dup) || (p.QoS > 0 && p.ID == 0) {
			return false
		}
		return true
	case "PUBREL":
		return !p.Dup && p.QoS == 1 && !p.Retain && p.ID != 0
	case "SUBSCRIBE", "UNSUBSCRIBE":
		return !p.Dup && p.QoS == 1 && !p.Retain && p.ID != 0 && len(p.Lens) > 0 && !anyEmpty()
	case "SUBACK":
		return p.ID != 0 && len(p.codes()) > 0
	case "PUBACK", "PUBREC", "PUBCOMP", "UNSUBACK":
		return p.ID != 0
	}
	return true
}

func lenClass(r int) string {
	switch {
	case r <= 127:
		return "len<=127"
	case r <= 16383:
		return "len<=16383"
	case r <= mustEncode:
		return "len<=65530"
	case r <= sizeLimit:
		return "len>=65531"
	}
	return "len>65536"
}

// ---- field lists -----------------------------------------------------------------------

type field struct {
	name string // e.g. "Topic[1]"
	isB  bool
	u    uint64
	b    []byte
}

type fields []field

func (f *fields) num(name string, v uint64) { *f = append(*f, field{name: name, u: v}) }
func (f *fields) flag(name string, v bool) {
	if v {
		f.num(name, 1)
	} else {
		f.num(name, 0)
	}
}
func (f *fields) bytes(name string, v []byte) { *f = append(*f, field{name: name, isB: true, b: v}) }

func sigName(n string) string {
	if i := strings.IndexByte(n, '['); i >= 0 {
		return n[:i]
	}
	return n
}

// want lists every field value of the tuple under the names of the emitter structs; the fixed header
// flags are listed for every type (0 where the specification reserves them, [MQTT-2.2.2-1]).
func want(p *pkt) fields {
	var f fields
	s := p.strs()
	switch p.T {
	case "PUBLISH", "PUBREL", "SUBSCRIBE", "UNSUBSCRIBE":
		f.flag("DUP", p.Dup)
		f.num("QOS", uint64(p.QoS))
		f.flag("Retain", p.Retain)
	default:
		f.num("DUP", 0)
		f.num("QOS", 0)
		f.num("Retain", 0)
	}
	switch p.T {
	case "CONNECT":
		f.bytes("ProtoName", []byte(p.Proto))
		f.num("Version", uint64(p.Ver))
		f.flag("UsernameFlag", p.UF)
		f.flag("PasswordFlag", p.PF)
		f.flag("WillRetainFlag", p.WR)
		f.num("WillQOS", uint64(p.WQ))
		f.flag("WillFlag", p.WF)
		f.flag("CleanSeshFlag", p.CS)
		f.num("Reserved", 0) // [MQTT-3.1.2-3]
		f.num("KeepAlive", uint64(p.KA))
		f.bytes("ClientID", s[0])
		var wt, wm, us, pw []byte
		if p.WF {
			wt, wm = s[1], s[2]
		}
		if p.UF {
			us = s[3]
		}
		if p.PF {
			pw = s[4]
		}
		f.bytes("WillTopic", wt)
		f.bytes("WillMessage", wm)
		f.bytes("Username", us)
		f.bytes("Password", pw)
	case "CONNACK":
		f.num("ReturnCode", uint64(p.RC))
	case "PUBLISH":
		f.bytes("Topic", s[0])
		if p.QoS > 0 {
			f.num("MessageID", uint64(p.ID))
		} else {
			f.num("MessageID", 0) // no identifier on the wire [MQTT-2.3.1-5]
		}
		f.bytes("Payload", s[1])
	case "PUBACK", "PUBREC", "PUBREL", "PUBCOMP", "UNSUBACK":
		f.num("MessageID", uint64(p.ID))
	case "SUBSCRIBE":
		f.num("MessageID", uint64(p.ID))
		f.num("Count", uint64(len(s)))
		for i := range s {
			f.bytes(fmt.Sprintf("Topic[%d]", i), s[i])
			f.num(fmt.Sprintf("Qos[%d]", i), uint64(p.Codes[i]))
		}
	case "UNSUBSCRIBE":
		f.num("MessageID", uint64(p.ID))
		f.num("Count", uint64(len(s)))
		for i := range s {
			f.bytes(fmt.Sprintf("Topic[%d]", i), s[i])
		}
	case "SUBACK":
		f.num("MessageID", uint64(p.ID))
		f.bytes("Qos", p.codes())
	}
	return f
}

func b2u(b bool) uint64 {
	if b {
		return 1
	}
	return 0
}

// fromEmitter lists the fields of a decoded emitter packet.
func fromEmitter(m mqtt.Message) (string, fields) {
	var f fields
	hdr := func(h mqtt.Header) {
		f.flag("DUP", h.DUP)
		f.num("QOS", uint64(h.QOS))
		f.flag("Retain", h.Retain)
	}
	switch v := m.(type) {
	case *mqtt.Connect:
		f.bytes("ProtoName", v.ProtoName)
		f.num("Version", uint64(v.Version))
		f.flag("UsernameFlag", v.UsernameFlag)
		f.flag("PasswordFlag", v.PasswordFlag)
		f.flag("WillRetainFlag", v.WillRetainFlag)
		f.num("WillQOS", uint64(v.WillQOS))
		f.flag("WillFlag", v.WillFlag)
		f.flag("CleanSeshFlag", v.CleanSeshFlag)
		f.num("KeepAlive", uint64(v.KeepAlive))
		f.bytes("ClientID", v.ClientID)
		f.bytes("WillTopic", v.WillTopic)
		f.bytes("WillMessage", v.WillMessage)
		f.bytes("Username", v.Username)
		f.bytes("Password", v.Password)
		return "CONNECT", f
	case *mqtt.Connack:
		f.num("ReturnCode", uint64(v.ReturnCode))
		return "CONNACK", f
	case *mqtt.Publish:
		hdr(v.Header)
		f.bytes("Topic", v.Topic)
		f.num("MessageID", uint64(v.MessageID))
		f.bytes("Payload", v.Payload)
		return "PUBLISH", f
	case *mqtt.Puback:
		f.num("MessageID", uint64(v.MessageID))
		return "PUBACK", f
	case *mqtt.Pubrec:
		f.num("MessageID", uint64(v.MessageID))
		return "PUBREC", f
	case *mqtt.Pubrel:
		hdr(v.Header)
		f.num("MessageID", uint64(v.MessageID))
		return "PUBREL", f
	case *mqtt.Pubcomp:
		f.num("MessageID", uint64(v.MessageID))
		return "PUBCOMP", f
	case *mqtt.Subscribe:
		hdr(v.Header)
		f.num("MessageID", uint64(v.MessageID))
		f.num("Count", uint64(len(v.Subscriptions)))
		for i, t := range v.Subscriptions {
			f.bytes(fmt.Sprintf("Topic[%d]", i), t.Topic)
			f.num(fmt.Sprintf("Qos[%d]", i), uint64(t.Qos))
		}
		return "SUBSCRIBE", f
	case *mqtt.Suback:
		f.num("MessageID", uint64(v.MessageID))
		f.bytes("Qos", v.Qos)
		return "SUBACK", f
	case *mqtt.Unsubscribe:
		hdr(v.Header)
		f.num("MessageID", uint64(v.MessageID))
		f.num("Count", uint64(len(v.Topics)))
		for i, t := range v.Topics {
			f.bytes(fmt.Sprintf("Topic[%d]", i), t.Topic)
		}
		return "UNSUBSCRIBE", f
	case *mqtt.Unsuback:
		f.num("MessageID", uint64(v.MessageID))
		return "UNSUBACK", f
	case *mqtt.Pingreq:
		return "PINGREQ", f
	case *mqtt.Pingresp:
		return "PINGRESP", f
	case *mqtt.Disconnect:
		return "DISCONNECT", f
	}
	return fmt.Sprintf("%T", m), f
}

// fromPaho lists the fields of a decoded reference packet under the emitter's names.
func fromPaho(cp packets.ControlPacket) (string, fields) {
	var f fields
	hdr := func(h packets.FixedHeader) {
		f.flag("DUP", h.Dup)
		f.num("QOS", uint64(h.Qos))
		f.flag("Retain", h.Retain)
	}
	switch v := cp.(type) {
	case *packets.ConnectPacket:
		hdr(v.FixedHeader)
		f.bytes("ProtoName", []byte(v.ProtocolName))
		f.num("Version", uint64(v.ProtocolVersion))
		f.flag("UsernameFlag", v.UsernameFlag)
		f.flag("PasswordFlag", v.PasswordFlag)
		f.flag("WillRetainFlag", v.WillRetain)
		f.num("WillQOS", uint64(v.WillQos))
		f.flag("WillFlag", v.WillFlag)
		f.flag("CleanSeshFlag", v.CleanSession)
		f.num("Reserved", uint64(v.ReservedBit))
		f.num("KeepAlive", uint64(v.Keepalive))
		f.bytes("ClientID", []byte(v.ClientIdentifier))
		f.bytes("WillTopic", []byte(v.WillTopic))
		f.bytes("WillMessage", v.WillMessage)
		f.bytes("Username", []byte(v.Username))
		f.bytes("Password", v.Password)
		return "CONNECT", f
	case *packets.ConnackPacket:
		hdr(v.FixedHeader)
		f.num("ReturnCode", uint64(v.ReturnCode))
		f.flag("SessionPresent", v.SessionPresent)
		return "CONNACK", f
	case *packets.PublishPacket:
		hdr(v.FixedHeader)
		f.bytes("Topic", []byte(v.TopicName))
		f.num("MessageID", uint64(v.MessageID))
		f.bytes("Payload", v.Payload)
		return "PUBLISH", f
	case *packets.PubackPacket:
		hdr(v.FixedHeader)
		f.num("MessageID", uint64(v.MessageID))
		return "PUBACK", f
	case *packets.PubrecPacket:
		hdr(v.FixedHeader)
		f.num("MessageID", uint64(v.MessageID))
		return "PUBREC", f
	case *packets.PubrelPacket:
		hdr(v.FixedHeader)
		f.num("MessageID", uint64(v.MessageID))
		return "PUBREL", f
	case *packets.PubcompPacket:
		hdr(v.FixedHeader)
		f.num("MessageID", uint64(v.MessageID))
		return "PUBCOMP", f
	case *packets.SubscribePacket:
		hdr(v.FixedHeader)
		f.num("MessageID", uint64(v.MessageID))
		f.num("Count", uint64(len(v.Topics)))
		for i, t := range v.Topics {
			f.bytes(fmt.Sprintf("Topic[%d]", i), []byte(t))
			q := uint64(255)
			if i < len(v.Qoss) {
				q = uint64(v.Qoss[i])
			}
			f.num(fmt.Sprintf("Qos[%d]", i), q)
		}
		return "SUBSCRIBE", f
	case *packets.SubackPacket:
		hdr(v.FixedHeader)
		f.num("MessageID", uint64(v.MessageID))
		f.bytes("Qos", v.ReturnCodes)
		return "SUBACK", f
	case *packets.UnsubscribePacket:
		hdr(v.FixedHeader)
		f.num("MessageID", uint64(v.MessageID))
		f.num("Count", uint64(len(v.Topics)))
		for i, t := range v.Topics {
			f.bytes(fmt.Sprintf("Topic[%d]", i), []byte(t))
		}
		return "UNSUBSCRIBE", f
	case *packets.UnsubackPacket:
		hdr(v.FixedHeader)
		f.num("MessageID", uint64(v.MessageID))
		return "UNSUBACK", f
	case *packets.PingreqPacket:
		hdr(v.FixedHeader)
		return "PINGREQ", f
	case *packets.PingrespPacket:
		hdr(v.FixedHeader)
		return "PINGRESP", f
	case *packets.DisconnectPacket:
		hdr(v.FixedHeader)
		return "DISCONNECT", f
	}
	return fmt.Sprintf("%T", cp), f
}

type mismatch struct {
	field string // signature name
	what  string
	empty bool // a byte field that was expected to be empty
	isB   bool
}

// diff compares the decoded fields with the expected ones. Every decoded field must be an expected
// one (a name unknown to want() is a harness error and panics loudly).
func diff(wantT string, w fields, gotT string, g fields, override map[string]uint64) []mismatch {
	var out []mismatch
	if wantT != gotT {
		return []mismatch{{field: "Type", what: fmt.Sprintf("packet type %s decoded as %s", wantT, gotT)}}
	}
	idx := make(map[string]*field, len(w))
	for i := range w {
		idx[w[i].name] = &w[i]
	}
	seen := map[string]bool{}
	for _, gf := range g {
		if ov, ok := override[gf.name]; ok {
			if gf.u != ov && !seen[gf.name] {
				seen[gf.name] = true
				out = append(out, mismatch{field: gf.name, what: fmt.Sprintf("%s: expected %d, got %d", gf.name, ov, gf.u)})
			}
			continue
		}
		wf := idx[gf.name]
		sn := sigName(gf.name)
		if wf == nil {
			// an element beyond the expected count: already reported through Count
			if strings.IndexByte(gf.name, '[') >= 0 {
				continue
			}
			panic("c16 harness: field " + gf.name + " not listed by want()")
		}
		if gf.isB {
			if !bytes.Equal(wf.b, gf.b) { // nil == empty
				if !seen[sn] {
					seen[sn] = true
					out = append(out, mismatch{field: sn, isB: true, empty: len(wf.b) == 0,
						what: fmt.Sprintf("%s: expected %d bytes, got %d bytes (first difference at offset %d)", gf.name, len(wf.b), len(gf.b), firstDiff(wf.b, gf.b))})
				}
			}
		} else if wf.u != gf.u {
			if !seen[sn] {
				seen[sn] = true
				out = append(out, mismatch{field: sn, what: fmt.Sprintf("%s: expected %d, got %d", gf.name, wf.u, gf.u)})
			}
		}
	}
	return out
}

func firstDiff(a, b []byte) int {
	n := len(a)
	if len(b) < n {
		n = len(b)
	}
	for i := 0; i < n; i++ {
		if a[i] != b[i] {
			return i
		}
	}
	return n
}

// ---- builders --------------------------------------------------------------------------

func buildEmitter(p *pkt) mqtt.Message {
	s := p.strs()
	h := mqtt.Header{DUP: p.Dup, QOS: p.QoS, Retain: p.Retain}
	switch p.T {
	case "CONNECT":
		c := &mqtt.Connect{ProtoName: []byte(p.Proto), Version: p.Ver, UsernameFlag: p.UF, PasswordFlag: p.PF,
			WillRetainFlag: p.WR, WillQOS: p.WQ, WillFlag: p.WF, CleanSeshFlag: p.CS, KeepAlive: p.KA, ClientID: s[0]}
		if p.WF {
			c.WillTopic, c.WillMessage = s[1], s[2]
		}
		if p.UF {
			c.Username = s[3]
		}
		if p.PF {
			c.Password = s[4]
		}
		return c
	case "CONNACK":
		return &mqtt.Connack{ReturnCode: p.RC}
	case "PUBLISH":
		id := p.ID
		if p.QoS == 0 {
			id = 0
		}
		return &mqtt.Publish{Header: h, Topic: s[0], MessageID: id, Payload: s[1]}
	case "PUBACK":
		return &mqtt.Puback{MessageID: p.ID}
	case "PUBREC":
		return &mqtt.Pubrec{MessageID: p.ID}
	case "PUBREL":
		return &mqtt.Pubrel{MessageID: p.ID, Header: h}
	case "PUBCOMP":
		return &mqtt.Pubcomp{MessageID: p.ID}
	case "SUBSCRIBE":
		m := &mqtt.Subscribe{Header: h, MessageID: p.ID}
		for i := range s {
			m.Subscriptions = append(m.Subscriptions, mqtt.TopicQOSTuple{Topic: s[i], Qos: p.Codes[i]})
		}
		return m
	case "SUBACK":
		return &mqtt.Suback{MessageID: p.ID, Qos: p.codes()}
	case "UNSUBSCRIBE":
		m := &mqtt.Unsubscribe{Header: h, MessageID: p.ID}
		for i := range s {
			m.Topics = append(m.Topics, mqtt.TopicQOSTuple{Topic: s[i]})
		}
		return m
	case "UNSUBACK":
		return &mqtt.Unsuback{MessageID: p.ID}
	case "PINGREQ":
		return &mqtt.Pingreq{}
	case "PINGRESP":
		return &mqtt.Pingresp{}
	case "DISCONNECT":
		return &mqtt.Disconnect{}
	}
	panic("c16 harness: unknown type " + p.T)
}

func buildPaho(p *pkt) packets.ControlPacket {
	s := p.strs()
	fh := packets.FixedHeader{MessageType: typeCode[p.T]}
	switch p.T {
	case "PUBLISH", "PUBREL", "SUBSCRIBE", "UNSUBSCRIBE":
		fh.Dup, fh.Qos, fh.Retain = p.Dup, p.QoS, p.Retain
	}
	switch p.T {
	case "CONNECT":
		c := &packets.ConnectPacket{FixedHeader: fh, ProtocolName: p.Proto, ProtocolVersion: p.Ver, CleanSession: p.CS,
			WillFlag: p.WF, WillQos: p.WQ, WillRetain: p.WR, UsernameFlag: p.UF, PasswordFlag: p.PF, Keepalive: p.KA,
			ClientIdentifier: string(s[0])}
		if p.WF {
			c.WillTopic, c.WillMessage = string(s[1]), s[2]
		}
		if p.UF {
			c.Username = string(s[3])
		}
		if p.PF {
			c.Password = s[4]
		}
		return c
	case "CONNACK":
		return &packets.ConnackPacket{FixedHeader: fh, ReturnCode: p.RC, SessionPresent: p.SP}
	case "PUBLISH":
		id := p.ID
		if p.QoS == 0 {
			id = 0
		}
		return &packets.PublishPacket{FixedHeader: fh, TopicName: string(s[0]), MessageID: id, Payload: s[1]}
	case "PUBACK":
		return &packets.PubackPacket{FixedHeader: fh, MessageID: p.ID}
	case "PUBREC":
		return &packets.PubrecPacket{FixedHeader: fh, MessageID: p.ID}
	case "PUBREL":
		return &packets.PubrelPacket{FixedHeader: fh, MessageID: p.ID}
	case "PUBCOMP":
		return &packets.PubcompPacket{FixedHeader: fh, MessageID: p.ID}
	case "SUBSCRIBE":
		m := &packets.SubscribePacket{FixedHeader: fh, MessageID: p.ID}
		for i := range s {
			m.Topics = append(m.Topics, string(s[i]))
			m.Qoss = append(m.Qoss, p.Codes[i])
		}
		return m
	case "SUBACK":
		return &packets.SubackPacket{FixedHeader: fh, MessageID: p.ID, ReturnCodes: p.codes()}
	case "UNSUBSCRIBE":
		m := &packets.UnsubscribePacket{FixedHeader: fh, MessageID: p.ID}
		for i := range s {
			m.Topics = append(m.Topics, string(s[i]))
		}
		return m
	case "UNSUBACK":
		return &packets.UnsubackPacket{FixedHeader: fh, MessageID: p.ID}
	case "PINGREQ":
		return &packets.PingreqPacket{FixedHeader: fh}
	case "PINGRESP":
		return &packets.PingrespPacket{FixedHeader: fh}
	case "DISCONNECT":
		return &packets.DisconnectPacket{FixedHeader: fh}
	}
	panic("c16 harness: unknown type " + p.T)
}

// ---- one case --------------------------------------------------------------------------

type viol struct{ sig, what string }

type outcome struct {
	viols      []viol
	refOK      bool
	encoded    bool
	encErr     bool
	decTooBig  bool
	compares   int
	hdrChecked bool
}

func safely(f func()) (panicked string) {
	defer func() {
		if r := recover(); r != nil {
			panicked = fmt.Sprint(r)
			if len(panicked) > 120 {
				panicked = panicked[:120]
			}
		}
	}()
	f()
	return ""
}

// splitHeader returns the remaining-length bytes of an encoded packet and the total header size.
func splitHeader(b []byte) (lenBytes []byte, hdr int, ok bool) {
	for i := 1; i < len(b) && i <= 4; i++ {
		if b[i]&0x80 == 0 {
			return b[1 : i+1], i + 1, true
		}
	}
	return nil, 0, false
}

func fieldSig(p *pkt, dir string, m mismatch, lc string) string {
	s := p.T + ":" + dir + ":" + m.field
	if m.isB {
		if m.empty {
			s += ":empty"
		}
		s += ":" + lc
	}
	return s
}

// evaluate runs every oracle on one packet value against the real codec.
// dirtyPacket: a PUBLISH whose every variable byte is 0xFF, large enough to cover the header and body area of most
// packets in the pooled encode buffer.
var dirtyPacket = &mqtt.Publish{Header: mqtt.Header{DUP: true, QOS: 2, Retain: true}, MessageID: 0xFFFF,
	Topic: bytes.Repeat([]byte{0xFF}, 300), Payload: bytes.Repeat([]byte{0xFF}, 600)}

func evaluate(p *pkt) outcome {
	var o outcome
	add := func(sig, what string) { o.viols = append(o.viols, viol{sig, what}) }
	r := p.remaining()
	lc := lenClass(r)
	wf := p.wellFormed()
	w := want(p)
	specLen := specLength(r)

	// -- the reference must handle the value itself before it is used as a judge
	var refBytes []byte
	{
		var buf bytes.Buffer
		var err error
		var back packets.ControlPacket
		pan := safely(func() {
			err = buildPaho(p).Write(&buf)
			if err == nil {
				back, err = packets.ReadPacket(bytes.NewReader(buf.Bytes()))
			}
		})
		if pan == "" && err == nil && back != nil {
			t, g := fromPaho(back)
			ov := map[string]uint64{"SessionPresent": b2u(p.SP)}
			lb, hdr, ok := splitHeader(buf.Bytes())
			if len(diff(p.T, w, t, g, ov)) == 0 && ok && bytes.Equal(lb, specLen) && buf.Len() == hdr+r {
				o.refOK = true
				refBytes = buf.Bytes()
			}
		}
	}

	decode := func(dir string, wire []byte) {
		var m mqtt.Message
		var err error
		rd := bytes.NewReader(wire)
		if pan := safely(func() { m, err = mqtt.DecodePacket(rd, sizeLimit) }); pan != "" {
			add(p.T+":panic:decode:"+dir+":"+lc, fmt.Sprintf("DecodePacket panicked on a %d-byte packet (remaining length %d): %s", len(wire), r, pan))
			return
		}
		if r > sizeLimit {
			o.decTooBig = true // beyond the size limit: any non-panicking answer is acceptable
			return
		}
		if err != nil || m == nil {
			if wf {
				add(p.T+":"+dir+":error:"+lc, fmt.Sprintf("DecodePacket rejected a well-formed packet within the size limit (remaining length %d): %v", r, err))
			}
			return
		}
		o.compares++
		t, g := fromEmitter(m)
		for _, mm := range diff(p.T, w, t, g, nil) {
			add(fieldSig(p, dir, mm, lc), "emitter decoded "+mm.what)
		}
		if rd.Len() != 0 {
			add(p.T+":"+dir+":Consumed:"+lc, fmt.Sprintf("DecodePacket left %d of %d bytes unread", rd.Len(), len(wire)))
		}
	}

	// -- emitter encodes
	var wire bytes.Buffer
	var err error
	// what the encoder reuses (its pooled buffer) is first filled with bytes no correct packet leaves in place: an
	// encoder that skips writing a byte would emit the leftover
	safely(func() { dirtyPacket.EncodeTo(io.Discard) })
	if pan := safely(func() { _, err = buildEmitter(p).EncodeTo(&wire) }); pan != "" {
		add(p.T+":panic:"+lc, fmt.Sprintf("EncodeTo panicked (remaining length %d, whole packet %d bytes): %s", r, 1+len(specLen)+r, pan))
	} else if err != nil {
		o.encErr = true
		if wf && r <= mustEncode {
			add(p.T+":emit→ref:error:"+lc, fmt.Sprintf("EncodeTo refused a well-formed packet of remaining length %d: %v", r, err))
		}
	} else {
		o.encoded = true
		b := wire.Bytes()
		lb, hdr, ok := splitHeader(b)
		// (4) remaining-length bytes / framing
		o.hdrChecked = true
		if !ok || !bytes.Equal(lb, specLen) {
			add(p.T+":emit→ref:RemainingLength:"+lc, fmt.Sprintf("remaining length %d encoded as % x, MQTT 3.1.1 section 2.2.3 gives % x", r, lb, specLen))
		} else if len(b) != hdr+r {
			add(p.T+":emit→ref:RemainingLength:"+lc, fmt.Sprintf("fixed header announces %d bytes, %d follow", r, len(b)-hdr))
		} else if o.refOK && !bytes.Equal(lb, refBytes[1:1+len(lb)]) {
			add(p.T+":emit→ref:RemainingLength:"+lc, "remaining-length bytes differ from the reference encoder's")
		}
		// (1) emit -> ref
		if o.refOK {
			var cp packets.ControlPacket
			var rerr error
			if pan := safely(func() { cp, rerr = packets.ReadPacket(bytes.NewReader(b)) }); pan != "" || rerr != nil || cp == nil {
				add(p.T+":emit→ref:error:"+lc, fmt.Sprintf("reference cannot read what EncodeTo wrote (remaining length %d): %v %s", r, rerr, pan))
			} else {
				o.compares++
				t, g := fromPaho(cp)
				// emitter's Connack cannot carry session-present: 0 is the only correct emission
				for _, mm := range diff(p.T, w, t, g, map[string]uint64{"SessionPresent": 0}) {
					add(fieldSig(p, "emit→ref", mm, lc), "reference decoded "+mm.what)
				}
			}
		}
		// (3) decode . encode = identity
		decode("round-trip", b)
	}

	// (2) ref -> decode
	if o.refOK {
		decode("ref→decode", refBytes)
	}
	return o
}

// ---- enumeration -----------------------------------------------------------------------

var (
	baseLens = []int{0, 1, 127, 128, 16383, 16384}
	// remaining-length targets reached exactly by a filler field: the 1/2/3-byte boundaries, the whole
	// packet at 65530 / 65535 / 65536 bytes (remaining 65526 / 65531 / 65532), the pooled buffer's body
	// capacity (65530), and the size limit 65536 with its neighbours.
	fillTargets = []int{127, 128, 16383, 16384, 65526, 65530, 65531, 65532, 65535, 65536, 65537}
	msgIDs      = []uint16{0, 1, 256, 65535}
	keepAlives  = []uint16{0, 1, 65535}
)

type hdr struct {
	dup    bool
	qos    uint8
	retain bool
}

func allHeaders() []hdr {
	var out []hdr
	for _, q := range []uint8{0, 1, 2} {
		for _, d := range []bool{false, true} {
			for _, rt := range []bool{false, true} {
				out = append(out, hdr{d, q, rt})
			}
		}
	}
	return out
}

// tuples enumerates every list of n in [0,max] (len, code) pairs.
func tuples(max int, lens []int, codes []uint8, f func(l []int, c []uint8)) {
	var rec func(n int, l []int, c []uint8)
	rec = func(n int, l []int, c []uint8) {
		if n == 0 {
			f(append([]int(nil), l...), append([]uint8(nil), c...))
			return
		}
		for _, x := range lens {
			for _, y := range codes {
				rec(n-1, append(l, x), append(c, y))
			}
		}
	}
	for n := 0; n <= max; n++ {
		rec(n, nil, nil)
	}
}

// generate emits every case in a fixed order, simplest packet types first.
func generate(quick bool, seed int64, emit func(p pkt)) {
	out := func(p pkt) { p.Seed = seed; emit(p) }

	// zero-length packets
	for _, t := range []string{"PINGREQ", "PINGRESP", "DISCONNECT"} {
		out(pkt{T: t})
	}
	// identifier-only packets
	for _, t := range []string{"PUBACK", "PUBREC", "PUBCOMP", "UNSUBACK"} {
		for _, id := range msgIDs {
			out(pkt{T: t, ID: id})
		}
	}
	for _, h := range allHeaders() {
		for _, id := range msgIDs {
			out(pkt{T: "PUBREL", Dup: h.dup, QoS: h.qos, Retain: h.retain, ID: id})
		}
	}
	// CONNACK: every return code x session present (reference side only)
	for rc := 0; rc < 256; rc++ {
		for _, sp := range []bool{false, true} {
			out(pkt{T: "CONNACK", RC: uint8(rc), SP: sp})
		}
	}
	// SUBACK
	for _, id := range msgIDs {
		tuples(3, []int{0}, codePattern, func(_ []int, c []uint8) { out(pkt{T: "SUBACK", ID: id, Codes: c}) })
	}
	for _, target := range fillTargets {
		for _, id := range []uint16{1, 65535} {
			out(pkt{T: "SUBACK", ID: id, NCodes: target - 2})
		}
	}

	// PUBLISH
	pubHeaders := allHeaders()
	idsFor := func(q uint8) []uint16 {
		if q == 0 {
			return []uint16{0}
		}
		return msgIDs
	}
	for _, h := range pubHeaders {
		for _, id := range idsFor(h.qos) {
			base := pkt{T: "PUBLISH", Dup: h.dup, QoS: h.qos, Retain: h.retain, ID: id}
			for _, tl := range append(append([]int(nil), baseLens...), 65535) {
				for _, pl := range baseLens {
					p := base
					p.Lens = []int{tl, pl}
					out(p)
				}
			}
			over := 2
			if h.qos > 0 {
				over = 4
			}
			for _, target := range fillTargets {
				for _, tl := range []int{0, 1, 127} { // payload fills
					if pl := target - over - tl; pl >= 0 {
						p := base
						p.Lens = []int{tl, pl}
						out(p)
					}
				}
				for _, pl := range []int{0, 1} { // topic fills
					if tl := target - over - pl; tl >= 0 && tl <= 65535 {
						p := base
						p.Lens = []int{tl, pl}
						out(p)
					}
				}
			}
		}
	}

	// SUBSCRIBE / UNSUBSCRIBE
	std := hdr{false, 1, false}
	for _, t := range []string{"SUBSCRIBE", "UNSUBSCRIBE"} {
		per := 3
		codes := []uint8{0, 1, 2}
		if t == "UNSUBSCRIBE" {
			per = 2
			codes = []uint8{0}
		}
		mk := func(h hdr, id uint16, l []int, c []uint8) pkt {
			p := pkt{T: t, Dup: h.dup, QoS: h.qos, Retain: h.retain, ID: id, Lens: l}
			if t == "SUBSCRIBE" {
				p.Codes = c
			}
			return p
		}
		// the fixed-header flags the specification mandates: full product
		for _, id := range msgIDs {
			tuples(3, baseLens, codes, func(l []int, c []uint8) { out(mk(std, id, l, c)) })
		}
		// other flag values (malformed by the specification, accepted by both codecs): reduced product
		for _, h := range allHeaders() {
			if h == std {
				continue
			}
			tuples(2, []int{1, 128}, codes, func(l []int, c []uint8) { out(mk(h, 1, l, c)) })
		}
		// fillers: the last tuple reaches the target, the others have one-byte filters
		for _, target := range fillTargets {
			for n := 1; n <= 3; n++ {
				fl := target - 2 - (n-1)*(per+1) - per
				if fl < 0 || fl > 65535 {
					continue
				}
				l := make([]int, n)
				c := make([]uint8, n)
				for i := range l {
					l[i], c[i] = 1, uint8(i%3)
				}
				l[n-1] = fl
				if t == "UNSUBSCRIBE" {
					c = nil
				}
				for _, id := range []uint16{1, 65535} {
					out(mk(std, id, l, c))
				}
			}
		}
	}

	// CONNECT: every flag combination the specification allows
	type wl struct {
		wf, wr bool
		wq     uint8
	}
	wills := []wl{{false, false, 0}}
	for _, q := range []uint8{0, 1, 2} {
		for _, rt := range []bool{false, true} {
			wills = append(wills, wl{true, rt, q})
		}
	}
	type up struct{ uf, pf bool }
	ups := []up{{false, false}, {true, false}, {true, true}}
	connect := func(w wl, u up, cs bool, ka uint16, lens []int) pkt {
		return pkt{T: "CONNECT", Proto: "MQTT", Ver: 4, UF: u.uf, PF: u.pf, WF: w.wf, WR: w.wr, WQ: w.wq, CS: cs, KA: ka, Lens: lens}
	}
	present := func(w wl, u up) []int { // indices of the length slots that are on the wire
		idx := []int{0}
		if w.wf {
			idx = append(idx, 1, 2)
		}
		if u.uf {
			idx = append(idx, 3)
		}
		if u.pf {
			idx = append(idx, 4)
		}
		return idx
	}
	for _, w := range wills {
		for _, u := range ups {
			idx := present(w, u)
			for _, cs := range []bool{true, false} {
				for _, ka := range keepAlives {
					if quick {
						// quick bound: each present field walks the length list while the others hold 1,
						// plus all fields equal
						for _, l := range baseLens {
							lens := make([]int, 5)
							for _, i := range idx {
								lens[i] = l
							}
							out(connect(w, u, cs, ka, lens))
						}
						for _, k := range idx {
							for _, l := range baseLens {
								if l == 1 {
									continue
								}
								lens := make([]int, 5)
								for _, i := range idx {
									lens[i] = 1
								}
								lens[k] = l
								out(connect(w, u, cs, ka, lens))
							}
						}
						continue
					}
					// thorough bound: full product of the length list over the present fields
					var rec func(pos int, lens []int)
					rec = func(pos int, lens []int) {
						if pos == len(idx) {
							out(connect(w, u, cs, ka, append([]int(nil), lens...)))
							return
						}
						for _, l := range baseLens {
							lens[idx[pos]] = l
							rec(pos+1, lens)
						}
						lens[idx[pos]] = 0
					}
					rec(0, make([]int, 5))
				}
			}
			// fillers: each present field in turn reaches the target, the others hold `other` bytes
			for _, target := range fillTargets {
				for _, other := range []int{1, 0} {
					for _, k := range idx {
						lens := make([]int, 5)
						for _, i := range idx {
							lens[i] = other
						}
						p := connect(w, u, true, 1, lens)
						fl := target - (p.remaining() - other)
						if fl < 0 || fl > 65535 {
							continue
						}
						p.Lens[k] = fl
						out(p)
					}
				}
			}
			// the 3.1 protocol name/level (not 3.1.1): transported unchanged or rejected
			lens := make([]int, 5)
			for _, i := range idx {
				lens[i] = 1
			}
			p := connect(w, u, true, 1, lens)
			p.Proto, p.Ver = "MQIsdp", 3
			out(p)
		}
	}
}

// ---- driver ----------------------------------------------------------------------------

type job struct {
	idx int
	p   pkt
}

type sigAgg struct {
	minIdx int // rank: well-formed values first, then enumeration order
	what   string
	p      pkt
	count  int
}

func key(p *pkt) string {
	return fmt.Sprintf("%s|%v%d%v|%d|%s%d|%v%v%v%v%d%v|%d|%v|%v|%d|%d%v", p.T, p.Dup, p.QoS, p.Retain, p.ID, p.Proto, p.Ver,
		p.UF, p.PF, p.WF, p.WR, p.WQ, p.CS, p.KA, p.Lens, p.Codes, p.NCodes, p.RC, p.SP)
}

func run(c *core.Ctx) {
	workers := runtime.GOMAXPROCS(0)
	if workers > 16 {
		workers = 16
	}
	if workers < 1 {
		workers = 1
	}
	jobs := make(chan []job, 4*workers)
	var wg sync.WaitGroup
	var mu sync.Mutex
	agg := map[string]*sigAgg{}
	inapplicable := map[string]int{}

	for i := 0; i < workers; i++ {
		wg.Add(1)
		go func() {
			defer wg.Done()
			local := map[string]*sigAgg{}
			for batch := range jobs {
				for _, j := range batch {
					p := j.p
					o := evaluate(&p)
					c.Add("evaluations", 1)
					c.Add("type_"+p.T, 1)
					c.Add("field_comparisons", int64(o.compares))
					if p.wellFormed() {
						c.Add("well_formed_values", 1)
					} else {
						c.Add("malformed_by_spec_values", 1)
					}
					if o.encoded {
						c.Add("emitter_encoded", 1)
					}
					if o.encErr {
						c.Add("emitter_encode_errors", 1)
					}
					if o.decTooBig {
						c.Add("beyond_size_limit_decodes", 1)
					}
					if !o.refOK {
						c.Add("reference_inapplicable", 1)
						c.Distinct("reference_inapplicable_kinds", p.T+":"+lenClass(p.remaining()))
						mu.Lock()
						inapplicable[p.T+":"+lenClass(p.remaining())]++
						mu.Unlock()
					}
					if o.hdrChecked {
						c.Distinct("remaining_lengths_checked", fmt.Sprint(p.remaining()))
					}
					if o.compares > 0 {
						c.Distinct("nontrivial", key(&p))
					}
					c.Distinct("outcomes", fmt.Sprintf("%s enc=%v err=%v ref=%v big=%v v=%d", p.T, o.encoded, o.encErr, o.refOK, o.decTooBig, len(o.viols)))
					rank := j.idx
					if !p.wellFormed() {
						rank += 1 << 40 // a value the specification calls malformed represents a signature only if no legal one does
					}
					for _, v := range o.viols {
						a := local[v.sig]
						if a == nil {
							a = &sigAgg{minIdx: rank, what: v.what, p: p}
							local[v.sig] = a
						} else if rank < a.minIdx {
							a.minIdx, a.what, a.p = rank, v.what, p
						}
						a.count++
					}
				}
			}
			mu.Lock()
			for s, a := range local {
				g := agg[s]
				if g == nil {
					agg[s] = a
					continue
				}
				g.count += a.count
				if a.minIdx < g.minIdx {
					g.minIdx, g.what, g.p = a.minIdx, a.what, a.p
				}
			}
			mu.Unlock()
		}()
	}

	n := 0
	stopped := false
	var batch []job
	generate(c.Quick(), c.Seed, func(p pkt) {
		if stopped {
			return
		}
		if n%2048 == 0 && c.Expired() {
			stopped = true
			return
		}
		batch = append(batch, job{n, p})
		n++
		if len(batch) == 64 {
			jobs <- batch
			batch = nil
		}
	})
	if len(batch) > 0 {
		jobs <- batch
	}
	close(jobs)
	wg.Wait()
	if stopped {
		c.NotExhaustive(fmt.Sprintf("soft deadline reached after %d cases", n))
	}

	// violations in a deterministic order; the kept case of a signature is its first (simplest) one
	var sigs []string
	for s := range agg {
		sigs = append(sigs, s)
	}
	sort.Slice(sigs, func(i, j int) bool {
		return agg[sigs[i]].minIdx < agg[sigs[j]].minIdx || (agg[sigs[i]].minIdx == agg[sigs[j]].minIdx && sigs[i] < sigs[j])
	})
	for _, s := range sigs {
		a := agg[s]
		c.Violate(s, a.what, a.p)
		for i := 1; i < a.count; i++ {
			c.Violate(s, a.what, nil)
		}
	}

	for _, p := range samples(c.Seed) {
		c.Sample(p)
	}
	c.Assume("reference = github.com/eclipse/paho.mqtt.golang/packets v1.5.0; it is used as a judge only for values it round-trips itself, otherwise the value is checked by round-trip, framing and panic oracles only (coverage.reference_inapplicable)")
	c.Assume("expected field values, remaining lengths (sections 3.1-3.14) and the length encoding (section 2.2.3) are computed by the harness from the case tuple, never by the emitter codec")
	c.Assume("size limit = 65536 compared with the remaining length, as DecodePacket does; encode errors are accepted above remaining length 65530 (largest size pinned encodable by Test_LargePacket) and for values MQTT 3.1.1 calls malformed")
	c.Assume("emitter's Connack has no session-present field: 0 is required on emission, the flag is not compared when decoding")
	c.Assume("byte contents are fixed patterns (UTF-8 text for string fields, arbitrary bytes incl. 0x00/0xff for payload, will message, password); other contents are not explored")
	c.Set("reference_inapplicable_by_kind", inapplicable)
	schedBound := 2
	if !c.Quick() {
		schedBound = 3
	}
	c.Set("sched_bound_completed", sched.Drive(c, []string{"codec"}, schedBound))
	c.Set("sched_schedules", c.Count("schedules"))
	c.Assume("concurrent use of the codec: statement-level, sequentially consistent interleavings of two connections")
	c.Set("evaluations", c.Count("evaluations"))
	c.Set("distinct_nontrivial", c.DistinctCount("nontrivial"))
	bound := "thorough: CONNECT = full product of lengths over all present fields"
	if c.Quick() {
		bound = "quick: CONNECT = one field at a time over the lengths (others 1 byte) + all fields equal"
	}
	c.Set("bound", "14 packet types; DUP x QoS{0,1,2} x retain; ids {0,1,256,65535}; lengths {0,1,127,128,16383,16384} (+65535 topic) and fillers reaching remaining length {127,128,16383,16384,65526,65530,65531,65532,65535,65536,65537}; 0-3 tuples; CONNECT: 7 will x 3 user/password x clean session x keepalive {0,1,65535}; CONNACK 256 codes x session-present; "+bound)
	c.Set("rule", "a case is one packet value (type, flags, ids, field lengths, codes); distinct by that tuple; non-trivial when the real codec produced at least one decoded packet that was compared field by field with the tuple (emit->ref, ref->decode or round-trip)")
}

func samples(seed int64) []pkt {
	return []pkt{
		{T: "CONNECT", Proto: "MQTT", Ver: 4, UF: true, PF: true, WF: true, WR: true, WQ: 1, CS: true, KA: 65535, Lens: []int{1, 127, 128, 0, 16384}, Seed: seed},
		{T: "PUBLISH", Dup: true, QoS: 2, Retain: true, ID: 65535, Lens: []int{128, 16383}, Seed: seed},
		{T: "PUBLISH", Lens: []int{1, 65527}, Seed: seed},
		{T: "SUBSCRIBE", QoS: 1, ID: 1, Lens: []int{1, 128, 16384}, Codes: []uint8{0, 1, 2}, Seed: seed},
		{T: "SUBACK", ID: 256, Codes: []uint8{0, 0x80, 2}, Seed: seed},
		{T: "UNSUBSCRIBE", QoS: 1, ID: 65535, Lens: []int{127}, Seed: seed},
	}
}

func schedWorker(c *core.Ctx, args []string) {
	if len(args) > 0 && args[0] == "sched" {
		sched.WorkerMain(c, concScenarios(), args[1:])
	}
}

func replay(c *core.Ctx, raw json.RawMessage) {
	if sched.ReplayCase(c, concScenarios(), raw) {
		return
	}
	var p pkt
	if err := json.Unmarshal(raw, &p); err != nil || typeCode[p.T] == 0 {
		fmt.Println("c16: unreadable case:", err)
		return
	}
	switch p.T {
	case "CONNECT":
		if len(p.Lens) != 5 {
			p.Lens = append(p.Lens, make([]int, 5)...)[:5]
		}
	case "PUBLISH":
		if len(p.Lens) != 2 {
			p.Lens = append(p.Lens, 0, 0)[:2]
		}
	case "SUBSCRIBE":
		if len(p.Codes) != len(p.Lens) {
			p.Codes = append(p.Codes, make([]uint8, len(p.Lens))...)[:len(p.Lens)]
		}
	}
	o := evaluate(&p)
	c.Add("evaluations", 1)
	for _, v := range o.viols {
		c.Violate(v.sig, v.what, p)
	}
}
