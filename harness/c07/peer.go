package c07

// Part (nodes): in a cluster a channel's history lives on the nodes its publishers were connected to; a subscriber is
// replayed the last N stored messages of the channel whichever node holds them. Two nodes — a real pubsub service over
// a real in-memory store each, the store's cluster survey answered by the other store's real OnSurvey — three retained
// messages published one second apart through node A, node B, node A; subscribers on each node with last = default, 2,
// 3 must be replayed exactly the most recent ones, oldest first.

import (
	"fmt"
	"strings"
	"time"

	"github.com/emitter-io/emitter/internal/message"
	"github.com/emitter-io/emitter/internal/network/mqtt"
	"github.com/emitter-io/emitter/internal/provider/storage"
	"github.com/emitter-io/emitter/internal/security"
	"github.com/emitter-io/emitter/internal/service/fake"
	"github.com/emitter-io/emitter/internal/service/pubsub"
	"github.com/emitter-io/emitter/internal/verifx/engine/core"
)

type nodesCase struct {
	Part string `json:"part"` // "nodes"
}

type nodeLink struct{ peer *storage.InMemory }
type nodeAwaiter [][]byte

func (a nodeAwaiter) Gather(time.Duration) [][]byte { return a }
func (l *nodeLink) Query(kind string, payload []byte) (message.Awaiter, error) {
	if b, ok := l.peer.OnSurvey(kind, payload); ok {
		return nodeAwaiter{b}, nil
	}
	return nodeAwaiter{}, nil
}

func runNodes(c *core.Ctx) {
	toB, toA := &nodeLink{}, &nodeLink{}
	mk := func(l *nodeLink) (*pubsub.Service, *storage.InMemory) {
		st := storage.NewInMemory(l)
		st.Configure(nil)
		auth := &fake.Authorizer{Contract: 1, Success: true, ExtraPerm: security.AllowStore | security.AllowLoad}
		return pubsub.New(auth, st, new(fake.Notifier), message.NewTrie()), st
	}
	nodeA, storeA := mk(toB)
	nodeB, storeB := mk(toA)
	toB.peer, toA.peer = storeB, storeA
	defer storeA.Close()
	defer storeB.Close()
	pub := func(n *pubsub.Service, payload string) bool {
		err := n.OnPublish(new(fake.Conn), &mqtt.Publish{Header: mqtt.Header{Retain: true}, Topic: []byte("key/n/o/d/"), Payload: []byte(payload)})
		return err == nil
	}
	// ids carry the wall-clock second: one message per second so that "most recent" is defined
	ok := pub(nodeA, "m1@A")
	time.Sleep(1100 * time.Millisecond)
	ok = pub(nodeB, "m2@B") && ok
	time.Sleep(1100 * time.Millisecond)
	ok = pub(nodeA, "m3@A") && ok
	if !ok {
		c.Violate("nodes:publish-refused", "a retained publish with a store key was refused", nodesCase{Part: "nodes"})
		return
	}
	all := []string{"m1@A", "m2@B", "m3@A"}
	for name, node := range map[string]*pubsub.Service{"A": nodeA, "B": nodeB} {
		for _, last := range []int{0, 2, 3} { // 0 = option absent (default 1)
			topic, k := "key/n/o/d/", 1
			if last > 0 {
				topic, k = fmt.Sprintf("key/n/o/d/?last=%d", last), last
			}
			sub := new(fake.Conn)
			if err := node.OnSubscribe(sub, []byte(topic)); err != nil {
				c.Violate("nodes:subscribe-refused", fmt.Sprint(err), nodesCase{Part: "nodes"})
				return
			}
			var got []string
			for _, m := range sub.Outgoing {
				got = append(got, string(m.Payload))
			}
			want := all[len(all)-k:]
			c.Add("node_replay_cases", 1)
			if strings.Join(got, " ") != strings.Join(want, " ") {
				kind := "missing-replay"
				if len(got) >= len(want) {
					kind = "wrong-replay"
				}
				c.Violate("nodes:"+kind+":history-on-another-node", fmt.Sprintf("m1 published through node A, m2 through B, m3 through A (one second apart); a subscriber on node %s with last=%d is replayed [%s], the last %d stored messages are [%s]", name, k, strings.Join(got, " "), k, strings.Join(want, " ")), nodesCase{Part: "nodes"})
				return
			}
		}
	}
}
