// Package c18: presence reports who is subscribed (status) and notifies watchers of changes.
package c18

import (
	"encoding/json"
	"fmt"
	"net"
	"sort"
	"strings"

	"github.com/emitter-io/emitter/internal/security"
	"github.com/emitter-io/emitter/internal/verifx/engine/brokerx"
	"github.com/emitter-io/emitter/internal/verifx/engine/core"
	"github.com/emitter-io/emitter/internal/verifx/engine/refmodel"
	"github.com/emitter-io/emitter/internal/verifx/engine/session"
	"github.com/emitter-io/emitter/internal/verifx/engine/xstate"
)

func init() {
	core.Register(&core.Check{ID: "C18", Level: "model_checking", Run: run, Replay: replay})
}

var chans = []string{"a/", "a/b/"}
var names = []string{"W", "X", "Y"}

type opDesc struct {
	Kind string // sub unsub disconnect watch unwatch
	C    int    // client index 1=X 2=Y (0=W)
	Ch   string
}

func (o opDesc) String() string {
	if o.Kind == "disconnect" {
		return "disconnect(" + names[o.C] + ")"
	}
	return fmt.Sprintf("%s(%s,%s)", o.Kind, names[o.C], o.Ch)
}

func alphabet() []opDesc {
	var ops []opDesc
	for c := 1; c <= 2; c++ {
		for _, ch := range chans {
			ops = append(ops, opDesc{"sub", c, ch}, opDesc{"unsub", c, ch})
		}
	}
	ops = append(ops, opDesc{Kind: "disconnect", C: 1})
	for _, ch := range chans {
		ops = append(ops, opDesc{"watch", 0, ch}, opDesc{"unwatch", 0, ch})
	}
	// a plain status poll by the watcher (no "changes" field): it asks a question and changes nothing
	ops = append(ops, opDesc{"poll", 0, "a/"})
	// a filter on a sibling branch that must never show up
	ops = append(ops, opDesc{"sub", 2, "b/"})
	// the watcher is an ordinary client too: it can subscribe itself (and hears about it)
	ops = append(ops, opDesc{"sub", 0, "a/"}, opDesc{"unsub", 0, "a/"})
	// a deeper sub-channel and the second client leaving
	ops = append(ops, opDesc{"sub", 1, "a/b/c/"}, opDesc{"unsub", 1, "a/b/c/"})
	ops = append(ops, opDesc{Kind: "disconnect", C: 2})
	return ops
}

// collisionAlphabet: one connection juggling three sub-channels of a watched channel whose ssids share one bucket
// of the connection's subscription counters (equal xor-fold: cyclic permutations of the same levels).
var collChans = []string{"a/p/q/r/", "a/q/r/p/", "a/r/p/q/"}

func collisionAlphabet() []opDesc {
	var ops []opDesc
	for _, ch := range collChans {
		ops = append(ops, opDesc{"sub", 1, ch}, opDesc{"unsub", 1, ch})
	}
	ops = append(ops, opDesc{Kind: "disconnect", C: 1})
	ops = append(ops, opDesc{"sub", 2, collChans[0]})
	return ops
}

type note struct {
	Event   string `json:"event"`
	Channel string `json:"channel"`
	Who     struct {
		ID       string `json:"id"`
		Username string `json:"username"`
	} `json:"who"`
}

type statusResp struct {
	Status  int    `json:"status"`
	Event   string `json:"event"`
	Channel string `json:"channel"`
	Who     []struct {
		ID       string `json:"id"`
		Username string `json:"username"`
	} `json:"who"`
}

type workerEnv struct {
	env *brokerx.Env
	key string
}

func newWorkerEnv() *workerEnv {
	w := &workerEnv{env: brokerx.MustNew(brokerx.Options{})}
	w.key = w.env.MustKey("#/", security.AllowRead|security.AllowWrite|security.AllowPresence)
	return w
}

type inst struct {
	w       *workerEnv
	ops     []opDesc
	cl      [3]*session.Client
	id      [3]string
	alive   [3]bool
	subs    [3]map[string]bool
	watch   map[string]bool
	hist    []opDesc
	pending string
	pwhat   string
	probes  []string // channels whose status is requested in every state
	stuck   bool     // the presence queue stopped being served: the broker is abandoned
}

var defaultProbes = []string{"a/", "a/b/", "a/b/c/", "b/"}

// variants of the search besides the main one: initial operations (applied before the search starts), alphabet, status probes.
type variantDef struct {
	pre    []opDesc
	ops    func() []opDesc
	probes []string
}

// reservedAlphabet: channels whose levels are spelled like the words the broker reserves for its own bookkeeping
// ("presence", "query" are the names of system subscriptions): to a client they are ordinary channel names.
func reservedAlphabet() []opDesc {
	var ops []opDesc
	for _, ch := range []string{"presence/lobby/", "query/x/"} {
		ops = append(ops, opDesc{"sub", 1, ch}, opDesc{"unsub", 1, ch})
	}
	ops = append(ops, opDesc{"sub", 2, "presence/lobby/"}, opDesc{Kind: "disconnect", C: 1})
	return ops
}

// deepAlphabet: sub-channels of a watched channel at the deepest levels the parser lets through (the ssid a
// notification is published under is two words longer than the channel's).
func deepChan(levels int) string {
	ch := "a/"
	for i := 1; i < levels; i++ {
		ch += fmt.Sprintf("l%d/", i)
	}
	return ch
}

var deepChans = []string{deepChan(64), deepChan(63), deepChan(62)}

func deepAlphabet() []opDesc {
	var ops []opDesc
	for _, ch := range deepChans {
		ops = append(ops, opDesc{"sub", 1, ch}, opDesc{"unsub", 1, ch})
	}
	ops = append(ops, opDesc{"sub", 2, deepChans[0]}, opDesc{Kind: "disconnect", C: 1})
	return ops
}

var variants = map[string]variantDef{
	"deep":           {pre: []opDesc{{"watch", 0, "a/"}}, ops: deepAlphabet, probes: append([]string{"a/"}, deepChans...)},
	"collisions":     {pre: []opDesc{{"watch", 0, "a/"}}, ops: collisionAlphabet, probes: append([]string{"a/"}, collChans...)},
	"reserved-names": {pre: []opDesc{{"watch", 0, "presence/"}, {"watch", 0, "query/"}}, ops: reservedAlphabet, probes: []string{"presence/", "presence/lobby/", "query/", "query/x/"}},
}

// newInstVariant: a variant starts with its initial operations already applied and probes its own channels.
func (w *workerEnv) newInstVariant(variant string) *inst {
	v, ok := variants[variant]
	if !ok {
		return w.newInst(alphabet())
	}
	in := w.newInst(append(append([]opDesc{}, v.pre...), v.ops()...))
	in.probes = v.probes
	for i := range v.pre {
		in.Apply(i)
	}
	in.hist = nil
	in.ops = in.ops[len(v.pre):]
	return in
}

func (w *workerEnv) newInst(ops []opDesc) *inst {
	in := &inst{w: w, ops: ops, watch: map[string]bool{}, probes: defaultProbes}
	for i := 0; i < 3; i++ {
		in.subs[i] = map[string]bool{}
		in.alive[i] = true
		in.cl[i] = session.NewClient(names[i], func(c net.Conn) { w.env.Svc.VerifAttach(c) })
		if !in.cl[i].Connect(session.ConnectOpts{ClientID: "cid" + names[i], Username: "user" + names[i]}) {
			in.fail("no-connack", "CONNECT not acknowledged")
		}
		resp, ok := in.cl[i].Request("me", map[string]interface{}{})
		var me struct {
			ID string `json:"id"`
		}
		if !ok || json.Unmarshal(resp.Payload, &me) != nil || me.ID == "" {
			in.fail("me-request-failed", fmt.Sprintf("emitter/me/ gave %v", resp))
		}
		in.id[i] = me.ID
	}
	return in
}

func (in *inst) fail(sig, what string) {
	if in.pending == "" {
		in.pending, in.pwhat = sig, what
	}
}

func (in *inst) Enabled() []int {
	var out []int
	for i, o := range in.ops {
		if in.alive[o.C] {
			out = append(out, i)
		}
	}
	return out
}

// expectedNotes: who is watching decides whether W hears about (event, channel).
func (in *inst) heard(ch string) bool {
	for w := range in.watch {
		if refmodel.MatchEmitter(refmodel.Levels(w), refmodel.Levels(ch)) {
			return true
		}
	}
	return false
}

func (in *inst) Apply(i int) {
	o := in.ops[i]
	in.hist = append(in.hist, o)
	c := in.cl[o.C]
	var want []string // expected notifications "event|channel|client"
	switch o.Kind {
	case "sub":
		code, acked := c.Subscribe(in.w.key + "/" + o.Ch)
		if !acked || code == 0x80 {
			in.fail("valid-subscribe-refused", "subscribe refused or not acknowledged")
			return
		}
		if !in.subs[o.C][o.Ch] {
			in.subs[o.C][o.Ch] = true
			if in.heard(o.Ch) {
				want = append(want, fmt.Sprintf("subscribe|%s|%s", o.Ch, names[o.C]))
			}
		}
	case "unsub":
		if !c.Unsubscribe(in.w.key + "/" + o.Ch) {
			in.fail("no-unsuback", "unsubscribe not acknowledged")
			return
		}
		if in.subs[o.C][o.Ch] {
			delete(in.subs[o.C], o.Ch)
			if in.heard(o.Ch) {
				want = append(want, fmt.Sprintf("unsubscribe|%s|%s", o.Ch, names[o.C]))
			}
		}
	case "disconnect":
		if !c.Disconnect() {
			in.fail("no-close", "broker did not close the connection after DISCONNECT")
			return
		}
		in.alive[o.C] = false
		for ch := range in.subs[o.C] {
			if in.heard(ch) {
				want = append(want, fmt.Sprintf("unsubscribe|%s|%s", ch, names[o.C]))
			}
		}
		in.subs[o.C] = map[string]bool{}
	case "poll":
		resp, ok := c.Request("presence", map[string]interface{}{"key": in.w.key, "channel": o.Ch, "status": true})
		if !ok || resp.Topic != "emitter/presence/" {
			in.fail("status-refused", fmt.Sprintf("status request answered with %v", resp))
			return
		}
	case "watch", "unwatch":
		on := o.Kind == "watch"
		resp, ok := c.Request("presence", map[string]interface{}{"key": in.w.key, "channel": o.Ch, "status": false, "changes": on})
		if !ok || resp.Topic != "emitter/presence/" {
			in.fail("presence-request-refused", fmt.Sprintf("presence changes request answered with %v", resp))
			return
		}
		if on {
			in.watch[o.Ch] = true
		} else {
			delete(in.watch, o.Ch)
		}
	}
	if !in.w.env.PresenceBarrier() {
		in.fail("missing-notification:presence-queue-not-served", "presence notifications queued by "+o.String()+" were not published within 120 s (the queue is not being served)")
		in.stuck = true
		return
	}
	// W's inbox must hold exactly the expected notifications
	var got []string
	for _, p := range in.cl[0].Drain() {
		if p.Type != session.PUBLISH || p.Topic != "emitter/presence/" {
			in.fail("unexpected-packet", fmt.Sprintf("watcher got %v", p))
			return
		}
		var n note
		if err := json.Unmarshal(p.Payload, &n); err != nil {
			in.fail("unparsable-notification", string(p.Payload))
			return
		}
		who := "?"
		for k := 0; k < 3; k++ {
			if in.id[k] == n.Who.ID {
				who = names[k]
				if n.Who.Username != "user"+names[k] {
					in.fail("wrong-username", fmt.Sprintf("notification carries username %q for %s", n.Who.Username, names[k]))
				}
			}
		}
		got = append(got, fmt.Sprintf("%s|%s|%s", n.Event, n.Channel, who))
	}
	// other clients must not receive presence traffic
	for k := 1; k < 3; k++ {
		if in.alive[k] {
			for _, p := range in.cl[k].Drain() {
				if p.Type == session.PUBLISH {
					in.fail("notification-to-non-watcher", fmt.Sprintf("%s got %v", names[k], p))
				}
			}
		}
	}
	sort.Strings(got)
	sort.Strings(want)
	if strings.Join(got, ";") != strings.Join(want, ";") {
		kind := "extra-notification"
		if len(got) < len(want) {
			kind = "missing-notification"
		} else if len(got) == len(want) {
			kind = "wrong-notification"
		}
		in.fail(kind, fmt.Sprintf("after %s the watcher received %v, expected %v (watching %v)", o, got, want, keysOf(in.watch)))
	}
}

func keysOf(m map[string]bool) []string {
	var out []string
	for k := range m {
		out = append(out, k)
	}
	sort.Strings(out)
	return out
}

func (in *inst) Check() (string, string) {
	if in.pending != "" {
		return in.sig(in.pending), in.pwhat
	}
	// status probes (do not change state)
	for _, ch := range in.probes {
		resp, ok := in.cl[0].Request("presence", map[string]interface{}{"key": in.w.key, "channel": ch, "status": true})
		if !ok || resp.Topic != "emitter/presence/" {
			return in.sig("status-refused"), fmt.Sprintf("status request for %s answered with %v", ch, resp)
		}
		var st statusResp
		if err := json.Unmarshal(resp.Payload, &st); err != nil || st.Status != 200 {
			return in.sig("status-unparsable"), string(resp.Payload)
		}
		var got, want []string
		for _, w := range st.Who {
			who := "?" + w.ID
			for k := 0; k < 3; k++ {
				if in.id[k] == w.ID {
					who = names[k]
					if w.Username != "user"+names[k] {
						return in.sig("wrong-username"), fmt.Sprintf("status lists %s with username %q", names[k], w.Username)
					}
				}
			}
			got = append(got, who)
		}
		for k := 0; k < 3; k++ {
			for f := range in.subs[k] {
				if refmodel.MatchEmitter(refmodel.Levels(f), refmodel.Levels(ch)) {
					want = append(want, names[k])
					break
				}
			}
		}
		sort.Strings(got)
		sort.Strings(want)
		if strings.Join(got, ",") != strings.Join(want, ",") {
			return in.sig("wrong-status"), fmt.Sprintf("status of %s lists %v, expected %v", ch, got, want)
		}
		in.cl[0].Drain()
	}
	return "", ""
}

func (in *inst) sig(kind string) string {
	var hs []string
	for _, o := range in.hist {
		hs = append(hs, o.String())
	}
	return kind + ":" + strings.Join(hs, ",")
}

func (in *inst) Key() string {
	_, pairs, count := in.w.env.Svc.VerifTrie().VerifDump()
	var ps []string
	for _, p := range pairs {
		who := "?"
		for k := 0; k < 3; k++ {
			if in.id[k] == p.ID {
				who = names[k]
			}
		}
		ps = append(ps, fmt.Sprintf("%s:%v", who, []uint32(p.Ssid)))
	}
	sort.Strings(ps)
	var ms []string
	for k := 0; k < 3; k++ {
		ms = append(ms, fmt.Sprintf("%s:%v:%v", names[k], in.alive[k], keysOf(in.subs[k])))
	}
	return fmt.Sprintf("%d|%v|%v|%v", count, ps, ms, keysOf(in.watch))
}

func (in *inst) Close() {
	for i := 0; i < 3; i++ {
		if in.alive[i] {
			in.cl[i].Abort()
		}
	}
	if in.stuck || !in.w.env.PresenceBarrier() || in.w.env.Svc.VerifTrie().Count() != 0 {
		in.w.env.Close()
		*in.w = *newWorkerEnv()
	}
}

func run(c *core.Ctx) {
	depth := 6
	if !c.Quick() {
		depth = 10
	}
	search(c, "", alphabet(), depth)
	search(c, "collisions", collisionAlphabet(), depth)
	search(c, "reserved-names", reservedAlphabet(), depth)
	search(c, "deep", deepAlphabet(), depth)
	c.Assume("single broker (cluster presence survey not configured); notifications are awaited through a FIFO barrier on the real presence queue")
}

func search(c *core.Ctx, variant string, ops []opDesc, depth int) {
	names := make([]string, len(ops))
	for i, o := range ops {
		names[i] = o.String()
	}
	n := core.NumWorkers()
	envs := make([]*workerEnv, n)
	spec := &xstate.Spec{Name: "c18" + variant, Alphabet: names, Depth: depth, Workers: n, Deadline: c.Deadline,
		New: func(w int) xstate.Instance {
			if envs[w] == nil {
				envs[w] = newWorkerEnv()
			}
			return envs[w].newInstVariant(variant)
		}}
	res := xstate.Run(spec)
	for _, e := range envs {
		if e != nil {
			e.env.Close()
		}
	}
	c.Add("states", int64(res.States))
	c.Add("transitions", res.Transitions)
	c.Add("traces_validated_against_impl", res.Replays)
	c.Set("depth_completed"+variant, res.DepthCompleted)
	c.Set("alphabet"+variant, len(ops))
	if !res.Exhaustive {
		c.NotExhaustive(fmt.Sprintf("time cap at depth %d (%d frontier states unexpanded)", res.DepthCompleted, res.FrontierLeft))
	}
	for _, p := range res.SamplePaths {
		c.Sample(map[string]interface{}{"history": p})
	}
	for _, f := range res.Violations {
		sig := f.Sig
		if variant != "" {
			sig = variant + ":" + sig
		}
		c.Violate(sig, f.What, map[string]interface{}{"variant": variant, "ops": f.Ops, "history": f.Path})
	}
}

func replay(c *core.Ctx, raw json.RawMessage) {
	var cs struct {
		Variant string `json:"variant"`
		Ops     []int  `json:"ops"`
	}
	json.Unmarshal(raw, &cs)
	w := newWorkerEnv()
	defer w.env.Close()
	in := w.newInstVariant(cs.Variant)
	for _, o := range cs.Ops {
		in.Apply(o)
	}
	if s, what := in.Check(); s != "" {
		c.Violate(s, what, cs)
	}
	in.Close()
}
