#!/bin/bash
# runs every patch of seeded/own-mutations against the check named by its prefix (quick tier) in a scratch
# worktree and appends one line per mutation to seeded/own-mutations/RESULTS.txt
cd /verif
out=seeded/own-mutations/RESULTS.txt
: > $out
for p in seeded/own-mutations/*.diff; do
  name=$(basename $p .diff); id=${name%%-*}
  res=$(tools/try_seed.sh $id /verif/$p quick 2>&1)
  tests=$(echo "$res" | sed -n 2p | grep -c FAIL)
  verdict=$(echo "$res" | grep "^== $id:" | sed 's/.*violations=\([0-9]*\).*/\1/')
  sig=$(echo "$res" | grep "signature=" | head -1 | sed 's/.*signature=\([^ ]*\).*/\1/' | cut -c1-120)
  echo "$name | repo tests of touched packages fail: $tests | check $id violations: $verdict | first signature: $sig" | tee -a $out
done
