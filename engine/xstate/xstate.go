// Package xstate is the explicit-state search (engine E2): breadth-first over histories of
// operations applied to the REAL implementation. Live objects are never copied: a state is the
// history reaching it, a successor is "fresh instance + replay + one more operation". States are
// deduplicated by a canonical dump of implementation state (+ reference model state).
package xstate

import (
	"crypto/sha1"
	"fmt"
	"sync"
	"time"
)

// Instance is a fresh copy of the system under test plus its reference model.
type Instance interface {
	Enabled() []int        // indices into the alphabet that are enabled in the current state
	Apply(op int)          // executes the operation on the implementation and the model
	Check() (sig, what string) // oracle on the current state (may run non-mutating probes); "" = ok
	Key() string           // canonical key of implementation + model state
	Close()
}

// Spec describes a search.
type Spec struct {
	Name     string
	Alphabet []string
	New      func(worker int) Instance
	Depth    int
	Workers  int
	Deadline time.Time
	// Prune, if set, is consulted before expanding a state reached by path (e.g. op budgets).
}

// Found is a violating history.
type Found struct {
	Sig  string
	What string
	Path []string
	Ops  []int
}

// Result summarises a search.
type Result struct {
	States         int
	Transitions    int64
	DepthCompleted int
	Exhaustive     bool // false when a time cap was hit before Depth was completed
	FrontierLeft   int
	Violations     []Found
	SamplePaths    [][]string
	Replays        int64
}

type item struct {
	path []int
}

func hashKey(k string) [20]byte { return sha1.Sum([]byte(k)) }

// Names maps op indices to labels.
func (s *Spec) Names(p []int) []string {
	out := make([]string, len(p))
	for i, o := range p {
		out[i] = s.Alphabet[o]
	}
	return out
}

// Build replays a path on a fresh instance.
func (s *Spec) Build(worker int, path []int) Instance {
	in := s.New(worker)
	for _, o := range path {
		in.Apply(o)
	}
	return in
}

// Run performs the breadth-first search.
func Run(s *Spec) *Result {
	if s.Workers <= 0 {
		s.Workers = 16
	}
	res := &Result{Exhaustive: true}
	seen := map[[20]byte]struct{}{}
	var mu sync.Mutex
	sigs := map[string]bool{}

	root := s.Build(0, nil)
	if sig, what := root.Check(); sig != "" {
		res.Violations = append(res.Violations, Found{Sig: sig, What: what})
		root.Close()
		return res
	}
	seen[hashKey(root.Key())] = struct{}{}
	root.Close()
	frontier := []item{{}}

	for depth := 0; depth < s.Depth && len(frontier) > 0; depth++ {
		var next []item
		jobs := make(chan item, len(frontier))
		for _, it := range frontier {
			jobs <- it
		}
		close(jobs)
		var wg sync.WaitGroup
		stopped := false
		for w := 0; w < s.Workers; w++ {
			wg.Add(1)
			go func(w int) {
				defer wg.Done()
				for it := range jobs {
					if !s.Deadline.IsZero() && time.Now().After(s.Deadline) {
						mu.Lock()
						stopped = true
						res.FrontierLeft++
						mu.Unlock()
						continue
					}
					base := s.Build(w, it.path)
					en := base.Enabled()
					base.Close()
					mu.Lock()
					res.Replays++
					mu.Unlock()
					for _, op := range en {
						in := s.Build(w, it.path)
						in.Apply(op)
						// the key is taken before the probes of Check run: probes are requests too, and if the code
						// under test lets one of them change something, the state reached by the history itself must
						// not be mistaken for (and merged with) the state after the probes
						key := in.Key()
						sig, what := in.Check()
						np := append(append([]int(nil), it.path...), op)
						in.Close()
						mu.Lock()
						res.Transitions++
						res.Replays++
						if sig != "" {
							if !sigs[sig] {
								sigs[sig] = true
								res.Violations = append(res.Violations, Found{Sig: sig, What: what, Path: s.Names(np), Ops: np})
							}
							mu.Unlock()
							continue
						}
						h := hashKey(key)
						if _, ok := seen[h]; !ok {
							seen[h] = struct{}{}
							next = append(next, item{path: np})
							if len(res.SamplePaths) < 6 && len(np) >= 2 {
								res.SamplePaths = append(res.SamplePaths, s.Names(np))
							}
						}
						mu.Unlock()
					}
				}
			}(w)
		}
		wg.Wait()
		if stopped {
			res.Exhaustive = false
			break
		}
		res.DepthCompleted = depth + 1
		frontier = next
	}
	res.States = len(seen)
	return res
}

// Describe prints a found violation.
func (f Found) Describe() string { return fmt.Sprintf("%s after %v: %s", f.Sig, f.Path, f.What) }
