// Package c02: an acknowledged subscription gets every matching publish once, until removed.
// Explicit-state search over histories of real client requests against one real broker.
package c02

import (
	"bytes"
	"encoding/json"
	"fmt"
	"sort"
	"strings"

	"github.com/emitter-io/emitter/internal/broker"
	"github.com/emitter-io/emitter/internal/message"
	"github.com/emitter-io/emitter/internal/security"
	"github.com/emitter-io/emitter/internal/verifx/engine/brokerx"
	"github.com/emitter-io/emitter/internal/verifx/engine/core"
	"github.com/emitter-io/emitter/internal/verifx/engine/refmodel"
	"github.com/emitter-io/emitter/internal/verifx/engine/session"
	"github.com/emitter-io/emitter/internal/verifx/engine/xstate"
	"net"
)

func init() {
	core.Register(&core.Check{ID: "C02", Level: "model_checking", Run: run, Replay: replay})
}

var filters = []string{"a/b/", "b/a/", "a/a/", "b/b/", "x/x/y/", "y/", "a/", "a/+/"}
var probes = []string{"a/b/", "b/a/", "a/a/", "b/b/", "c/c/", "x/x/y/", "y/", "a/", "a/b/c/", "x/x/", "presence/q/",
	// names that differ only in case, only after a long common prefix, or only in a punctuation character
	"Case/x/", "case/x/", "averyveryverylongchannellevelname-1/", "averyveryverylongchannellevelname-2/", "user.name/", "user_name/"}
// "b/#" is the MQTT-native spelling (no trailing slash) of a multi-level wildcard filter
var mqttFilters = []string{"a/b/", "b/a/", "a/+/", "a/#/", "a/", "#/", "b/#"}

type opDesc struct {
	Kind   string // sub unsub link badsub badunsub badparse
	Client int
	Filter string
	Name   string
	Sub    bool
}

func (o opDesc) String() string {
	c := string(rune('A' + o.Client))
	switch o.Kind {
	case "link":
		return fmt.Sprintf("link(%s,%s,%s,sub=%v)", c, o.Name, o.Filter, o.Sub)
	}
	return fmt.Sprintf("%s(%s,%s)", o.Kind, c, o.Filter)
}

func alphabet(mode string) []opDesc {
	fs := filters
	if mode == "mqtt" {
		fs = mqttFilters
	}
	var ops []opDesc
	for c := 0; c < 2; c++ {
		for _, f := range fs {
			ops = append(ops, opDesc{Kind: "sub", Client: c, Filter: f})
		}
	}
	for c := 0; c < 2; c++ {
		for _, f := range fs {
			if strings.HasSuffix(f, "#") {
				// the MQTT-native spelling is normalised by the SUBSCRIBE handler only; an UNSUBSCRIBE with it does not
				// parse, is answered with an error and changes nothing (consistent with the statement, if unhelpful),
				// so it is not offered as a way to end the subscription
				continue
			}
			ops = append(ops, opDesc{Kind: "unsub", Client: c, Filter: f})
		}
	}
	for c := 0; c < 2; c++ {
		ops = append(ops, opDesc{Kind: "link", Client: c, Name: "l1", Filter: "a/b/", Sub: true})
		ops = append(ops, opDesc{Kind: "link", Client: c, Name: "l1", Filter: "b/a/", Sub: false})
	}
	// failing requests (one representative each, on client A)
	ops = append(ops, opDesc{Kind: "badsub", Client: 0, Filter: "a/b/"})   // key without read permission
	ops = append(ops, opDesc{Kind: "badunsub", Client: 0, Filter: "a/b/"}) // key without read permission
	ops = append(ops, opDesc{Kind: "badparse", Client: 0, Filter: "a b/"}) // unparsable channel
	// one packet carrying a failing topic followed by a valid one: the failure must not affect the other
	for _, f := range []string{"a/b/", "b/a/"} {
		ops = append(ops, opDesc{Kind: "msub", Client: 0, Filter: f}, opDesc{Kind: "munsub", Client: 0, Filter: f})
	}
	return ops
}

// collisionAlphabet: one connection juggling three (and two) filters that share a bookkeeping bucket
// (equal xor-fold): a/a, b/b, c/c and x/x/y, y. Deep histories are affordable because little else varies.
func collisionAlphabet() []opDesc {
	var ops []opDesc
	for _, k := range []string{"sub", "unsub"} {
		for _, f := range []string{"a/a/", "b/b/", "c/c/", "x/x/y/", "y/"} {
			ops = append(ops, opDesc{Kind: k, Client: 0, Filter: f})
		}
	}
	ops = append(ops, opDesc{Kind: "sub", Client: 1, Filter: "b/b/"}, opDesc{Kind: "unsub", Client: 1, Filter: "b/b/"})
	// a channel spelled like one of the words the broker reserves for its own subscriptions: an ordinary name to a client
	ops = append(ops, opDesc{Kind: "sub", Client: 1, Filter: "presence/q/"}, opDesc{Kind: "unsub", Client: 1, Filter: "presence/q/"})
	// one of each pair of look-alike names (the probes publish to both)
	for _, f := range []string{"Case/x/", "averyveryverylongchannellevelname-1/", "user.name/"} {
		ops = append(ops, opDesc{Kind: "sub", Client: 1, Filter: f})
	}
	return ops
}

// deadPeerAlphabet: the two healthy clients next to a third subscriber whose socket fails every write.
func deadPeerAlphabet() []opDesc {
	var ops []opDesc
	for _, k := range []string{"sub", "unsub"} {
		for c := 0; c < 2; c++ {
			for _, f := range []string{"a/b/", "a/", "b/a/"} {
				ops = append(ops, opDesc{Kind: k, Client: c, Filter: f})
			}
		}
	}
	return ops
}

// ---- instance ------------------------------------------------------------------------------

type workerEnv struct {
	env      *brokerx.Env
	rw       string // key for #/ with read+write
	wo       string // write only
	ro       string // read only
	mode     string
	ssidName map[string]string
	deadPeer bool
	readRate int // variant "-throttled": the per-connection read rate the broker is configured with
}

// throttledRate: low enough that the probes of every state run a connection over its rate (the bucket holds 20
// packets and refills at 20/s; a state sends 30 and more), high enough that the throttling costs a second or so.
const throttledRate = 20

func newWorkerEnv(mode string) *workerEnv { return newWorkerEnvRate(mode, 0) }

func newWorkerEnvRate(mode string, readRate int) *workerEnv {
	w := &workerEnv{mode: mode, ssidName: map[string]string{}, readRate: readRate}
	w.env = brokerx.MustNew(brokerx.Options{Matcher: mode, ReadRate: readRate})
	w.rw = w.env.MustKey("#/", security.AllowRead|security.AllowWrite)
	w.wo = w.env.MustKey("#/", security.AllowWrite)
	w.ro = w.env.MustKey("#/", security.AllowRead)
	all := append(append([]string{"c/c/", "presence/q/", "Case/x/", "averyveryverylongchannellevelname-1/", "user.name/"}, filters...), mqttFilters...)
	for _, f := range all {
		ch := security.ParseChannel([]byte("k/" + f))
		ssid := message.NewSsid(w.env.License.Contract(), ch.Query)
		w.ssidName[fmt.Sprint([]uint32(ssid))] = f
	}
	return w
}

type inst struct {
	w       *workerEnv
	ops     []opDesc
	cl      [2]*session.Client
	conn    [2]*broker.Conn
	subs    [2]map[string]bool
	links   [2]map[string]string
	seq     int
	pending string // violation detected while applying an op
	pwhat   string
	hist    []opDesc
	// dead peer (variant "-deadpeer"): a third connection Z that subscribed to a/ and a/b/ and whose socket
	// then started failing every write while staying open (half-open connection). Z is not observed; the
	// healthy clients must be served exactly as without it.
	dead     *session.Client
	deadConn *broker.Conn
}

func (w *workerEnv) newInst(ops []opDesc) *inst {
	in := &inst{w: w, ops: ops}
	for i := 0; i < 2; i++ {
		i := i
		in.subs[i] = map[string]bool{}
		in.links[i] = map[string]string{}
		in.cl[i] = session.NewClient(string(rune('A'+i)), func(c net.Conn) { in.conn[i] = w.env.Svc.VerifAttach(c) })
		if !in.cl[i].Connect(session.ConnectOpts{ClientID: "c" + string(rune('A'+i))}) {
			in.fail("no-connack", "CONNECT was not acknowledged")
		}
	}
	if w.deadPeer {
		in.dead = session.NewClient("Z", func(c net.Conn) { in.deadConn = w.env.Svc.VerifAttach(c) })
		ok := in.dead.Connect(session.ConnectOpts{ClientID: "cZ"})
		for _, f := range []string{"a/", "a/b/", "b/"} {
			_, acked := in.dead.Subscribe(w.rw + "/" + f)
			ok = ok && acked
		}
		if !ok {
			in.fail("no-suback", "the third client could not subscribe")
		}
		in.dead.Drain()
		in.dead.Conn.FailWrites()
	}
	return in
}

func (in *inst) fail(sig, what string) {
	if in.pending == "" {
		in.pending, in.pwhat = sig, what
	}
}

func (in *inst) Enabled() []int {
	out := make([]int, len(in.ops))
	for i := range out {
		out[i] = i
	}
	return out
}

func errorReplies(ps []session.Packet) (n int) {
	for _, p := range ps {
		if p.Type == session.PUBLISH && p.Topic == "emitter/error/" {
			n++
		}
	}
	return
}

func (in *inst) Apply(op int) {
	o := in.ops[op]
	in.hist = append(in.hist, o)
	c := in.cl[o.Client]
	switch o.Kind {
	case "sub":
		code, acked := c.Subscribe(in.w.rw + "/" + o.Filter)
		if !acked {
			in.fail("no-suback", "SUBSCRIBE was not acknowledged")
			return
		}
		if code == 0x80 {
			in.fail("valid-subscribe-refused", fmt.Sprintf("subscribe to %s with a valid key was refused", o.Filter))
			return
		}
		in.subs[o.Client][o.Filter] = true
		c.Drain()
	case "unsub":
		if !c.Unsubscribe(in.w.rw + "/" + o.Filter) {
			in.fail("no-unsuback", "UNSUBSCRIBE was not acknowledged")
			return
		}
		if n := errorReplies(c.Drain()); n > 0 {
			in.fail("valid-unsubscribe-error", "unsubscribe with a valid key answered with an error")
		}
		delete(in.subs[o.Client], o.Filter)
	case "link":
		resp, ok := c.Request("link", map[string]interface{}{"name": o.Name, "key": in.w.rw, "channel": o.Filter, "subscribe": o.Sub})
		if !ok || resp.Topic != "emitter/link/" {
			in.fail("link-refused", fmt.Sprintf("link request not answered on emitter/link/: %v", resp))
			return
		}
		in.links[o.Client][o.Name] = o.Filter
		if o.Sub {
			in.subs[o.Client][o.Filter] = true
		}
		c.Drain()
	case "msub":
		codes, acked := c.SubscribeMulti(in.w.wo+"/a/", in.w.rw+"/"+o.Filter)
		ps := c.Drain()
		if !acked {
			in.fail("no-suback", "SUBSCRIBE was not acknowledged")
			return
		}
		if len(codes) != 2 || codes[0] != 0x80 || codes[1] == 0x80 || errorReplies(ps) != 1 {
			in.fail("multi-topic-subscribe", fmt.Sprintf("SUBSCRIBE [no-permission, %s] answered codes %v with %d error replies; expected [0x80, granted] and one error", o.Filter, codes, errorReplies(ps)))
			return
		}
		in.subs[o.Client][o.Filter] = true
	case "munsub":
		acked := c.UnsubscribeMulti(in.w.wo+"/a/", in.w.rw+"/"+o.Filter)
		ps := c.Drain()
		if !acked {
			in.fail("no-unsuback", "UNSUBSCRIBE was not acknowledged")
			return
		}
		if errorReplies(ps) != 1 {
			in.fail("multi-topic-unsubscribe", fmt.Sprintf("UNSUBSCRIBE [no-permission, %s] produced %d error replies, expected one", o.Filter, errorReplies(ps)))
			return
		}
		delete(in.subs[o.Client], o.Filter) // the valid topic of an acknowledged UNSUBSCRIBE is removed
	case "badsub":
		code, acked := c.Subscribe(in.w.wo + "/" + o.Filter)
		ps := c.Drain()
		if !acked {
			in.fail("no-suback", "SUBSCRIBE was not acknowledged")
		} else if code != 0x80 || errorReplies(ps) != 1 {
			in.fail("failed-request-not-refused:badsub", fmt.Sprintf("subscribe without read permission: code=%#x errors=%d", code, errorReplies(ps)))
		}
	case "badunsub":
		acked := c.Unsubscribe(in.w.wo + "/" + o.Filter)
		ps := c.Drain()
		if !acked {
			in.fail("no-unsuback", "UNSUBSCRIBE was not acknowledged")
		} else if errorReplies(ps) != 1 {
			in.fail("failed-request-not-refused:badunsub", "unsubscribe without read permission was not answered with an error")
		}
	case "badparse":
		code, acked := c.Subscribe(in.w.rw + "/" + o.Filter)
		ps := c.Drain()
		if !acked {
			in.fail("no-suback", "SUBSCRIBE was not acknowledged")
		} else if code != 0x80 || errorReplies(ps) != 1 {
			in.fail("failed-request-not-refused:badparse", fmt.Sprintf("unparsable subscribe: code=%#x errors=%d", code, errorReplies(ps)))
		}
	}
}

func (in *inst) expected(ch string) [2]bool {
	var r [2]bool
	lv := refmodel.Levels(ch)
	for c := 0; c < 2; c++ {
		for f := range in.subs[c] {
			if refmodel.Match(in.w.mode, refmodel.Levels(strings.ReplaceAll(f, "#/", "#")), lv) {
				r[c] = true
			}
		}
	}
	return r
}

// probe publishes once and compares what each client receives with the reference.
func (in *inst) probe(pub int, topic, ch string, me0 bool) (string, string) {
	return in.probeSized(pub, topic, ch, me0, 0)
}

// probeSized: pad > 0 makes the payload that many bytes longer (a message near the size limit must be delivered
// like any other: same recipients, once, payload unchanged).
func (in *inst) probeSized(pub int, topic, ch string, me0 bool, pad int) (string, string) {
	in.seq++
	payload := []byte(fmt.Sprintf("p%d", in.seq))
	if pad > 0 {
		payload = append(payload, bytes.Repeat([]byte{'#'}, pad)...)
	}
	t := topic
	if me0 {
		t += "?me=0"
	}
	if !in.cl[pub].Publish(t, payload, false) {
		return "no-puback", "PUBLISH was not acknowledged"
	}
	want := in.expected(ch)
	if me0 {
		want[pub] = false
	}
	for c := 0; c < 2; c++ {
		ps := in.cl[c].Drain()
		if in.cl[c].Err != nil {
			return "unparsable-output", in.cl[c].Err.Error()
		}
		n := 0
		for _, p := range ps {
			if p.Type != session.PUBLISH {
				return "unexpected-packet", fmt.Sprintf("client %d got %v", c, p)
			}
			if p.Topic == "emitter/error/" {
				return "valid-publish-error", fmt.Sprintf("publish to %s answered with an error: %s", ch, p.Payload)
			}
			if p.Topic != ch {
				return "wrong-topic", fmt.Sprintf("client %c got topic %q for a publish to %q", 'A'+c, p.Topic, ch)
			}
			if string(p.Payload) != string(payload) {
				return "wrong-payload", fmt.Sprintf("client %c got payload %q, published %q", 'A'+c, p.Payload, payload)
			}
			n++
		}
		who := "subscriber"
		if c == pub {
			who = "publisher"
		}
		switch {
		case want[c] && n == 0:
			return "missing-delivery", fmt.Sprintf("client %c (%s) holds a matching acknowledged subscription but did not receive the publish on %s (me=0:%v)", 'A'+c, who, ch, me0)
		case want[c] && n > 1:
			return "duplicate-delivery", fmt.Sprintf("client %c received the publish on %s %d times", 'A'+c, ch, n)
		case !want[c] && n > 0:
			return "extra-delivery", fmt.Sprintf("client %c (%s) received a publish on %s (me=0:%v) without a matching subscription", 'A'+c, who, ch, me0)
		}
	}
	return "", ""
}

func (in *inst) failingProbe(pub int, topic, kind string) (string, string) {
	in.seq++
	if !in.cl[pub].Publish(topic, []byte("x"), false) {
		return "no-puback", "PUBLISH was not acknowledged"
	}
	for c := 0; c < 2; c++ {
		ps := in.cl[c].Drain()
		errs := errorReplies(ps)
		if c == pub && (errs != 1 || len(ps) != 1) {
			return "failed-request-not-refused:" + kind, fmt.Sprintf("%s: expected exactly one emitter/error/ reply, got %v", kind, ps)
		}
		if c != pub && len(ps) != 0 {
			return "failed-request-had-effect:" + kind, fmt.Sprintf("%s reached client %c: %v", kind, 'A'+c, ps)
		}
	}
	return "", ""
}

func (in *inst) Check() (string, string) {
	if in.pending != "" {
		return in.sig(in.pending), in.pwhat
	}
	key := in.w.rw
	for pub := 0; pub < 2; pub++ {
		for _, ch := range probes {
			for _, me0 := range []bool{false, true} {
				if s, w := in.probe(pub, key+"/"+ch, ch, me0); s != "" {
					return in.sig(s), w
				}
			}
		}
		for name, ch := range in.links[pub] {
			if s, w := in.probe(pub, name, ch, false); s != "" {
				return in.sig(s + ":via-link"), w
			}
		}
	}
	// one large message per publisher (above the usual buffer thresholds, below the 64 KiB limit)
	for pub := 0; pub < 2; pub++ {
		if s, w := in.probeSized(pub, key+"/a/b/", "a/b/", false, 60000); s != "" {
			return in.sig(s + ":large-payload"), w
		}
	}
	// failing publishes leave everything unchanged (verified by the probes above on the next state
	// and by the key below) and are answered with an error
	if s, w := in.failingProbe(0, in.w.ro+"/a/b/", "publish-without-write-permission"); s != "" {
		return in.sig(s), w
	}
	if s, w := in.failingProbe(1, key+"/a/+/", "publish-to-wildcard-channel"); s != "" {
		return in.sig(s), w
	}
	if s, w := in.failingProbe(0, key+"/a b/", "publish-unparsable"); s != "" {
		return in.sig(s), w
	}
	return "", ""
}

// sig builds the signature: kind + the collision feature or the normalised history.
func (in *inst) sig(kind string) string {
	// feature: two different filters held by one connection with equal xor-fold
	for c := 0; c < 2; c++ {
		var fs []string
		seen := map[string]bool{}
		for _, o := range in.hist {
			if o.Client == c && (o.Kind == "sub" || o.Kind == "unsub" || (o.Kind == "link" && o.Sub)) && !seen[o.Filter] {
				seen[o.Filter] = true
				fs = append(fs, o.Filter)
			}
		}
		for i := range fs {
			for j := i + 1; j < len(fs); j++ {
				if xorFold(fs[i]) == xorFold(fs[j]) {
					return kind + ":two-filters-equal-xorfold-on-one-conn"
				}
			}
		}
	}
	var hs []string
	ren := map[int]string{}
	for _, o := range in.hist {
		if _, ok := ren[o.Client]; !ok {
			ren[o.Client] = string(rune('A' + len(ren)))
		}
		o2 := o
		s := o2.String()
		s = strings.Replace(s, "("+string(rune('A'+o.Client)), "("+ren[o.Client], 1)
		hs = append(hs, s)
	}
	return kind + ":" + strings.Join(hs, ",")
}

func xorFold(f string) uint32 {
	ch := security.ParseChannel([]byte("k/" + f))
	var h uint32
	for _, q := range ch.Query {
		h ^= q
	}
	return h
}

func (in *inst) Key() string {
	_, pairs, count := in.w.env.Svc.VerifTrie().VerifDump()
	id := map[string]string{}
	for i := 0; i < 2; i++ {
		id[in.conn[i].ID()] = string(rune('A' + i))
	}
	if in.deadConn != nil {
		id[in.deadConn.ID()] = "Z"
	}
	var ps []string
	for _, p := range pairs {
		n, ok := in.w.ssidName[fmt.Sprint([]uint32(p.Ssid))]
		if !ok {
			n = fmt.Sprint(p.Ssid)
		}
		ps = append(ps, id[p.ID]+":"+n)
	}
	sort.Strings(ps)
	var cs []string
	for i := 0; i < 2; i++ {
		for _, c := range in.conn[i].VerifCounters() {
			cs = append(cs, fmt.Sprintf("%c:%s=%d", 'A'+i, c.Channel, c.Counter))
		}
		var ls []string
		for k, v := range in.links[i] {
			ls = append(ls, k+">"+v)
		}
		sort.Strings(ls)
		cs = append(cs, fmt.Sprintf("%c-links:%v", 'A'+i, ls))
		var ms []string
		for f := range in.subs[i] {
			ms = append(ms, f)
		}
		sort.Strings(ms)
		cs = append(cs, fmt.Sprintf("%c-model:%v", 'A'+i, ms))
	}
	return fmt.Sprintf("%d|%v|%v", count, ps, cs)
}

func (in *inst) Close() {
	for i := 0; i < 2; i++ {
		in.cl[i].Abort()
	}
	if in.dead != nil {
		in.dead.Abort()
	}
	if in.w.env.Svc.VerifTrie().Count() != 0 {
		// something was left behind (C08's business): do not let it leak into the next path
		in.w.env.Close()
		dp := in.w.deadPeer
		*in.w = *newWorkerEnvRate(in.w.mode, in.w.readRate)
		in.w.deadPeer = dp
	}
}

// ---- driver ------------------------------------------------------------------------------

func search(c *core.Ctx, mode string, depth int) {
	searchOps(c, mode, depth, alphabet(mode), "")
}

func searchOps(c *core.Ctx, mode string, depth int, ops []opDesc, variant string) {
	names := make([]string, len(ops))
	for i, o := range ops {
		names[i] = o.String()
	}
	n := core.NumWorkers()
	envs := make([]*workerEnv, n)
	spec := &xstate.Spec{Name: "c02-" + mode, Alphabet: names, Depth: depth, Workers: n, Deadline: c.Deadline,
		New: func(w int) xstate.Instance {
			if envs[w] == nil {
				rate := 0
				if variant == "-throttled" {
					rate = throttledRate
				}
				envs[w] = newWorkerEnvRate(mode, rate)
				envs[w].deadPeer = variant == "-deadpeer"
			}
			return envs[w].newInst(ops)
		}}
	res := xstate.Run(spec)
	for _, e := range envs {
		if e != nil {
			e.env.Close()
		}
	}
	tag := mode
	if tag == "" {
		tag = "emitter"
	}
	tag += variant
	c.Add("states", int64(res.States))
	c.Add("transitions", res.Transitions)
	c.Add("traces_validated_against_impl", res.Replays)
	c.Set("depth_completed_"+tag, res.DepthCompleted)
	c.Set("states_"+tag, res.States)
	if !res.Exhaustive {
		c.NotExhaustive(fmt.Sprintf("%s matcher: time cap hit at depth %d (%d frontier states unexpanded)", tag, res.DepthCompleted, res.FrontierLeft))
	}
	for _, p := range res.SamplePaths {
		c.Sample(map[string]interface{}{"matcher": tag, "history": p})
	}
	for _, f := range res.Violations {
		c.Violate(tag+":"+f.Sig, f.What+" | history: "+strings.Join(f.Path, ", "), map[string]interface{}{"mode": mode, "variant": variant, "ops": f.Ops, "history": f.Path})
	}
}

func run(c *core.Ctx) {
	partInterleaved(c)
	depth := 4
	if !c.Quick() {
		depth = 5
	}
	searchOps(c, "", depth+3, collisionAlphabet(), "-collisions")
	searchOps(c, "", depth-1, deadPeerAlphabet(), "-deadpeer")
	searchOps(c, "", depth-2, deadPeerAlphabet(), "-throttled")
	search(c, "mqtt", depth-1)
	search(c, "", depth)
	c.Set("alphabet", len(alphabet("")))
	c.Set("probes_per_state", len(probes)*4+3)
	c.Assume("fault variant: one extra subscriber (a/, a/b/, b/) whose socket fails every write while staying open; only the two healthy clients are observed")
	c.Assume("throttled variant: the broker is configured with limit.readRate = 20 packets/s per connection; the probes of every state exceed it, so every state is reached and probed through the throttle")
	c.Assume("clients act one request at a time (histories, not schedules); each request is acknowledged before the next is sent")
	c.Assume("murmur collisions between different level names are outside the alphabet")
}

func replay(c *core.Ctx, raw json.RawMessage) {
	var cs struct {
		Mode    string `json:"mode"`
		Variant string `json:"variant"`
		Ops     []int  `json:"ops"`
	}
	json.Unmarshal(raw, &cs)
	var ic ilCase
	if json.Unmarshal(raw, &ic) == nil && ic.Part == "interleaved" {
		runInterleaved(c, ic)
		return
	}
	rate := 0
	if cs.Variant == "-throttled" {
		rate = throttledRate
	}
	w := newWorkerEnvRate(cs.Mode, rate)
	defer w.env.Close()
	al := alphabet(cs.Mode)
	if cs.Variant == "-throttled" {
		al = deadPeerAlphabet()
	}
	if cs.Variant == "-collisions" {
		al = collisionAlphabet()
	}
	if cs.Variant == "-deadpeer" {
		al = deadPeerAlphabet()
		w.deadPeer = true
	}
	in := w.newInst(al)
	for _, o := range cs.Ops {
		in.Apply(o)
	}
	if s, what := in.Check(); s != "" {
		c.Violate(s, what, cs)
	}
	in.Close()
}
