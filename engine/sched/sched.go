// Package sched is the controlled scheduler (engine E1): harness threads are goroutines of
// which exactly one runs at a time; every hooked synchronisation operation, every inserted
// Yield and every environment Choose is a scheduling point decided by a replayable choice list.
package sched

import (
	"bytes"
	"fmt"
	"os"
	"runtime"
	"runtime/debug"
	"strconv"
	"strings"
	"sync/atomic"
	"time"
)

// File is the per-source-file tag created by the rewriter.
type File struct {
	Path string
	On   bool
}

var files []*File

// RegisterFile is called from instrumented files at init.
func RegisterFile(path string) *File {
	f := &File{Path: path}
	files = append(files, f)
	return f
}

// Files lists the instrumented files linked into this binary.
func Files() []string {
	var out []string
	for _, f := range files {
		out = append(out, f.Path)
	}
	return out
}

// EnableFiles switches yields on for files whose path contains one of the substrings, off for the rest.
func EnableFiles(subs ...string) int {
	n := 0
	for _, f := range files {
		f.On = false
		for _, s := range subs {
			if strings.Contains(f.Path, s) {
				f.On = true
				n++
			}
		}
	}
	return n
}

var active atomic.Pointer[Sched]

// Active returns the running scheduler or nil.
func Active() *Sched { return active.Load() }

type tstate int

const (
	runnable tstate = iota
	blocked
	done
)

type thread struct {
	id      int
	wake    chan struct{}
	state   tstate
	blockOn interface{}
	goid    int64
	name    string
}

// Point is one recorded branch point of an execution.
type Point struct {
	N      int  // number of alternatives
	Costly bool // alternative > 0 costs one deviation (preemption of a runnable thread / env answer)
	Chosen int
	Label  string
	F      *File
	Line   int
}

// Site describes where the point was taken.
func (p Point) Site() string {
	if p.F != nil {
		return p.F.Path + ":" + strconv.Itoa(p.Line)
	}
	return p.Label
}

// Exec is the record of one complete execution.
type Exec struct {
	Choices  []int
	Points   []Point
	Obs      []string
	Deadlock bool
	Blocked  []string // descriptions of blocked threads at deadlock
	Panics   []string
	Hang     bool
	Steps    int
	// Diverged: the recorded prefix could not be followed (a choice was out of range, or the execution
	// ended before the prefix was used up): some nondeterminism is not owned by the harness. The
	// execution itself is still a real execution of the real code and is checked by the oracle.
	Diverged bool
}

// Sched is one execution's scheduler.
type Sched struct {
	threads    []*thread
	cur        *thread
	prefix     []int
	x          *Exec
	finished   chan struct{}
	aborting   bool
	exited     chan int
	paranoid   bool
	yieldsOnly bool
	maxSteps   int
	epoch      int64
	atEnd      []func()
	key        func() string
}

var epochCounter int64

// Epoch identifies the execution (pools reset themselves when it changes).
func (s *Sched) Epoch() int64 { return s.epoch }

type abortSentinel struct{}

func goid() int64 {
	var buf [64]byte
	n := runtime.Stack(buf[:], false)
	// "goroutine 123 ["
	b := buf[:n]
	b = b[len("goroutine "):]
	i := bytes.IndexByte(b, ' ')
	id, _ := strconv.ParseInt(string(b[:i]), 10, 64)
	return id
}

// Run executes body as thread 0 under the given choice prefix and returns the record.
func Run(prefix []int, paranoid bool, body func(s *Sched)) *Exec {
	s := &Sched{prefix: prefix, x: &Exec{}, finished: make(chan struct{}), exited: make(chan int, 64), paranoid: paranoid, maxSteps: 200000, yieldsOnly: YieldsOnly}
	s.epoch = atomic.AddInt64(&epochCounter, 1)
	if !active.CompareAndSwap(nil, s) {
		panic("sched: nested Run")
	}
	t0 := s.newThread("main", func() { body(s) })
	s.cur = t0
	t0.wake <- struct{}{}
	select {
	case <-s.finished:
	case <-time.After(60 * time.Second):
		s.x.Hang = true
		// cannot recover the goroutines; the caller treats this as a harness failure
		active.Store(nil)
		return s.x
	}
	active.Store(nil)
	if !s.x.Deadlock && len(s.x.Panics) == 0 {
		for _, f := range s.atEnd {
			f()
		}
	}
	return s.x
}

func (s *Sched) newThread(name string, f func()) *thread {
	t := &thread{id: len(s.threads), wake: make(chan struct{}, 1), name: name}
	s.threads = append(s.threads, t)
	go func() {
		<-t.wake
		if s.aborting {
			s.exited <- t.id
			return
		}
		t.goid = goid()
		defer func() {
			r := recover()
			if s.aborting {
				s.exited <- t.id
				return
			}
			if r != nil {
				if _, ok := r.(abortSentinel); !ok {
					s.x.Panics = append(s.x.Panics, fmt.Sprintf("thread %s: %v\n%s", t.name, r, trimStack(debug.Stack())))
				}
			}
			s.finish(t)
		}()
		f()
	}()
	return t
}

func trimStack(b []byte) string {
	lines := strings.Split(string(b), "\n")
	var out []string
	for _, l := range lines {
		if strings.Contains(l, "/verifx/engine/sched") || strings.Contains(l, "runtime/") {
			continue
		}
		out = append(out, l)
		if len(out) > 24 {
			break
		}
	}
	return strings.Join(out, "\n")
}

// Go starts a new harness thread (runnable; it runs when scheduled).
func (s *Sched) Go(name string, f func()) {
	s.newThread(name, f)
}

// AtEnd registers a function that runs after every thread has finished (used to collect the
// final observation); it runs on the caller's goroutine with the scheduler no longer active.
func (s *Sched) AtEnd(f func()) { s.atEnd = append(s.atEnd, f) }

// Obs records an observation of the current execution.
func (s *Sched) Obs(format string, a ...interface{}) {
	s.x.Obs = append(s.x.Obs, fmt.Sprintf(format, a...))
}

// Tid returns the id of the running thread.
func (s *Sched) Tid() int { return s.cur.id }

func (s *Sched) enabled(cur *thread) []*thread {
	var en []*thread
	if cur != nil && cur.state == runnable {
		en = append(en, cur)
	}
	for _, t := range s.threads {
		if t != cur && t.state == runnable {
			en = append(en, t)
		}
	}
	return en
}

func (s *Sched) choose(n int, costly bool, label string, f *File, line int) int {
	if n == 1 {
		return 0
	}
	pos := len(s.x.Points)
	c := 0
	if pos < len(s.prefix) {
		c = s.prefix[pos]
		if c < 0 || c >= n {
			// not fatal here: the explorer counts it and the run ends HARNESS-UNSOUND unless this or
			// another (real) execution violates the property
			s.x.Diverged = true
			s.prefix = s.prefix[:pos]
			c = 0
		}
	}
	s.x.Points = append(s.x.Points, Point{N: n, Costly: costly, Chosen: c, Label: label, F: f, Line: line})
	s.x.Choices = append(s.x.Choices, c)
	return c
}

func (s *Sched) checkCaller() {
	if s.paranoid {
		if g := goid(); g != s.cur.goid {
			fmt.Printf("HARNESS-UNSOUND: scheduling point reached from goroutine %d while thread %s (goroutine %d) is the running thread: uncontrolled concurrency\n%s\n", g, s.cur.name, s.cur.goid, debug.Stack())
			os.Exit(2)
		}
	}
}

// point is a scheduling point of the running thread.
func (s *Sched) point(label string, f *File, line int) {
	if s.aborting {
		return
	}
	s.checkCaller()
	s.x.Steps++
	if s.x.Steps > s.maxSteps {
		panic("sched: step limit exceeded (livelock?)")
	}
	t := s.cur
	en := s.enabled(t)
	if len(en) == 0 {
		s.deadlock()
		return
	}
	c := s.choose(len(en), t.state == runnable, label, f, line)
	next := en[c]
	if next != t {
		s.switchTo(t, next)
	}
}

func (s *Sched) switchTo(t, next *thread) {
	s.cur = next
	next.wake <- struct{}{}
	<-t.wake
	if s.aborting {
		panic(abortSentinel{})
	}
}

func (s *Sched) finish(t *thread) {
	t.state = done
	en := s.enabled(nil)
	if len(en) == 0 {
		all := true
		for _, o := range s.threads {
			if o.state != done {
				all = false
			}
		}
		if all {
			close(s.finished)
			return
		}
		s.deadlockFrom(t)
		return
	}
	c := s.choose(len(en), false, "exit:"+t.name, nil, 0)
	next := en[c]
	s.cur = next
	next.wake <- struct{}{}
}

// deadlock is reached by a thread that just blocked with nobody else enabled.
func (s *Sched) deadlock() {
	s.deadlockFrom(nil)
	// the calling thread is itself blocked: unwind it
	panic(abortSentinel{})
}

func (s *Sched) deadlockFrom(exiting *thread) {
	s.x.Deadlock = true
	for _, o := range s.threads {
		if o.state == blocked {
			s.x.Blocked = append(s.x.Blocked, fmt.Sprintf("%s blocked on %v", o.name, describe(o.blockOn)))
		}
	}
	// abort every parked thread
	s.aborting = true
	self := s.cur
	if exiting != nil {
		self = exiting
	}
	pending := 0
	for _, o := range s.threads {
		if o.state != done && o != self {
			pending++
			o.wake <- struct{}{}
		}
	}
	go func() {
		for i := 0; i < pending; i++ {
			<-s.exited
		}
		if exiting == nil {
			// wait for the deadlocking thread itself to unwind
			<-s.exited
		}
		close(s.finished)
	}()
}

func describe(o interface{}) string {
	if d, ok := o.(fmt.Stringer); ok {
		return d.String()
	}
	return fmt.Sprintf("%T@%p", o, o)
}

// Yield is the statement-level scheduling point inserted by the rewriter.
func Yield(f *File, line int) {
	s := active.Load()
	if s == nil || !f.On {
		return
	}
	s.point("", f, line)
}

// YieldsOnly, when set before an execution starts, makes the inserted Yields of the enabled files (and environment
// choices, and blocking) the only scheduling points: lock and atomic operations of other instrumented code stop being
// points. Used by scenarios that interleave one small component while everything around it runs atomically: the
// surrounding code may take its (shim) locks in an order that depends on Go's map iteration, which would otherwise
// make the number of points vary between an execution and its replay.
var YieldsOnly bool

// Acquire blocks the running thread until try succeeds; obj identifies the resource.
func (s *Sched) Acquire(obj interface{}, what string, try func() bool, onBlock func()) {
	if s.aborting {
		return
	}
	if !s.yieldsOnly {
		s.point(what, nil, 0)
	}
	first := true
	for !try() {
		if first && onBlock != nil {
			onBlock()
			first = false
		}
		s.block(obj)
	}
}

func (s *Sched) block(obj interface{}) {
	t := s.cur
	t.state = blocked
	t.blockOn = obj
	s.point("block", nil, 0)
}

// Release wakes the threads blocked on obj.
func (s *Sched) Release(obj interface{}) {
	for _, t := range s.threads {
		if t.state == blocked && t.blockOn == obj {
			t.state = runnable
			t.blockOn = nil
		}
	}
}

// Op is a scheduling point before an atomic operation.
func (s *Sched) Op(what string) {
	if !s.yieldsOnly {
		s.point(what, nil, 0)
	}
}

// Aborting reports whether the execution is being torn down.
func (s *Sched) Aborting() bool { return s.aborting }

// Choose is an environment choice with n alternatives; 0 is the default answer,
// any other answer costs one deviation.
func Choose(n int, site string) int {
	s := active.Load()
	if s == nil || s.aborting {
		return 0
	}
	s.checkCaller()
	return s.choose(n, true, "choose:"+site, nil, 0)
}

// Pause is an explicit harness-level scheduling point.
func Pause(site string) {
	if s := active.Load(); s != nil {
		s.point(site, nil, 0)
	}
}
