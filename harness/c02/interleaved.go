package c02

// Part (interleaved): deliveries from two publishers reach one subscriber at the same time. The subscriber's socket
// lets the second publisher's whole delivery happen right after the first write the first publisher's delivery makes
// on it (the hook runs the second publish to its acknowledgement, then returns). If a delivery is one socket write,
// nothing can come between its bytes; if it were several, the other delivery would land in the middle. Whatever the
// payload sizes, the subscriber must receive both messages, each once, payloads unchanged.

import (
	"bytes"
	"fmt"
	"net"

	"github.com/emitter-io/emitter/internal/security"
	"github.com/emitter-io/emitter/internal/verifx/engine/brokerx"
	"github.com/emitter-io/emitter/internal/verifx/engine/core"
	"github.com/emitter-io/emitter/internal/verifx/engine/session"
)

type ilCase struct {
	Part  string `json:"part"` // "interleaved"
	SizeA int    `json:"first_payload_bytes"`
	SizeC int    `json:"second_payload_bytes"`
}

func runInterleaved(c *core.Ctx, ic ilCase) {
	env := brokerx.MustNew(brokerx.Options{})
	defer env.Close()
	key := env.MustKey("#/", security.AllowRead|security.AllowWrite)
	mk := func(name string) *session.Client {
		cl := session.NewClient(name, func(nc net.Conn) { env.Svc.VerifAttach(nc) })
		cl.Connect(session.ConnectOpts{ClientID: "il" + name})
		return cl
	}
	a, b, cc := mk("A"), mk("B"), mk("C")
	defer a.Abort()
	defer b.Abort()
	defer cc.Abort()
	if code, ok := b.Subscribe(key + "/il/"); !ok || code == 0x80 {
		c.ViolatePart("interleaved", "interleaved:subscribe-refused", "subscribe refused", ic)
		return
	}
	b.Drain()
	pa := append([]byte("from-A:"), bytes.Repeat([]byte{'a'}, ic.SizeA)...)
	pc := append([]byte("from-C:"), bytes.Repeat([]byte{'c'}, ic.SizeC)...)
	fired, cOK := false, true
	b.Conn.AfterWrite = func(int) {
		if fired {
			return
		}
		fired = true
		cOK = cc.Publish(key+"/il/", pc, false) // returns when the broker has acknowledged C's publish
	}
	aOK := a.Publish(key+"/il/", pa, false)
	b.Conn.AfterWrite = nil
	if !aOK || !cOK || !fired {
		c.ViolatePart("interleaved", "interleaved:no-puback", fmt.Sprintf("publish not acknowledged (A %v, C %v, subscriber socket written: %v)", aOK, cOK, fired), ic)
		return
	}
	ps := b.Drain()
	shape := fmt.Sprintf("first=%s:second=%s", sizeClass(ic.SizeA), sizeClass(ic.SizeC))
	if b.Err != nil {
		c.ViolatePart("interleaved", "interleaved:torn-packet:"+shape, fmt.Sprintf("two deliveries (%d and %d payload bytes) reached the subscriber at the same time; its stream does not parse: %v", len(pa), len(pc), b.Err), ic)
		return
	}
	gotA, gotC := 0, 0
	for _, p := range ps {
		switch {
		case p.Type == session.PUBLISH && bytes.Equal(p.Payload, pa):
			gotA++
		case p.Type == session.PUBLISH && bytes.Equal(p.Payload, pc):
			gotC++
		default:
			c.ViolatePart("interleaved", "interleaved:wrong-payload:"+shape, fmt.Sprintf("the subscriber received a packet that is neither message (type %d, %d payload bytes, starts %.20q)", p.Type, len(p.Payload), p.Payload), ic)
			return
		}
	}
	if gotA != 1 || gotC != 1 {
		c.ViolatePart("interleaved", "interleaved:missing-or-duplicate:"+shape, fmt.Sprintf("the subscriber received A's message %d times and C's %d times", gotA, gotC), ic)
	}
}

func sizeClass(n int) string {
	switch {
	case n < 1024:
		return "small"
	case n < 16384:
		return "medium"
	}
	return "large"
}

func partInterleaved(c *core.Ctx) {
	sizes := []int{10, 1100, 4200, 8300, 60000}
	for _, sa := range sizes {
		for _, sc := range []int{10, 4200, 60000} {
			runInterleaved(c, ilCase{Part: "interleaved", SizeA: sa, SizeC: sc})
			c.Add("interleaved_cases", 1)
		}
	}
	c.Assume("part (interleaved): the second delivery is inserted after the first socket write of the first one (one insertion point per case, every payload size pair of the menu)")
}
