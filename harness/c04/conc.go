package c04

// Part (conc): deliveries arriving at one broker at the same time. Two gossip payloads are merged into one replica
// by two goroutines while a third applies a local update and reads: whatever the interleaving, the replica must end
// up with the point-wise maximum of everything it received (that is what makes the order of delivery irrelevant),
// and the entry must be active exactly when its add time is not older than its remove time. Explored exhaustively
// under the controlled scheduler with statement-level yields in the volatile set and the value code.

import (
	"fmt"
	"strings"

	"github.com/emitter-io/emitter/internal/event/crdt"
	"github.com/emitter-io/emitter/internal/verifx/engine/sched"
)

var concClock int64

func volWith(add, del int64) *crdt.Volatile {
	v := crdt.NewVolatile()
	if add > 0 {
		concClock = add
		v.Add("k1", nil)
	}
	if del > 0 {
		concClock = del
		v.Del("k1")
	}
	return v
}

// receiver builds the replica under test: a volatile set, or a durable one (in-memory buntdb) fed through a merge so
// that it holds exactly the given times.
func receiver(durable bool, add, del int64) crdt.Map {
	if !durable {
		return volWith(add, del)
	}
	d := crdt.NewDurable(":memory:")
	if add > 0 || del > 0 {
		d.Merge(volWith(add, del))
	}
	return d
}

func concScenarios() map[string]*sched.Scenario {
	type sc struct {
		name               string
		base, in1, in2     [2]int64
		localAdd, localDel int64
		wantAdd, wantDel   int64
	}
	list := []sc{
		{"merge-merge-add", [2]int64{2, 0}, [2]int64{3, 1}, [2]int64{1, 4}, 5, 0, 5, 4},
		{"merge-merge-del", [2]int64{2, 1}, [2]int64{6, 0}, [2]int64{0, 3}, 0, 5, 6, 5},
		// the key is not known to the replica yet (a read returns a fresh value, not a view of a stored one)
		{"merge-merge-unknown", [2]int64{0, 0}, [2]int64{3, 1}, [2]int64{1, 4}, 5, 0, 5, 4},
	}
	m := map[string]*sched.Scenario{}
	for _, base := range list {
		for _, durable := range []bool{false, true} {
			x, durable := base, durable
			files := []string{"internal/event/crdt/volatile.go", "internal/event/crdt/map.go"}
			if durable {
				// the durable set: yields between the statements of its methods; its buntdb transactions are atomic
				x.name = "durable-" + x.name
				files = []string{"internal/event/crdt/durable.go"}
			}
			m[x.name] = &sched.Scenario{
				Name: x.name, Files: files,
				Body: func(s *sched.Sched) {
					orig := crdt.Now
					crdt.Now = func() int64 { return concClock }
					r := receiver(durable, x.base[0], x.base[1])
					o1, o2 := volWith(x.in1[0], x.in1[1]), volWith(x.in2[0], x.in2[1])
					r.Has("k1") // the entry has been looked up before (authorisation does that): a durable set now serves it from its read cache
					var sawHas []bool
					s.Go("M1", func() { r.Merge(o1) })
					s.Go("M2", func() { r.Merge(o2) })
					s.Go("L", func() {
						// the local clock is read inside Add/Del; it is fixed for the whole execution
						if x.localAdd > 0 {
							r.Add("k1", nil)
						} else {
							r.Del("k1")
						}
						sawHas = append(sawHas, r.Has("k1"))
					})
					if x.localAdd > 0 {
						concClock = x.localAdd
					} else {
						concClock = x.localDel
					}
					s.AtEnd(func() {
						v := r.Get("k1")
						s.Obs("add=%d del=%d has=%v", v.AddTime(), v.DelTime(), r.Has("k1"))
						crdt.Now = orig
					})
				},
				Check: func(e *sched.Exec) (string, string) {
					want := fmt.Sprintf("add=%d del=%d has=%v", x.wantAdd, x.wantDel, x.wantAdd >= x.wantDel)
					if len(e.Obs) != 1 || e.Obs[0] != want {
						return "concurrent-merges:not-pointwise-max", fmt.Sprintf("replica (add=%d,del=%d) received (add=%d,del=%d) and (add=%d,del=%d) at the same time as a local update at %d: holds [%s], the point-wise maximum is [%s]",
							x.base[0], x.base[1], x.in1[0], x.in1[1], x.in2[0], x.in2[1], x.localAdd+x.localDel, strings.Join(e.Obs, " "), want)
					}
					return "", ""
				},
			}
		}
	}
	return m
}

var concOrder = []string{"merge-merge-add", "merge-merge-del", "merge-merge-unknown", "durable-merge-merge-add", "durable-merge-merge-del", "durable-merge-merge-unknown"}
