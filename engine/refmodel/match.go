// Package refmodel holds the boring reference models written from the property statements.
package refmodel

import "strings"

// Levels splits "a/b/" into ["a","b"].
func Levels(ch string) []string {
	ch = strings.Trim(ch, "/")
	if ch == "" {
		return nil
	}
	return strings.Split(ch, "/")
}

// MatchEmitter: the filter is a level-wise prefix of the channel and '+' matches any one level.
func MatchEmitter(filter, channel []string) bool {
	if len(filter) > len(channel) {
		return false
	}
	for i, f := range filter {
		if f != "+" && f != channel[i] {
			return false
		}
	}
	return true
}

// MatchMQTT: same depth, '+' matches one level, a trailing '#' matches one or more further levels.
func MatchMQTT(filter, channel []string) bool {
	if n := len(filter); n > 0 && filter[n-1] == "#" {
		pre := filter[:n-1]
		if len(channel) < len(pre)+1 {
			return false
		}
		for i, f := range pre {
			if f != "+" && f != channel[i] {
				return false
			}
		}
		return true
	}
	if len(filter) != len(channel) {
		return false
	}
	for i, f := range filter {
		if f != "+" && f != channel[i] {
			return false
		}
	}
	return true
}

// Match dispatches on the mode ("mqtt" or emitter).
func Match(mode string, filter, channel []string) bool {
	if mode == "mqtt" {
		return MatchMQTT(filter, channel)
	}
	return MatchEmitter(filter, channel)
}
