// Package c12: a key cannot be altered into a more powerful one.
//
// For every license version (1 XTEA, 2 Salsa, 3 Shuffle) and every issued key (5 permission masks x
// 4 targets x 2 expiries, fixed salt) every mutant of a stated edit menu is presented to the REAL
// broker.Service.Authorize (plus the real keygen.CreateKey for "is it a master key now") over a probe
// set of channels x operations. Oracle, from the statement: grants(mutant) is a subset of
// grants(original) (for cross-key block swaps: of the union of the two donors).
package c12

import (
	"encoding/base64"
	"encoding/json"
	"fmt"
	"runtime/debug"
	"sort"
	"strings"
	"sync"
	"time"

	"github.com/emitter-io/emitter/internal/security"
	"github.com/emitter-io/emitter/internal/verifx/engine/authconc"
	"github.com/emitter-io/emitter/internal/verifx/engine/brokerx"
	"github.com/emitter-io/emitter/internal/verifx/engine/core"
	"github.com/emitter-io/emitter/internal/verifx/engine/sched"
)

func init() {
	core.Register(&core.Check{ID: "C12", Level: "exploration", Run: run, Replay: replay, Worker: schedWorker})
}

const alphabet = "ABCDEFGHIJKLMNOPQRSTUVWXYZabcdefghijklmnopqrstuvwxyz0123456789-_"

var b64 = base64.RawURLEncoding

// ---- probe set -------------------------------------------------------------------------

type opDef struct {
	name string
	bit  uint8
}

// the six channel operations (permission bits of security.Key) + "master" (bit 7 of our own mask,
// observed through the real keygen.CreateKey: may this string mint keys?)
var ops = []opDef{
	{"read", security.AllowRead}, {"write", security.AllowWrite}, {"store", security.AllowStore},
	{"load", security.AllowLoad}, {"presence", security.AllowPresence}, {"extend", security.AllowExtend},
}

const masterBit = uint8(1 << 7)

func opNames(mask uint8) []string {
	var out []string
	for _, o := range ops {
		if mask&o.bit != 0 {
			out = append(out, o.name)
		}
	}
	if mask&masterBit != 0 {
		out = append(out, "master")
	}
	return out
}

// probes: every channel of depth 1..2 over {a,b,c,+}, plain and with a trailing "#/", plus a/b/c/,
// a/b/c/#/ and #/ (43 channels). The quick tier leaves out the level "c" (27 channels).
func probeChannels(quick bool) []string {
	lv := []string{"a", "b", "c", "+"}
	if quick {
		lv = []string{"a", "b", "+"}
	}
	var out []string
	for _, x := range lv {
		out = append(out, x+"/")
	}
	for _, x := range lv {
		for _, y := range lv {
			out = append(out, x+"/"+y+"/")
		}
	}
	out = append(out, "a/b/c/")
	n := len(out)
	for i := 0; i < n; i++ {
		out = append(out, out[i]+"#/")
	}
	out = append(out, "#/")
	return out
}

var probes = probeChannels(false) // replaced by the quick set in run() before any evaluation

// grants: per probe channel the mask of granted operations; index len(probes) holds masterBit.
type grants []uint8

func (g grants) empty() bool {
	for _, m := range g {
		if m != 0 {
			return false
		}
	}
	return true
}

func (g grants) list() []string {
	var out []string
	for i, m := range g {
		if m == 0 {
			continue
		}
		if i == len(probes) {
			out = append(out, "keygen:master")
			continue
		}
		out = append(out, probes[i]+":"+strings.Join(opNames(m), ","))
	}
	return out
}

// grantsOf asks the real broker.
func grantsOf(env *brokerx.Env, key string, calls *int64) grants {
	g := make(grants, len(probes)+1)
	for i, p := range probes {
		// parsed once per (key, channel) by the real parser, as a request handler does; Authorize
		// does not modify the channel
		ch := security.ParseChannel([]byte(key + "/" + p))
		for _, o := range ops {
			if _, _, ok := env.Svc.Authorize(ch, o.bit); ok {
				g[i] |= o.bit
			}
		}
	}
	if _, err := env.Svc.VerifKeygen().CreateKey(key, "a/", security.AllowRead, time.Unix(0, 0)); err == nil {
		g[len(probes)] = masterBit
	}
	*calls += int64(len(probes)*len(ops) + 1)
	return g
}

// ---- issued keys -------------------------------------------------------------------------

const pastExpiry = int64(1577836800) // 2020-01-01T00:00:00Z, years away from "now"

type keySpec struct {
	Perms  uint8  `json:"perms"`
	Target string `json:"target"`
	Expiry int64  `json:"expiry_unix"` // 0 = never
	Salt   uint16 `json:"salt"`
}

func (k keySpec) String() string {
	e := "noexp"
	if k.Expiry != 0 {
		e = "expired"
	}
	p := strings.Join(opNames(k.Perms), "+")
	if p == "" {
		p = "none"
	}
	return fmt.Sprintf("%s on %s,%s,salt=%04x", p, k.Target, e, k.Salt)
}

var maskSet = []uint8{
	security.AllowRead, security.AllowWrite, security.AllowReadWrite,
	security.AllowReadWrite | security.AllowLoad, security.AllowNone,
}
var targetSet = []string{"a/", "a/b/", "a/#/", "+/"}

func issuedSpecs(salt uint16) []keySpec {
	var out []keySpec
	for _, exp := range []int64{0, pastExpiry} {
		for _, t := range targetSet {
			for _, m := range maskSet {
				out = append(out, keySpec{Perms: m, Target: t, Expiry: exp, Salt: salt})
			}
		}
	}
	return out
}

// craft builds the 24 key bytes exactly as keygen.CreateKey does, with the salt fixed instead of
// drawn from crypto/rand, and encrypts them with the license's real cipher.
func craft(env *brokerx.Env, s keySpec) string {
	k := security.Key(make([]byte, 24))
	k.SetSalt(s.Salt)
	k.SetMaster(1)
	k.SetContract(env.License.Contract())
	k.SetSignature(env.License.Signature())
	k.SetPermissions(s.Perms)
	k.SetExpires(time.Unix(s.Expiry, 0))
	k.SetPermission(security.AllowMaster, false)
	if err := k.SetTarget(s.Target); err != nil {
		panic(err)
	}
	return env.RawKey(k)
}

// sameAsKeygen: the key minted by the real keygen for the same request has the same 22 non-salt
// bytes as the crafted key (harness self-check, not an oracle).
func sameAsKeygen(env *brokerx.Env, s keySpec) error {
	real, err := env.Key(s.Target, s.Perms, time.Unix(s.Expiry, 0))
	if err != nil {
		return err
	}
	a, err := env.Cipher.DecryptKey([]byte(real))
	if err != nil {
		return err
	}
	b, err := env.Cipher.DecryptKey([]byte(craft(env, s)))
	if err != nil {
		return err
	}
	if string(a[2:]) != string(b[2:]) {
		return fmt.Errorf("crafted key %x differs from keygen key %x for %v", []byte(b), []byte(a), s)
	}
	return nil
}

// ---- edits --------------------------------------------------------------------------------

type edit struct {
	Kind string `json:"kind"`           // char-subst | xor-mask | bit-pair | block-swap-within | block-swap-cross
	Pos  int    `json:"pos,omitempty"`  // char-subst: position in the 32-char string
	Char string `json:"char,omitempty"` // char-subst: replacement character
	Byte int    `json:"byte,omitempty"` // xor-mask: decoded byte index
	Mask int    `json:"mask,omitempty"` // xor-mask: 1..255
	BitA int    `json:"bit_a"`          // bit-pair: bit indices 0..191 (bit 0 = msb of byte 0)
	BitB int    `json:"bit_b"`
	Dst  int    `json:"dst_block"` // block swaps: 8-byte block indices 0..2
	Src  int    `json:"src_block"`
}

func decode(s string) []byte {
	b, err := b64.DecodeString(s)
	if err != nil || len(b) != 24 {
		panic(fmt.Sprintf("issued key %q does not decode to 24 bytes: %v", s, err))
	}
	return b
}

// apply produces the mutant string; donor is only used by block-swap-cross.
func apply(orig, donor string, e edit) string {
	switch e.Kind {
	case "char-subst":
		return orig[:e.Pos] + e.Char + orig[e.Pos+1:]
	case "xor-mask":
		b := decode(orig)
		b[e.Byte] ^= byte(e.Mask)
		return b64.EncodeToString(b)
	case "bit-pair":
		b := decode(orig)
		b[e.BitA/8] ^= 0x80 >> uint(e.BitA%8)
		b[e.BitB/8] ^= 0x80 >> uint(e.BitB%8)
		return b64.EncodeToString(b)
	case "block-swap-within":
		b := decode(orig)
		var t [8]byte
		copy(t[:], b[e.Dst*8:e.Dst*8+8])
		copy(b[e.Dst*8:e.Dst*8+8], b[e.Src*8:e.Src*8+8])
		copy(b[e.Src*8:e.Src*8+8], t[:])
		return b64.EncodeToString(b)
	case "block-swap-cross":
		b, d := decode(orig), decode(donor)
		copy(b[e.Dst*8:e.Dst*8+8], d[e.Src*8:e.Src*8+8])
		return b64.EncodeToString(b)
	}
	panic("unknown edit " + e.Kind)
}

// fieldClass names the key field a decoded byte index belongs to (layout of security.Key).
func fieldClass(i int) string {
	switch {
	case i < 2:
		return "bytes0-1" // salt
	case i < 4:
		return "bytes2-3" // master id
	case i < 8:
		return "bytes4-7" // contract
	case i < 12:
		return "bytes8-11" // signature
	case i < 15:
		return "bytes12-14" // target path bits
	case i == 15:
		return "byte15" // permissions
	case i < 20:
		return "bytes16-19" // target hash
	default:
		return "bytes20-23" // expiry
	}
}

// diffClasses: field classes of the decoded bytes in which mutant and original differ.
func diffClasses(orig, mut string) string {
	a, b := decode(orig), decode(mut)
	var out []string
	for i := range a {
		if a[i] != b[i] {
			c := fieldClass(i)
			if len(out) == 0 || out[len(out)-1] != c {
				out = append(out, c)
			}
		}
	}
	return strings.Join(out, "+")
}

// license id 4 is a version-1 license whose contract signature is 0 (a field value at its boundary); it shares the
// cipher, hence the name and the structural findings, of version 1
var cipherName = map[int]string{1: "v1-xtea", 2: "v2-salsa", 3: "v3-shuffle", 4: "v1-xtea"}

// ---- one case ------------------------------------------------------------------------------

type mutCase struct {
	Version  int      `json:"license_version"`
	Key      keySpec  `json:"key"`
	Donor    *keySpec `json:"donor,omitempty"`
	Edit     edit     `json:"edit"`
	Original string   `json:"original_key"`
	DonorKey string   `json:"donor_key,omitempty"`
	Mutant   string   `json:"mutant_key"`
	Allowed  []string `json:"grants_allowed"`
	Got      []string `json:"grants_of_mutant"`
	Gained   []string `json:"gained"`
	// Issued: both keys were minted by the real keygen.CreateKey (salts as the broker draws them); the replay uses
	// the recorded strings, which stay valid because the harness license of a version is fixed
	Issued bool `json:"issued_by_keygen,omitempty"`
}

type viol struct {
	sig, what string
	cs        mutCase
}

// gainedOver returns per-operation gain (mask over ops + masterBit) and the first gaining probe.
func gainedOver(mut, allowed grants) (uint8, map[uint8]string) {
	var all uint8
	first := map[uint8]string{}
	for i := range mut {
		d := mut[i] &^ allowed[i]
		if d == 0 {
			continue
		}
		name := "keygen"
		if i < len(probes) {
			name = probes[i]
		}
		for b := uint8(1); b != 0; b <<= 1 {
			if d&b != 0 {
				if _, ok := first[b]; !ok {
					first[b] = name
				}
			}
		}
		all |= d
	}
	return all, first
}

func editClass(e edit, orig, mut string) (kind, where string) {
	switch e.Kind {
	case "block-swap-within":
		return "block-swap:within", fmt.Sprintf("block%d<->block%d", e.Dst, e.Src)
	case "block-swap-cross":
		return "block-swap:cross", fmt.Sprintf("block%d<-block%d", e.Dst, e.Src)
	}
	return e.Kind, diffClasses(orig, mut)
}

// judge compares one mutant with what it may grant; ignore = operations whose gain is already
// produced by a strict sub-edit (bit pairs: by one of the two single flips).
func judge(ver int, ks keySpec, donor *keySpec, e edit, orig, donorKey, mut string, allowed, got grants, ignore uint8, kindSuffix string) (vs []viol, implied uint8) {
	gain, first := gainedOver(got, allowed)
	if gain == 0 {
		return nil, 0
	}
	implied = gain & ignore
	gain &^= ignore
	if gain == 0 {
		return nil, implied
	}
	kind, where := editClass(e, orig, mut)
	kind += kindSuffix
	for _, name := range opNames(gain) {
		var bit uint8 = masterBit
		for _, o := range ops {
			if o.name == name {
				bit = o.bit
			}
		}
		sig := fmt.Sprintf("%s:%s:%s:gains-%s", cipherName[ver], kind, where, name)
		what := fmt.Sprintf("%s license: key issued for [%s] edited by %s at %s is accepted by Authorize and gains '%s' on %s, which the original does not grant",
			cipherName[ver], ks.String(), kind, where, name, first[bit])
		vs = append(vs, viol{sig: sig, what: what, cs: mutCase{Version: ver, Key: ks, Donor: donor, Edit: e, Original: orig, DonorKey: donorKey,
			Mutant: mut, Allowed: allowed.list(), Got: got.list(), Gained: opNames(gain), Issued: kindSuffix == "-issued"}})
	}
	return vs, implied
}

func opMask(g, allowed grants) uint8 {
	m, _ := gainedOver(g, allowed)
	return m
}

// ---- enumeration ---------------------------------------------------------------------------

type unitResult struct {
	evals, calls, identity, accepted, impliedPairs int64
	nontrivial                                     map[string]struct{}
	viols                                          []viol
	sigCount                                       map[string]int64
	byKind                                         map[string]int64
	sample                                         *mutCase
	skipped                                        bool
}

func newResult() *unitResult {
	return &unitResult{nontrivial: map[string]struct{}{}, sigCount: map[string]int64{}, byKind: map[string]int64{}}
}

func (r *unitResult) record(vs []viol) {
	for _, v := range vs {
		if r.sigCount[v.sig] == 0 {
			r.viols = append(r.viols, v)
		}
		r.sigCount[v.sig]++
	}
}

type unit struct {
	ver    int
	key    int // index into issued specs (salt A)
	part   string
	lo, hi int // bit-pair: range of first bit; cross: unused
}

type world struct {
	env    map[int]*brokerx.Env
	specsA []keySpec // issued keys, salt A
	specsB []keySpec // same requests, salt B (donors with another salt)
	keyA   map[int][]string
	keyB   map[int][]string
	grA    map[int][]grants
	grB    map[int][]grants
}

func saltA(seed int64) uint16 { return (0x2a51 ^ uint16(seed)) & 0x7fff }
func saltB(seed int64) uint16 { return saltA(seed) ^ 0x7092 }

func buildWorld(seed int64, versions []int) *world {
	w := &world{env: map[int]*brokerx.Env{}, keyA: map[int][]string{}, keyB: map[int][]string{}, grA: map[int][]grants{}, grB: map[int][]grants{}}
	w.specsA, w.specsB = issuedSpecs(saltA(seed)), issuedSpecs(saltB(seed))
	for _, v := range versions {
		env := brokerx.MustNew(brokerx.Options{LicenseVersion: v})
		w.env[v] = env
		var calls int64
		for i := range w.specsA {
			ka, kb := craft(env, w.specsA[i]), craft(env, w.specsB[i])
			w.keyA[v] = append(w.keyA[v], ka)
			w.keyB[v] = append(w.keyB[v], kb)
			w.grA[v] = append(w.grA[v], grantsOf(env, ka, &calls))
			w.grB[v] = append(w.grB[v], grantsOf(env, kb, &calls))
		}
	}
	return w
}

// singleFlipGain: for each of the 192 bits, the operations gained by flipping that bit alone.
func singleFlipGain(env *brokerx.Env, orig string, allowed grants, calls *int64) [192]uint8 {
	var out [192]uint8
	for bit := 0; bit < 192; bit++ {
		m := apply(orig, "", edit{Kind: "xor-mask", Byte: bit / 8, Mask: 0x80 >> uint(bit%8)})
		out[bit] = opMask(grantsOf(env, m, calls), allowed)
	}
	return out
}

func (w *world) runUnit(u unit, quick bool) *unitResult {
	r := newResult()
	env := w.env[u.ver]
	ks := w.specsA[u.key]
	orig := w.keyA[u.ver][u.key]
	allowed := w.grA[u.ver][u.key]
	one := func(e edit, donor *keySpec, donorKey string, allow grants, ignore uint8, suffix string) {
		mut := apply(orig, donorKey, e)
		if mut == orig || (donorKey != "" && mut == donorKey) {
			r.identity++
			return
		}
		got := grantsOf(env, mut, &r.calls)
		r.evals++
		r.byKind[e.Kind+suffix]++
		if !got.empty() {
			r.accepted++
			r.nontrivial[mut] = struct{}{}
			if r.sample == nil && e.Kind != "bit-pair" {
				r.sample = &mutCase{Version: u.ver, Key: ks, Donor: donor, Edit: e, Original: orig, DonorKey: donorKey, Mutant: mut, Allowed: allow.list(), Got: got.list()}
			}
		}
		vs, implied := judge(u.ver, ks, donor, e, orig, donorKey, mut, allow, got, ignore, suffix)
		if implied != 0 && len(vs) == 0 {
			r.impliedPairs++
		}
		r.record(vs)
	}
	switch u.part {
	case "subst":
		for pos := 0; pos < 32; pos++ {
			for c := 0; c < 64; c++ {
				if alphabet[c] == orig[pos] {
					continue
				}
				one(edit{Kind: "char-subst", Pos: pos, Char: string(alphabet[c])}, nil, "", allowed, 0, "")
			}
		}
	case "xor", "xor1":
		for by := 0; by < 24; by++ {
			for m := 1; m < 256; m++ {
				if u.part == "xor1" && m&(m-1) != 0 {
					continue // quick tier, remaining keys: single-bit masks only
				}
				one(edit{Kind: "xor-mask", Byte: by, Mask: m}, nil, "", allowed, 0, "")
			}
		}
		for i := 0; i < 3; i++ {
			for j := i + 1; j < 3; j++ {
				one(edit{Kind: "block-swap-within", Dst: i, Src: j}, nil, "", allowed, 0, "")
			}
		}
	case "pairs":
		single := singleFlipGain(env, orig, allowed, &r.calls)
		for a := u.lo; a < u.hi; a++ {
			for b := a + 1; b < 192; b++ {
				one(edit{Kind: "bit-pair", BitA: a, BitB: b}, nil, "", allowed, single[a]|single[b], "")
			}
		}
	case "issued":
		// destination and donors are minted by the real keygen.CreateKey, i.e. with the salts the broker itself
		// draws: what two independently issued keys can be spliced into. (Equal salts are the known finding
		// "cross-equal-salt": a donor whose salt happens to equal the destination's is minted again; if the
		// keygen hands out the same salt 20 times in a row the pair is used as it is.)
		mint := func(sp keySpec) (string, uint16) {
			k, err := env.Key(sp.Target, sp.Perms, time.Unix(sp.Expiry, 0))
			if err != nil {
				panic(fmt.Sprintf("keygen: %v", err))
			}
			raw, err := env.Cipher.DecryptKey([]byte(k))
			if err != nil {
				panic(fmt.Sprintf("keygen key does not decrypt: %v", err))
			}
			return k, raw.Salt()
		}
		var dstSalt uint16
		orig, dstSalt = mint(ks)
		allowed = grantsOf(env, orig, &r.calls)
		for di := range w.specsA {
			if di == u.key {
				continue
			}
			ds := w.specsA[di]
			dk, salt := mint(ds)
			for try := 0; salt == dstSalt && try < 20; try++ {
				dk, salt = mint(ds)
			}
			dg := grantsOf(env, dk, &r.calls)
			union := make(grants, len(allowed))
			for i := range union {
				union[i] = allowed[i] | dg[i]
			}
			d := ds
			for dst := 0; dst < 3; dst++ {
				for src := 0; src < 3; src++ {
					one(edit{Kind: "block-swap-cross", Dst: dst, Src: src}, &d, dk, union, 0, "-issued")
				}
			}
		}
	case "cross":
		// destination = this key; donors = every other issued key with the same salt, and every
		// issued key with another salt
		for di := range w.specsA {
			for _, other := range []bool{false, true} {
				if !other && di == u.key {
					continue
				}
				var dk string
				var ds keySpec
				var dg grants
				suffix := "-equal-salt"
				if other {
					dk, ds, dg, suffix = w.keyB[u.ver][di], w.specsB[di], w.grB[u.ver][di], "-other-salt"
				} else {
					dk, ds, dg = w.keyA[u.ver][di], w.specsA[di], w.grA[u.ver][di]
				}
				union := make(grants, len(allowed))
				for i := range union {
					union[i] = allowed[i] | dg[i]
				}
				d := ds
				for dst := 0; dst < 3; dst++ {
					for src := 0; src < 3; src++ {
						one(edit{Kind: "block-swap-cross", Dst: dst, Src: src}, &d, dk, union, 0, suffix)
					}
				}
			}
		}
	}
	return r
}

// Quick tier subsets. Every byte position, every mask value, every character position and every
// bit pair is still covered, but on fewer issued keys: masks {rwl, none} are the two that between
// them can gain every operation (rwl: store/presence/extend/master through byte 15 and
// read/write/load through the target and expiry bytes; none: all of them through byte 15).
func quickFullKey(s keySpec) bool {
	return (s.Perms == security.AllowReadWrite|security.AllowLoad || s.Perms == security.AllowNone) && (s.Target == "a/" || s.Target == "a/#/")
}

// bit pairs: additionally the unexpired r key (its permission byte is two flips away from "master")
func quickPairKey(s keySpec) bool {
	return (quickFullKey(s) && s.Target == "a/") || (s.Perms == security.AllowRead && s.Target == "a/" && s.Expiry == 0)
}

func run(c *core.Ctx) {
	// the live heap is tiny and the loop allocates a few small objects per Authorize call: without this
	// the collector runs thousands of times per second on 16 goroutines
	defer debug.SetGCPercent(debug.SetGCPercent(1600))
	probes = probeChannels(c.Quick())
	versions := []int{1, 2, 3, 4}
	w := buildWorld(c.Seed, versions)
	for _, v := range versions {
		for _, s := range w.specsA {
			if err := sameAsKeygen(w.env[v], s); err != nil {
				core.HarnessFailure("C12: %v", err)
			}
		}
	}
	c.Assume("issued keys are built field by field exactly as keygen.CreateKey builds them and encrypted with the license's real cipher, with a fixed salt instead of a crypto/rand salt (checked: the 22 non-salt bytes equal those of a key minted by the real CreateKey for the same request)")
	c.Assume("cross-key block swaps use donors with an equal salt (an attacker gets those from ExtendKey, which copies the parent's salt, or by collecting ~200 keys: salts are 15 bits) and donors with another salt, reported under separate edit kinds")
	c.Assume("a third donor family are keys minted by the real keygen.CreateKey (the broker's own salts): block swaps between two independently issued keys, reported as block-swap:cross-issued")
	c.Assume("edits outside the menu (three or more independent edits) are not explored; cryptographic strength is not examined")

	var units []unit
	for _, v := range versions {
		for k := range w.specsA {
			if c.Quick() && !quickFullKey(w.specsA[k]) {
				units = append(units, unit{ver: v, key: k, part: "xor1"}, unit{ver: v, key: k, part: "cross"}, unit{ver: v, key: k, part: "issued"})
				continue
			}
			units = append(units, unit{ver: v, key: k, part: "xor"}, unit{ver: v, key: k, part: "subst"}, unit{ver: v, key: k, part: "cross"}, unit{ver: v, key: k, part: "issued"})
		}
	}
	// bit pairs last, and among them the quick-tier keys first: if the soft deadline cuts the run
	// short, what is left out is the least likely to add a signature
	for pass := 0; pass < 2; pass++ {
		for _, v := range versions {
			for k, s := range w.specsA {
				if quickPairKey(s) != (pass == 0) || (c.Quick() && pass == 1) {
					continue
				}
				for _, rg := range [][2]int{{0, 16}, {16, 36}, {36, 60}, {60, 92}, {92, 191}} {
					units = append(units, unit{ver: v, key: k, part: "pairs", lo: rg[0], hi: rg[1]})
				}
			}
		}
	}
	results := make([]*unitResult, len(units))
	var wg sync.WaitGroup
	next := make(chan int)
	for g := 0; g < core.NumWorkers(); g++ {
		wg.Add(1)
		go func() {
			defer wg.Done()
			for i := range next {
				if c.Expired() {
					results[i] = &unitResult{skipped: true}
					continue
				}
				results[i] = w.runUnit(units[i], c.Quick())
			}
		}()
	}
	for i := range units {
		next <- i
	}
	close(next)
	wg.Wait()

	// merge in enumeration order (deterministic first case per signature)
	sigCount := map[string]int64{}
	byKind := map[string]int64{}
	var evals, calls, accepted, identity, implied, nontrivial int64
	skipped := 0
	perKeyNontrivial := map[string]map[string]struct{}{}
	samples := 0
	for i, r := range results {
		if r.skipped {
			skipped++
			continue
		}
		evals += r.evals
		calls += r.calls
		accepted += r.accepted
		identity += r.identity
		implied += r.impliedPairs
		for k, n := range r.byKind {
			byKind[k] += n
		}
		pk := fmt.Sprintf("%d/%d", units[i].ver, units[i].key)
		if perKeyNontrivial[pk] == nil {
			perKeyNontrivial[pk] = map[string]struct{}{}
		}
		for m := range r.nontrivial {
			perKeyNontrivial[pk][m] = struct{}{}
		}
		for _, v := range r.viols {
			c.Violate(v.sig, v.what, v.cs)
		}
		for s, n := range r.sigCount {
			sigCount[s] += n
		}
		if r.sample != nil && samples < 6 && (i%41 == 0) {
			c.Sample(r.sample)
			samples++
		}
	}
	if samples == 0 {
		for _, r := range results {
			if !r.skipped && r.sample != nil {
				c.Sample(r.sample)
				break
			}
		}
	}
	for _, m := range perKeyNontrivial {
		nontrivial += int64(len(m))
	}
	if skipped > 0 {
		c.NotExhaustive(fmt.Sprintf("soft deadline: %d of %d work units (license version x issued key x edit family) not explored", skipped, len(units)))
	}
	if c.Quick() {
		c.Set("quick_subset", "per license: all 255 XOR masks on all 24 bytes and all 32x63 char substitutions for the 8 keys {rwl,none} x {a/, a/#/} x {no expiry, expired}; the 8 single-bit masks on all 24 bytes for the other 32 keys; all 18336 bit pairs for the 5 keys {rwl,none} x a/ x both expiries and r x a/ x no expiry; all block swaps (within, cross equal salt, cross other salt) for all 40 keys")
	}
	c.Set("evaluations", evals)
	c.Set("authorize_and_keygen_calls", calls)
	c.Set("mutants_by_edit_kind", byKind)
	c.Set("mutants_accepted_somewhere", accepted)
	c.Set("mutants_equal_to_a_donor_skipped", identity)
	c.Set("bit_pairs_violating_only_through_a_single_flip", implied)
	c.Set("distinct_nontrivial", nontrivial)
	c.Set("rule", "a case is one (license version, issued key, edit) mutant evaluated through the real Authorize over the probe channels x 6 operations plus the real keygen.CreateKey; it is non-trivial when the mutant string still decrypts and validates, i.e. is granted at least one (channel, operation); distinct = distinct mutant strings per issued key")
	schedBound := 1
	if !c.Quick() {
		schedBound = 2
	}
	c.Set("sched_bound_completed", sched.Drive(c, concAltered, schedBound))
	c.Set("sched_schedules", c.Count("schedules"))
	c.Assume("interleaving part: an altered key and a valid more powerful key judged at the same time (channel parsing, keygen.DecryptKey, contract fields, target, permission), statement-level interleavings with <= 1 (quick) / 2 (thorough) preemptions")
	c.Set("issued_keys_per_license", len(w.specsA))
	c.Set("probe_channels", len(probes))
	c.Set("violating_mutants_by_signature", sigCount)
	sigs := make([]string, 0, len(sigCount))
	for s := range sigCount {
		sigs = append(sigs, s)
	}
	sort.Strings(sigs)
	c.Set("violated_signatures", sigs)
}

// ---- replay --------------------------------------------------------------------------------

// schedWorker: the interleaving part (an altered key judged while a valid, more powerful key of the same channel is
// being judged: it must be refused exactly as when it is judged alone) runs in workers of the instrumented binary;
// the scenarios are shared with C03 (engine/authconc).
func schedWorker(c *core.Ctx, args []string) {
	if len(args) > 0 && args[0] == "sched" {
		sched.WorkerMain(c, authconc.Scenarios(), args[1:])
	}
}

var concAltered = []string{"authorize-v1-altered-vs-powerful", "authorize-v2-altered-vs-powerful", "authorize-v3-altered-vs-powerful"}

func replay(c *core.Ctx, raw json.RawMessage) {
	if sched.ReplayCase(c, authconc.Scenarios(), raw) {
		return
	}
	var mc mutCase
	if err := json.Unmarshal(raw, &mc); err != nil {
		core.HarnessFailure("C12 replay: %v", err)
	}
	env := brokerx.MustNew(brokerx.Options{LicenseVersion: mc.Version})
	var calls int64
	orig := craft(env, mc.Key)
	if mc.Issued {
		orig = mc.Original
	}
	allowed := grantsOf(env, orig, &calls)
	donorKey, suffix := "", ""
	if mc.Donor != nil {
		donorKey = craft(env, *mc.Donor)
		if mc.Issued {
			donorKey = mc.DonorKey
		}
		dg := grantsOf(env, donorKey, &calls)
		for i := range allowed {
			allowed[i] |= dg[i]
		}
		suffix = "-other-salt"
		if mc.Donor.Salt == mc.Key.Salt {
			suffix = "-equal-salt"
		}
		if mc.Issued {
			suffix = "-issued"
		}
	}
	mut := apply(orig, donorKey, mc.Edit)
	got := grantsOf(env, mut, &calls)
	var ignore uint8
	if mc.Edit.Kind == "bit-pair" {
		for _, bit := range []int{mc.Edit.BitA, mc.Edit.BitB} {
			m := apply(orig, "", edit{Kind: "xor-mask", Byte: bit / 8, Mask: 0x80 >> uint(bit%8)})
			ignore |= opMask(grantsOf(env, m, &calls), allowed)
		}
	}
	vs, _ := judge(mc.Version, mc.Key, mc.Donor, mc.Edit, orig, donorKey, mut, allowed, got, ignore, suffix)
	for _, v := range vs {
		c.Violate(v.sig, v.what, v.cs)
	}
	c.Set("evaluations", 1)
}
