package c06

import (
	"fmt"
	"math/bits"
	"sort"
	"strings"

	"github.com/emitter-io/emitter/internal/message"
	"github.com/emitter-io/emitter/internal/network/mqtt"
)

// The reference: a list filter written from the statement of C06. It never calls the code
// under test (message.ID.Match, HasPrefix, Frame.Limit, ...).

// smsg is what the harness knows about one stored message.
type smsg struct {
	idx     int
	key     string // the id bytes
	ssid    []uint32
	time    int64
	ttl     uint32
	size    int // payload + id + channel lengths
	channel string
	payload []byte
	name    string
}

const replyCap = mqtt.MaxMessageSize

// filterMatches: same contract, and the query is a level-wise prefix of the stored channel;
// a query level that is one of the wildcard words matches any level.
func filterMatches(q, s []uint32) bool {
	single, multi, _, _ := message.VerifWildcards()
	if q[0] != s[0] {
		return false
	}
	if len(q) > len(s) {
		return false
	}
	for i := 1; i < len(q); i++ {
		if q[i] == single || q[i] == multi {
			continue
		}
		if q[i] != s[i] {
			return false
		}
	}
	return true
}

type ref struct {
	msgs        []smsg
	q           []uint32
	from, until int64 // until 0 = open
	now         int64
	cand        []int   // indices of the messages the query may return
	orders      [][]int // every order of cand that is non-increasing in time
}

func (r *ref) live(m smsg) bool     { return m.time+int64(m.ttl) > r.now }
func (r *ref) inWindow(m smsg) bool { return m.time >= r.from && (r.until == 0 || m.time <= r.until) }

func newRef(msgs []smsg, q []uint32, from, until, now int64) *ref {
	r := &ref{msgs: msgs, q: q, from: from, until: until, now: now}
	for i, m := range msgs {
		if filterMatches(q, m.ssid) && r.inWindow(m) && r.live(m) {
			r.cand = append(r.cand, i)
		}
	}
	// all permutations of cand, keeping those that are newest first (ties in any order)
	var rec func(cur []int, used uint)
	rec = func(cur []int, used uint) {
		if len(cur) == len(r.cand) {
			r.orders = append(r.orders, append([]int(nil), cur...))
			return
		}
		for k, i := range r.cand {
			if used&(1<<uint(k)) != 0 {
				continue
			}
			if len(cur) > 0 && msgs[cur[len(cur)-1]].time < msgs[i].time {
				continue
			}
			rec(append(cur, i), used|1<<uint(k))
		}
	}
	rec(nil, 0)
	return r
}

// page: the messages after `after` (index, -1 = from the newest) in the given order, newest
// first, while fewer than limit were taken and the cumulative size fits the cap.
func (r *ref) page(order []int, after, limit int) (mask uint, ok bool) {
	start := 0
	if after >= 0 {
		start = -1
		for p, i := range order {
			if i == after {
				start = p + 1
			}
		}
		if start < 0 {
			return 0, false
		}
	}
	size, n := 0, 0
	for _, i := range order[start:] {
		if n >= limit {
			break
		}
		size += r.msgs[i].size
		if size > replyCap {
			break
		}
		mask |= 1 << uint(i)
		n++
	}
	return mask, true
}

// canonical order: newest first, inside one second the message stored last first
func (r *ref) canonical() []int {
	o := append([]int(nil), r.cand...)
	sort.SliceStable(o, func(a, b int) bool {
		if r.msgs[o[a]].time != r.msgs[o[b]].time {
			return r.msgs[o[a]].time > r.msgs[o[b]].time
		}
		return o[a] > o[b]
	})
	return o
}

func (r *ref) expect(after, limit int) uint {
	m, _ := r.page(r.canonical(), after, limit)
	return m
}

func maskOf(idx []int) (m uint) {
	for _, i := range idx {
		m |= 1 << uint(i)
	}
	return
}

func maskList(m uint) (out []int) {
	for i := 0; m != 0; i, m = i+1, m>>1 {
		if m&1 != 0 {
			out = append(out, i)
		}
	}
	return
}

// judge compares one returned page with the statement. after = -1 for a first page; for a
// continuation page `after` is the message whose id was passed and first is the first page.
// It returns the kind of the violation ("" when the page is allowed) and an explanation.
func (r *ref) judge(got []int, phantom, altered []string, after int, first []int, limit int) (string, string) {
	if len(phantom) > 0 {
		return "non-matching", fmt.Sprintf("returned ids that were never stored: %v", phantom)
	}
	gm := maskOf(got)
	dup := bits.OnesCount(gm) != len(got)
	// allowed if some order that is non-increasing in time explains the page (and, for a
	// continuation, the first page with the same order)
	allowed := false
	if !dup {
		fm := maskOf(first)
		for _, o := range r.orders {
			if after >= 0 {
				if m1, _ := r.page(o, -1, limit); m1 != fm {
					continue
				}
			}
			if m, ok := r.page(o, after, limit); ok && m == gm {
				allowed = true
				break
			}
		}
	}
	if allowed {
		if len(altered) > 0 {
			return "non-matching", fmt.Sprintf("returned messages differ from what was stored (channel, payload or ttl): %v", altered)
		}
		for k := 1; k < len(got); k++ {
			if r.msgs[got[k-1]].time > r.msgs[got[k]].time {
				return "order", fmt.Sprintf("%s (time %d) is returned before %s (time %d)", r.msgs[got[k-1]].name, r.msgs[got[k-1]].time-r.now, r.msgs[got[k]].name, r.msgs[got[k]].time-r.now)
			}
		}
		return "", ""
	}
	// classify
	for _, i := range got {
		if r.msgs[i].ssid[0] != r.q[0] {
			return "foreign-contract", fmt.Sprintf("%s belongs to contract %d, the query is for contract %d", r.msgs[i].name, r.msgs[i].ssid[0], r.q[0])
		}
	}
	for _, i := range got {
		if !r.live(r.msgs[i]) {
			return "expired", fmt.Sprintf("%s expired %d s ago", r.msgs[i].name, r.now-r.msgs[i].time-int64(r.msgs[i].ttl))
		}
	}
	for _, i := range got {
		if !r.inWindow(r.msgs[i]) {
			return "outside-window", fmt.Sprintf("%s has time now%+d, outside the window", r.msgs[i].name, r.msgs[i].time-r.now)
		}
	}
	for _, i := range got {
		if !filterMatches(r.q, r.msgs[i].ssid) {
			return "non-matching", fmt.Sprintf("the channel of %s does not have the filter as a level-wise prefix", r.msgs[i].name)
		}
	}
	if after >= 0 {
		fm := maskOf(first)
		for _, i := range got {
			if i == after || (fm&(1<<uint(i)) != 0 && r.mustPrecede(i, after, fm, limit)) {
				// a message of the first page that every admissible order puts before the
				// continuation id
				return "duplicate-across-pages", fmt.Sprintf("%s was already on the first page and is not older than the continuation id %s", r.msgs[i].name, r.msgs[after].name)
			}
		}
		for _, i := range got {
			if r.msgs[i].time > r.msgs[after].time {
				return "too-many", fmt.Sprintf("%s is newer than the continuation id %s", r.msgs[i].name, r.msgs[after].name)
			}
		}
	}
	if dup {
		return "too-many", "the same message is returned twice in one page"
	}
	if len(got) > limit {
		return "too-many", fmt.Sprintf("%d messages for limit %d", len(got), limit)
	}
	size := 0
	for _, i := range got {
		size += r.msgs[i].size
	}
	if size > replyCap {
		return "over-cap", fmt.Sprintf("the page holds %d bytes (payload+id+channel), the cap is %d", size, replyCap)
	}
	want := r.expect(after, limit)
	switch {
	case gm&^want == 0:
		return "missing", fmt.Sprintf("missing %v", r.names(want&^gm))
	case want&^gm == 0:
		return "too-many", fmt.Sprintf("unexpected %v", r.names(gm&^want))
	default:
		return "missing", fmt.Sprintf("missing %v, has %v instead", r.names(want&^gm), r.names(gm&^want))
	}
}

// mustPrecede: in every order that explains the first page, message i comes before `after`.
func (r *ref) mustPrecede(i, after int, first uint, limit int) bool {
	if r.msgs[i].time > r.msgs[after].time {
		return true
	}
	if r.msgs[i].time < r.msgs[after].time {
		return false
	}
	for _, o := range r.orders {
		if m1, _ := r.page(o, -1, limit); m1 != first {
			continue
		}
		pi, pa := -1, -1
		for p, k := range o {
			if k == i {
				pi = p
			}
			if k == after {
				pa = p
			}
		}
		if pi > pa {
			return false
		}
	}
	return true
}

func (r *ref) names(m uint) []string {
	var out []string
	for _, i := range maskList(m) {
		out = append(out, r.msgs[i].name)
	}
	return out
}

// profile abstracts a case for the distinct-non-trivial count; ok = the case is non-trivial:
// the reference answer is non-empty and at least one stored message is excluded from it.
func (r *ref) profile(after, limit int) (string, bool) {
	want := r.expect(after, limit)
	n := bits.OnesCount(want)
	if n == 0 || n == len(r.msgs) {
		return "", false
	}
	cls := make([]string, 0, len(r.msgs))
	for _, m := range r.msgs {
		var k string
		switch {
		case m.ssid[0] != r.q[0] && m.ssid[0]^m.ssid[1] == r.q[0]^r.q[1]:
			k = "F" // foreign contract with the same key prefix
		case m.ssid[0] != r.q[0]:
			k = "f"
		case m.ssid[1] != r.q[1]:
			k = "o"
		case filterMatches(r.q, m.ssid):
			k = "m"
		default:
			k = "n"
		}
		if r.inWindow(m) {
			k += "w"
		}
		if !r.live(m) {
			k += "e"
		}
		if m.size > 1024 {
			k += "b"
		}
		cls = append(cls, k)
	}
	sort.Strings(cls)
	c := "-"
	if after >= 0 {
		c = "c"
	}
	return fmt.Sprintf("%s|%d|%s|%d", strings.Join(cls, ","), n, c, limitBucket(limit)), true
}

func limitBucket(l int) int {
	if l > 100 {
		return 101
	}
	return l
}
