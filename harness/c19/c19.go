// Package c19: message ids and frames encode losslessly; peer forwarding drops nothing.
package c19

import (
	"bytes"
	"encoding/json"
	"fmt"
	"sort"
	"strings"
	"time"

	"github.com/emitter-io/emitter/internal/message"
	"github.com/emitter-io/emitter/internal/security"
	"github.com/emitter-io/emitter/internal/service/cluster"
	"github.com/emitter-io/emitter/internal/verifx/engine/core"
	"github.com/emitter-io/emitter/internal/verifx/engine/sched"
	"github.com/weaveworks/mesh"
)

func init() {
	core.Register(&core.Check{ID: "C19", Level: "model_checking", Run: run, Worker: worker, Replay: replay})
}

func fill(n int, seed byte) []byte {
	if n == 0 {
		return nil
	}
	b := make([]byte, n)
	for i := range b {
		b[i] = seed + byte(i*7)
	}
	return b
}

func eqBytes(a, b []byte) bool { return bytes.Equal(a, b) } // nil == empty

func msgEq(a, b message.Message) bool {
	return eqBytes(a.ID, b.ID) && eqBytes(a.Channel, b.Channel) && eqBytes(a.Payload, b.Payload) && a.TTL == b.TTL
}

type codecCase struct {
	Part   string   `json:"part"`
	Zeros  bool     `json:"zeros,omitempty"` // payloads are one repeated byte (maximally compressible)
	IDLen  []int    `json:"id_len"`
	ChLen  []int    `json:"ch_len"`
	PayLen []int    `json:"pay_len"`
	TTL    []uint32 `json:"ttl"`
}

func mkMsg(idl, chl, pl int, ttl uint32) message.Message {
	return message.Message{ID: fill(idl, 1), Channel: fill(chl, 2), Payload: fill(pl, 3), TTL: ttl}
}

func safely(f func()) (panicked string) {
	defer func() {
		if r := recover(); r != nil {
			panicked = fmt.Sprint(r)
		}
	}()
	f()
	return ""
}

// ---- (a) codecs ---------------------------------------------------------------------

var idLens = []int{0, 16, 20, 24, 108}
var chLens = []int{0, 1, 127, 128}
var payLens = []int{0, 1, 127, 128, 16383, 16384, 65536}
var ttls = []uint32{0, 1, 127, 128, 1 << 31, 1<<32 - 1}

func checkCodecCase(c *core.Ctx, cc codecCase) {
	var f message.Frame
	for i := range cc.IDLen {
		m := mkMsg(cc.IDLen[i], cc.ChLen[i], cc.PayLen[i], cc.TTL[i])
		if cc.Zeros {
			m.Payload = make([]byte, cc.PayLen[i])
			if cc.PayLen[i] == 0 {
				m.Payload = nil
			}
		}
		f = append(f, m)
	}
	c.Add("evaluations", 1)
	if len(f) == 1 {
		m := f[0]
		var out message.Message
		var err error
		if p := safely(func() { out, err = message.DecodeMessage(m.Encode()) }); p != "" {
			c.Violate("a:message:panic", "message encode/decode panicked: "+p, cc)
			return
		}
		if err != nil || !msgEq(m, out) {
			c.Violate(fmt.Sprintf("a:message:roundtrip:id%d-ch%d-pay%d-ttl%d", cls(cc.IDLen[0]), cls(cc.ChLen[0]), cls(cc.PayLen[0]), cc.TTL[0]),
				fmt.Sprintf("message does not survive encode/decode (err=%v)", err), cc)
		}
	}
	var out message.Frame
	var err error
	if p := safely(func() { out, err = message.DecodeFrame(f.Encode()) }); p != "" {
		c.Violate("a:frame:panic", "frame encode/decode panicked: "+p, cc)
		return
	}
	ok := err == nil && len(out) == len(f)
	for i := 0; ok && i < len(f); i++ {
		ok = msgEq(f[i], out[i])
	}
	if !ok {
		c.Violate(fmt.Sprintf("a:frame:roundtrip:n%d", len(f)), fmt.Sprintf("frame of %d messages does not survive encode/decode (err=%v, got %d)", len(f), err, len(out)), cc)
	}
	c.Distinct("nontrivial", fmt.Sprint("a", cc.Zeros, cc.IDLen, cc.ChLen, cc.PayLen, cc.TTL))
}

func cls(n int) int { return n }

func partA(c *core.Ctx) {
	// single messages: full product
	for _, il := range idLens {
		for _, cl := range chLens {
			for _, pl := range payLens {
				for _, t := range ttls {
					checkCodecCase(c, codecCase{Part: "a", IDLen: []int{il}, ChLen: []int{cl}, PayLen: []int{pl}, TTL: []uint32{t}})
				}
			}
		}
	}
	c.Sample(codecCase{Part: "a", IDLen: []int{108}, ChLen: []int{128}, PayLen: []int{16384}, TTL: []uint32{1<<32 - 1}})
	// maximally compressible payloads (one repeated byte) around the compression block sizes, alone and
	// in frames of 1-4: the compressed form is tiny, so any "announced size versus input size" sanity
	// check of the decoder sees its extreme ratio
	for _, pl := range []int{1, 127, 128, 16383, 16384, 32768, 50000, 60000, 64000, 65000, 65400, 65490, 65536} {
		for n := 1; n <= 4; n++ {
			cc := codecCase{Part: "a", Zeros: true}
			for i := 0; i < n; i++ {
				cc.IDLen = append(cc.IDLen, 24)
				cc.ChLen = append(cc.ChLen, 3)
				cc.PayLen = append(cc.PayLen, pl)
				cc.TTL = append(cc.TTL, 7)
			}
			checkCodecCase(c, cc)
		}
	}
	// frames of 0..3 messages over a reduced product (each message: id x payload x ttl-class)
	type mt struct {
		il, cl, pl int
		t          uint32
	}
	var tm []mt
	for _, il := range []int{0, 16, 24} {
		for _, pl := range []int{0, 1, 128, 16384} {
			for _, t := range []uint32{0, 128, 1<<32 - 1} {
				tm = append(tm, mt{il, 1 + pl%3, pl, t})
			}
		}
	}
	if c.Quick() {
		tm = tm[:0]
		for _, il := range []int{0, 24} {
			for _, pl := range []int{0, 128} {
				for _, t := range []uint32{0, 1<<32 - 1} {
					tm = append(tm, mt{il, 1 + pl%3, pl, t})
				}
			}
		}
	}
	checkCodecCase(c, codecCase{Part: "a"})
	for _, a := range tm {
		for _, b := range tm {
			checkCodecCase(c, codecCase{Part: "a", IDLen: []int{a.il, b.il}, ChLen: []int{a.cl, b.cl}, PayLen: []int{a.pl, b.pl}, TTL: []uint32{a.t, b.t}})
			for _, d := range tm {
				checkCodecCase(c, codecCase{Part: "a", IDLen: []int{a.il, b.il, d.il}, ChLen: []int{a.cl, b.cl, d.cl}, PayLen: []int{a.pl, b.pl, d.pl}, TTL: []uint32{a.t, b.t, d.t}})
			}
		}
	}
}

// ---- (b) ids -------------------------------------------------------------------------

type idCase struct {
	Part string   `json:"part"`
	Ssid []uint32 `json:"ssid"`
	Time int64    `json:"time"`
}

func partB(c *core.Ctx) {
	single, multi, _, _ := message.VerifWildcards()
	words := []uint32{0, 1, 1<<32 - 1, single, multi}
	now := time.Now().Unix()
	times := []int64{security.MinTime, security.MinTime + 1, now, security.MaxTime - 1, security.MaxTime}
	var rec func(prefix []uint32, depth int)
	checkOne := func(ss []uint32) {
		for _, t := range times {
			c.Add("evaluations", 1)
			cs := idCase{Part: "b", Ssid: ss, Time: t}
			p := safely(func() {
				id := message.NewID(message.Ssid(ss))
				id.SetTime(t)
				got := id.Ssid()
				same := len(got) == len(ss)
				for i := 0; same && i < len(ss); i++ {
					same = got[i] == ss[i]
				}
				if !same {
					c.Violate(fmt.Sprintf("b:id:ssid:len%d", len(ss)), fmt.Sprintf("id does not give back its ssid: %v -> %v", ss, got), cs)
				}
				if id.Time() != t {
					c.Violate("b:id:time:"+timeClass(t, now), fmt.Sprintf("id does not give back its time: %d -> %d", t, id.Time()), cs)
				}
				if id.Contract() != ss[0] {
					c.Violate("b:id:contract", "id does not give back its contract", cs)
				}
				if !id.Match(message.Ssid(ss), t, t) {
					c.Violate("b:id:match-self", "id does not match its own ssid and second", cs)
				}
			})
			if p != "" {
				c.Violate("b:id:panic", "id creation/decoding panicked: "+p, cs)
			}
			c.Distinct("nontrivial", fmt.Sprint("b", ss, t))
		}
	}
	maxLen := 5
	if c.Quick() {
		maxLen = 4
	}
	rec = func(prefix []uint32, depth int) {
		if len(prefix) >= 2 {
			checkOne(append([]uint32(nil), prefix...))
		}
		if len(prefix) == maxLen {
			return
		}
		for _, w := range words {
			rec(append(prefix, w), depth+1)
		}
	}
	rec(nil, 0)
	c.Sample(idCase{Part: "b", Ssid: []uint32{1, single, 1<<32 - 1}, Time: security.MaxTime})

	// monotonic and distinct: 1000 consecutive ids for one ssid
	ss := message.Ssid{7, 8, 9}
	var prev message.ID
	seen := map[string]bool{}
	for i := 0; i < 1000; i++ {
		id := message.NewID(ss)
		c.Add("evaluations", 1)
		if seen[string(id)] {
			c.Violate("b:id:duplicate-sequential", "two consecutive NewID calls returned equal ids", idCase{Part: "b-seq", Ssid: ss})
		}
		seen[string(id)] = true
		if prev != nil && id.Time() == prev.Time() && bytes.Compare(id, prev) >= 0 {
			c.Violate("b:id:not-decreasing", "an id created later does not sort before an earlier one", idCase{Part: "b-seq", Ssid: ss})
		}
		if prev != nil && id.Time() > prev.Time() && bytes.Compare(id, prev) >= 0 {
			c.Violate("b:id:not-decreasing", "an id created in a later second does not sort before an earlier one", idCase{Part: "b-seq", Ssid: ss})
		}
		prev = id
	}
}

func timeClass(t, now int64) string {
	switch t {
	case security.MinTime:
		return "min"
	case security.MinTime + 1:
		return "min+1"
	case security.MaxTime:
		return "max"
	case security.MaxTime - 1:
		return "max-1"
	}
	return "now"
}

// ---- (d) Frame.Split -------------------------------------------------------------------

type splitCase struct {
	Part  string `json:"part"`
	Bound int    `json:"bound"`
	Sizes []int  `json:"sizes"`
}

func msgOfSize(total int, tag byte) message.Message {
	// size accounted by Split = len(payload)+len(id)+len(channel)+20 ; id 16, channel 2
	pl := total - 20 - 16 - 2
	if pl < 0 {
		pl = 0
	}
	m := message.Message{ID: fill(16, tag), Channel: []byte{'c', tag}, Payload: fill(pl, tag)}
	return m
}

func acct(m message.Message) int { return len(m.Payload) + len(m.ID) + len(m.Channel) + 20 }

func checkSplit(c *core.Ctx, sc splitCase) {
	c.Add("evaluations", 1)
	var f message.Frame
	for i, s := range sc.Sizes {
		f = append(f, msgOfSize(s, byte(i+1)))
	}
	b := sc.Bound
	p := safely(func() {
		head, tail := f.Split(b)
		// head ++ tail == f
		all := append(append(message.Frame{}, head...), tail...)
		ok := len(all) == len(f)
		for i := 0; ok && i < len(f); i++ {
			ok = msgEq(all[i], f[i])
		}
		if !ok {
			c.Violate("d:split:not-partition", "head followed by tail is not the original frame", sc)
			return
		}
		sum := 0
		for _, m := range head {
			sum += acct(m)
		}
		if sum >= b && len(head) > 0 {
			c.Violate("d:split:head-over-bound", fmt.Sprintf("head accounts for %d bytes, bound %d", sum, b), sc)
		}
		if len(tail) > 0 && sum+acct(tail[0]) < b {
			c.Violate("d:split:head-not-longest", "head could have taken one more message", sc)
		}
		// iterate as processSendQueue does
		allBelow := true
		for _, m := range f {
			if acct(m) >= b {
				allBelow = false
			}
		}
		var delivered message.Frame
		rest := f
		for iter := 0; iter < 100; iter++ {
			var chunk message.Frame
			chunk, rest = rest.Split(b)
			if len(chunk) == 0 {
				break
			}
			delivered = append(delivered, chunk...)
		}
		if allBelow {
			ok := len(delivered) == len(f)
			for i := 0; ok && i < len(f); i++ {
				ok = msgEq(delivered[i], f[i])
			}
			if !ok {
				c.Violate("d:split:iteration-loses", fmt.Sprintf("iterated split delivered %d of %d messages", len(delivered), len(f)), sc)
			}
		}
	})
	if p != "" {
		c.Violate("d:split:panic", "Split panicked: "+p, sc)
	}
	c.Distinct("nontrivial", fmt.Sprint("d", sc.Bound, sc.Sizes))
}

func partD(c *core.Ctx) {
	for _, b := range []int{64, 100} {
		sizes := []int{38, b - 21, b - 20, b - 19, b - 1, b, 2 * b}
		maxN := 4
		var rec func(cur []int)
		rec = func(cur []int) {
			checkSplit(c, splitCase{Part: "d", Bound: b, Sizes: append([]int(nil), cur...)})
			if len(cur) == maxN {
				return
			}
			for _, s := range sizes {
				if s < 38 {
					continue
				}
				rec(append(cur, s))
			}
		}
		rec(nil)
	}
	c.Sample(splitCase{Part: "d", Bound: 64, Sizes: []int{43, 44, 45}})
}

// ---- (c) concurrent ids, (e) peer queue: E1 scenarios ---------------------------------------

type recSender struct {
	frames [][]byte
}

func (r *recSender) GossipUnicast(dst mesh.PeerName, msg []byte) error {
	r.frames = append(r.frames, append([]byte(nil), msg...))
	return nil
}
func (r *recSender) GossipBroadcast(update mesh.GossipData)       {}
func (r *recSender) GossipNeighbourSubset(update mesh.GossipData) {}

func scenarios() map[string]*sched.Scenario {
	m := map[string]*sched.Scenario{}

	m["ids"] = &sched.Scenario{
		Name:  "ids",
		Files: []string{"internal/message/id.go"},
		Body: func(s *sched.Sched) {
			ss := message.Ssid{1, 2, 3}
			res := make([][]message.ID, 3)
			for t := 0; t < 3; t++ {
				t := t
				s.Go(fmt.Sprintf("T%d", t), func() {
					for k := 0; k < 2; k++ {
						id := message.NewID(ss)
						res[t] = append(res[t], id)
					}
				})
			}
			s.Go("collector", func() {
				// runs whenever scheduled; the final observation is emitted by the last thread to finish
			})
			s.AtEnd(func() {
				// normalise ids by rank so that observations do not depend on the global counter
				var all []string
				for t := range res {
					for _, id := range res[t] {
						all = append(all, string(id[4:12]))
					}
				}
				sorted := append([]string(nil), all...)
				sort.Strings(sorted)
				rank := map[string]int{}
				for i, v := range sorted {
					if _, ok := rank[v]; !ok {
						rank[v] = i
					}
				}
				for t := range res {
					var r []string
					for _, id := range res[t] {
						r = append(r, fmt.Sprint(rank[string(id[4:12])]))
					}
					s.Obs("T%d:%s", t, strings.Join(r, ","))
				}
			})
		},
		Check: func(x *sched.Exec) (string, string) {
			seen := map[string]bool{}
			for _, o := range x.Obs {
				parts := strings.SplitN(o, ":", 2)
				ranks := strings.Split(parts[1], ",")
				if len(ranks) != 2 {
					return "c:ids:lost", "a thread did not get its two ids: " + o
				}
				for _, r := range ranks {
					if seen[r] {
						return "c:ids:duplicate", "two concurrent NewID calls returned the same id: " + strings.Join(x.Obs, " ")
					}
					seen[r] = true
				}
				// later id must sort before (smaller rank) the earlier one
				var a, b int
				fmt.Sscan(ranks[0], &a)
				fmt.Sscan(ranks[1], &b)
				if b >= a {
					return "c:ids:not-decreasing", "a thread's later id does not sort before its earlier id: " + strings.Join(x.Obs, " ")
				}
			}
			return "", ""
		},
	}

	// two goroutines encode at the same time (a publish being stored and a frame being forwarded): the pooled
	// encoder and whatever else the codec reuses must not be shared between the two calls
	m["encode"] = &sched.Scenario{
		Name:  "encode",
		Files: []string{"internal/message/codec.go", "internal/message/message.go"},
		Body: func(s *sched.Sched) {
			ma := message.Message{ID: message.ID(bytes.Repeat([]byte{0xA1}, 24)), Channel: []byte("a/b/"), Payload: bytes.Repeat([]byte("A"), 300), TTL: 60}
			mb := message.Message{ID: message.ID(bytes.Repeat([]byte{0xB2}, 24)), Channel: []byte("b/"), Payload: bytes.Repeat([]byte("Bb"), 90), TTL: 0}
			fr := message.Frame{mb, ma, mb}
			// warm-up: the binary library looks a type's codec up once per process (GetBinaryCodec is instrumented
			// code); without this the first execution would have more scheduling points than its replays
			message.DecodeMessage(ma.Encode())
			message.DecodeFrame(fr.Encode())
			okA, okF := false, false
			s.Go("M", func() {
				buf := ma.Encode()
				out, err := message.DecodeMessage(buf)
				okA = err == nil && bytes.Equal(out.ID, ma.ID) && bytes.Equal(out.Channel, ma.Channel) && bytes.Equal(out.Payload, ma.Payload) && out.TTL == ma.TTL
			})
			s.Go("F", func() {
				buf := fr.Encode()
				out, err := message.DecodeFrame(buf)
				okF = err == nil && len(out) == 3
				for i := 0; okF && i < 3; i++ {
					okF = bytes.Equal(out[i].ID, fr[i].ID) && bytes.Equal(out[i].Channel, fr[i].Channel) && bytes.Equal(out[i].Payload, fr[i].Payload) && out[i].TTL == fr[i].TTL
				}
			})
			s.AtEnd(func() { s.Obs("message=%v frame=%v", okA, okF) })
		},
		Check: func(x *sched.Exec) (string, string) {
			if len(x.Obs) != 1 || x.Obs[0] != "message=true frame=true" {
				return "a:concurrent-encode:roundtrip", "a message and a frame encoded at the same time do not both decode to what was encoded: " + strings.Join(x.Obs, " ")
			}
			return "", ""
		},
	}

	m["peer"] = &sched.Scenario{
		Name:  "peer",
		Files: []string{"internal/service/cluster/peer.go"},
		Body: func(s *sched.Sched) {
			rs := &recSender{}
			p := cluster.VerifNewPeer(rs, mesh.PeerName(42))
			for t := 0; t < 2; t++ {
				t := t
				s.Go(fmt.Sprintf("S%d", t), func() {
					for k := 0; k < 2; k++ {
						p.Send(&message.Message{ID: fill(16, byte(t)), Channel: []byte{'s', byte('0' + t)}, Payload: []byte{byte('0' + t), byte('0' + k)}})
					}
				})
			}
			s.Go("F", func() {
				p.VerifFlush()
				p.VerifFlush()
			})
			s.AtEnd(func() {
				p.VerifFlush() // the next timer tick
				var got []string
				for _, fr := range rs.frames {
					f, err := message.DecodeFrame(fr)
					if err != nil {
						got = append(got, "undecodable")
						continue
					}
					var ms []string
					for _, m := range f {
						ms = append(ms, string(m.Payload))
					}
					got = append(got, "["+strings.Join(ms, " ")+"]")
				}
				s.Obs("%s", strings.Join(got, ""))
			})
		},
		Check: func(x *sched.Exec) (string, string) {
			if len(x.Obs) != 1 {
				return "e:peer:no-observation", "scenario did not complete"
			}
			o := x.Obs[0]
			if strings.Contains(o, "undecodable") {
				return "e:peer:undecodable-frame", o
			}
			flat := strings.NewReplacer("[", " ", "]", " ").Replace(o)
			toks := strings.Fields(flat)
			count := map[string]int{}
			pos := map[string]int{}
			for i, t := range toks {
				count[t]++
				pos[t] = i
			}
			for _, want := range []string{"00", "01", "10", "11"} {
				if count[want] == 0 {
					return "e:peer:lost", "message " + want + " handed to an active peer never reached the transport: " + o
				}
				if count[want] > 1 {
					return "e:peer:duplicated", "message " + want + " reached the transport more than once: " + o
				}
			}
			if pos["00"] > pos["01"] || pos["10"] > pos["11"] {
				return "e:peer:reordered", "messages of one sender reached the transport out of order: " + o
			}
			if strings.Contains(o, "[]") {
				return "", ""
			}
			return "", ""
		},
	}
	return m
}

var schedParts = []string{"ids", "peer", "encode"}

// PeerScenario is the peer-queue scenario (two senders and the flush timer on one real Peer), for C05's
// scheduled part: forwarding a message to a peer exactly once is also part of C05's statement.
func PeerScenario() *sched.Scenario { return scenarios()["peer"] }

func bounds(c *core.Ctx) int {
	if c.Quick() {
		return 2
	}
	return 3
}

// idsAcrossProcesses: "no two ids are equal" also holds between broker processes (a restarted broker, another node):
// three processes each create their first three ids for one ssid within the same second; all nine must differ.
func idsAcrossProcesses(c *core.Ctx) {
	sec := time.Now().Unix() - 300
	seen := map[string]int{}
	for p := 0; p < 3; p++ {
		o := c.SpawnWorker([]string{"idproc", fmt.Sprint(sec)}, nil, 2*time.Minute, 0)
		n := 0
		for _, l := range strings.Split(o.Stdout, "\n") {
			if strings.HasPrefix(l, "ID ") {
				n++
				id := strings.TrimPrefix(l, "ID ")
				if q, dup := seen[id]; dup {
					c.ViolatePart("b", "b:ids:equal-across-processes", fmt.Sprintf("process %d and process %d both created id %s for the same ssid within one second", q, p, id), map[string]interface{}{"part": "idproc"})
					return
				}
				seen[id] = p
			}
		}
		if n != 3 {
			core.HarnessFailure("C19 idproc worker printed %d ids: %s %s", n, o.Stdout, o.Stderr)
		}
		c.Add("evaluations", 3)
	}
}

func worker(c *core.Ctx, args []string) {
	if len(args) == 2 && args[0] == "idproc" {
		var sec int64
		fmt.Sscan(args[1], &sec)
		for i := 0; i < 3; i++ {
			id := message.NewID(message.Ssid{1, 2, 3})
			id.SetTime(sec)
			fmt.Printf("ID %x\n", []byte(id))
		}
		return
	}
	// args: scenario bound shard nshards
	var bound, shard, n int
	fmt.Sscan(args[1], &bound)
	fmt.Sscan(args[2], &shard)
	fmt.Sscan(args[3], &n)
	sc := scenarios()[args[0]]
	e := &sched.Explorer{Sc: sc, Bound: bound, Shard: shard, NShards: n, Deadline: c.Deadline}
	st := e.Explore()
	c.Add("schedules:"+sc.Name, st.Executions)
	c.Add("schedules", st.Executions)
	c.Add("replay_divergences", st.Divergences)
	for o := range st.Outcomes {
		c.Distinct("outcomes:"+sc.Name, o)
	}
	if !st.Exhaustive {
		c.NotExhaustive(fmt.Sprintf("scenario %s bound %d shard %d hit the time cap", sc.Name, bound, shard))
	}
	if shard == 0 {
		c.Sample(map[string]interface{}{"scenario": sc.Name, "default_schedule_observations": st.FirstTrace, "max_branch_points": st.MaxPoints})
	}
	for _, f := range st.Violations {
		sig := f.Sig
		if len(f.Sites) > 0 && (sig == "deadlock" || strings.HasPrefix(sig, "e:") || strings.HasPrefix(sig, "c:")) {
			// signature = kind only; the preempted sites go into the description
		}
		c.ViolatePart(sc.Name, sig, f.What+fmt.Sprintf(" | preempted at %v", f.Sites), map[string]interface{}{"part": sc.Name, "choices": f.Choices, "obs": f.Obs, "bound": bound})
	}
}

func run(c *core.Ctx) {
	partA(c)
	partB(c)
	partD(c)
	partF(c)
	partClock(c)
	idsAcrossProcesses(c)
	evals := c.Count("evaluations")
	c.Set("evaluations", evals)
	c.Set("distinct_nontrivial", c.DistinctCount("nontrivial"))
	c.Set("rule", "codec cases = products over the listed id/channel/payload/ttl sizes (frames of 0-3 messages); id cases = every ssid of length 2-5 over {0,1,2^32-1,+,#} x 5 times; split cases = every frame of <=4 messages over 7 boundary sizes x 2 bounds; a case is distinct by its parameter tuple and non-trivial when it executes the real codec/Split")
	// scheduled parts
	n := core.NumWorkers()
	bound := bounds(c)
	completed := -1
	for b := 0; b <= bound && !c.Expired(); b++ {
		for _, sc := range schedParts {
			shards := n
			if b < 2 {
				shards = 1
			}
			outs := c.Shard(shards, n, func(i int) []string {
				return []string{sc, fmt.Sprint(b), fmt.Sprint(i), fmt.Sprint(shards)}
			}, 20*time.Minute)
			c.CheckShards(outs)
		}
		if !c.Expired() && c.ViolationCount() == 0 {
			completed = b
		}
	}
	bound = completed
	c.Set("bound_completed", bound)
	sch := c.Count("schedules")
	c.Set("states", sch+evals)
	c.Set("transitions", sch+evals)
	c.Set("traces_validated_against_impl", sch)
	c.Set("distinct_outcomes_ids", c.DistinctCount("outcomes:ids"))
	c.Set("distinct_outcomes_peer", c.DistinctCount("outcomes:peer"))
	c.Assume("Go memory-model effects weaker than sequential consistency are not explored (statement-level interleaving)")
	c.Assume("murmur/counter wrap-around (2^32 ids within one process) is outside the bound")
}

func replay(c *core.Ctx, raw json.RawMessage) {
	var probe struct {
		Part    string `json:"part"`
		Choices []int  `json:"choices"`
	}
	json.Unmarshal(raw, &probe)
	switch probe.Part {
	case "clock":
		var cc clockCase
		json.Unmarshal(raw, &cc)
		runClock(c, cc)
	case "a":
		var cc codecCase
		json.Unmarshal(raw, &cc)
		checkCodecCase(c, cc)
	case "d":
		var sc splitCase
		json.Unmarshal(raw, &sc)
		checkSplit(c, sc)
	case "idproc":
		idsAcrossProcesses(c)
	case "f":
		var cc chunkCase
		json.Unmarshal(raw, &cc)
		runChunks(c, cc)
	case "ids", "peer", "encode":
		sc := scenarios()[probe.Part]
		sched.EnableFiles(sc.Files...)
		x := sched.Run(probe.Choices, true, sc.Body)
		sig, what := "", ""
		if x.Deadlock {
			sig, what = "deadlock", strings.Join(x.Blocked, ";")
		} else if len(x.Panics) > 0 {
			sig, what = "panic", x.Panics[0]
		} else {
			sig, what = sc.Check(x)
		}
		if sig != "" {
			c.Violate(sig, what, probe)
		}
	default:
		partB(c)
	}
}
