package c13

// Part (c): two gossip payloads merged into one durable state at the same time (two mesh connections deliver
// concurrently). Each merge leaves in its payload the delta it will relay; whatever a delta claims to have changed
// must really be held by the state afterwards, and the state must hold everything either payload carried — otherwise
// an update is relayed as "new" that the relaying broker itself has lost (and will count as new again next time).
// Explored exhaustively under the controlled scheduler; yields between the statements of the durable set's methods
// (its buntdb transactions are atomic).

import (
	"fmt"
	"strings"

	"github.com/emitter-io/emitter/internal/event/crdt"
	"github.com/emitter-io/emitter/internal/verifx/engine/sched"
)

var concClock int64

func concVol(add, del int64) *crdt.Volatile {
	v := crdt.NewVolatile()
	if add > 0 {
		concClock = add
		v.Add("k1", nil)
	}
	if del > 0 {
		concClock = del
		v.Del("k1")
	}
	return v
}

func concScenarios() map[string]*sched.Scenario {
	type sc struct {
		name           string
		base, in1, in2 [2]int64
	}
	list := []sc{
		{"merge-merge-known", [2]int64{2, 0}, [2]int64{3, 1}, [2]int64{1, 4}},
		{"merge-merge-unknown", [2]int64{0, 0}, [2]int64{3, 0}, [2]int64{0, 4}},
		{"merge-merge-same-component", [2]int64{2, 1}, [2]int64{0, 3}, [2]int64{0, 5}},
	}
	m := map[string]*sched.Scenario{}
	for _, x := range list {
		x := x
		m[x.name] = &sched.Scenario{
			Name: x.name, Files: []string{"internal/event/crdt/durable.go"},
			Body: func(s *sched.Sched) {
				orig := crdt.Now
				crdt.Now = func() int64 { return concClock }
				r := crdt.NewDurable(":memory:")
				if x.base[0] > 0 || x.base[1] > 0 {
					r.Merge(concVol(x.base[0], x.base[1]))
				}
				r.Has("k1") // looked up before: served from the read cache from now on
				o1, o2 := concVol(x.in1[0], x.in1[1]), concVol(x.in2[0], x.in2[1])
				s.Go("M1", func() { r.Merge(o1) })
				s.Go("M2", func() { r.Merge(o2) })
				s.AtEnd(func() {
					f, d1, d2 := r.Get("k1"), o1.Get("k1"), o2.Get("k1")
					s.Obs("final=%d,%d delta1=%d,%d delta2=%d,%d", f.AddTime(), f.DelTime(), d1.AddTime(), d1.DelTime(), d2.AddTime(), d2.DelTime())
					crdt.Now = orig
				})
			},
			Check: func(e *sched.Exec) (string, string) {
				if len(e.Obs) != 1 {
					return "c:concurrent-merges:incomplete", "execution did not complete"
				}
				var fa, fd, a1, d1, a2, d2 int64
				fmt.Sscanf(e.Obs[0], "final=%d,%d delta1=%d,%d delta2=%d,%d", &fa, &fd, &a1, &d1, &a2, &d2)
				wa, wd := max64(x.base[0], max64(x.in1[0], x.in2[0])), max64(x.base[1], max64(x.in1[1], x.in2[1]))
				desc := fmt.Sprintf("state (%d,%d) merged (%d,%d) and (%d,%d) at the same time: %s", x.base[0], x.base[1], x.in1[0], x.in1[1], x.in2[0], x.in2[1], strings.Join(e.Obs, " "))
				if a1 > fa || a2 > fa || d1 > fd || d2 > fd {
					return "c:concurrent-merges:delta-claims-not-held", "a relayed delta carries a time the state does not hold: " + desc
				}
				if fa != wa || fd != wd {
					return "c:concurrent-merges:update-lost", fmt.Sprintf("the state must end at (%d,%d): %s", wa, wd, desc)
				}
				// nothing new may be withheld from the relay: each component that grew was carried by some delta
				if (wa > x.base[0] && a1 != wa && a2 != wa) || (wd > x.base[1] && d1 != wd && d2 != wd) {
					return "c:concurrent-merges:new-update-withheld", "a component that changed the state is in neither relayed delta: " + desc
				}
				return "", ""
			},
		}
	}
	return m
}

var concOrder = []string{"merge-merge-known", "merge-merge-unknown", "merge-merge-same-component"}
