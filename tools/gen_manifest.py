#!/usr/bin/env python3
"""Generates /verif/MANIFEST.json from the table below (kept in one place so the manifest is always valid)."""
import json, os, subprocess

VERIF = os.path.dirname(os.path.dirname(os.path.abspath(__file__)))

# id -> (level, engine, technique, text, note, design_ref)
CHECKS = {
    "C19": ("model_checking", "E3+E1",
            "bounded-exhaustive enumeration of codec/id/split inputs + preemption-bounded exhaustive schedule exploration (controlled scheduler) of the real Peer queue and NewID",
            "Every message/frame/id/split case of the stated product is executed on the real codecs; every schedule of 3 threads x 2 NewID and of 2 senders x 2 messages against 2 flushes of the real cluster.Peer with at most 2 (quick) / 3 (thorough) preemptions is executed and checked for loss, duplication and reordering.",
            "Statement-level sequentially-consistent interleavings only; sizes limited to the listed boundary values; transport (mesh unicast) replaced by a recording sender.",
            "DESIGN.md §4 C19"),
}

NOT_YET = {}


def main():
    props = [json.loads(l) for l in open(os.path.join(VERIF, "properties.jsonl"))]
    commits = subprocess.run(["git", "-C", "/repo", "log", "--format=%H %s"], capture_output=True, text=True).stdout.splitlines()
    hook_commits = [c.split()[0] for c in commits if "verif hooks" in c]
    checks = []
    na = []
    for p in props:
        pid = p["id"]
        if pid in CHECKS:
            level, engine, technique, text, note, ref = CHECKS[pid]
            checks.append({
                "property_id": pid,
                "quick_cmd": "./check %s --tier quick" % pid,
                "thorough_cmd": "./check %s --tier thorough" % pid,
                "evidence_file": "/verif/evidence/%s.json" % pid,
                "replay_cmd_template": "./check %s --replay {path}" % pid,
                "engine": engine,
                "level_claimed": {"category": level, "text": text, "design_ref": ref},
                "level_note": note,
                "technique": technique,
            })
        else:
            na.append({"property_id": pid, "reason": NOT_YET.get(pid, "check not built yet in this session (planned in DESIGN.md §4); not claimed until it runs clean on the unchanged tree")})
    m = {
        "version": 1,
        "setup_cmd": "python3 tools/build.py plain && python3 tools/build.py sched",
        "hooks": {
            "guard": "verif (Go build tag)",
            "enable": "go build -tags verif -overlay /verif/build/overlay-<kind>.json -modfile /verif/build/go.mod (driven by /verif/tools/build.py; harness packages are overlaid as internal/verifx/...)",
            "baseline_off_cmd": "cd /repo && GOFLAGS=-mod=mod GOPROXY=off go test -vet=off -count=1 -timeout 25m ./...",
            "source_commits": hook_commits,
            "add_only": True,
        },
        "engines": [
            {"name": "E1", "path": "/verif/engine/sched", "serves_properties": ["C01", "C10", "C17", "C19", "C13"], "kind_free_text": "controlled scheduler over sync/atomic shims + statement-level yields, iterative preemption-bounded DFS, sharded over processes"},
            {"name": "E2", "path": "/verif/engine/xstate", "serves_properties": ["C01", "C02", "C04", "C05", "C07", "C13", "C14", "C18"], "kind_free_text": "explicit-state BFS over the real transition functions, states deduplicated by canonical dump of implementation state"},
            {"name": "E3", "path": "/verif/harness", "serves_properties": ["C03", "C06", "C11", "C12", "C16", "C17", "C19", "C20"], "kind_free_text": "bounded-exhaustive enumeration of inputs/configurations against a reference"},
            {"name": "E4", "path": "/verif/harness", "serves_properties": ["C08", "C09", "C15"], "kind_free_text": "cut-point / crash-point / deviation enumeration in isolated worker processes"},
        ],
        "checks": checks,
        "notes": "All checks rebuild from /repo's working tree (tools/build.py) before running. Exit 2 = BUILD-FAILED / HARNESS-UNSOUND, never a VIOLATION.",
        "not_applicable": na,
    }
    json.dump(m, open(os.path.join(VERIF, "MANIFEST.json"), "w"), indent=1)
    print("manifest: %d checks, %d not claimed" % (len(checks), len(na)))


if __name__ == "__main__":
    main()
