package c19

// Part (g): an id gives back the second it was created in — also for ids created after the process has been
// quiet for a while, and at every position of the id counter. The clock is read right before and right after
// each NewID call; the second stored in the id must lie between the two readings (sound whatever the load is:
// NewID reads the clock between them).

import (
	"fmt"
	"time"

	"github.com/emitter-io/emitter/internal/message"
	"github.com/emitter-io/emitter/internal/verifx/engine/core"
)

type clockCase struct {
	Part  string `json:"part"` // "clock"
	Quiet int    `json:"quiet_ms"`
	Count int    `json:"ids_after_the_pause"`
}

func runClock(c *core.Ctx, cc clockCase) {
	ssid := message.Ssid{1, 2, 3}
	stamp := func(when string, i int) bool {
		before := time.Now().Unix()
		id := message.NewID(ssid)
		after := time.Now().Unix()
		c.Add("evaluations", 1)
		if got := id.Time(); got < before || got > after {
			c.ViolatePart("g", "g:id-time:"+when, fmt.Sprintf("id number %d created %s carries second %d, the clock read %d before and %d after the call", i, when, got, before, after), cc)
			return false
		}
		return true
	}
	for i := 0; i < 3; i++ {
		if !stamp("at-start", i) {
			return
		}
	}
	time.Sleep(time.Duration(cc.Quiet) * time.Millisecond)
	for i := 0; i < cc.Count; i++ {
		if !stamp("after-a-quiet-period", i) {
			return
		}
	}
}

func partClock(c *core.Ctx) {
	// 130 ids: more than two full rounds of any small power-of-two stride of the id counter
	runClock(c, clockCase{Part: "clock", Quiet: 2100, Count: 130})
	c.Distinct("nontrivial", "clock")
	c.Assume("part (g): one pause of 2.1 s, 130 ids after it; the id's second must lie between clock readings taken around the call")
}
