package c15

// Part (iv): ids allocated by the broker itself, across process generations on one directory.
//
// The crash-point parts overwrite the per-process fields of every id so that the verifying process can derive
// them. Here the ids are exactly what message.NewID hands out (only the second is pinned with SetTime, which is
// what "two broker processes running within the same wall-clock second" means), so the fields that must keep
// ids of successive processes apart are the real ones. Every generation stores a few messages on ONE channel,
// acknowledges each with the id it got, and stops (exit without Close, or Close); afterwards every acknowledged
// (id, payload) must be returned by a query, and no two acknowledged stores may have been given the same id.

import (
	"encoding/hex"
	"encoding/json"
	"fmt"
	"os"
	"sort"
	"strings"
	"time"

	"github.com/emitter-io/emitter/internal/message"
	"github.com/emitter-io/emitter/internal/provider/storage"
	"github.com/emitter-io/emitter/internal/verifx/engine/core"
)

type ownCase struct {
	Kind  string   `json:"kind"` // "ownids"
	Gens  []string `json:"generations"` // how each process generation ends: "exit" | "close"
	Count int      `json:"count"`       // stores per generation
}

func ownPayload(gen, j int) string { return fmt.Sprintf("generation-%d-message-%d", gen, j) }

// childStoreOwn: args dir, second, generation, count, end
func childStoreOwn(a []string) {
	dir, sec, gen, count, end := a[0], int64(atoi(a[1])), atoi(a[2]), atoi(a[3]), a[4]
	s := storage.NewSSD(nil)
	if err := s.Configure(map[string]interface{}{"dir": dir, "retain": float64(retainCfg)}); err != nil {
		out("OPENFAIL " + firstLine(err.Error()) + "\n")
		os.Exit(4)
	}
	for j := 0; j < count; j++ {
		id := message.NewID(ssidA)
		id.SetTime(sec)
		m := message.Message{ID: id, Channel: []byte("x/a/"), Payload: []byte(ownPayload(gen, j)), TTL: 7200}
		if err := s.Store(&m); err != nil {
			out(fmt.Sprintf("STOREERR %d %s\n", j, strings.ReplaceAll(err.Error(), "\n", " ")))
			os.Exit(5)
		}
		out(fmt.Sprintf("OWNACK %s %s\n", hex.EncodeToString(id), ownPayload(gen, j)))
	}
	if end == "close" {
		s.Close()
	}
	out("DONE\n")
	os.Exit(0)
}

// childVerifyOwn: args dir, second
func childVerifyOwn(a []string) {
	dir, sec := a[0], int64(atoi(a[1]))
	s := storage.NewSSD(nil)
	if err := s.Configure(map[string]interface{}{"dir": dir, "retain": float64(retainCfg)}); err != nil {
		out("OPENFAIL " + firstLine(err.Error()) + "\n")
		os.Exit(4)
	}
	f, err := s.Query(ssidA, time.Unix(sec-100, 0), time.Unix(sec+100, 0), nil, 1000)
	if err != nil {
		out("QUERYERR " + firstLine(err.Error()) + "\n")
		os.Exit(5)
	}
	res := map[string]string{}
	for _, m := range f {
		res[hex.EncodeToString(m.ID)] = string(m.Payload)
	}
	b, _ := json.Marshal(res)
	out("OWNVERIFY " + string(b) + "\n")
	s.Close()
	os.Exit(0)
}

func runOwn(c *core.Ctx, cs ownCase) (sig, what string) {
	dir := scratch()
	defer os.RemoveAll(dir)
	sec := time.Now().Unix() - 500
	acked := map[string]string{} // id -> payload of the first acknowledged store with that id
	for g, end := range cs.Gens {
		o := c.SpawnWorker([]string{"ownstore", dir, fmt.Sprint(sec), fmt.Sprint(g), fmt.Sprint(cs.Count), end}, nil, childLimit, 0)
		if !strings.Contains(o.Stdout, "DONE\n") {
			return "ownids:reopen-failed", fmt.Sprintf("generation %d did not run to its end (exit %d): %s %s", g, o.ExitCode, firstLine(o.Stdout), firstLine(o.Stderr))
		}
		for _, l := range strings.Split(o.Stdout, "\n") {
			if p := strings.SplitN(l, " ", 3); len(p) == 3 && p[0] == "OWNACK" {
				if prev, dup := acked[p[1]]; dup {
					return "ownids:id-reused", fmt.Sprintf("two acknowledged stores were given the same id %s on one directory: %q and %q (generations end %v; both within one second)", p[1], prev, p[2], cs.Gens)
				}
				acked[p[1]] = p[2]
			}
		}
	}
	if len(acked) != len(cs.Gens)*cs.Count {
		return "harness:ownids", fmt.Sprintf("expected %d acknowledgements, saw %d", len(cs.Gens)*cs.Count, len(acked))
	}
	o := c.SpawnWorker([]string{"ownverify", dir, fmt.Sprint(sec)}, nil, childLimit, 0)
	got := map[string]string{}
	ok := false
	for _, l := range strings.Split(o.Stdout, "\n") {
		if strings.HasPrefix(l, "OWNVERIFY ") {
			ok = json.Unmarshal([]byte(strings.TrimPrefix(l, "OWNVERIFY ")), &got) == nil
		}
	}
	if !ok {
		return "ownids:reopen-failed", fmt.Sprintf("the store did not reopen / answer after %d generations: %s %s", len(cs.Gens), firstLine(o.Stdout), firstLine(o.Stderr))
	}
	var ids []string
	for id := range acked {
		ids = append(ids, id)
	}
	sort.Strings(ids)
	for _, id := range ids {
		p, present := got[id]
		if !present {
			return "ownids:acked-missing", fmt.Sprintf("acknowledged message %q (id %s) is not returned after the restart(s)", acked[id], id)
		}
		if p != acked[id] {
			return "ownids:altered", fmt.Sprintf("id %s was acknowledged with payload %q and comes back with %q", id, acked[id], p)
		}
	}
	if len(got) != len(acked) {
		return "ownids:phantom", fmt.Sprintf("%d messages returned, %d were stored", len(got), len(acked))
	}
	return "", ""
}

func ownCases(quick bool) []ownCase {
	var cs []ownCase
	counts := []int{1, 3}
	gens := [][]string{{"exit", "exit"}, {"close", "exit"}, {"exit", "close", "exit"}}
	if !quick {
		counts = []int{1, 2, 3, 8}
		gens = append(gens, []string{"close", "close"}, []string{"exit", "exit", "exit", "exit"}, []string{"close", "exit", "close", "exit"})
	}
	for _, g := range gens {
		for _, n := range counts {
			cs = append(cs, ownCase{Kind: "ownids", Gens: g, Count: n})
		}
	}
	return cs
}

func partOwnIDs(c *core.Ctx) {
	for _, cs := range ownCases(c.Quick()) {
		sig, what := runOwn(c, cs)
		c.Add("evaluations", 1)
		c.Add("crash_points_ownids", 1)
		c.Distinct("nontrivial", fmt.Sprintf("ownids|%v|%d", cs.Gens, cs.Count))
		if sig != "" {
			c.Violate(sig, what, cs)
		}
	}
	c.Assume("part (iv): ids are exactly what message.NewID allocates in each process generation, with only the second pinned (all generations fall into one second); one channel; a generation ends by exit without Close or by Close")
}
