#!/bin/bash
# runs the quick (or $1) command of every check claimed in MANIFEST.json, prints one line per check
tier=${1:-quick}
cd "$(dirname "$0")/.."
# in a snapshot (vp run) evidence and replays stay inside the snapshot
if [ "$(pwd)" != "/verif" ]; then export VERIF_EVIDENCE_DIR=$(pwd)/evidence VERIF_REPLAY_DIR=$(pwd)/replays VERIF_BUILD=$(pwd)/build; fi
for id in $(python3 -c "import json;print(' '.join(c['property_id'] for c in json.load(open('MANIFEST.json'))['checks']))"); do
  s=$(date +%s)
  out=$(/usr/bin/time -f "MAXRSS_MB=%M" ./check $id --tier $tier 2>&1); rc=$?
  e=$(date +%s)
  echo "$id rc=$rc $((e-s))s $(echo "$out" | grep -E '^RESULT|^VIOLATION|BUILD-FAILED|HARNESS|MAXRSS' | tr '\n' ' ' | cut -c1-300)"
done
