// Package c11: derived keys never exceed their parent or the request.
//
// Bounded-exhaustive enumeration of key-generation and link-extension requests sent as real
// `emitter/keygen/` requests over real broker connections (real keygen.Service.OnRequest), every
// returned key being decrypted and compared with a reference written from the property statement,
// and probed through the real broker.Service.Authorize. A second part uses every extendable key for
// publish, subscribe, unsubscribe, presence and link (auto-subscribe / publish through the link)
// and observes at another client whether the request had an effect.
package c11

import (
	"encoding/json"
	"fmt"
	"net"
	"runtime"
	"sort"
	"strings"
	"sync"
	"time"

	"github.com/emitter-io/emitter/internal/security"
	"github.com/emitter-io/emitter/internal/verifx/engine/brokerx"
	"github.com/emitter-io/emitter/internal/verifx/engine/core"
	"github.com/emitter-io/emitter/internal/verifx/engine/session"
)

func init() {
	core.Register(&core.Check{ID: "C11", Level: "exploration", Run: run, Replay: replay})
}

// ---- alphabet ------------------------------------------------------------------------------

const letters = "rwslpex"

// the permission named by each letter of a type string (from the statement / public API doc)
var letterBit = map[byte]uint8{
	'r': security.AllowRead, 'w': security.AllowWrite, 's': security.AllowStore, 'l': security.AllowLoad,
	'p': security.AllowPresence, 'e': security.AllowExtend, 'x': security.AllowExecute,
}

var opBits = []uint8{security.AllowRead, security.AllowWrite, security.AllowStore, security.AllowLoad,
	security.AllowPresence, security.AllowExtend, security.AllowExecute}

func permString(p uint8) string {
	s := ""
	if p&security.AllowMaster != 0 {
		s += "M"
	}
	for i := 0; i < len(letters); i++ {
		if p&letterBit[letters[i]] != 0 {
			s += string(letters[i])
		}
	}
	if s == "" {
		return "-"
	}
	return s
}

// requested is the reference reading of a type string: the union of the permissions its letters name.
func requested(typ string) uint8 {
	var p uint8
	for i := 0; i < len(typ); i++ {
		p |= letterBit[typ[i]] // unknown letters name nothing
	}
	return p
}

func popcount(x int) (n int) {
	for ; x != 0; x &= x - 1 {
		n++
	}
	return
}

// typeStrings: all 128 subsets of "rwslpex" (fewest letters first), then junk.
func typeStrings() []string {
	idx := make([]int, 128)
	for i := range idx {
		idx[i] = i
	}
	sort.SliceStable(idx, func(a, b int) bool { return popcount(idx[a]) < popcount(idx[b]) })
	var out []string
	for _, m := range idx {
		s := ""
		for i := 0; i < len(letters); i++ {
			if m&(1<<uint(i)) != 0 {
				s += string(letters[i])
			}
		}
		out = append(out, s)
	}
	return append(out, "z", "m", "M", "R", "W", "*", "rr", "xelpswr", "r w", "rwz", "mrw", "rwslpexm", "E", "\x01")
}

var ttls = []int{0, -1, 60}
// "." and ".." are ordinary level names to the channel grammar (nothing may treat them as path navigation)
var channels = []string{"a/", "a/b/", "a/#/", "+/", "#/", "a", "a/+/b/", "a//b/", "", "a/b/../c/", "a/./b/"}

type parentSpec struct {
	Kind   string `json:"kind"`
	Mask   uint8  `json:"mask,omitempty"`   // permissions besides extend (extendable kinds)
	Target string `json:"target,omitempty"` // channel the parent key was issued for
}

func (p parentSpec) String() string {
	if strings.HasPrefix(p.Kind, "ext") {
		return fmt.Sprintf("%s(%s@%s)", p.Kind, permString(p.Mask), p.Target)
	}
	return p.Kind
}

type reqCase struct {
	Part    string     `json:"part"` // "request" | "use"
	Parent  parentSpec `json:"parent"`
	Type    string     `json:"type"`
	TTL     int        `json:"ttl"`
	Channel string     `json:"channel"`
	Op      string     `json:"op,omitempty"`
	// Omit lists ("+"-joined) the JSON fields left out of the request: key, channel, type, ttl. The request is sent
	// right after a complete, successful request on the same connection; an omitted field means "not requested".
	Omit string `json:"omit,omitempty"`
}

func (r reqCase) String() string {
	if r.Part == "use" {
		return fmt.Sprintf("use|%s|%s|%s", r.Parent, r.Op, r.Channel)
	}
	if r.Omit != "" {
		return fmt.Sprintf("req|%s|%q|%d|%q|omit=%s", r.Parent, r.Type, r.TTL, r.Channel, r.Omit)
	}
	return fmt.Sprintf("req|%s|%q|%d|%q", r.Parent, r.Type, r.TTL, r.Channel)
}

// ---- reference: what a key issued for a target covers (string level) -------------------------

func literalLevel(l string) bool {
	if l == "" {
		return false
	}
	for i := 0; i < len(l); i++ {
		c := l[i]
		if !(c >= '0' && c <= '9' || c >= 'a' && c <= 'z' || c >= 'A' && c <= 'Z') {
			return false
		}
	}
	return true
}

// targetLevels parses a key target: levels (literal or "+"), optional final "#/" (whole subtree).
func targetLevels(t string) (lv []string, subtree, ok bool) {
	if !strings.HasSuffix(t, "/") {
		return nil, false, false
	}
	t = t[:len(t)-1]
	if t == "#" {
		return nil, true, true
	}
	lv = strings.Split(t, "/")
	if lv[len(lv)-1] == "#" {
		subtree = true
		lv = lv[:len(lv)-1]
	}
	for _, l := range lv {
		if l != "+" && !literalLevel(l) {
			return nil, false, false
		}
	}
	return lv, subtree, true
}

// staticLevels parses a plain channel (no wildcards).
func staticLevels(ch string) ([]string, bool) {
	if !strings.HasSuffix(ch, "/") || ch == "/" {
		return nil, false
	}
	lv := strings.Split(ch[:len(ch)-1], "/")
	for _, l := range lv {
		if !literalLevel(l) {
			return nil, false
		}
	}
	return lv, true
}

// covers: equal literal levels, "+" matches any one level, same depth unless the target ends in "#/".
func covers(target string, ch []string) bool {
	tl, subtree, ok := targetLevels(target)
	if !ok || len(ch) == 0 {
		return false
	}
	if len(ch) < len(tl) || (!subtree && len(ch) != len(tl)) {
		return false
	}
	for i, t := range tl {
		if t != "+" && t != ch[i] {
			return false
		}
	}
	return true
}

// extensionCovers: the grants an extension key may have — only the sub-channel named after the
// requesting connection directly under the requested channel, the requested channel lying under
// the extendable (parent) channel; the whole sub-tree of it when the request ended in "#/".
func extensionCovers(parentTarget, reqChannel, connID string, ch []string) bool {
	base, subtree := reqChannel, false
	if strings.HasSuffix(base, "#/") {
		base, subtree = strings.TrimSuffix(base, "#/"), true
	}
	bl, bsub, ok := targetLevels(base)
	if !ok || bsub || len(bl) == 0 {
		return false
	}
	n := len(bl)
	if len(ch) < n+1 || ch[n] != connID || (!subtree && len(ch) != n+1) {
		return false
	}
	for i, b := range bl {
		if b != "+" && b != ch[i] {
			return false
		}
	}
	return covers(parentTarget, ch[:n])
}

// ---- environment ------------------------------------------------------------------------------

type harness struct {
	env    *brokerx.Env
	proper string // ordinary key for everything: used by the observing client
	mu     sync.Mutex
	keys   map[string]*parentKey
	seq    int
}

type parentKey struct {
	str    string
	class  string       // "master" | "ext" | "none"
	fields security.Key // decrypted / crafted fields (nil for garbage)
}

func newHarness() *harness {
	h := &harness{env: brokerx.MustNew(brokerx.Options{}), keys: map[string]*parentKey{}}
	h.proper = h.env.MustKey("#/", security.AllowAll&^security.AllowExtend)
	return h
}

func (h *harness) craftMaster(mod func(k security.Key)) *parentKey {
	k := security.Key(make([]byte, 24))
	k.SetSalt(4242)
	k.SetMaster(1)
	k.SetContract(h.env.License.Contract())
	k.SetSignature(h.env.License.Signature())
	k.SetPermissions(security.AllowMaster)
	mod(k)
	return &parentKey{str: h.env.RawKey(k), class: "none", fields: k}
}

func (h *harness) decrypt(s string) security.Key {
	k, err := h.env.Cipher.DecryptKey([]byte(s))
	if err != nil {
		panic(fmt.Sprintf("cannot decrypt a key the harness minted: %v", err))
	}
	return k
}

// parent mints (once) the parent key of a spec.
func (h *harness) parent(p parentSpec) *parentKey {
	h.mu.Lock()
	defer h.mu.Unlock()
	id := p.String()
	if k, ok := h.keys[id]; ok {
		return k
	}
	past := time.Now().Add(-time.Hour)
	var k *parentKey
	switch p.Kind {
	case "master":
		k = &parentKey{str: h.env.Master, class: "master", fields: h.decrypt(h.env.Master)}
	case "master-expired":
		k = h.craftMaster(func(k security.Key) { k.SetExpires(past) })
	case "master-foreign-contract":
		k = h.craftMaster(func(k security.Key) { k.SetContract(k.Contract() + 1) })
	case "master-foreign-signature":
		k = h.craftMaster(func(k security.Key) { k.SetSignature(k.Signature() ^ 1) })
	case "master-foreign-id":
		k = h.craftMaster(func(k security.Key) { k.SetMaster(k.Master() + 1) })
	case "ordinary":
		s := h.env.MustKey(p.Target, p.Mask)
		k = &parentKey{str: s, class: "none", fields: h.decrypt(s)}
	case "garbage-short":
		k = &parentKey{str: "garbage", class: "none"}
	case "garbage-32":
		k = &parentKey{str: strings.Repeat("Ab3_", 8), class: "none"}
	case "garbage-empty":
		k = &parentKey{str: "", class: "none"}
	case "ext":
		s := h.env.MustKey(p.Target, p.Mask|security.AllowExtend)
		k = &parentKey{str: s, class: "ext", fields: h.decrypt(s)}
	case "ext-masterbit", "ext-expired", "ext-foreign-contract":
		f := h.decrypt(h.env.MustKey(p.Target, p.Mask|security.AllowExtend))
		class := "none"
		switch p.Kind {
		case "ext-masterbit":
			f.SetPermissions(f.Permissions() | security.AllowMaster)
			class = "ext"
		case "ext-expired":
			f.SetExpires(past)
		case "ext-foreign-contract":
			f.SetContract(f.Contract() + 1)
		}
		k = &parentKey{str: h.env.RawKey(f), class: class, fields: f}
	default:
		panic("unknown parent kind " + p.Kind)
	}
	h.keys[id] = k
	return k
}

func parents(quick bool) []parentSpec {
	all := security.AllowAll &^ security.AllowExtend
	ps := []parentSpec{
		{Kind: "master"},
		{Kind: "ordinary", Mask: security.AllowReadWrite, Target: "a/"},
		{Kind: "ordinary", Mask: all, Target: "#/"},
		{Kind: "master-expired"},
		{Kind: "master-foreign-contract"},
		{Kind: "master-foreign-signature"},
		{Kind: "master-foreign-id"},
		{Kind: "garbage-short"}, {Kind: "garbage-32"}, {Kind: "garbage-empty"},
		{Kind: "ext-expired", Mask: all, Target: "a/#/"},
		{Kind: "ext-foreign-contract", Mask: all, Target: "a/#/"},
		{Kind: "ext-masterbit", Mask: all, Target: "a/#/"},
	}
	targets := []string{"a/", "a/#/"}
	if !quick {
		targets = append(targets, "a/b/", "+/", "#/")
	}
	for _, t := range targets {
		for m := 0; m < 64; m++ {
			ps = append(ps, parentSpec{Kind: "ext", Mask: extMask(m), Target: t})
		}
	}
	return ps
}

// extMask maps 0..63 to a mask over r,w,s,l,p,x.
func extMask(m int) uint8 {
	bits := []uint8{security.AllowRead, security.AllowWrite, security.AllowStore, security.AllowLoad, security.AllowPresence, security.AllowExecute}
	var p uint8
	for i, b := range bits {
		if m&(1<<uint(i)) != 0 {
			p |= b
		}
	}
	return p
}

// ---- one worker: a real connection ----------------------------------------------------------

type probe struct {
	name string
	lv   []string
	ch   *security.Channel
}

type worker struct {
	h      *harness
	cl     *session.Client
	id     string // connection id as told by emitter/me/
	probes []probe
}

func (h *harness) connect(name string) *session.Client {
	cl := session.NewClient(name, func(c net.Conn) { h.env.Svc.VerifAttach(c) })
	if !cl.Connect(session.ConnectOpts{ClientID: name}) {
		return nil
	}
	return cl
}

func (h *harness) newWorker(name string) (*worker, error) {
	w := &worker{h: h}
	if w.cl = h.connect(name); w.cl == nil {
		return nil, fmt.Errorf("CONNECT not acknowledged")
	}
	resp, ok := w.cl.Request("me", nil)
	var me struct {
		Status int    `json:"status"`
		ID     string `json:"id"`
	}
	if !ok || json.Unmarshal(resp.Payload, &me) != nil || me.ID == "" {
		return nil, fmt.Errorf("emitter/me/ did not tell the connection id: %v", resp)
	}
	w.id = me.ID
	// probe set: every static channel of depth 1..4 over {a, b, <connection id>} plus a few with c
	alpha := []string{"a", "b", w.id}
	var names []string
	var rec func(prefix string, d int)
	rec = func(prefix string, d int) {
		if d == 0 {
			return
		}
		for _, l := range alpha {
			names = append(names, prefix+l+"/")
			rec(prefix+l+"/", d-1)
		}
	}
	rec("", 4)
	names = append(names, "c/", "a/c/", "c/a/", "a/c/b/", "a/c/"+w.id+"/")
	sort.SliceStable(names, func(i, j int) bool { return strings.Count(names[i], "/") < strings.Count(names[j], "/") })
	for _, n := range names {
		lv, _ := staticLevels(n)
		ch := security.ParseChannel([]byte("k/" + n))
		if ch.ChannelType != security.ChannelStatic {
			return nil, fmt.Errorf("probe channel %q does not parse as a static channel", n)
		}
		w.probes = append(w.probes, probe{name: n, lv: lv, ch: ch})
	}
	return w, nil
}

func (w *worker) close() {
	if w.cl != nil {
		w.cl.Abort()
	}
}

type viol struct{ sig, what string }

type outcome struct {
	Minted   bool     `json:"minted"`
	Status   int      `json:"status"`
	Perms    string   `json:"perms,omitempty"`
	Expires  int64    `json:"expires,omitempty"`
	RespChan string   `json:"response_channel,omitempty"`
	ConnID   string   `json:"conn_id,omitempty"`
	Grants   []string `json:"grants,omitempty"`
	probed   bool
}

// request sends one keygen request and judges the answer against the statement.
func (w *worker) request(rc reqCase, wantGrants bool) (out outcome, vs []viol) {
	pk := w.h.parent(rc.Parent)
	kind := rc.Parent.Kind
	add := func(clause, what string) {
		vs = append(vs, viol{kind + ":" + clause, fmt.Sprintf("%s: %s", rc, what)})
	}
	body := map[string]interface{}{"key": pk.str, "channel": rc.Channel, "type": rc.Type, "ttl": rc.TTL}
	if rc.Omit != "" {
		// what was not sent was not requested: no key -> nothing may be minted; no type -> no permission;
		// no ttl -> no expiry; no channel -> the empty channel
		kind = "omitted(" + rc.Omit + ")"
		for _, f := range strings.Split(rc.Omit, "+") {
			delete(body, f)
			switch f {
			case "key":
				pk = &parentKey{class: "none"}
			case "type":
				rc.Type = ""
			case "ttl":
				rc.TTL = 0
			case "channel":
				rc.Channel = ""
			}
		}
	}
	t0 := time.Now()
	resp, ok := w.cl.Request("keygen", body)
	t1 := time.Now()
	if !ok {
		add("no-response", "the keygen request was not answered")
		return
	}
	var r struct {
		Status  int    `json:"status"`
		Key     string `json:"key"`
		Channel string `json:"channel"`
	}
	if err := json.Unmarshal(resp.Payload, &r); err != nil {
		add("unparsable-response", fmt.Sprintf("response %q", resp.Payload))
		return
	}
	out.Status, out.RespChan, out.ConnID = r.Status, r.Channel, w.id
	if r.Status != 200 || r.Key == "" {
		return // refused: always allowed by the statement
	}
	out.Minted = true
	if pk.class == "none" {
		add("minted-without-master", fmt.Sprintf("a key was minted (%s) although the parent is not a valid unexpired master/extendable key of an allowed contract", r.Key))
		return
	}
	k, err := w.h.env.Cipher.DecryptKey([]byte(r.Key))
	if err != nil || len(k) != 24 {
		add("undecryptable-result", fmt.Sprintf("returned key %q does not decrypt: %v", r.Key, err))
		return
	}
	perms := k.Permissions()
	out.Perms, out.Expires = permString(perms), k.Expires().Unix()

	// never the master bit
	if perms&security.AllowMaster != 0 {
		add("master-bit", fmt.Sprintf("derived key has the master permission (permissions %s)", permString(perms)))
	}
	// permissions ⊆ requested (∩ parent's for extension; an extension key is not extendable again:
	// it could otherwise mint keys outside the connection's sub-channel)
	req := requested(rc.Type)
	rest := perms &^ security.AllowMaster
	if extra := rest &^ req; extra != 0 {
		add("extra-permission:not-requested", fmt.Sprintf("derived key has %s, requested %s", permString(perms), permString(req)))
	}
	if pk.class == "ext" {
		if extra := rest &^ pk.fields.Permissions(); extra != 0 {
			add("extra-permission:not-held-by-parent", fmt.Sprintf("derived key has %s, parent holds %s", permString(perms), permString(pk.fields.Permissions())))
		}
		if rest&security.AllowExtend != 0 {
			add("extra-permission:extend-kept", fmt.Sprintf("the extension key is itself extendable (permissions %s)", permString(perms)))
		}
	}
	// contract, signature, master id copied
	if k.Contract() != pk.fields.Contract() || k.Signature() != pk.fields.Signature() || k.Master() != pk.fields.Master() {
		add("contract/signature/master", fmt.Sprintf("derived contract/signature/master %d/%d/%d, parent %d/%d/%d",
			k.Contract(), k.Signature(), k.Master(), pk.fields.Contract(), pk.fields.Signature(), pk.fields.Master()))
	}
	// expiry as requested: the broker read its clock between t0 and t1; the key stores whole seconds
	exp := k.Expires().Unix()
	if rc.TTL == 0 {
		if exp != 0 {
			add("expiry:unrequested", fmt.Sprintf("ttl 0 requested, key expires at %d", exp))
		}
	} else {
		lo, hi := t0.Unix()+int64(rc.TTL)-1, t1.Unix()+int64(rc.TTL)+2
		if exp < lo || exp > hi {
			add("expiry:wrong-time", fmt.Sprintf("ttl %d requested between %d and %d, key expires at %d", rc.TTL, t0.Unix(), t1.Unix(), exp))
		}
	}

	// behavioural half: what the key is allowed to do at the broker
	if rc.TTL > 0 && time.Since(t0) > 20*time.Second {
		return // too close to the expiry to judge grants without a wall-clock race
	}
	out.probed = true
	expired := rc.TTL < 0
	keyBytes := []byte(r.Key)
	var home *probe
	var over, under []string
	for i := range w.probes {
		p := &w.probes[i]
		var want bool
		if pk.class == "ext" {
			want = extensionCovers(rc.Parent.Target, rc.Channel, w.id, p.lv)
		} else {
			want = covers(rc.Channel, p.lv)
		}
		if want && home == nil {
			home = p
		}
		want = want && !expired
		p.ch.Key = keyBytes
		_, _, got := w.h.env.Svc.Authorize(p.ch, security.AllowNone)
		if got && wantGrants {
			out.Grants = append(out.Grants, p.name)
		}
		if got && !want {
			over = append(over, p.name)
		} else if !got && want {
			under = append(under, p.name)
		}
	}
	show := func(l []string) string {
		s := strings.ReplaceAll(strings.Join(head(l, 4), " "), w.id, "<conn>")
		if len(l) > 4 {
			s += fmt.Sprintf(" … (%d)", len(l))
		}
		return s
	}
	if expired && len(over) > 0 {
		add("expiry:still-valid", fmt.Sprintf("ttl %d requested but the key is still accepted for %s", rc.TTL, show(over)))
	} else if len(over) > 0 {
		add("target:over", fmt.Sprintf("the key is accepted for %s which the requested target does not cover (connection %s)", show(over), w.id))
	}
	if len(under) > 0 {
		add("target:under", fmt.Sprintf("the key is refused for %s which is exactly what was requested (connection %s)", show(under), w.id))
	}
	if home != nil {
		allowed := req
		if pk.class == "ext" {
			allowed &= pk.fields.Permissions() &^ security.AllowExtend
		}
		home.ch.Key = keyBytes
		for _, b := range opBits {
			if _, _, got := w.h.env.Svc.Authorize(home.ch, b); got && (allowed&b == 0 || expired) {
				if expired {
					add("expiry:still-valid", fmt.Sprintf("ttl %d requested but the key is authorised for %s on %s", rc.TTL, permString(b), home.name))
				} else {
					add("extra-permission:authorized", fmt.Sprintf("the key is authorised for %s on %s; requested %s, parent %s", permString(b), home.name, permString(req), permString(pk.fields.Permissions())))
				}
			}
		}
	}
	return
}

func head(l []string, n int) []string {
	if len(l) > n {
		return l[:n]
	}
	return l
}

// ---- using an extendable key directly ----------------------------------------------------------

var useOps = []string{"publish", "subscribe", "unsubscribe", "presence", "link-subscribe", "link-publish"}

// neededFor: the permission without which the operation is refused anyway.
func neededFor(op string) uint8 {
	switch op {
	case "publish", "link-publish":
		return security.AllowWrite
	case "presence":
		return security.AllowPresence
	}
	return security.AllowRead
}

func hasPayload(ps []session.Packet, topic, payload string) bool {
	for _, p := range ps {
		if p.Type == session.PUBLISH && p.Topic == topic && string(p.Payload) == payload {
			return true
		}
	}
	return false
}

// use performs one operation with `key` on a fresh connection A and observes, with the help of a
// second connection B holding an ordinary key, whether the operation had its effect.
func (h *harness) use(op, key, channel string) (effect bool, err error) {
	h.mu.Lock()
	h.seq++
	payload := fmt.Sprintf("c11-%d", h.seq)
	h.mu.Unlock()
	a, b := h.connect("A"), h.connect("B")
	defer func() {
		if a != nil {
			a.Abort()
		}
		if b != nil {
			b.Abort()
		}
	}()
	if a == nil || b == nil {
		return false, fmt.Errorf("CONNECT not acknowledged")
	}
	good := h.proper + "/" + channel
	switch op {
	case "publish":
		if code, acked := b.Subscribe(good); !acked || code == 0x80 {
			return false, fmt.Errorf("observer could not subscribe")
		}
		if !a.Publish(key+"/"+channel, []byte(payload), false) {
			return false, fmt.Errorf("PUBLISH not acknowledged")
		}
		return hasPayload(b.Drain(), channel, payload), nil
	case "subscribe":
		if _, acked := a.Subscribe(key + "/" + channel); !acked {
			return false, fmt.Errorf("SUBSCRIBE not acknowledged")
		}
		if !b.Publish(good, []byte(payload), false) {
			return false, fmt.Errorf("observer PUBLISH not acknowledged")
		}
		return hasPayload(a.Drain(), channel, payload), nil
	case "unsubscribe":
		if code, acked := a.Subscribe(good); !acked || code == 0x80 {
			return false, fmt.Errorf("could not subscribe with the ordinary key")
		}
		if !a.Unsubscribe(key + "/" + channel) {
			return false, fmt.Errorf("UNSUBSCRIBE not acknowledged")
		}
		if !b.Publish(good, []byte(payload), false) {
			return false, fmt.Errorf("observer PUBLISH not acknowledged")
		}
		return !hasPayload(a.Drain(), channel, payload), nil // effect = the subscription is gone
	case "presence":
		// status:false — a status query on a broker without cluster panics in Surveyor.Query (nil swarm), not our subject
		resp, ok := a.Request("presence", map[string]interface{}{"key": key, "channel": channel, "status": false, "changes": true})
		if !ok {
			return false, fmt.Errorf("presence request not answered")
		}
		// presence notifications of earlier connections travel on the same topic and may overtake
		// the response: the response is the packet that echoes a request id
		for _, p := range append([]session.Packet{resp}, session.Publishes(a.Drain())...) {
			var r struct {
				Req    int `json:"req"`
				Status int `json:"status"`
			}
			if (p.Topic == "emitter/presence/" || p.Topic == "emitter/error/") && json.Unmarshal(p.Payload, &r) == nil && r.Req != 0 {
				return r.Status == 200, nil
			}
		}
		return false, fmt.Errorf("no presence response carrying a request id was received")
	case "link-subscribe":
		if _, ok := a.Request("link", map[string]interface{}{"name": "l1", "key": key, "channel": channel, "subscribe": true}); !ok {
			return false, fmt.Errorf("link request not answered")
		}
		if !b.Publish(good, []byte(payload), false) {
			return false, fmt.Errorf("observer PUBLISH not acknowledged")
		}
		return hasPayload(a.Drain(), channel, payload), nil
	case "link-publish":
		if code, acked := b.Subscribe(good); !acked || code == 0x80 {
			return false, fmt.Errorf("observer could not subscribe")
		}
		if _, ok := a.Request("link", map[string]interface{}{"name": "l1", "key": key, "channel": channel, "subscribe": false}); !ok {
			return false, fmt.Errorf("link request not answered")
		}
		if !a.Publish("l1", []byte(payload), false) {
			return false, fmt.Errorf("PUBLISH through the link not acknowledged")
		}
		return hasPayload(b.Drain(), channel, payload), nil
	}
	return false, fmt.Errorf("unknown op %s", op)
}

func useSig(op string) string {
	switch op {
	case "link-publish":
		return "ext:extendable-used-for-publish:via-link"
	}
	return "ext:extendable-used-for-" + op
}

// useCase: an extendable key must have no effect.
func (h *harness) useCase(rc reqCase) (vs []viol, nontrivial bool) {
	pk := h.parent(rc.Parent)
	effect, err := h.use(rc.Op, pk.str, rc.Channel)
	if err != nil {
		return []viol{{"harness:use:" + rc.Op, fmt.Sprintf("%s: %v", rc, err)}}, false
	}
	if effect {
		vs = append(vs, viol{useSig(rc.Op), fmt.Sprintf("%s: the extendable key (permissions %s, target %s) was accepted for %s on %s: the operation had its effect at the broker",
			rc, permString(pk.fields.Permissions()), rc.Parent.Target, rc.Op, rc.Channel)})
	}
	return vs, rc.Parent.Mask&neededFor(rc.Op) != 0
}

// ---- driver ----------------------------------------------------------------------------------

func wantSample(rc reqCase) bool {
	if rc.Type != "rwe" || rc.TTL != 60 {
		return false
	}
	switch rc.Parent.Kind {
	case "master":
		return rc.Channel == "a/" || rc.Channel == "a/+/b/"
	case "ext":
		return rc.Parent.Mask == extMask(63)
	}
	return rc.Parent.Kind == "ext-masterbit"
}

type useVariant struct{ target, channel string }

func useVariants(quick bool) []useVariant {
	v := []useVariant{{"a/", "a/"}, {"a/#/", "a/b/"}}
	if !quick {
		v = append(v, useVariant{"#/", "a/"}, useVariant{"+/", "b/"}, useVariant{"a/b/", "a/b/"})
	}
	return v
}

func run(c *core.Ctx) {
	h := newHarness()
	defer h.env.Close()
	c.Assume("keys are decrypted for inspection with the license cipher of the broker under test (its injectivity is C20's subject)")
	c.Assume("which channels a key target covers is probed through the real Authorize with static probe channels only; wildcard requests against a key are C03's subject")
	c.Assume("single-contract provider (one allowed contract); foreign contract/signature/master ids are crafted with the real cipher")

	// controls: with an ordinary key every operation has its observable effect (otherwise the
	// refusals observed below would be vacuous)
	for _, op := range useOps {
		effect, err := h.use(op, h.proper, "a/")
		c.Add("evaluations", 1)
		if err != nil || !effect {
			c.Violate("harness:control:"+op, fmt.Sprintf("with an ordinary key %s on a/ must have its effect: effect=%v err=%v", op, effect, err), reqCase{Part: "control", Op: op, Channel: "a/"})
		}
	}

	types := typeStrings()
	ps := parents(c.Quick())
	c.Set("parents", len(ps))
	c.Set("type_strings", len(types))
	c.Set("ttls", ttls)
	c.Set("channels", channels)

	par := runtime.GOMAXPROCS(0)
	if par > 16 {
		par = 16
	}
	jobs := make(chan parentSpec)
	var wg sync.WaitGroup
	var capOnce sync.Once
	var sampled sync.Map
	for i := 0; i < par; i++ {
		wg.Add(1)
		go func(i int) {
			defer wg.Done()
			var w *worker
			for p := range jobs {
				if c.Expired() {
					capOnce.Do(func() { c.NotExhaustive("soft deadline reached before every parent key was enumerated") })
					continue
				}
				if w == nil {
					var err error
					if w, err = h.newWorker(fmt.Sprintf("w%d", i)); err != nil {
						c.Violate("harness:connect", err.Error(), reqCase{Part: "connect"})
						w = nil
						continue
					}
				}
				var n, minted, refused, probed int64
				stop := false
				var firstMinted *reqCase
				var firstOut outcome
				for _, ty := range types {
					for _, ttl := range ttls {
						for _, ch := range channels {
							if stop {
								continue
							}
							rc := reqCase{Part: "request", Parent: p, Type: ty, TTL: ttl, Channel: ch}
							sample := false
							if wantSample(rc) {
								_, seen := sampled.LoadOrStore(fmt.Sprintf("%s|%s|%s", p.Kind, p.Target, ch), true)
								sample = !seen
							}
							out, vs := w.request(rc, sample)
							n++
							if out.Minted && firstMinted == nil && len(vs) == 0 {
								cp := rc
								firstMinted, firstOut = &cp, out
							}
							if out.Minted {
								minted++
								c.Distinct("nontrivial", rc.String())
								c.Distinct("outcomes", fmt.Sprintf("%s|%s|%d|%v|%s", p.Kind, out.Perms, ttl, len(vs) == 0, ch))
								if sample {
									c.Sample(map[string]interface{}{"case": rc, "outcome": out})
								}
							} else {
								refused++
							}
							if out.probed {
								probed += int64(len(w.probes) + len(opBits))
							}
							for _, v := range vs {
								c.Violate(v.sig, v.what, rc)
								if strings.Contains(v.sig, ":no-response") {
									w.close()
									w, stop = nil, true
									c.NotExhaustive("a connection stopped answering; the rest of parent " + p.String() + " was not enumerated")
								}
							}
						}
					}
					if c.Expired() {
						stop = true
						capOnce.Do(func() { c.NotExhaustive("soft deadline reached inside the enumeration of a parent key") })
					}
				}
				// the first request this parent key was granted is sent once more after everything else that was done
				// with the key: the key, the connection and the request are the same, so the answer must be the same
				// (a key is not used up or altered by having been used)
				if firstMinted != nil && !stop && w != nil {
					out, vs := w.request(*firstMinted, false)
					n++
					for _, v := range vs {
						c.Violate(v.sig, v.what, *firstMinted)
					}
					if !out.Minted || out.Perms != firstOut.Perms {
						c.Violate(p.Kind+":verdict-changed-after-use", fmt.Sprintf("%s: granted at first (permissions %s), and after the key had been used for the other requests of the enumeration: minted=%v status=%d permissions=%s", firstMinted, firstOut.Perms, out.Minted, out.Status, out.Perms), *firstMinted)
					}
				}
				c.Add("evaluations", n)
				c.Add("requests", n)
				c.Add("minted_keys_checked", minted)
				c.Add("refused", refused)
				c.Add("authorize_probes", probed)
				c.Add("parents_"+p.Kind, 1)
			}
			if w != nil {
				w.close()
			}
		}(i)
	}
	for _, p := range ps {
		jobs <- p
	}
	close(jobs)
	wg.Wait()

	// part 1b: requests that leave fields out, each sent right after a complete successful request on the same
	// connection (all 15 non-empty subsets of {key, channel, type, ttl}, repeated so that whatever the handler
	// reuses between requests gets its chance)
	if pw, err := h.newWorker("partial"); err == nil {
		fields := []string{"key", "channel", "type", "ttl"}
		for rep := 0; rep < 6; rep++ {
			for m := 1; m < 16; m++ {
				var om []string
				for i, f := range fields {
					if m&(1<<uint(i)) != 0 {
						om = append(om, f)
					}
				}
				prime := reqCase{Part: "request", Parent: parentSpec{Kind: "master"}, Type: "rwsl", TTL: 120, Channel: "a/b/"}
				if out, _ := pw.request(prime, false); !out.Minted {
					c.Violate("harness:control:prime", "a complete master request did not mint a key", prime)
				}
				rc := reqCase{Part: "request", Parent: parentSpec{Kind: "master"}, Type: "rw", TTL: 60, Channel: "a/", Omit: strings.Join(om, "+")}
				out, vs := pw.request(rc, false)
				c.Add("evaluations", 2)
				c.Add("requests_with_omitted_fields", 1)
				if out.Minted {
					c.Distinct("nontrivial", rc.String())
				}
				for _, v := range vs {
					c.Violate(v.sig, v.what, rc)
				}
			}
		}
		pw.close()
	} else {
		c.Violate("harness:connect", err.Error(), reqCase{Part: "connect"})
	}

	h.partHTTP(c)

	// part 2: extendable keys used directly
	useJobs := make(chan reqCase)
	for i := 0; i < par; i++ {
		wg.Add(1)
		go func() {
			defer wg.Done()
			for rc := range useJobs {
				if c.Expired() {
					capOnce.Do(func() { c.NotExhaustive("soft deadline reached in the direct-use part") })
					continue
				}
				vs, nontrivial := h.useCase(rc)
				c.Add("evaluations", 1)
				c.Add("direct_uses", 1)
				if nontrivial {
					c.Distinct("nontrivial", rc.String())
				}
				for _, v := range vs {
					c.Violate(v.sig, v.what, rc)
				}
			}
		}()
	}
	for _, v := range useVariants(c.Quick()) {
		for m := 0; m < 64; m++ {
			for _, op := range useOps {
				useJobs <- reqCase{Part: "use", Parent: parentSpec{Kind: "ext", Mask: extMask(m), Target: v.target}, Channel: v.channel, Op: op}
			}
		}
	}
	close(useJobs)
	wg.Wait()
	c.Sample(map[string]interface{}{"case": reqCase{Part: "use", Parent: parentSpec{Kind: "ext", Mask: security.AllowWrite, Target: "a/"}, Channel: "a/", Op: "publish"}, "outcome": "observer received nothing"})

	c.Set("evaluations", c.Count("evaluations"))
	c.Set("distinct_nontrivial", c.DistinctCount("nontrivial"))
	c.Set("rule", "a keygen/extension request that minted a key (every field and the Authorize grants over the probe set compared with the reference), or a direct use of an extendable key that holds the permission the operation needs (so only the extendable-key rule can refuse it); distinct by (parent kind, mask, parent target, type string, ttl, channel | operation)")
}

func replay(c *core.Ctx, raw json.RawMessage) {
	var hc httpCase
	if json.Unmarshal(raw, &hc) == nil && hc.Part == "http" {
		h := newHarness()
		defer h.env.Close()
		h.runHTTP(c, hc)
		return
	}
	var rc reqCase
	if err := json.Unmarshal(raw, &rc); err != nil {
		c.Violate("harness:replay", "cannot parse the case: "+err.Error(), nil)
		return
	}
	h := newHarness()
	defer h.env.Close()
	switch rc.Part {
	case "request":
		w, err := h.newWorker("replay")
		if err != nil {
			c.Violate("harness:connect", err.Error(), rc)
			return
		}
		defer w.close()
		_, vs := w.request(rc, true)
		for _, v := range vs {
			c.Violate(v.sig, v.what, rc)
		}
	case "use":
		vs, _ := h.useCase(rc)
		for _, v := range vs {
			c.Violate(v.sig, v.what, rc)
		}
	case "control":
		effect, err := h.use(rc.Op, h.proper, rc.Channel)
		if err != nil || !effect {
			c.Violate("harness:control:"+rc.Op, fmt.Sprintf("effect=%v err=%v", effect, err), rc)
		}
	}
}
