package c03

// Part (contract): "belongs to an allowed contract" follows the contract service. A real broker configured with the
// HTTP contract provider (real client, refresh every 20 ms) talks to a local contract service whose answer for the
// license's contract is switched between allowed and refused; after the provider has refreshed, a key of the contract
// is accepted exactly while the contract is allowed, and the master key mints keys exactly then.
// No verdict depends on durations: "has refreshed" means the service has seen three further requests (the refresh loop
// is sequential: when a later request arrives, every earlier answer has been applied).

import (
	"fmt"
	"net"
	"net/http"
	"net/http/httptest"
	"sync/atomic"
	"time"

	cfg "github.com/emitter-io/config"
	"github.com/emitter-io/emitter/internal/security"
	"github.com/emitter-io/emitter/internal/verifx/engine/brokerx"
	"github.com/emitter-io/emitter/internal/verifx/engine/core"
)

type contractCase struct {
	Part    string `json:"part"` // "contract"
	License int    `json:"license"`
}

const (
	contractAllowed = 1 // contract.ContractStateAllowed
	contractRefused = 2 // contract.ContractStateRefused
)

func runContract(c *core.Ctx, cc contractCase) {
	lic := brokerx.FixedLicense(cc.License, 1)
	var state, hits int64
	srv := httptest.NewServer(http.HandlerFunc(func(w http.ResponseWriter, r *http.Request) {
		w.Header().Set("Content-Type", "application/json")
		fmt.Fprintf(w, `{"id": %d, "master": 1, "sign": %d, "state": %d}`, lic.Contract(), lic.Signature(), atomic.LoadInt64(&state))
		atomic.AddInt64(&hits, 1)
	}))
	defer srv.Close()
	env, err := brokerx.New(brokerx.Options{LicenseVersion: cc.License, Contract: &cfg.ProviderConfig{Provider: "http", Config: map[string]interface{}{"url": srv.URL + "/", "interval": 20.0}}})
	if err != nil {
		core.HarnessFailure("C03 contract part: cannot start a broker with the http contract provider: %v", err)
	}
	defer env.Close()
	refreshed := func() bool {
		target := atomic.LoadInt64(&hits) + 3
		for deadline := time.Now().Add(120 * time.Second); atomic.LoadInt64(&hits) < target; {
			if time.Now().After(deadline) {
				return false
			}
			time.Sleep(2 * time.Millisecond)
		}
		return true
	}
	var key string
	first := true
	step := func(name string, wantAllowed bool) bool {
		if first {
			first = false // the provider fetches a contract when it is first asked for it and refreshes what it holds
		} else if !refreshed() {
			c.Violate(fmt.Sprintf("contract-state:v%d:provider-does-not-refresh", cc.License), "the contract provider stopped asking the contract service (no request within 120 s)", cc)
			return false
		}
		if key == "" {
			k, err := env.Key("a/b/", security.AllowReadWrite, time.Unix(0, 0))
			if err != nil {
				if wantAllowed {
					c.Violate(fmt.Sprintf("under:v%d:contract-state:%s:keygen", cc.License, name), fmt.Sprintf("the contract is allowed but its master key cannot mint a key: %v", err), cc)
				}
				return !wantAllowed
			}
			key = k
		}
		got := authorize(env, key, "a/b/", security.AllowRead)
		_, kerr := env.Key("a/c/", security.AllowReadWrite, time.Unix(0, 0))
		c.Add("contract_state_cases", 1)
		switch {
		case got && !wantAllowed:
			c.Violate(fmt.Sprintf("over:v%d:contract-state:%s", cc.License, name), "a key is accepted although the contract service has refused its contract and the provider has refreshed since", cc)
		case !got && wantAllowed:
			c.Violate(fmt.Sprintf("under:v%d:contract-state:%s", cc.License, name), "a key is refused although the contract service allows its contract and the provider has refreshed since", cc)
		case kerr == nil && !wantAllowed:
			c.Violate(fmt.Sprintf("over:v%d:contract-state:%s:keygen", cc.License, name), "the master key of a refused contract still mints keys", cc)
		case kerr != nil && wantAllowed:
			c.Violate(fmt.Sprintf("under:v%d:contract-state:%s:keygen", cc.License, name), fmt.Sprintf("the master key of an allowed contract cannot mint keys: %v", kerr), cc)
		default:
			return true
		}
		return false
	}
	seq := []struct {
		name    string
		state   int64
		allowed bool
	}{{"allowed", contractAllowed, true}, {"refused-after-allowed", contractRefused, false}, {"allowed-after-refused", contractAllowed, true}, {"refused-again", contractRefused, false}}
	for _, s := range seq {
		atomic.StoreInt64(&state, s.state)
		if !step(s.name, s.allowed) {
			return
		}
	}
}

func loopbackWorks() string {
	l, err := net.Listen("tcp", "127.0.0.1:0")
	if err != nil {
		return err.Error()
	}
	defer l.Close()
	go func() {
		if conn, err := l.Accept(); err == nil {
			conn.Write([]byte("ok"))
			conn.Close()
		}
	}()
	conn, err := net.DialTimeout("tcp", l.Addr().String(), 3*time.Second)
	if err != nil {
		return err.Error()
	}
	defer conn.Close()
	conn.SetReadDeadline(time.Now().Add(3 * time.Second))
	buf := make([]byte, 2)
	if _, err := conn.Read(buf); err != nil {
		return err.Error()
	}
	return ""
}

func partContract(c *core.Ctx) {
	// the contract service is a loopback HTTP server: where a loopback round trip does not work the part cannot run
	if why := loopbackWorks(); why != "" {
		c.NotExhaustive("part (contract) skipped: no working loopback HTTP in this sandbox: " + why)
		return
	}
	for _, lic := range []int{1, 3} {
		runContract(c, contractCase{Part: "contract", License: lic})
	}
	c.Assume("part (contract): a local contract service over loopback HTTP; provider refresh interval 20 ms; 'refreshed' = three further requests seen by the service")
}
