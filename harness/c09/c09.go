// Package c09: hostile or malformed input cannot take the broker down.
//
// Systematic enumeration of deviations from valid input (1 at a time in the quick tier, up to 2
// in the thorough tier), executed in worker sub-processes that run under an address-space limit
// and keep a write-ahead case journal: "B k" is written before case k and "E k result" after it,
// so that a worker that dies (fatal out-of-memory, exit, hang) names the case that did it. Such a
// case is re-run three times, each time alone in a fresh worker, and only reported when it fails
// every time. Three target groups: (a) the client port of a real broker over in-memory
// connections with a canary client that must keep being served, (b) the frame / message / state
// decoders and the gossip and survey entry points of a real broker, (c) the message-size limit.
package c09

import (
	"bufio"
	"bytes"
	"encoding/json"
	"fmt"
	"os"
	"path/filepath"
	"sort"
	"strconv"
	"strings"
	"sync"
	"sync/atomic"
	"time"

	"github.com/emitter-io/emitter/internal/verifx/engine/brokerx"
	"github.com/emitter-io/emitter/internal/verifx/engine/core"
)

func init() {
	core.Register(&core.Check{ID: "C09", Level: "fault_enumeration", Run: run, Replay: replay, Worker: worker})
}

const memLimit = uint64(8) << 30 // address-space limit of a worker (ulimit -v)

// item is one line of a work file: a single (index into enumerateSingles), a pair, or a literal case.
type item struct {
	I, J int
	Lit  *Case
}

func (it item) line() string {
	if it.Lit != nil {
		b, _ := json.Marshal(it.Lit)
		return "J" + string(b)
	}
	if it.J >= 0 {
		return fmt.Sprintf("%d,%d", it.I, it.J)
	}
	return strconv.Itoa(it.I)
}

// outcome of one case as seen by the parent.
type outcome struct {
	Done   bool
	Status string
	Alloc  uint64
	InLen  int
	Site   string
	Detail string
	Died   bool // the worker died (or was killed) while running this case
	Micros int64
	How    string
}

func (o outcome) failed() bool {
	switch o.Status {
	case "ok", "skip", "", "harness":
		return false
	}
	return true
}

type orch struct {
	c             *core.Ctx
	se            SeedEnv
	singles       *caseTable
	dir           string
	seq           int64
	spawns        int64
	deaths        int64
	stopped       int32
	par           int
	known         map[string]bool
	strays        int64
	maxFrac       float64
	nearLimit     []string
	unconfInfo    []string
	maxFracCase   string
	maxMicros     int64
	maxMicrosCase string
	strayInfo     []string
}

func (o *orch) caseOf(it item) Case {
	if it.Lit != nil {
		return *it.Lit
	}
	cs := o.singles.At(it.I)
	cs.Devs = append([]Dev(nil), cs.Devs...)
	if it.J >= 0 {
		cs.Devs = append(cs.Devs, o.singles.At(it.J).Devs...)
	}
	return cs
}

func readFileHead(path string, n int) string {
	f, err := os.Open(path)
	if err != nil {
		return ""
	}
	defer f.Close()
	b := make([]byte, n)
	m, _ := f.Read(b)
	return string(b[:m])
}

// classifyDeath names the way a worker died from its stderr and wait status.
func classifyDeath(wo core.WorkerOutcome, stderr string) (status, site, detail string) {
	first := ""
	for _, l := range strings.Split(stderr, "\n") {
		if strings.HasPrefix(l, "fatal error:") || strings.HasPrefix(l, "panic:") || strings.HasPrefix(l, "runtime:") {
			first = l
			break
		}
	}
	site = siteOf(stderr)
	detail = fmt.Sprintf("worker process died: %s (exit=%d signal=%s)", first, wo.ExitCode, wo.Signal)
	switch {
	case wo.Killed:
		return "hang", site, "worker process had to be killed by the parent's timeout"
	case strings.Contains(stderr, "out of memory") || strings.Contains(stderr, "cannot allocate memory") || strings.Contains(stderr, "cannot reserve"):
		return "oom", site, detail
	}
	return "exit", site, detail
}

// spawn runs one worker over the given items and returns what the journal says. next is the
// number of leading items that are finished (done, or attributed to a death).
func (o *orch) spawn(items []item, timeout time.Duration, deadline int64) (outs []outcome, next int, stop bool) {
	n := atomic.AddInt64(&o.seq, 1)
	atomic.AddInt64(&o.spawns, 1)
	path := filepath.Join(o.dir, fmt.Sprintf("w%06d", n))
	f, err := os.Create(path)
	if err != nil {
		core.HarnessFailure("cannot write work file: %v", err)
	}
	bw := bufio.NewWriterSize(f, 1<<20)
	hd, _ := json.Marshal(header{Env: o.se, Tier: o.c.Tier, Deadline: deadline})
	bw.Write(hd)
	bw.WriteString("\n")
	for _, it := range items {
		bw.WriteString(it.line())
		bw.WriteString("\n")
	}
	bw.Flush()
	f.Close()
	// the journal is created here with its final size and mapped by the worker
	jf0, err := os.Create(path + ".journal")
	if err != nil {
		core.HarnessFailure("cannot create journal: %v", err)
	}
	jf0.Truncate(int64(1<<20 + 64*len(items)))
	jf0.Close()
	t0 := time.Now()
	defer func() { dbg("worker %d: %d items, %d finished, %v", n, len(items), next, time.Since(t0)) }()
	wo := o.c.SpawnWorker([]string{path}, []string{"GOMAXPROCS=1", "GOGC=15", "TMPDIR=" + o.dir, "GOTRACEBACK=single"}, timeout, memLimit)
	outs = make([]outcome, len(items))
	pending := -1
	watchdog := false
	data, err := os.ReadFile(path + ".journal")
	if err == nil {
		if z := bytes.IndexByte(data, 0); z >= 0 {
			data = data[:z]
		}
		for _, text := range strings.Split(string(data), "\n") {
			p := strings.Fields(text)
			if len(p) < 2 {
				continue
			}
			k, _ := strconv.Atoi(p[1])
			switch p[0] {
			case "B":
				pending = k
			case "E":
				if len(p) >= 7 && k < len(outs) {
					a, _ := strconv.ParseUint(p[3], 10, 64)
					l, _ := strconv.Atoi(p[4])
					outs[k] = outcome{Done: true, Status: p[2], Alloc: a, InLen: l, Site: unb64(p[5]), Detail: unb64(p[6])}
					if len(p) >= 8 {
						outs[k].Micros, _ = strconv.ParseInt(p[7], 10, 64)
					}
					if len(p) >= 9 {
						outs[k].How = p[8]
					}
					next = k + 1
				}
				pending = -1
			case "H":
				if k < len(outs) {
					outs[k] = outcome{Done: true, Status: "hang", Died: true, Detail: fmt.Sprintf("case still running after %v; worker aborted by its watchdog", caseWatchdog)}
					next = k + 1
					atomic.AddInt64(&o.deaths, 1)
					watchdog = true
				}
				pending = -1
			case "S":
				stop = true
			case "X":
				core.HarnessFailure("worker refused to start: %s", unb64(p[1]))
			}
		}
	}
	if pending >= 0 && pending < len(outs) {
		st, site, detail := classifyDeath(wo, readFileHead(path+".stderr", 1<<16))
		outs[pending] = outcome{Done: true, Status: st, Site: site, Detail: detail, Died: true}
		next = pending + 1
		atomic.AddInt64(&o.deaths, 1)
	} else if wo.ExitCode != 0 && next > 0 && !watchdog {
		// the worker died between two cases (for example in a background goroutine): nobody to blame
		atomic.AddInt64(&o.strays, 1)
		lastErrMu.Lock()
		if len(o.strayInfo) < 8 {
			o.strayInfo = append(o.strayInfo, fmt.Sprintf("after %s: exit=%d %s", o.caseOf(items[next-1]).String(), wo.ExitCode, readFileHead(path+".stderr", 1500)))
		}
		lastErrMu.Unlock()
	} else if wo.ExitCode != 0 && next == 0 && !stop {
		// died outside any case: set-up problem
		outs = nil
		o.lastErr(path, wo)
	}
	os.Remove(path)
	os.Remove(path + ".journal")
	os.Remove(path + ".stderr")
	return
}

var lastErrMu sync.Mutex
var lastErrText string

func (o *orch) lastErr(path string, wo core.WorkerOutcome) {
	lastErrMu.Lock()
	lastErrText = fmt.Sprintf("exit=%d signal=%s killed=%v stdout=%s stderr-file=%s stderr=%s", wo.ExitCode, wo.Signal, wo.Killed, tailStr(wo.Stdout, 500), tailStr(readFileHead(path+".stderr", 4000), 4000), wo.Stderr)
	lastErrMu.Unlock()
}

func tailStr(s string, n int) string {
	if len(s) > n {
		return s[len(s)-n:]
	}
	return s
}

// runBatch executes all items over par worker slots and returns one outcome per item.
func (o *orch) runBatch(items []item) []outcome {
	res := make([]outcome, len(items))
	par := o.par
	if par > len(items) {
		par = len(items)
	}
	if par == 0 {
		return res
	}
	var wg sync.WaitGroup
	for s := 0; s < par; s++ {
		wg.Add(1)
		go func(s int) {
			defer wg.Done()
			var mine []int
			for i := s; i < len(items); i += par {
				mine = append(mine, i)
			}
			stalls := 0
			for len(mine) > 0 && atomic.LoadInt32(&o.stopped) == 0 {
				if o.c.Expired() {
					atomic.StoreInt32(&o.stopped, 1)
					break
				}
				batch := make([]item, len(mine))
				for k, i := range mine {
					batch[k] = items[i]
				}
				timeout := time.Until(o.c.Deadline) + 150*time.Second
				outs, next, stop := o.spawn(batch, timeout, o.c.Deadline.Unix())
				if outs == nil || next == 0 {
					stalls++
					if stalls >= 3 {
						lastErrMu.Lock()
						t := lastErrText
						lastErrMu.Unlock()
						core.HarnessFailure("workers make no progress: %s", t)
					}
					if stop {
						atomic.StoreInt32(&o.stopped, 1)
					}
					continue
				}
				stalls = 0
				for k := 0; k < next; k++ {
					res[mine[k]] = outs[k]
				}
				mine = mine[next:]
				if stop {
					atomic.StoreInt32(&o.stopped, 1)
				}
			}
		}(s)
	}
	wg.Wait()
	return res
}

// runAlone runs one case alone in a fresh worker.
func (o *orch) runAlone(cs Case) outcome {
	for try := 0; try < 3; try++ {
		outs, next, _ := o.spawn([]item{{I: -1, J: -1, Lit: &cs}}, 3*time.Minute, 0)
		if outs != nil && next == 1 {
			return outs[0]
		}
	}
	lastErrMu.Lock()
	t := lastErrText
	lastErrMu.Unlock()
	core.HarnessFailure("cannot run a single case in a fresh worker: %s", t)
	return outcome{}
}

// signature: target (entry point), deviation kind + field, failure class (+ code site when the
// process left a traceback).
func sigOf(cs Case, status, site string) string {
	s := fmt.Sprintf("%s:%s:%s:%s", cs.Target, cs.devKinds(), cs.devFields(), status)
	if site != "" {
		s += "@" + site
	}
	return s
}

// family maps an entry point to the decoder it is a thin wrapper of, and a client seed to its
// packet kind / request name, so that one cause reached through several doors is reported once.
func family(cs Case) string {
	switch cs.Target {
	case "OnGossipUnicast":
		return "DecodeFrame"
	case "OnGossip", "OnGossipBroadcast":
		return "DecodeState"
	}
	if cs.Group == "client" {
		if s, ok := seedByName(cs.Seed); ok {
			if s.Kind == "request" {
				return "client:" + s.Req
			}
			return "client:" + s.Kind
		}
	}
	return cs.Target
}

// rootKey groups failures that have one cause: port (client / cluster) + failure class + the code
// site when the process left a traceback, else failure class + entry-point family + deviation
// kind + field.
func rootKey(cs Case, o outcome) string {
	if o.Site != "" {
		return cs.Group + "|" + o.Status + "@" + o.Site
	}
	if len(cs.Devs) >= 2 {
		// two deviations: neither kinds nor fields are part of the key (one cause shows under many pairs)
		return o.Status + "|" + family(cs) + "|pair"
	}
	kinds := cs.devKinds()
	if kinds == "struct" || kinds == "varint" {
		kinds = "value" // a field set through the model or through its varint: the same thing
	}
	return o.Status + "|" + family(cs) + "|" + kinds + "|" + cs.devFields()
}

type failRec struct {
	pos int
	cs  Case
	out outcome
}

// triage confirms the simplest case of every root cause (three fresh workers, all must fail) and
// records the violation.
func (o *orch) triage(fails []failRec) (confirmed, unconfirmed int) {
	groups := map[string][]failRec{}
	var keys []string
	for _, f := range fails {
		k := rootKey(f.cs, f.out)
		if _, ok := groups[k]; !ok {
			keys = append(keys, k)
		}
		groups[k] = append(groups[k], f)
	}
	sort.Slice(keys, func(i, j int) bool { return groups[keys[i]][0].pos < groups[keys[j]][0].pos })
	if o.known == nil {
		o.known = map[string]bool{}
	}
	fresh := keys[:0]
	for _, k := range keys {
		if p := strings.Split(k, "|"); len(p) == 3 && p[2] == "pair" && o.known[p[0]+"|"+p[1]] {
			// a pair failing the way single deviations of the same entry point already do
			o.known[k] = true
		}
		if o.known[k] {
			o.c.Add("failing_cases_of_causes_already_reported", int64(len(groups[k])))
			continue
		}
		fresh = append(fresh, k)
	}
	keys = fresh
	// confirmation order: the slow classes first so that they overlap with the rest
	rank := func(k string) int {
		switch {
		case strings.HasPrefix(k, "hang") || strings.Contains(k, "|hang"):
			return 0
		case strings.Contains(k, "oom"):
			return 1
		}
		return 2
	}
	sort.SliceStable(keys, func(i, j int) bool { return rank(keys[i]) < rank(keys[j]) })
	type verdict struct {
		key   string
		rec   failRec
		runs  []outcome
		tried int
		ok    bool
	}
	verdicts := make([]verdict, len(keys))
	sem := make(chan struct{}, o.par)
	var wg sync.WaitGroup
	for gi, k := range keys {
		wg.Add(1)
		sem <- struct{}{}
		go func(gi int, k string) {
			defer wg.Done()
			defer func() { <-sem }()
			g := groups[k]
			v := verdict{key: k}
			for ci := 0; ci < len(g) && ci < 4 && !v.ok; ci++ {
				v.tried++
				runs := make([]outcome, 3)
				var w2 sync.WaitGroup
				for r := 0; r < 3; r++ {
					w2.Add(1)
					go func(r int) { defer w2.Done(); runs[r] = o.runAlone(g[ci].cs) }(r)
				}
				w2.Wait()
				all := true
				for _, r := range runs {
					if !r.failed() {
						all = false
					}
				}
				if all {
					v.ok, v.rec, v.runs = true, g[ci], runs
				}
			}
			verdicts[gi] = v
		}(gi, k)
	}
	wg.Wait()
	for _, v := range verdicts {
		g := groups[v.key]
		if !v.ok {
			unconfirmed++
			if len(o.unconfInfo) < 12 {
				o.unconfInfo = append(o.unconfInfo, fmt.Sprintf("%s seen as %s (%s) after %.1fs; %d candidate(s) re-run alone 3 times without failing 3 times", g[0].cs.String(), g[0].out.Status, g[0].out.Detail, float64(g[0].out.Micros)/1e6, v.tried))
			}
			continue
		}
		// the class seen alone in a fresh worker is the one reported; it may differ from the one seen
		// in the batch (for example out-of-memory there, a mere over-allocation here)
		ck := rootKey(v.rec.cs, v.runs[0])
		if p := strings.Split(ck, "|"); len(p) == 3 && p[2] == "pair" && o.known[p[0]+"|"+p[1]] {
			o.known[ck] = true
		}
		if ck != v.key && o.known[ck] {
			o.known[v.key] = true
			o.c.Add("failing_cases_of_causes_already_reported", int64(len(g)))
			continue
		}
		o.known[ck] = true
		confirmed++
		o.known[v.key] = true
		if first := v.runs[0]; first.Site == "" {
			o.known[first.Status+"|"+family(v.rec.cs)] = true
		}
		first := v.runs[0]
		classes := map[string]bool{}
		for _, r := range v.runs {
			classes[r.Status] = true
		}
		var cl []string
		for c := range classes {
			cl = append(cl, c)
		}
		sort.Strings(cl)
		targets := map[string]int{}
		for _, f := range g {
			targets[f.cs.Target]++
		}
		var tl []string
		for t, n := range targets {
			tl = append(tl, fmt.Sprintf("%s×%d", t, n))
		}
		sort.Strings(tl)
		in, _, _ := render(o.se, v.rec.cs)
		what := fmt.Sprintf("%s — %s; %s; input %d bytes %s; failed in 3 of 3 fresh workers (classes %v); %d failing cases with this cause in this run (%s)",
			first.Status, v.rec.cs.String(), first.Detail, len(in), hexHead(in, 48), cl, len(g), strings.Join(tl, ", "))
		o.c.Violate(sigOf(v.rec.cs, first.Status, first.Site), what, map[string]interface{}{"case": v.rec.cs, "status": first.Status, "site": first.Site})
	}
	return
}

func hexHead(b []byte, n int) string {
	if len(b) == 0 {
		return ""
	}
	if len(b) > n {
		return fmt.Sprintf("(%x…)", b[:n])
	}
	return fmt.Sprintf("(%x)", b)
}

// account adds the outcomes of a batch to the coverage and returns the failures.
func (o *orch) account(items []item, outs []outcome, depth int) (fails []failRec, notRun int) {
	samples := map[string]int{}
	for i, r := range outs {
		if !r.Done {
			notRun++
			continue
		}
		cs := o.caseOf(items[i])
		switch r.Status {
		case "skip":
			o.c.Add("skipped_not_applicable", 1)
			continue
		case "harness":
			core.HarnessFailure("case %s: %s", cs.String(), r.Detail)
		}
		o.c.Add("evaluations", 1)
		o.c.Add("cases_"+cs.Group, 1)
		o.c.Add(fmt.Sprintf("cases_with_%d_deviations", func() int {
			if cs.Raw != "" {
				return 1
			}
			return len(cs.Devs)
		}()), 1)
		if len(cs.Devs) > 0 || cs.Raw != "" || cs.Group == "size" {
			o.c.Distinct("nontrivial", cs.tupleKey())
		}
		o.c.Distinct("outcomes", cs.Group+":"+r.Status+":"+r.How)
		if r.Status == "ok" {
			f := float64(r.Alloc) / float64(allowedAlloc(r.InLen))
			if f > o.maxFrac {
				o.maxFrac, o.maxFracCase = f, cs.String()
			}
			if f > 0.5 && len(o.nearLimit) < 12 {
				o.nearLimit = append(o.nearLimit, fmt.Sprintf("%.3f %s", f, cs.String()))
			}
			if r.Micros > o.maxMicros {
				o.maxMicros, o.maxMicrosCase = r.Micros, cs.String()
			}
		}
		if r.failed() {
			fails = append(fails, failRec{pos: i, cs: cs, out: r})
			o.c.Add("failing_cases", 1)
		}
		sk := cs.Group + "/" + cs.devKinds() + "/" + r.Status
		if samples[sk] == 0 && len(samples) < 40 && (i%97 == 0 || r.failed() || cs.Group == "size") {
			samples[sk]++
			o.c.Sample(map[string]interface{}{"case": cs.String(), "status": r.Status, "alloc_bytes": r.Alloc, "input_bytes": r.InLen, "detail": r.Detail})
		}
	}
	return
}

// workBase prefers a memory-backed directory for work files and journals.
func workBase() string {
	if st, err := os.Stat("/dev/shm"); err == nil && st.IsDir() {
		if f, err := os.CreateTemp("/dev/shm", "c09-probe-*"); err == nil {
			f.Close()
			os.Remove(f.Name())
			return "/dev/shm"
		}
	}
	return ""
}

// sweepStale removes work directories left behind by runs that were killed (older than 2 hours).
func sweepStale(base string) {
	if base == "" {
		base = os.TempDir()
	}
	ds, _ := filepath.Glob(filepath.Join(base, "c09-*"))
	for _, d := range ds {
		if st, err := os.Stat(d); err == nil && st.IsDir() && time.Since(st.ModTime()) > 2*time.Hour {
			os.RemoveAll(d)
		}
	}
}

func freshSeedEnv() SeedEnv {
	env := brokerx.MustNew(brokerx.Options{Storage: "inmemory"})
	se := newSeedEnv(env)
	env.Close()
	return se
}

// pairsOf builds the two-deviation cases from the singles that passed on their own.
func (o *orch) pairsOf(outs []outcome) []item {
	type group struct {
		valid   int
		members []int
	}
	groups := map[string]*group{}
	var order []string
	base := o.singles.rawCount()
	for ri, cs := range o.singles.rest {
		i := base + ri
		if cs.Group == "size" {
			continue
		}
		k := cs.Target + "|" + cs.Seed
		g := groups[k]
		if g == nil {
			g = &group{valid: -1}
			groups[k] = g
			order = append(order, k)
		}
		if len(cs.Devs) == 0 {
			g.valid = i
			continue
		}
		if outs[i].Done && outs[i].Status == "ok" {
			g.members = append(g.members, i)
		}
	}
	results := make([][]item, len(order))
	var wg sync.WaitGroup
	sem := make(chan struct{}, o.par)
	for gi, k := range order {
		wg.Add(1)
		sem <- struct{}{}
		go func(gi int, g *group) {
			defer wg.Done()
			defer func() { <-sem }()
			if g.valid < 0 || !outs[g.valid].Done || outs[g.valid].Status != "ok" {
				return
			}
			seen := map[[20]byte]struct{}{}
			tgt := o.singles.At(g.valid).Target
			if b, ok, _ := render(o.se, o.singles.At(g.valid)); ok {
				seen[hashOf(tgt, b)] = struct{}{}
			}
			for _, i := range g.members {
				if b, ok, _ := render(o.se, o.singles.At(i)); ok {
					seen[hashOf(tgt, b)] = struct{}{}
				}
			}
			for x := 0; x < len(g.members); x++ {
				if o.c.Expired() {
					return
				}
				for y := x + 1; y < len(g.members); y++ {
					i, j := g.members[x], g.members[y]
					a, b := o.singles.At(i).Devs[0], o.singles.At(j).Devs[0]
					if !compatible(a, b) {
						continue
					}
					cs := o.caseOf(item{I: i, J: j})
					by, ok, err := render(o.se, cs)
					if err != nil || !ok {
						continue
					}
					h := hashOf(tgt, by)
					if _, dup := seen[h]; dup {
						continue
					}
					seen[h] = struct{}{}
					results[gi] = append(results[gi], item{I: i, J: j})
				}
			}
		}(gi, groups[k])
	}
	wg.Wait()
	// interleave the groups so that a time cap removes evenly from all of them
	var all []item
	for k := 0; ; k++ {
		added := false
		for _, r := range results {
			if k < len(r) {
				all = append(all, r[k])
				added = true
			}
		}
		if !added {
			break
		}
	}
	return all
}

func dbg(format string, a ...interface{}) {
	if os.Getenv("C09_DEBUG") != "" {
		fmt.Fprintf(os.Stderr, "[c09 %s] "+format+"\n", append([]interface{}{time.Now().Format("15:04:05.000")}, a...)...)
	}
}

func run(c *core.Ctx) {
	dbg("start")
	se := freshSeedEnv()
	dbg("seed env ready")
	if err := selfCheck(se); err != nil {
		core.HarnessFailure("self-check of the annotated encoders failed: %v", err)
	}
	sweepStale(workBase())
	dir, err := os.MkdirTemp(workBase(), "c09-*")
	if err != nil {
		core.HarnessFailure("%v", err)
	}
	defer os.RemoveAll(dir)
	o := &orch{c: c, se: se, singles: enumerateSingles(se), dir: dir, par: core.NumWorkers()}

	dbg("%d singles enumerated", o.singles.Len())
	// depth 1: the valid seeds, every single deviation, every byte string of length <= 2
	items := make([]item, o.singles.Len())
	for i := range items {
		items[i] = item{I: i, J: -1}
	}
	outs := o.runBatch(items)
	dbg("singles run")
	if os.Getenv("C09_DEBUG") != "" {
		idx := make([]int, 0, 1024)
		var total int64
		byT := map[string]int64{}
		for i, r := range outs {
			total += r.Micros
			if r.Micros > 200000 || r.Died {
				idx = append(idx, i)
			}
			cs := o.caseOf(items[i])
			byT[cs.Target+"/"+cs.devKinds()] += r.Micros
		}
		sort.Slice(idx, func(a, b int) bool { return outs[idx[a]].Micros > outs[idx[b]].Micros })
		dbg("total case time %.1fs; %d cases above 0.2s or died", float64(total)/1e6, len(idx))
		for k, i := range idx {
			if k < 60 {
				dbg("  %.2fs %s died=%v %s", float64(outs[i].Micros)/1e6, outs[i].Status, outs[i].Died, o.caseOf(items[i]).String())
			}
		}
		var ks []string
		for k := range byT {
			ks = append(ks, k)
		}
		sort.Slice(ks, func(a, b int) bool { return byT[ks[a]] > byT[ks[b]] })
		for k, t := range ks {
			if k < 25 {
				dbg("  %8.1fs %s", float64(byT[t])/1e6, t)
			}
		}
	}
	fails, notRun := o.account(items, outs, 1)
	dbg("accounted: %d failing cases", len(fails))
	if notRun > 0 {
		c.NotExhaustive(fmt.Sprintf("time budget: %d of %d single-deviation cases not run", notRun, len(items)))
	}
	conf, unconf := o.triage(fails)
	dbg("triage done: %d confirmed, %d unconfirmed", conf, unconf)
	bound := 1

	// depth 2 (thorough): pairs of deviations that each passed on their own
	if !c.Quick() && atomic.LoadInt32(&o.stopped) == 0 && !c.Expired() {
		pairs := o.pairsOf(outs)
		c.Set("pairs_enumerated", len(pairs))
		if os.Getenv("C09_DEBUG") != "" {
			byK := map[string]int{}
			for _, it := range pairs {
				cs := o.caseOf(it)
				byK[cs.Group+"/"+cs.devKinds()]++
			}
			var ks []string
			for k := range byK {
				ks = append(ks, k)
			}
			sort.Slice(ks, func(a, b int) bool { return byK[ks[a]] > byK[ks[b]] })
			for _, k := range ks {
				dbg("  pairs %7d %s", byK[k], k)
			}
			if os.Getenv("C09_DEBUG") == "pairs" {
				os.Exit(0)
			}
		}
		pouts := o.runBatch(pairs)
		pf, pn := o.account(pairs, pouts, 2)
		if pn > 0 {
			c.NotExhaustive(fmt.Sprintf("time budget: %d of %d two-deviation cases not run", pn, len(pairs)))
		} else {
			bound = 2
		}
		c2, u2 := o.triage(pf)
		conf += c2
		unconf += u2
	}

	c.Set("evaluations", c.Count("evaluations"))
	c.Set("distinct_nontrivial", c.DistinctCount("nontrivial"))
	c.Set("rule", "a case is a (target, seed, deviation kind, field, value) tuple rendered to bytes and handed to the real entry point in a memory-limited worker; it is non-trivial when it differs from the valid seed (every deviation does; identical renderings are de-duplicated) or is one of the 65 793 byte strings of length <= 2; valid seeds are run too and must be served, but are not counted as non-trivial")
	c.Set("deviations_completed", bound)
	c.Set("worker_processes", atomic.LoadInt64(&o.spawns))
	c.Set("worker_deaths_attributed", atomic.LoadInt64(&o.deaths))
	c.Set("worker_deaths_between_cases", atomic.LoadInt64(&o.strays))
	if len(o.strayInfo) > 0 {
		c.Set("worker_deaths_between_cases_detail", o.strayInfo)
	}
	c.Set("largest_alloc_fraction_of_limit_among_passing_cases", fmt.Sprintf("%.3f (%s)", o.maxFrac, o.maxFracCase))
	if len(o.nearLimit) > 0 {
		c.Set("passing_cases_above_half_the_alloc_limit", o.nearLimit)
	}
	if len(o.unconfInfo) > 0 {
		c.Set("failures_not_confirmed_detail", o.unconfInfo)
	}
	c.Set("slowest_passing_case", fmt.Sprintf("%.2fs (%s)", float64(o.maxMicros)/1e6, o.maxMicrosCase))
	c.Set("root_causes_confirmed", conf)
	c.Set("failures_not_confirmed_in_isolation", unconf)
	c.Set("worker_address_space_limit_bytes", memLimit)
	c.Set("alloc_rule", fmt.Sprintf("TotalAlloc delta of a case <= %d x input bytes + %d", allocFactor, allocSlack))
	c.Assume("only the deviation menu around the valid seeds and all byte strings of length <= 2 are covered; this bounds, it does not prove, the absence of crashes")
	c.Assume("a panic escaping a decoder / gossip / survey entry point is counted as a process exit: mesh calls these on its own goroutines without recover (the panic is caught in the worker only to keep enumerating)")
	c.Assume("the client port is driven through Service.VerifAttach over in-memory connections (no TCP, TLS or websocket framing); the surveyor is attached the way Service.Listen does it, with storage and presence as handlers")
	c.Assume("failures are reported only when the case fails three times alone in a fresh worker; failures that depend on state accumulated by earlier cases are counted in failures_not_confirmed_in_isolation but not reported")
	c.Assume(fmt.Sprintf("hang detector: %v per case (worker watchdog), %v for a connection to be closed after the client closed its side", caseWatchdog, connWait))
}

func replay(c *core.Ctx, raw json.RawMessage) {
	var rc struct {
		Case Case `json:"case"`
	}
	if err := json.Unmarshal(raw, &rc); err != nil || rc.Case.Group == "" {
		fmt.Println("cannot parse the recorded case:", err)
		return
	}
	dir, err := os.MkdirTemp(workBase(), "c09-replay-*")
	if err != nil {
		core.HarnessFailure("%v", err)
	}
	defer os.RemoveAll(dir)
	o := &orch{c: c, se: freshSeedEnv(), dir: dir, par: 1}
	r := o.runAlone(rc.Case)
	if r.Status == "harness" {
		core.HarnessFailure("replay: %s", r.Detail)
	}
	if r.failed() {
		c.Violate(sigOf(rc.Case, r.Status, r.Site), fmt.Sprintf("%s — %s; %s", r.Status, rc.Case.String(), r.Detail), map[string]interface{}{"case": rc.Case, "status": r.Status, "site": r.Site})
	}
}
