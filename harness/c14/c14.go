// Package c14: banning a key takes effect immediately and survives restarts.
// Every sequence of ban / unban / use / restart / crash-restart / gossip-to-second-broker
// operations up to a depth is executed against real brokers with a real state directory.
package c14

import (
	"encoding/json"
	"fmt"
	"net"
	"os"
	"strings"

	"github.com/emitter-io/emitter/internal/security"
	"github.com/emitter-io/emitter/internal/verifx/engine/brokerx"
	"github.com/emitter-io/emitter/internal/verifx/engine/core"
	"github.com/emitter-io/emitter/internal/verifx/engine/session"
	"github.com/emitter-io/emitter/internal/verifx/engine/xstate"
	"github.com/weaveworks/mesh"
)

func init() {
	core.Register(&core.Check{ID: "C14", Level: "model_checking", Run: run, Replay: replay})
}

var fullAlphabet = []string{"ban", "unban", "use", "restart", "crash", "useB2", "sync"}
var toggleAlphabet = []string{"ban", "unban", "use"}
var restartAlphabet = []string{"ban", "unban", "use", "restart", "crash"}

// capture records what the broker would broadcast.
type capture struct{ payloads []mesh.GossipData }

func (c *capture) GossipUnicast(dst mesh.PeerName, msg []byte) error { return nil }
func (c *capture) GossipBroadcast(update mesh.GossipData)            { c.payloads = append(c.payloads, update) }
func (c *capture) GossipNeighbourSubset(update mesh.GossipData)      {}

// wenv is reused by every path of one worker; each path bans its own freshly minted key, so the
// state left behind by earlier paths (other keys) cannot influence it.
type wenv struct {
	dir     string
	b1, b2  *brokerx.Env
	cap     *capture
	cl, cl2 *session.Client
	abandon []*brokerx.Env
	paths   int
}

func newWenv() *wenv {
	w := &wenv{}
	w.dir, _ = os.MkdirTemp("", "c14-*")
	w.start()
	w.b2 = brokerx.MustNew(brokerx.Options{Node: 2})
	return w
}

func (w *wenv) start() {
	w.b1 = brokerx.MustNew(brokerx.Options{Node: 1, ClusterDir: w.dir, KeepGossip: true})
	w.cap = &capture{}
	w.b1.Svc.VerifCluster().VerifSetGossip(w.cap)
	w.cl = nil
}

func (w *wenv) close() {
	if w.cl != nil {
		w.cl.Abort()
	}
	if w.cl2 != nil {
		w.cl2.Abort()
	}
	w.b1.Close()
	w.b2.Close()
	for _, a := range w.abandon {
		a.Close()
	}
	os.RemoveAll(w.dir)
}

type inst struct {
	*wenv
	ops      []string
	key      string
	banned   bool // reference: what the last acknowledged ban request said
	b2banned bool // reference for the second broker: value at the last sync
	hist     []string
	pending  string
	pwhat    string
}

func newInst(w *wenv, ops []string) *inst {
	// abandoned brokers pile up goroutines and file handles: renew the environment now and then
	if w.paths++; w.paths > 400 || len(w.abandon) > 20 {
		w.close()
		*w = *newWenv()
	}
	in := &inst{wenv: w, ops: ops}
	w.cap.payloads = nil
	// a fresh key per path (different channel target each time, so the strings differ)
	in.key = w.b1.MustKey(fmt.Sprintf("k%d/", w.paths), security.AllowRead|security.AllowWrite)
	return in
}

func (in *inst) client() *session.Client {
	if in.cl == nil {
		in.cl = session.NewClient("U", func(c net.Conn) { in.b1.Svc.VerifAttach(c) })
		if !in.cl.Connect(session.ConnectOpts{ClientID: "u"}) {
			in.fail("harness:no-connack", "CONNECT not acknowledged")
		}
	}
	return in.cl
}

func (in *inst) client2() *session.Client {
	if in.cl2 == nil {
		in.cl2 = session.NewClient("V", func(c net.Conn) { in.b2.Svc.VerifAttach(c) })
		if !in.cl2.Connect(session.ConnectOpts{ClientID: "v"}) {
			in.fail("harness:no-connack", "CONNECT not acknowledged")
		}
	}
	return in.cl2
}

func (in *inst) fail(s, w string) {
	if in.pending == "" {
		in.pending, in.pwhat = s, w
	}
}

func (in *inst) Enabled() []int {
	out := make([]int, len(in.ops))
	for i := range out {
		out[i] = i
	}
	return out
}

// tryUse reports whether an operation presenting the key is accepted.
func tryUse(c *session.Client, key string, ch string) (accepted bool, ok bool) {
	code, acked := c.Subscribe(key + "/" + ch)
	if !acked {
		return false, false
	}
	c.Drain()
	if code == 0x80 {
		return false, true
	}
	c.Unsubscribe(key + "/" + ch)
	c.Drain()
	return true, true
}

func (in *inst) banRequest(b bool) {
	resp, ok := in.client().Request("keyban", map[string]interface{}{"secret": in.b1.Master, "target": in.key, "banned": b})
	var r struct {
		Status int  `json:"status"`
		Banned bool `json:"banned"`
	}
	if !ok || resp.Topic != "emitter/keyban/" || json.Unmarshal(resp.Payload, &r) != nil || r.Status != 200 || r.Banned != b {
		in.fail("harness:keyban-request-refused", fmt.Sprintf("keyban(%v) answered %v %s", b, resp.Topic, resp.Payload))
		return
	}
	in.banned = b
}

func (in *inst) Apply(i int) {
	o := in.ops[i]
	in.hist = append(in.hist, o)
	if in.pending != "" {
		return
	}
	switch o {
	case "ban":
		in.banRequest(true)
	case "unban":
		in.banRequest(false)
	case "use":
		acc, ok := tryUse(in.client(), in.key, fmt.Sprintf("k%d/", in.paths))
		if !ok {
			in.fail("harness:no-suback", "subscribe not acknowledged")
			return
		}
		if acc && in.banned {
			in.fail(in.sig("ban-ignored"), "the key was used successfully although its ban had been acknowledged")
		} else if !acc && !in.banned {
			in.fail(in.sig("unban-ignored"), "the key was refused although it is not banned (unban acknowledged or never banned)")
		}
	case "restart":
		if in.cl != nil {
			in.cl.Abort()
		}
		in.b1.Close()
		in.start()
	case "crash":
		// abandon the running broker without closing anything and open a new one on the same directory
		in.abandon = append(in.abandon, in.b1)
		in.start()
	case "useB2":
		acc, ok := tryUse(in.client2(), in.key, fmt.Sprintf("k%d/", in.paths))
		if !ok {
			in.fail("harness:no-suback", "subscribe on the second broker not acknowledged")
			return
		}
		if acc && in.b2banned {
			in.fail(in.sigB2("not-effective-on-peer:ban"), "second broker accepts the key although it merged the gossip carrying the ban")
		} else if !acc && !in.b2banned {
			in.fail(in.sigB2("not-effective-on-peer:unban"), "second broker refuses the key although the last gossip it merged says it is not banned")
		}
	case "sync":
		for _, p := range in.cap.payloads {
			for _, buf := range p.Encode() {
				if _, err := in.b2.Svc.VerifCluster().OnGossipBroadcast(mesh.PeerName(1), buf); err != nil {
					in.fail("harness:gossip-rejected", err.Error())
				}
			}
		}
		in.cap.payloads = nil
		in.b2banned = in.banned
	}
}

func compress(h []string) string {
	// pattern of the history: toggles and uses with restarts marked
	return strings.Join(h, ",")
}

func (in *inst) sig(kind string) string {
	feat := "toggle"
	for _, o := range in.hist {
		if o == "restart" {
			feat = "restart"
		}
		if o == "crash" {
			feat = "crash"
		}
	}
	if feat == "restart" && kind == "ban-ignored" {
		kind = "lost-after-restart"
	}
	if feat == "crash" && kind == "ban-ignored" {
		kind = "lost-after-kill"
	}
	var h []string
	for _, o := range in.hist {
		if o != "useB2" && o != "sync" {
			h = append(h, o)
		}
	}
	return kind + ":" + compress(h)
}

func (in *inst) sigB2(kind string) string {
	var h []string
	for _, o := range in.hist {
		if o != "use" {
			h = append(h, o)
		}
	}
	return kind + ":" + compress(h)
}

func (in *inst) Check() (string, string) { return in.pending, in.pwhat }

func (in *inst) Key() string { return strings.Join(in.hist, ",") } // no merging: every history is its own state

func (in *inst) Close() {}

func search(c *core.Ctx, name string, ops []string, depth int) {
	n := core.NumWorkers()
	envs := make([]*wenv, n)
	spec := &xstate.Spec{Name: name, Alphabet: ops, Depth: depth, Workers: n, Deadline: c.Deadline,
		New: func(w int) xstate.Instance {
			if envs[w] == nil {
				envs[w] = newWenv()
			}
			return newInst(envs[w], ops)
		}}
	res := xstate.Run(spec)
	for _, e := range envs {
		if e != nil {
			e.close()
		}
	}
	c.Add("states", int64(res.States))
	c.Add("transitions", res.Transitions)
	c.Add("traces_validated_against_impl", res.Replays)
	c.Set("depth_completed_"+name, res.DepthCompleted)
	if !res.Exhaustive {
		c.NotExhaustive(fmt.Sprintf("%s: time cap at depth %d (%d unexpanded)", name, res.DepthCompleted, res.FrontierLeft))
	}
	for i, p := range res.SamplePaths {
		if i < 3 {
			c.Sample(map[string]interface{}{"alphabet": name, "history": p})
		}
	}
	for _, f := range res.Violations {
		c.Violate(f.Sig, f.What+" | history: "+strings.Join(f.Path, ", "), map[string]interface{}{"alphabet": name, "ops": f.Ops, "history": f.Path})
	}
}

func run(c *core.Ctx) {
	if c.Quick() {
		search(c, "toggle", toggleAlphabet, 6)
		search(c, "restart", restartAlphabet, 4)
		search(c, "full", fullAlphabet, 3)
	} else {
		search(c, "toggle", toggleAlphabet, 8)
		search(c, "restart", restartAlphabet, 6)
		search(c, "full", fullAlphabet, 5)
	}
	c.Assume("the 60 s read-cache TTL and the 6 h tombstone TTL never elapse inside a run")
	c.Assume("'crash' = a second Service opened on the state directory while the first is abandoned un-closed (buntdb writes each commit with an immediate write(2)); power loss is out of scope")
	c.Assume("gossip to the second broker is delivered as the exact one-operation payloads the first broker broadcast, in order")
}

func replay(c *core.Ctx, raw json.RawMessage) {
	var cs struct {
		Alphabet string `json:"alphabet"`
		Ops      []int  `json:"ops"`
	}
	json.Unmarshal(raw, &cs)
	ops := fullAlphabet
	if cs.Alphabet == "toggle" {
		ops = toggleAlphabet
	}
	if cs.Alphabet == "restart" {
		ops = restartAlphabet
	}
	w := newWenv()
	defer w.close()
	in := newInst(w, ops)
	for _, o := range cs.Ops {
		in.Apply(o)
	}
	if s, w := in.Check(); s != "" {
		c.Violate(s, w, cs)
	}
}
