#!/usr/bin/env python3
"""Generates /verif/MANIFEST.json from the table below (kept in one place so the manifest is always valid)."""
import json, os, subprocess

VERIF = os.path.dirname(os.path.dirname(os.path.abspath(__file__)))

# id -> (level, engine, technique, text, note, design_ref)
CHECKS = {
    "C19": ("model_checking", "E3+E1",
            "bounded-exhaustive enumeration of codec/id/split inputs + preemption-bounded exhaustive schedule exploration (controlled scheduler) of the real Peer queue, NewID and the pooled encoder",
            "Every message/frame/id/split case of the stated product is executed on the real codecs; every schedule of 3 threads x 2 NewID and of 2 senders x 2 messages against 2 flushes of the real cluster.Peer with at most 2 (quick) / 3 (thorough) preemptions is executed and checked for loss, duplication and reordering; a message and a frame encoded by two goroutines at once must both round-trip. Peer flushes that need 1-3 transport calls are run with every subset of calls refused by the transport: every message must still be handed over once, in order. An id's second must lie between clock readings taken around NewID, for 130 ids created after a 2.1 s pause.",
            "Statement-level sequentially-consistent interleavings only; sizes limited to the listed boundary values; transport (mesh unicast) replaced by a recording sender.",
            "DESIGN.md §4 C19"),
}

CHECKS.update({
    "C01": ("model_checking", "E2+E1",
            "explicit-state BFS over subscribe/unsubscribe histories on the real Trie (state = canonical trie dump) + preemption-bounded exhaustive schedule exploration with a brute-force linearizability oracle",
            "Every history of subscribe/unsubscribe to depth 3 (quick) / 4 (thorough) over 12-16 filters x 3 subscribers in both matcher modes is replayed on a fresh real Trie; in every reached state 7 channels are looked up (with and without an exclusion filter) and compared with a string-level matcher incl. share groups; Count() and 'index empty again' are checked. Families of 15-40 byte level names that differ in one byte each (every position) are subscribed by one subscriber per name through the real parser and must be kept apart by lookups. Six scenarios of 2-3 threads (incl. two concurrent lookups that each meet a share group) are explored exhaustively up to 2/3 preemptions; every execution's call/return history must be linearizable w.r.t. the reference.",
            "murmur32 collisions outside the alphabet; sequentially consistent statement-level interleavings; share picks with >1 member only in the sequential part (Go map iteration is not controllable).",
            "DESIGN.md §4 C01"),
    "C02": ("model_checking", "E2",
            "explicit-state BFS over client request histories against a real broker.Service (in-memory connections, independent MQTT client codec), states deduplicated by trie dump + per-connection counters + reference model",
            "Every sequence of subscribe/unsubscribe/link/failing requests by two clients to depth 3 (quick) / 4 (thorough) over xor-colliding, repeated and wildcard filters is replayed on a real broker; in every reached state every client publishes to 9 channels with and without me=0 and through links, and each client's inbox is compared with the reference (exactly-once, topic, payload); failing requests must answer emitter/error/ and change nothing. Further searches: one connection juggling three xor-colliding filters (depth 7/8), a fault variant in which a third subscriber's socket fails every write while the two healthy clients must be served as before, look-alike channel names (case, long common prefix, punctuation), a variant on a broker configured with limit.readRate = 20 in which every state is reached and probed through the read throttle (throttled packets must be delayed, not dropped), a large-payload probe, and a part in which a second publisher's whole delivery is inserted after the first socket write of another delivery to the same subscriber (payload sizes 10 B - 60 KB).",
            "clients act one acknowledged request at a time (histories, not schedules); single broker; level names outside the alphabet are not explored.",
            "DESIGN.md §4 C02"),
    "C07": ("model_checking", "E2",
            "explicit-state BFS over publish/last-will histories on a real broker with the real in-memory history store; 32 subscribe probes per state",
            "Every sequence of publishes (plain/retain/ttl/retain+ttl x store/no-store key x 2 nested channels, plus a 10 kB payload and a ttl above 2^31) and last wills to depth 3 (quick) / 5 (thorough) is replayed on a real broker; in every state the store content (channel, payload, ttl, contract) is compared with the reference and 32 subscriptions (filter x last x load permission x window) check that exactly the last N stored matching messages arrive before the SUBACK and live messages only after it. Two pubsub services over two stores linked through the real OnSurvey: messages published through different nodes are replayed on either node.",
            "histories run within seconds, ttl values far from expiry; in-memory badger provider (disk provider covered by C06/C15).",
            "DESIGN.md §4 C07"),
    "C08": ("fault_enumeration", "E4",
            "exhaustive enumeration of cut points (every packet boundary x 6 endings, every byte offset inside the last packet) of every generated client session against a real broker with a watching client",
            "Every session of <=2 (quick) / <=3 (thorough) requests over 10 request kinds (xor-colliding filters, presence-change and link subscriptions) x 3 last-will variants is cut after its last packet with each of 6 endings (DISCONNECT, abrupt close, EOF-with-data, malformed, bad type, oversized) and at byte offsets inside its last packet; after the broker closes the socket the subscription index, connection counter, per-connection counters, the last-will deliveries and the presence notifications seen by a second client are compared with the reference. Burst family: a connection holding 1..150 (thorough: ..1000) subscriptions below a watched channel ends while the watcher's socket is stalled or not; every subscription must be gone and the watcher told about each once it reads again.",
            "in-memory transport attached through the real accept path; 'internal failure' = decoder error/panic only.",
            "DESIGN.md §4 C08"),
    "C16": ("exploration", "E3+E1",
            "bounded-exhaustive enumeration of packet values of all 14 MQTT packet types, differential against eclipse/paho packets and the MQTT 3.1.1 length encoding + preemption-bounded exhaustive schedule exploration of two concurrent codec users",
            "Every packet value of the stated product (flags, QoS incl. will QoS, ids, field lengths at 0/1/127/128/16383/16384 and at the 64 KiB boundaries, 0-3 tuples) is encoded by emitter and decoded by paho, encoded by paho and decoded by emitter, and round-tripped through emitter; remaining-length bytes are compared with the spec; panics are violations. Two connections decoding and encoding at the same time are explored under the controlled scheduler (<= 2 / 3 preemptions, yields inside the codec and its buffer pool): each sees what it sees alone.",
            "paho is the reference only for values it round-trips itself; byte contents are fixed patterns.",
            "DESIGN.md §4 C16"),
    "C18": ("model_checking", "E2",
            "explicit-state BFS over subscribe/unsubscribe/disconnect/presence-request histories of three clients on a real broker, FIFO barrier on the real presence queue",
            "Every history to depth 3 (quick) / 5 (thorough) over 14 operations is replayed on a real broker; after every operation the watcher's inbox must hold exactly the expected subscribe/unsubscribe notifications (connection id and username checked), and in every state presence status requests for three channels must list exactly the connections the C02 reference says would receive a publish. A second search has one connection juggle three xor-colliding sub-channels of a watched channel, a third uses channels spelled like the broker's reserved words (presence/..., query/...), a fourth watches a channel whose sub-channels have 62-64 levels (the deepest the parser lets through); a plain status poll by the watcher is an alphabet letter (it must change nothing).",
            "single broker (cluster survey returns nothing); notifications awaited through a no-op pushed through the real queue.",
            "DESIGN.md §4 C18"),
})

CHECKS.update({
    "C10": ("model_checking", "E1",
            "preemption- and deviation-bounded exhaustive schedule exploration (controlled scheduler, rate-limiter answers as environment choices) of publishers writing real MQTT packets into the real listener.Conn / websocket transport while the periodic flush runs",
            "Nine scenarios (plain buffered connection with two publishers x two packets and two timer flushes, with one packet pre-queued, and with a large packet of 1.1/4.2/8.3/60 KB behind a queued small one; websocket transport; websocket over the buffered connection; the shared encode-buffer pool with yields inside the encoder) are explored exhaustively up to 2 (quick) / 3 (thorough) deviations; the byte stream that reached the socket is parsed by an independent MQTT decoder and must consist of complete packets, each sent message once, per-publisher order kept, nothing left queued after the timer flush. The real pubsub.Publish is driven by one publisher (three messages) with 1..100 (thorough: ..1000) recording subscribers one of which holds one write: every subscriber must see the three messages in order. Bursts of up to ~1 MB of rate-limited PUBLISH packets (real encoder) through the buffered connection must come out once, in order.",
            "socket Write calls are atomic; sequentially consistent statement-level interleavings; real sockets/TLS/OS scheduling not modelled.",
            "DESIGN.md §4 C10"),
    "C11": ("exploration", "E3",
            "bounded-exhaustive enumeration of key-generation and link-extension requests through a real broker connection, decrypted results and behavioural grants compared with a reference",
            "Every (parent kind incl. all 64 extendable masks, crafted expired/foreign/garbage parents) x 142 type strings x 3 ttls x 9 channels request goes through the real emitter/keygen/ handler; the decrypted key is checked clause by clause (no master bit, permissions within request and parent, contract/signature/master copied, expiry) and its grants through the real Authorize are compared in both directions with a string-level reference over 125 probe channels; extendable keys are tried for publish, subscribe, unsubscribe, presence and link auto-subscribe. Requests that omit every non-empty subset of {key, channel, type, ttl} are sent right after a complete successful request (what is not sent is not requested); channels include '.' and '..' levels. The first request each parent key was granted is repeated after all other requests with that key: same answer. Part 'http': every non-extendable parent (incl. expired/foreign/garbage) x 4 permission box sets x 2 ttls x 2 channels is posted to the real HTTP keygen form handler and the key on the rendered page is judged by the same clauses.",
            "one license version (v3); wildcard requests against keys are C03's business.",
            "DESIGN.md §4 C11"),
})

CHECKS.update({
    "C14": ("model_checking", "E2",
            "bounded-exhaustive enumeration of every ban/unban/use/restart/crash-restart/gossip-to-peer operation sequence against real brokers with a real state directory (every history is a state; no merging)",
            "Every sequence over {ban, unban, use} to depth 6 (quick) / 8 (thorough) and over {ban, unban, use, restart, crash, useB2, sync} to depth 3 / 5 is executed: ban/unban are real emitter/keyban/ requests with the master key, use is a real SUBSCRIBE presenting the key, restart closes and reopens the broker on the same directory, crash abandons it un-closed and opens a second one, sync feeds the exact broadcast payloads to a second broker, syncfull the first broker's complete state in one payload (periodic exchange); restart7h restarts a stopped broker after the expiry times in its state file were moved 7 h into the past; every use must agree with the last acknowledged ban request, and a banned key must also be refused when its text is respelled in the standard base64 alphabet.",
            "cache/tombstone TTLs (60 s / 6 h) never elapse in a run; kill is modelled by abandoning the process state, power loss out of scope.",
            "DESIGN.md §4 C14"),
})

CHECKS.update({
    "C13": ("model_checking", "E3+E2",
            "bounded-exhaustive enumeration of (local entry, incoming entry) time pairs on two keys for three backends + exhaustive enumeration of enqueue sequences on real mesh gossip senders fed by a real Swarm, each run under a one-thread controlled scheduler (deadlock detection)",
            "(a) all 65 536 combinations of add/remove times {absent,1,2,3} of local and incoming entries on two keys for Volatile<-Volatile, Durable<-Volatile and State.Merge: the delta must hold exactly the strictly newer components, be empty/nil iff nothing changed, and the local state must be the pointwise maximum. (b) every sequence of <=2 (quick) / <=3 (thorough) Broadcast/Send calls on one or two real gossipSender objects with payloads produced by a real Swarm (Notify operations, an OnGossip delta, the live Gossip() state, the same object on both links): after draining, every link must have sent at least the union of what was queued; panics and deadlocks are violations. (c) two payloads merged into one durable state at the same time under the controlled scheduler (<= 2/3 preemptions): what each relayed delta claims must be held by the state, nothing new withheld; a 50000-entry delta coalesced with a new update must still carry the update.",
            "senders are real mesh gossipSender objects without their goroutine; picking order as in mesh (gossip bucket first).",
            "DESIGN.md §4 C13"),
})

CHECKS.update({
    "C03": ("exploration", "E3+E1",
            "bounded-exhaustive enumeration of (key target, permission mask, expiry, requested channel, operation) tuples through the real Authorize on real brokers per license version, compared in both directions with a string-level reference + preemption-bounded exhaustive schedule exploration of two concurrent requests",
            "169 targets x 681 requests x 6 operations with mask 0xFE on all three licenses plus all 256 masks x 3 expiries on representative pairs (quick), the full product with all masks (thorough); foreign-contract/signature/master keys crafted with the real cipher, undecryptable strings, banned keys and banned keys presented in another spelling (standard base64 alphabet); every disagreement is shrunk to a minimal shape-based signature. Two simultaneous requests (channel parsing, key decryption, target validation) are explored under the controlled scheduler with <= 1 / 2 preemptions: each must be judged as when it is alone. A key's verdict table is compared before and after the key has been used for link extensions through the real keygen (a key is not altered by use); foreign-key kinds are also run on a license whose contract signature is 0. A real broker with the HTTP contract provider follows a loopback contract service that switches the contract between allowed and refused.",
            "grammar: 3 literals, '+', '#', depth <= 3 targets / <= 4 requests; single-contract provider.",
            "DESIGN.md §4 C03"),
    "C12": ("exploration", "E3+E1",
            "bounded-exhaustive enumeration of key mutants (every single-character substitution, every XOR mask on every decoded byte, every pair of bit flips, every 8-byte block swap within and between keys) with grants measured through the real Authorize + preemption-bounded exhaustive schedule exploration of an altered key judged next to a valid one",
            "For 40 issued keys per license version (5 masks x 4 targets x 2 expiries) every mutant of the listed edit families is presented to the real broker; grants(mutant) over 27-43 probe channels x 6 operations (+ use as master key) must be a subset of grants(original) (union of donors for cross-key swaps). Donors for cross-key swaps: crafted keys with an equal salt, crafted keys with another salt, and keys minted by the real keygen (the broker's own salts). Licenses: versions 1-3 plus a version-1 license whose contract signature is 0. An altered key judged at the same time as a valid, more powerful key of the same channel (controlled scheduler, <= 1/2 preemptions, through keygen.DecryptKey) must be refused as when it is judged alone.",
            "edits combining three or more changes are outside the bound; cryptographic strength itself is not a model-checking question. The structural malleability of the 32-character key format is recorded as a known finding.",
            "DESIGN.md §4 C12"),
    "C20": ("exploration", "E3+E1",
            "bounded-exhaustive enumeration of licenses, 24-byte keys, candidate key strings and license strings through the real license/cipher code + preemption-bounded exhaustive schedule exploration of two concurrent cipher callers",
            "License round trips for versions 1-3 over fixed and generated licenses; every value of every key byte, every salt, byte pairs at boundary values: encrypt -> 32 URL-safe characters -> decrypt = key and injective; every candidate string length 0-40 and every byte value at every position: rejected iff malformed; every truncation/substitution/suffix of valid licenses: Parse yields a license or an error, never a panic (journalled sub-process). Every ordered pair of 16 boundary-salt keys on a fresh cipher instance (re-encryption and a second instance must agree: the cipher is a function), and two simultaneous callers of one cipher object under the controlled scheduler (all schedules with <= 1 (quick) / 2 (thorough) preemptions, statement-level yields in the cipher code).",
            "the 2^192 key space is covered only through the structured family above.",
            "DESIGN.md §4 C20"),
})

CHECKS.update({
    "C17": ("model_checking", "E3+E1",
            "exhaustive enumeration of stream compositions (every chunking, EOF placement, matcher set, consumer buffer; every write/limiter/flush script; every websocket message/fragment composition) replayed against the real adapters + preemption-bounded exhaustive schedule exploration of the concurrent write path",
            "(a) every stream of length <= 10/12 with every composition into socket reads through the real Listener.Serve sniffing loop; (b) every sequence of <= 4 small writes, and of <= 3 writes with sizes from {2, 4100, 8200, 66000} (thorough: 9 sizes, pairs), x every rate-limiter answer x every flush placement on the real listener.Conn; (c) two writers and the timer flush on the real listener.Conn under the controlled scheduler up to 2/3 deviations with a byte-level interleaving oracle; (e) 2-3 connections of different protocols accepted at the same time go through the real serve loop (shared matcher values, matcher.go instrumented) under the controlled scheduler: each must come out on the sub-listener the string-level rule names for its own stream, with its own bytes; (d) every composition of <= 8 bytes into websocket messages with empty messages and control frames inserted, every fragmentation, 11 consumers incl. bufio.ReadByte, plus real gorilla framing (thorough).",
            "fake sockets hand out scripted chunks; socket writes atomic; real sockets/TLS not modelled.",
            "DESIGN.md §4 C17"),
})

CHECKS.update({
    "C04": ("model_checking", "E2+E1",
            "explicit-state BFS over add/del/merge histories on 3 replicas of the real CRDT (volatile, durable, event.State), ghost-set oracle on every reached state, process-level workers + preemption-bounded exhaustive schedule exploration of concurrent merges into one replica",
            "Every history of add/del with logical clocks {1,2,3} (ties and out-of-order included) and merges (clone, encode/decode, forwarded delta) among three replicas up to the stated depth is replayed on the real Volatile/Durable/State implementations; in every state every replica's (add, remove) times read through Get/Has/Range/Count (and the State accessors) must equal the pointwise maximum over the set of primitive updates it has transitively received, and Has must equal 'added and latest add not older than latest remove'. Two merges and a local update arriving at one volatile replica at the same time are explored under the controlled scheduler (<= 2 / 3 preemptions): the replica must end at the pointwise maximum; the same on a durable replica (yields between the statements of its methods, buntdb transactions atomic), with the entry unknown, known, or served from the read cache. A full snapshot of a 50000-entry durable state (what the encoder sends at most) must be accepted and reproduce every entry, and so must a volatile payload of 50001 entries.",
            "states are merged on per-key maxima of the ghost sets + replica symmetry (cross-checked against the unreduced key); values after the 16-byte header are not compared.",
            "DESIGN.md §4 C04"),
    "C05": ("model_checking", "E2+E1",
            "explicit-state BFS over client activity x gossip transport schedules on 2-3 real brokers wired through real mesh gossipSender objects (one per directed link), states deduplicated by a canonical dump of every broker's replicated state, peer counters, routing entries and queued payloads; quiescence closure + routing oracle in every state + preemption-bounded exhaustive schedule exploration of two simultaneous first deliveries",
            "Events: subscribe/unsubscribe/disconnect of a client on any broker (budget 3-4), delivery of one queued payload on one link (gossip bucket first, explorer chooses the broadcast source), periodic full-state gossip, link down/up, peer garbage collection. In every reached state all links are brought up and full-state rounds are run until nothing changes; then every broker must hold a routing entry for a peer iff that peer has a live local subscriber, and a publish on every broker must reach every subscriber exactly once. Configurations: quick = 2 brokers on one channel + 2 brokers with two xor-colliding channels on one side (4 client operations); thorough adds 4 client operations, faults, 3 brokers (mesh and line) and two clients per broker. A scheduled part delivers a new peer's first two subscriptions on two connections at once (yields in the member list, <= 2/3 preemptions), then lets the two clients leave one by one; a second scenario has two publishers hand messages to one real Peer while its flush runs: every message reaches the peer's transport once, in order.",
            "deliveries atomic per broker in the searches; mesh routing transcribed for <= 3 brokers; one logical clock; peer liveness timeouts never elapse.",
            "DESIGN.md §4 C05"),
})

CHECKS.update({
    "C06": ("exploration", "E3",
            "bounded-exhaustive enumeration of store histories x queries against the real in-memory and disk history providers, compared with a list-filter reference",
            "Every history of <= 3 (quick) / <= 4 (thorough) stored messages over templates with colliding 32-bit key prefixes, several messages per second, expired and live ttls, small and 30 KiB payloads is stored in fresh real InMemory and SSD providers; every derived query (exact/shorter/longer/wildcard filters, other contract, 5 windows, limits 0..10^6, continuation from every returned id) is compared with the reference (same contract, level-wise prefix, window, not expired, newest first within the size cap, order, no id on two pages). Two stores linked through the real OnSurvey hold every distribution of four messages and are queried with every limit (the most recent of all nodes must come back); 100 matching messages (local, on the peer, alternating) are queried with limits 63-150; retained messages must be gone once a 2 s retention period has passed.",
            "behaviour at an expiry instant is not explored; the 10^6 limit is sampled sparsely (it preallocates 80 MB per query).",
            "DESIGN.md §4 C06"),
    "C15": ("fault_enumeration", "E4",
            "exhaustive enumeration of crash points of a fixed store history on the real disk store: after every acknowledgement (close / exit / SIGKILL), at every file-system syscall ordinal (strace injection per thread + an own ptrace tracer per process), and 3-cycle crash/restart patterns; verification in a fresh process",
            "A child process stores 4 messages (two channels, one retained, one 30 KiB) acknowledging each; it is stopped cleanly, by exit or by SIGKILL after each acknowledgement, killed on entry of the N-th call of each of 18 file-system syscalls (per thread via strace, per process via a ptrace tracer) in a fresh and a restarted directory, and run through 216 three-cycle crash/restart patterns; in a further part 2-4 process generations store messages on one channel within one second under ids allocated by message.NewID itself (no two acknowledged stores may share an id, all must come back); a fresh process must reopen the store and find every acknowledged message with identical id, channel, payload and ttl, and nothing that was never stored.",
            "kill = process death (page cache survives), power loss out of scope; instants between syscalls (stores into mmap'd files) are not enumerated; quick caps the syscall ordinals (exhaustive:false by design).",
            "DESIGN.md §4 C15"),
})

CHECKS.update({
    "C09": ("fault_enumeration", "E4",
            "systematic enumeration of deviations from valid input (truncation at every offset, every length/count/varint field at boundary values, type and flag nibbles, extreme option and JSON values, all byte strings of length <= 2 for the decoders) executed in journalled worker processes under a virtual-memory limit, with a canary client and an allocation bound",
            "17 valid client sessions and every emitter/<x>/ request x the deviation menu (1 deviation quick, <= 2 thorough) against a real broker while a canary client must keep completing subscribe/publish round trips; the frame/message/state decoders, the swarm's OnGossip/OnGossipBroadcast/OnGossipUnicast and the survey handlers get all byte strings of length <= 2 plus seeds x deviations; the worker must not exit, hang (60 s, confirmed by 3 re-runs) or allocate more than 64 x input + 8 MiB; packets of exactly and one above the configured size are served / refused.",
            "a deviation menu around valid seeds bounds, it does not prove, the absence of crashes; failure classes can flip under extreme machine load (still a failure).",
            "DESIGN.md §4 C09"),
})

NOT_YET = {}


def main():
    props = [json.loads(l) for l in open(os.path.join(VERIF, "properties.jsonl"))]
    commits = subprocess.run(["git", "-C", "/repo", "log", "--format=%H %s"], capture_output=True, text=True).stdout.splitlines()
    hook_commits = [c.split()[0] for c in commits if "verif hooks" in c]
    checks = []
    na = []
    for p in props:
        pid = p["id"]
        if pid in CHECKS:
            level, engine, technique, text, note, ref = CHECKS[pid]
            checks.append({
                "property_id": pid,
                "quick_cmd": "./check %s --tier quick" % pid,
                "thorough_cmd": "./check %s --tier thorough" % pid,
                "evidence_file": "/verif/evidence/%s.json" % pid,
                "replay_cmd_template": "./check %s --replay {path}" % pid,
                "engine": engine,
                "level_claimed": {"category": level, "text": text, "design_ref": ref},
                "level_note": note,
                "technique": technique,
            })
        else:
            na.append({"property_id": pid, "reason": NOT_YET.get(pid, "check not built yet in this session (planned in DESIGN.md §4); not claimed until it runs clean on the unchanged tree")})
    m = {
        "version": 1,
        "setup_cmd": "python3 tools/build.py plain && python3 tools/build.py sched",
        "hooks": {
            "guard": "verif (Go build tag)",
            "enable": "go build -tags verif -overlay /verif/build/overlay-<kind>.json -modfile /verif/build/go.mod (driven by /verif/tools/build.py; harness packages are overlaid as internal/verifx/...)",
            "baseline_off_cmd": "cd /repo && GOFLAGS=-mod=mod GOPROXY=off go test -vet=off -count=1 -timeout 25m ./...",
            "source_commits": hook_commits,
            "add_only": True,
        },
        "engines": [
            {"name": "E1", "path": "/verif/engine/sched", "serves_properties": ["C01", "C03", "C04", "C05", "C10", "C12", "C13", "C16", "C17", "C19", "C20"], "kind_free_text": "controlled scheduler over sync/atomic shims + statement-level yields, iterative preemption-bounded DFS, sharded over processes"},
            {"name": "E2", "path": "/verif/engine/xstate", "serves_properties": ["C01", "C02", "C04", "C05", "C07", "C13", "C14", "C18"], "kind_free_text": "explicit-state BFS over the real transition functions, states deduplicated by canonical dump of implementation state"},
            {"name": "E3", "path": "/verif/harness", "serves_properties": ["C03", "C06", "C11", "C12", "C16", "C17", "C19", "C20"], "kind_free_text": "bounded-exhaustive enumeration of inputs/configurations against a reference"},
            {"name": "E4", "path": "/verif/harness", "serves_properties": ["C08", "C09", "C15"], "kind_free_text": "cut-point / crash-point / deviation enumeration in isolated worker processes"},
        ],
        "checks": checks,
        "notes": "All checks rebuild from /repo's working tree (tools/build.py) before running. Exit 2 = BUILD-FAILED / HARNESS-UNSOUND, never a VIOLATION.",
        "not_applicable": na,
    }
    json.dump(m, open(os.path.join(VERIF, "MANIFEST.json"), "w"), indent=1)
    print("manifest: %d checks, %d not claimed" % (len(checks), len(na)))


if __name__ == "__main__":
    main()
