// Package c05: cluster routing follows the replicated subscription state.
// Explicit-state search over client activity x gossip transport schedules on N real brokers whose
// gossip goes through real mesh gossipSender objects (one per directed link); in every reached
// state a quiescence closure is run on the (throw-away) instance and routing is compared with
// the reference: a broker forwards to a peer iff that peer has a live local subscriber.
package c05

import (
	"encoding/json"
	"fmt"
	"net"
	"os"
	"sort"
	"strings"
	"sync/atomic"

	"github.com/emitter-io/emitter/internal/event"
	"github.com/emitter-io/emitter/internal/event/crdt"
	"github.com/emitter-io/emitter/internal/message"
	"github.com/emitter-io/emitter/internal/security"
	"github.com/emitter-io/emitter/internal/verifx/engine/brokerx"
	"github.com/emitter-io/emitter/internal/verifx/engine/core"
	"github.com/emitter-io/emitter/internal/verifx/engine/sched"
	"github.com/emitter-io/emitter/internal/verifx/engine/session"
	"github.com/emitter-io/emitter/internal/verifx/engine/xstate"
	"github.com/weaveworks/mesh"
)

func init() {
	core.Register(&core.Check{ID: "C05", Level: "model_checking", Run: run, Replay: replay, Worker: worker})
	// one logical clock for the whole process: strictly increasing, no ties
	var clock int64 = 1000
	crdt.Now = func() int64 { return atomic.AddInt64(&clock, 1) }
}

// Config of one search.
type Config struct {
	Name      string
	N         int
	Line      bool // 0-1-2 line instead of a full mesh
	ClientOps int  // budget of client operations
	Ticks     int  // budget of periodic gossip events before the closure
	Faults    int  // budget of link down/up and offline events
	Depth     int
	Filters   []string
	Names     []int // node numbers (peer names 00:00:00:00:00:NN) of the brokers; default 1, 2, 3
	Clients   int   // client connections per broker (default 1)
	OnlyOn    []int // brokers that have clients (default: all)
}

type node struct {
	env     *brokerx.Env
	name    mesh.PeerName
	clients []*session.Client // subscriber clients (nil when not connected)
	probe   *session.Client
	held    []map[string]bool // reference: filters each client holds
}

// subbed reports whether any client of the broker holds the filter.
func (n *node) subbed(f string) bool {
	for _, h := range n.held {
		if h[f] {
			return true
		}
	}
	return false
}

type link struct {
	from, to int
	s        *mesh.VerifSender
	up       bool
}

type inst struct {
	cfg       Config
	nodes     []*node
	links     []*link
	key       string
	ops       []string
	hist      []string
	used      map[string]int
	pending   string
	pwhat     string
	relays    int
	coalesced bool
}

type simGossip struct {
	in *inst
	me int
}

func (g *simGossip) GossipUnicast(dst mesh.PeerName, msg []byte) error {
	for j, n := range g.in.nodes {
		if n.name == dst {
			if !g.in.reachable(g.me, j) {
				return fmt.Errorf("unknown relay destination")
			}
			return n.env.Svc.VerifCluster().OnGossipUnicast(g.in.nodes[g.me].name, append([]byte(nil), msg...))
		}
	}
	return fmt.Errorf("unknown peer")
}

func (g *simGossip) GossipBroadcast(update mesh.GossipData) {
	g.in.relayBroadcast(g.me, g.in.nodes[g.me].name, update)
}

func (g *simGossip) GossipNeighbourSubset(update mesh.GossipData) {
	for _, l := range g.in.links {
		if l.from == g.me && l.up {
			g.in.send(l, update)
		}
	}
}

func (in *inst) neighbours(i int) []int {
	var out []int
	for _, l := range in.links {
		if l.from == i && l.up {
			out = append(out, l.to)
		}
	}
	return out
}

func (in *inst) reachable(a, b int) bool {
	seen := map[int]bool{a: true}
	q := []int{a}
	for len(q) > 0 {
		x := q[0]
		q = q[1:]
		if x == b {
			return true
		}
		for _, n := range in.neighbours(x) {
			if !seen[n] {
				seen[n] = true
				q = append(q, n)
			}
		}
	}
	return false
}

// nextHops transcribes mesh's broadcast routing: the breadth-first tree from the source; a peer
// forwards to the neighbours whose tree parent it is (ties: lower peer first, as mesh sorts names).
func (in *inst) nextHops(me, src int) []int {
	parent := map[int]int{src: -1}
	q := []int{src}
	for len(q) > 0 {
		x := q[0]
		q = q[1:]
		ns := in.neighbours(x)
		sort.Ints(ns)
		for _, n := range ns {
			if _, ok := parent[n]; !ok {
				parent[n] = x
				q = append(q, n)
			}
		}
	}
	var out []int
	for n, p := range parent {
		if p == me {
			out = append(out, n)
		}
	}
	sort.Ints(out)
	return out
}

func (in *inst) linkOf(a, b int) *link {
	for _, l := range in.links {
		if l.from == a && l.to == b {
			return l
		}
	}
	return nil
}

func (in *inst) indexOf(name mesh.PeerName) int {
	for i, n := range in.nodes {
		if n.name == name {
			return i
		}
	}
	return -1
}

func (in *inst) relayBroadcast(me int, src mesh.PeerName, update mesh.GossipData) {
	si := in.indexOf(src)
	for _, to := range in.nextHops(me, si) {
		l := in.linkOf(me, to)
		if _, srcs := l.s.Pending(); containsName(srcs, src) {
			in.coalesced = true
		}
		l.s.Broadcast(src, update)
	}
}

func containsName(l []mesh.PeerName, n mesh.PeerName) bool {
	for _, x := range l {
		if x == n {
			return true
		}
	}
	return false
}

func (in *inst) send(l *link, d mesh.GossipData) {
	if g, _ := l.s.Pending(); g {
		in.coalesced = true
	}
	l.s.Send(d)
}

func newInst(cfg Config) *inst {
	in := &inst{cfg: cfg, used: map[string]int{}}
	for i := 0; i < cfg.N; i++ {
		n := &node{}
		k := cfg.Clients
		if k == 0 {
			k = 1
		}
		for c := 0; c < k; c++ {
			n.clients = append(n.clients, nil)
			n.held = append(n.held, map[string]bool{})
		}
		node := i + 1
		if i < len(cfg.Names) {
			node = cfg.Names[i]
		}
		n.env = brokerx.MustNew(brokerx.Options{Node: node, KeepGossip: true})
		n.name = n.env.Svc.VerifCluster().VerifName()
		in.nodes = append(in.nodes, n)
	}
	for i := 0; i < cfg.N; i++ {
		for j := 0; j < cfg.N; j++ {
			if i == j || (cfg.Line && (i-j > 1 || j-i > 1)) {
				continue
			}
			in.links = append(in.links, &link{from: i, to: j, s: mesh.NewVerifSender(), up: true})
		}
	}
	for i, n := range in.nodes {
		sw := n.env.Svc.VerifCluster()
		sw.VerifSetGossip(&simGossip{in: in, me: i})
		for j, o := range in.nodes {
			if i != j {
				sw.VerifTouch(o.name) // the peer is known and alive, as update() does for reachable peers
			}
		}
	}
	// a probe publisher on every broker; its connection event is gossiped and drained now
	for _, n := range in.nodes {
		n := n
		n.probe = session.NewClient("probe", func(c net.Conn) { n.env.Svc.VerifAttach(c) })
		n.probe.Connect(session.ConnectOpts{ClientID: "probe"})
	}
	in.guard(func() { in.closure() })
	in.relays, in.coalesced = 0, false
	in.ops = in.alphabet()
	in.key = in.computeKey()
	return in
}

func (in *inst) alphabet() []string {
	var ops []string
	for i := range in.nodes {
		if in.hasClients(i) {
			for c := range in.nodes[i].clients {
				for _, f := range in.cfg.Filters {
					ops = append(ops, fmt.Sprintf("sub:%d.%d:%s", i, c, f), fmt.Sprintf("unsub:%d.%d:%s", i, c, f))
				}
				ops = append(ops, fmt.Sprintf("drop:%d.%d", i, c))
			}
		}
		ops = append(ops, fmt.Sprintf("tick:%d", i))
	}
	for _, l := range in.links {
		ops = append(ops, fmt.Sprintf("deliver:%d>%d:gossip", l.from, l.to))
		for s := range in.nodes {
			ops = append(ops, fmt.Sprintf("deliver:%d>%d:bcast%d", l.from, l.to, s))
		}
		if l.from < l.to {
			ops = append(ops, fmt.Sprintf("down:%d-%d", l.from, l.to), fmt.Sprintf("up:%d-%d", l.from, l.to))
			ops = append(ops, fmt.Sprintf("offline:%d!%d", l.from, l.to), fmt.Sprintf("offline:%d!%d", l.to, l.from))
		}
	}
	return ops
}

func (in *inst) hasClients(b int) bool {
	if len(in.cfg.OnlyOn) == 0 {
		return true
	}
	for _, x := range in.cfg.OnlyOn {
		if x == b {
			return true
		}
	}
	return false
}

func (in *inst) fail(s, w string) {
	if in.pending == "" {
		in.pending, in.pwhat = s, w
	}
}

func (in *inst) guard(f func()) {
	defer func() {
		if r := recover(); r != nil {
			in.fail("crash", fmt.Sprintf("panic while handling cluster traffic: %v", r))
		}
	}()
	f()
}

func (in *inst) Enabled() []int {
	if in.pending != "" {
		return nil
	}
	var out []int
	for i, o := range in.ops {
		p := strings.Split(o, ":")
		switch p[0] {
		case "sub":
			var b, k int
			fmt.Sscanf(p[1], "%d.%d", &b, &k)
			// symmetry: client k+1 only acts once client k has been used
			if in.used["client"] < in.cfg.ClientOps && !in.nodes[b].held[k][p[2]] && (k == 0 || in.nodes[b].clients[k-1] != nil || len(in.nodes[b].held[k-1]) > 0 || in.nodes[b].clients[k] != nil) {
				out = append(out, i)
			}
		case "unsub":
			var b, k int
			fmt.Sscanf(p[1], "%d.%d", &b, &k)
			if in.used["client"] < in.cfg.ClientOps && in.nodes[b].held[k][p[2]] {
				out = append(out, i)
			}
		case "drop":
			var b, k int
			fmt.Sscanf(p[1], "%d.%d", &b, &k)
			if in.used["client"] < in.cfg.ClientOps && in.nodes[b].clients[k] != nil && len(in.nodes[b].held[k]) > 0 {
				out = append(out, i)
			}
		case "tick":
			if in.used["tick"] < in.cfg.Ticks {
				out = append(out, i)
			}
		case "deliver":
			var a, b int
			fmt.Sscanf(p[1], "%d>%d", &a, &b)
			l := in.linkOf(a, b)
			if !l.up {
				continue
			}
			g, srcs := l.s.Pending()
			if p[2] == "gossip" {
				if g {
					out = append(out, i)
				}
			} else if !g { // the real pick() takes the gossip bucket first
				var s int
				fmt.Sscanf(p[2], "bcast%d", &s)
				if containsName(srcs, in.nodes[s].name) {
					out = append(out, i)
				}
			}
		case "down":
			var a, b int
			fmt.Sscanf(p[1], "%d-%d", &a, &b)
			if in.used["fault"] < in.cfg.Faults && in.linkOf(a, b).up {
				out = append(out, i)
			}
		case "up":
			var a, b int
			fmt.Sscanf(p[1], "%d-%d", &a, &b)
			if !in.linkOf(a, b).up {
				out = append(out, i)
			}
		case "offline":
			var a, b int
			fmt.Sscanf(p[1], "%d!%d", &a, &b)
			// the router garbage-collects a peer only when it is unreachable
			if in.used["offline"] < 1 && in.cfg.Faults > 0 && !in.reachable(a, b) {
				out = append(out, i)
			}
		}
	}
	return out
}

var key string

func (in *inst) clientOf(b, k int) *session.Client {
	n := in.nodes[b]
	if n.clients[k] == nil {
		n.clients[k] = session.NewClient(fmt.Sprintf("c%d.%d", b, k), func(c net.Conn) { n.env.Svc.VerifAttach(c) })
		if !n.clients[k].Connect(session.ConnectOpts{ClientID: fmt.Sprintf("client%d-%d", b, k)}) {
			in.fail("harness:no-connack", "CONNECT not acknowledged")
		}
	}
	return n.clients[k]
}

func (in *inst) deliver(l *link, gossip bool, src mesh.PeerName) {
	var d mesh.GossipData
	if gossip {
		d = l.s.PickGossip()
	} else {
		d = l.s.PickBroadcast(src)
	}
	if d == nil {
		return
	}
	to := in.nodes[l.to].env.Svc.VerifCluster()
	for _, buf := range d.Encode() {
		if gossip {
			delta, err := to.OnGossip(buf)
			if err == nil && delta != nil {
				in.relays++
				// relay to every neighbour except the one it came from (exact for N <= 3)
				for _, l2 := range in.links {
					if l2.from == l.to && l2.to != l.from && l2.up {
						in.send(l2, delta)
					}
				}
			}
		} else {
			delta, err := to.OnGossipBroadcast(src, buf)
			if err == nil && delta != nil {
				in.relays++
				in.relayBroadcast(l.to, src, delta)
			}
		}
	}
}

func (in *inst) tick(b int) {
	g := in.nodes[b].env.Svc.VerifCluster().Gossip()
	for _, l := range in.links {
		if l.from == b && l.up {
			in.send(l, g)
		}
	}
}

func (in *inst) Apply(i int) {
	o := in.ops[i]
	in.hist = append(in.hist, o)
	if in.pending != "" {
		return
	}
	key := security.AllowRead | security.AllowWrite
	p := strings.Split(o, ":")
	in.guard(func() {
		switch p[0] {
		case "sub":
			var b, ci int
			fmt.Sscanf(p[1], "%d.%d", &b, &ci)
			in.used["client"]++
			k := in.nodes[b].env.MustKey("#/", key)
			code, acked := in.clientOf(b, ci).Subscribe(k + "/" + p[2])
			if !acked || code == 0x80 {
				in.fail("harness:subscribe-refused", "subscribe refused")
			}
			in.nodes[b].held[ci][p[2]] = true
			in.clientOf(b, ci).Drain()
		case "unsub":
			var b, ci int
			fmt.Sscanf(p[1], "%d.%d", &b, &ci)
			in.used["client"]++
			k := in.nodes[b].env.MustKey("#/", key)
			if !in.clientOf(b, ci).Unsubscribe(k + "/" + p[2]) {
				in.fail("harness:no-unsuback", "unsubscribe not acknowledged")
			}
			delete(in.nodes[b].held[ci], p[2])
		case "drop":
			var b, ci int
			fmt.Sscanf(p[1], "%d.%d", &b, &ci)
			in.used["client"]++
			if !in.nodes[b].clients[ci].Abort() {
				in.fail("harness:no-close", "connection not closed")
			}
			in.nodes[b].clients[ci] = nil
			in.nodes[b].held[ci] = map[string]bool{}
		case "tick":
			var b int
			fmt.Sscan(p[1], &b)
			in.used["tick"]++
			in.tick(b)
		case "deliver":
			var a, b int
			fmt.Sscanf(p[1], "%d>%d", &a, &b)
			l := in.linkOf(a, b)
			if p[2] == "gossip" {
				in.deliver(l, true, 0)
			} else {
				var s int
				fmt.Sscanf(p[2], "bcast%d", &s)
				in.deliver(l, false, in.nodes[s].name)
			}
		case "down":
			var a, b int
			fmt.Sscanf(p[1], "%d-%d", &a, &b)
			in.used["fault"]++
			for _, l := range []*link{in.linkOf(a, b), in.linkOf(b, a)} {
				l.up = false
				l.s.Drop() // whatever was queued for the connection is lost with it
			}
		case "up":
			var a, b int
			fmt.Sscanf(p[1], "%d-%d", &a, &b)
			for _, l := range []*link{in.linkOf(a, b), in.linkOf(b, a)} {
				l.up = true
				// a new connection: both sides send their full state down it (sendAllGossipDown)
				in.send(l, in.nodes[l.from].env.Svc.VerifCluster().Gossip())
				in.nodes[l.from].env.Svc.VerifCluster().VerifTouch(in.nodes[l.to].name)
			}
		case "offline":
			var a, b int
			fmt.Sscanf(p[1], "%d!%d", &a, &b)
			in.used["offline"]++
			in.nodes[a].env.Svc.VerifCluster().VerifPeerOffline(in.nodes[b].name)
		}
	})
	in.key = in.computeKey()
}

// closure: all links up, then rounds of "every broker gossips its full state; everything queued
// is delivered (relays included)" until a whole round teaches nobody anything.
func (in *inst) closure() {
	// every reachable peer is kept alive by the periodic update() of the real broker
	for i, n := range in.nodes {
		for j, o := range in.nodes {
			if i != j {
				n.env.Svc.VerifCluster().VerifTouch(o.name)
			}
		}
	}
	for _, l := range in.links {
		if !l.up {
			l.up = true
			in.send(l, in.nodes[l.from].env.Svc.VerifCluster().Gossip())
			in.nodes[l.from].env.Svc.VerifCluster().VerifTouch(in.nodes[l.to].name)
		}
	}
	for round := 0; round < 12; round++ {
		before := in.relays
		if round > 0 {
			for b := range in.nodes {
				in.tick(b)
			}
		}
		for guard := 0; guard < 200; guard++ {
			any := false
			for _, l := range in.links {
				g, srcs := l.s.Pending()
				if g {
					in.deliver(l, true, 0)
					any = true
				} else if len(srcs) > 0 {
					in.deliver(l, false, srcs[0])
					any = true
				}
			}
			if !any {
				break
			}
		}
		if round > 0 && in.relays == before {
			return
		}
	}
	in.fail("no-quiescence", "gossip keeps producing deltas after 12 full-state rounds")
}

func ssidOf(n *node, f string) message.Ssid {
	ch := security.ParseChannel([]byte("k/" + f))
	return message.NewSsid(n.env.License.Contract(), ch.Query)
}

func (in *inst) remoteEntries(i int) map[string]bool {
	out := map[string]bool{}
	_, pairs, _ := in.nodes[i].env.Svc.VerifTrie().VerifDump()
	for _, p := range pairs {
		if p.Type == message.SubscriberRemote {
			out[fmt.Sprintf("%s|%v", p.ID, []uint32(p.Ssid))] = true
		}
	}
	return out
}

func (in *inst) Check() (string, string) {
	if in.pending != "" {
		return in.sig(in.pending), in.pwhat
	}
	in.guard(func() { in.closure() })
	if in.pending != "" {
		return in.sig(in.pending), in.pwhat
	}
	if os.Getenv("VERIF_DEBUG") != "" {
		fmt.Println("after closure:", in.computeKey())
	}
	// routing entries
	for i := range in.nodes {
		rem := in.remoteEntries(i)
		for j, nj := range in.nodes {
			if i == j {
				continue
			}
			for _, f := range in.cfg.Filters {
				has := rem[fmt.Sprintf("%s|%v", nj.name.String(), []uint32(ssidOf(nj, f)))]
				if nj.subbed(f) && !has {
					return in.sig("missing-forward"), fmt.Sprintf("after gossip quiesced broker %d does not forward %s to broker %d although it has a live local subscriber", i, f, j)
				}
				if !nj.subbed(f) && has {
					return in.sig("stale-forward"), fmt.Sprintf("after gossip quiesced broker %d still forwards %s to broker %d which has no subscriber for it", i, f, j)
				}
			}
		}
	}
	// probe publishes
	for i, ni := range in.nodes {
		for _, f := range in.cfg.Filters {
			if strings.Contains(f, "+") {
				continue
			}
			k := ni.env.MustKey("#/", security.AllowRead|security.AllowWrite)
			payload := fmt.Sprintf("probe-%d-%s", i, f)
			if !ni.probe.Publish(k+"/"+f, []byte(payload), false) {
				return in.sig("harness:no-puback"), "probe publish not acknowledged"
			}
			ni.probe.Drain()
			for _, o := range in.nodes {
				if p := ni.env.Svc.VerifCluster().VerifPeer(o.name); p != nil {
					in.guard(func() { p.VerifFlush() })
				}
			}
			if in.pending != "" {
				return in.sig(in.pending), in.pwhat
			}
			for j, nj := range in.nodes {
				for ci, cl := range nj.clients {
					if cl == nil {
						continue
					}
					got := 0
					for _, pk := range cl.Drain() {
						if pk.Type == session.PUBLISH && string(pk.Payload) == payload {
							got++
						}
					}
					want := 0
					if nj.held[ci][f] {
						want = 1
					}
					switch {
					case got < want:
						return in.sig("missing-delivery"), fmt.Sprintf("a message published on broker %d to %s did not reach the subscriber on broker %d", i, f, j)
					case got > want && want == 0:
						return in.sig("stale-delivery"), fmt.Sprintf("a message published on broker %d to %s reached a client on broker %d that is not subscribed", i, f, j)
					case got > want:
						return in.sig("duplicate-delivery"), fmt.Sprintf("a message published on broker %d to %s reached the subscriber on broker %d %d times", i, f, j, got)
					}
				}
			}
		}
	}
	return "", ""
}

// sig: kind + the client-operation pattern + the transport features of the shortest trace.
func (in *inst) sig(kind string) string {
	var client []string
	feat := map[string]bool{}
	for _, o := range in.hist {
		p := strings.Split(o, ":")
		switch p[0] {
		case "sub", "unsub", "drop":
			client = append(client, p[0]+strings.Replace(p[1], ".", "c", 1))
		case "deliver":
			feat["delivery-before-burst-end"] = true
			if p[2] == "gossip" {
				feat["periodic-first"] = true
			}
		default:
			feat[p[0]] = true
		}
	}
	if in.coalesced {
		feat["coalesced"] = true
	}
	var fs []string
	for f := range feat {
		fs = append(fs, f)
	}
	sort.Strings(fs)
	// normalise broker numbers by order of appearance
	ren := map[byte]byte{}
	cs := strings.Join(client, ",")
	out := []byte(cs)
	for i := range out {
		if out[i] >= '0' && out[i] <= '9' {
			if _, ok := ren[out[i]]; !ok {
				ren[out[i]] = byte('A' + len(ren))
			}
			out[i] = ren[out[i]]
		}
	}
	return fmt.Sprintf("%s:%s:%s:client=%s:transport=%s", in.cfg.Name, kind, shapeFilters(in.cfg.Filters), string(out), strings.Join(fs, "+"))
}

func shapeFilters(fs []string) string {
	if len(fs) > 1 {
		return "colliding-filters"
	}
	return "one-channel"
}

func (in *inst) computeKey() string {
	// rank all timestamps of the instance
	type ent struct {
		node int
		k    string
		a, d int64
	}
	var ents []ent
	times := map[int64]bool{}
	conns := map[string]int64{}
	for i, n := range in.nodes {
		n.env.Svc.VerifCluster().VerifState().Subscriptions(func(ev *event.Subscription, v event.Value) {
			ck := fmt.Sprintf("%d/%d", ev.Peer, ev.Conn)
			if old, ok := conns[ck]; !ok || (v.AddTime() != 0 && v.AddTime() < old) {
				conns[ck] = v.AddTime()
			}
			ents = append(ents, ent{i, fmt.Sprintf("%s|%v", ck, []uint32(ev.Ssid)), v.AddTime(), v.DelTime()})
			times[v.AddTime()] = true
			times[v.DelTime()] = true
		})
	}
	var ts []int64
	for t := range times {
		ts = append(ts, t)
	}
	sort.Slice(ts, func(i, j int) bool { return ts[i] < ts[j] })
	rank := map[int64]int{}
	for i, t := range ts {
		rank[t] = i
	}
	if _, ok := times[0]; !ok {
		for t := range rank {
			rank[t]++
		}
		rank[0] = 0
	}
	// connection names by first add time
	type cn struct {
		k string
		t int64
	}
	var cl []cn
	for k, t := range conns {
		cl = append(cl, cn{k, t})
	}
	sort.Slice(cl, func(i, j int) bool { return cl[i].t < cl[j].t || (cl[i].t == cl[j].t && cl[i].k < cl[j].k) })
	cname := map[string]string{}
	for i, c := range cl {
		cname[c.k] = fmt.Sprintf("conn%d", i)
	}
	var parts []string
	for _, e := range ents {
		kp := strings.SplitN(e.k, "|", 2)
		parts = append(parts, fmt.Sprintf("n%d:%s|%s=(%d,%d)", e.node, cname[kp[0]], kp[1], rank[e.a], rank[e.d]))
	}
	sort.Strings(parts)
	var b strings.Builder
	b.WriteString(strings.Join(parts, ";"))
	for i, n := range in.nodes {
		var rs []string
		for k := range in.remoteEntries(i) {
			rs = append(rs, k)
		}
		sort.Strings(rs)
		fmt.Fprintf(&b, "|n%d remote=%v", i, rs)
		for _, o := range in.nodes {
			if p := n.env.Svc.VerifCluster().VerifPeer(o.name); p != nil {
				var cs []string
				for _, c := range p.VerifSubs() {
					cs = append(cs, fmt.Sprintf("%v=%d", []uint32(c.Ssid), c.Counter))
				}
				sort.Strings(cs)
				fmt.Fprintf(&b, " peer%s=%v", o.name, cs)
			}
		}
		for ci, h := range n.held {
			var ms []string
			for f := range h {
				ms = append(ms, f)
			}
			sort.Strings(ms)
			fmt.Fprintf(&b, " model%d=%v conn=%v", ci, ms, n.clients[ci] != nil)
		}
	}
	for _, l := range in.links {
		g, srcs := l.s.Pending()
		fmt.Fprintf(&b, "|l%d>%d up=%v g=%v b=%v", l.from, l.to, l.up, g, srcs)
	}
	fmt.Fprintf(&b, "|used=%v", in.used)
	return b.String()
}

func (in *inst) Key() string { return in.key }

func (in *inst) Close() {
	for _, n := range in.nodes {
		for _, cl := range n.clients {
			if cl != nil {
				cl.Conn.CloseClient(false)
			}
		}
		n.probe.Conn.CloseClient(false)
		n.env.Close()
	}
}

// pendingContent makes queued payloads part of the key: two states with different queued updates differ.
func search(c *core.Ctx, cfg Config) {
	probe := newInst(cfg)
	names := probe.ops
	probe.Close()
	spec := &xstate.Spec{Name: cfg.Name, Alphabet: names, Depth: cfg.Depth, Deadline: c.Deadline,
		New: func(w int) xstate.Instance { return newInst(cfg) }}
	// every instance builds real brokers whose routers, caches and pollers cannot be released:
	// the expansion runs in worker processes that are replaced after a few dozen requests
	cj, _ := json.Marshal(cfg)
	res, err := xstate.RunProcs(spec, xstate.ProcOpts{CheckID: "C05", Tier: c.Tier, Args: []string{"xstate", string(cj)}, Procs: core.NumWorkers(), Recycle: 40, Deadline: c.Deadline})
	if err != nil {
		core.HarnessFailure("C05 %s: %v", cfg.Name, err)
	}
	c.Add("states", int64(res.States))
	c.Add("transitions", res.Transitions)
	c.Add("traces_validated_against_impl", res.Replays)
	c.Set("depth_completed_"+cfg.Name, res.DepthCompleted)
	c.Set("states_"+cfg.Name, res.States)
	if !res.Exhaustive {
		c.NotExhaustive(fmt.Sprintf("%s: time cap at depth %d (%d frontier states unexpanded)", cfg.Name, res.DepthCompleted, res.FrontierLeft))
	} else if res.DepthCompleted == cfg.Depth {
		c.Set("frontier_empty_"+cfg.Name, false)
	}
	for i, p := range res.SamplePaths {
		if i < 3 {
			c.Sample(map[string]interface{}{"config": cfg.Name, "trace": p})
		}
	}
	for _, f := range res.Violations {
		c.Violate(f.Sig, f.What+" | trace: "+strings.Join(f.Path, ", "), map[string]interface{}{"config": cfg, "ops": f.Ops, "trace": f.Path})
	}
}

// worker serves expansion requests for one configuration (see xstate.RunProcs).
func worker(c *core.Ctx, args []string) {
	if len(args) > 0 && args[0] == "sched" {
		sched.WorkerMain(c, concScenarios(), args[1:])
		return
	}
	if len(args) < 2 || args[0] != "xstate" {
		return
	}
	var cfg Config
	if err := json.Unmarshal([]byte(args[1]), &cfg); err != nil {
		core.HarnessFailure("C05 worker: %v", err)
	}
	probe := newInst(cfg)
	names := probe.ops
	probe.Close()
	xstate.Serve(&xstate.Spec{Name: cfg.Name, Alphabet: names, Depth: cfg.Depth,
		New: func(w int) xstate.Instance { return newInst(cfg) }})
}

// colliding1: clients of one broker juggle two channels whose ssids share one bucket of the per-peer subscription
// counters on the other broker (equal xor-fold); four client operations reach "first one gone, then the other".
var colliding1 = Config{Name: "2-brokers-colliding-one-side", N: 2, ClientOps: 4, Ticks: 0, Depth: 8, Filters: []string{"a/b/", "b/a/"}, OnlyOn: []int{0}, Names: []int{255, 1}}

func configs(quick bool) []Config {
	if quick {
		return []Config{
			{Name: "2-brokers", N: 2, ClientOps: 3, Ticks: 1, Depth: 9, Filters: []string{"a/"}},
			colliding1,
		}
	}
	return []Config{
		{Name: "2-brokers", N: 2, ClientOps: 4, Ticks: 1, Depth: 12, Filters: []string{"a/"}},
		{Name: "2-brokers-colliding", N: 2, ClientOps: 3, Ticks: 1, Depth: 9, Filters: []string{"a/b/", "b/a/"}},
		colliding1,
		{Name: "2-brokers-faults", N: 2, ClientOps: 2, Ticks: 1, Faults: 1, Depth: 8, Filters: []string{"a/"}},
		// the same with a broker whose name ends in 0xff (the last byte of the state's key prefix at its boundary)
		{Name: "2-brokers-faults-name-ff", N: 2, ClientOps: 2, Ticks: 1, Faults: 1, Depth: 8, Filters: []string{"a/"}, Names: []int{255, 1}},
		{Name: "3-mesh", N: 3, ClientOps: 3, Ticks: 0, Depth: 8, Filters: []string{"a/"}},
		{Name: "3-line", N: 3, Line: true, ClientOps: 3, Ticks: 1, Faults: 1, Depth: 8, Filters: []string{"a/"}},
		{Name: "2-brokers-two-clients-faults", N: 2, ClientOps: 3, Ticks: 0, Faults: 1, Depth: 8, Filters: []string{"a/"}, Clients: 2, OnlyOn: []int{1}},
	}
}

func run(c *core.Ctx) {
	if only := os.Getenv("VERIF_C05_ONLY"); only == "" || only == "sched" {
		bound := 2
		if !c.Quick() {
			bound = 3
		}
		c.Set("sched_bound_completed", sched.Drive(c, []string{"first-contact", "peer-forward"}, bound))
		c.Set("sched_schedules", c.Count("schedules"))
	}
	for _, cfg := range configs(c.Quick()) {
		if only := os.Getenv("VERIF_C05_ONLY"); only != "" && only != cfg.Name {
			continue // developer aid: run a single configuration
		}
		if c.Expired() {
			c.NotExhaustive("configuration " + cfg.Name + " not started: time cap")
			continue
		}
		search(c, cfg)
	}
	c.Assume("in the searches deliveries are atomic at a broker; two deliveries at once are explored only for a peer's first contact (part conc: yields in the member list, the rest of a delivery atomic)")
	c.Assume("mesh routing is transcribed for <= 3 brokers: broadcast along the breadth-first tree from the source, periodic gossip and relayed deltas to every neighbour (except the sender); the per-link senders are real mesh gossipSender objects")
	c.Assume("one logical, strictly increasing clock shared by all brokers (clock skew and ties are C04's business); peer liveness timeouts (30 s) never elapse")
}

func replay(c *core.Ctx, raw json.RawMessage) {
	if sched.ReplayCase(c, concScenarios(), raw) {
		return
	}
	var cs struct {
		Config Config `json:"config"`
		Ops    []int  `json:"ops"`
	}
	json.Unmarshal(raw, &cs)
	in := newInst(cs.Config)
	for _, o := range cs.Ops {
		in.Apply(o)
	}
	if s, w := in.Check(); s != "" {
		c.Violate(s, w, cs)
	}
	in.Close()
}
