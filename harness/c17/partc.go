package c17

import (
	"bytes"
	"fmt"
	"strings"
	"time"

	"github.com/emitter-io/emitter/internal/async"
	"github.com/emitter-io/emitter/internal/network/listener"
	"github.com/emitter-io/emitter/internal/verifx/engine/core"
	"github.com/emitter-io/emitter/internal/verifx/engine/sched"
	"github.com/kelindar/rate"
)

// Part (c): the concurrent write path. Two writers (two writes each of distinct byte strings,
// one of them empty-free and one multi-byte) and the timer flush run against the real buffered
// connection under the controlled scheduler; every Limit() answer is an environment choice.
// Oracle (byte level): the bytes that reached the socket are an interleaving of the writers'
// writes in which every write is contiguous, appears exactly once and each writer's order is kept;
// nothing stays queued after the final timer flush.

var writerData = [][]string{{"AA", "BBB"}, {"c", "dddd"}}

// forcedLimit, when set, fixes the limiter's answer (setup pre-queues a write without a deviation).
var forcedLimit *bool

func scenarioC(prequeued bool) *sched.Scenario {
	name := "write-path"
	if prequeued {
		name = "write-path-prequeued"
	}
	return &sched.Scenario{
		Name: name, Files: []string{"internal/network/listener/conn.go"},
		Body: func(s *sched.Sched) {
			sock := NewRecConn()
			conn := listener.VerifNewConn(sock, 60)
			if prequeued {
				// writer 0's first write was rate-limited earlier and sits in the queue
				yes := true
				forcedLimit = &yes
				conn.Write([]byte(writerData[0][0]))
				forcedLimit = nil
			}
			for w := range writerData {
				w := w
				s.Go(fmt.Sprintf("W%d", w), func() {
					for i, d := range writerData[w] {
						if prequeued && w == 0 && i == 0 {
							continue
						}
						conn.Write([]byte(d))
					}
				})
			}
			s.Go("F", func() { conn.Flush(); conn.Flush() })
			s.AtEnd(func() {
				conn.Flush()
				s.Obs("%s|%d", sock.Stream(), conn.Len())
			})
		},
		Check: func(x *sched.Exec) (string, string) {
			if len(x.Obs) != 1 {
				return "write-concurrent:no-observation", "scenario did not complete"
			}
			parts := strings.SplitN(x.Obs[0], "|", 2)
			return judgeStream([]byte(parts[0]), parts[1])
		},
	}
}

// judgeStream checks that stream is a contiguous, order-preserving interleaving of the writes.
func judgeStream(stream []byte, pending string) (string, string) {
	idx := []int{0, 0}
	rest := stream
	for len(rest) > 0 {
		progressed := false
		for w := range writerData {
			if idx[w] < len(writerData[w]) && bytes.HasPrefix(rest, []byte(writerData[w][idx[w]])) {
				rest = rest[len(writerData[w][idx[w]]):]
				idx[w]++
				progressed = true
				break
			}
		}
		if !progressed {
			kind := "byte-mismatch"
			s := string(stream)
			for w := range writerData {
				for _, d := range writerData[w] {
					if strings.Count(s, d) > 1 {
						kind = "duplicated"
					}
				}
			}
			return "write-concurrent:" + kind, fmt.Sprintf("socket stream %q is not an order-preserving interleaving of whole writes %v", stream, writerData)
		}
	}
	for w := range writerData {
		if idx[w] != len(writerData[w]) {
			return "write-concurrent:lost", fmt.Sprintf("socket stream %q lacks write %q of writer %d", stream, writerData[w][idx[w]], w)
		}
	}
	if pending != "0" {
		return "write-concurrent:lost", "bytes still queued after the timer flush: " + pending
	}
	return "", ""
}

func installSchedLimiter() func() {
	prev := rate.VerifLimit
	rate.VerifLimit = func(rl *rate.Limiter) (bool, bool) {
		if sched.Active() == nil {
			if prev != nil {
				return prev(rl)
			}
			return false, false
		}
		if forcedLimit != nil {
			return *forcedLimit, true
		}
		return sched.Choose(2, "rate.Limit") == 1, true
	}
	return func() { rate.VerifLimit = prev }
}

func workerC(c *core.Ctx, args []string) {
	var bound, shard, n int
	fmt.Sscan(args[0], &bound)
	fmt.Sscan(args[1], &shard)
	fmt.Sscan(args[2], &n)
	pre := len(args) > 3 && args[3] == "pre"
	defer installSchedLimiter()()
	sc, scName := scenarioC(pre), ""
	if len(args) > 3 && strings.HasPrefix(args[3], "accept:") {
		scName = args[3]
		sc = scenarioE(strings.TrimPrefix(scName, "accept:"))
		async.VerifHoldTimers.Store(true) // the per-connection flush timers of the real serve stay silent (build.py, REPO_SUBST)
	}
	e := &sched.Explorer{Sc: sc, Bound: bound, Shard: shard, NShards: n, Deadline: c.Deadline}
	st := e.Explore()
	c.Add("cases_write_concurrent_schedules", st.Executions)
	c.Add("replay_divergences", st.Divergences)
	if scName != "" {
		c.Add("cases_accept_concurrent_schedules", st.Executions)
	}
	for o := range st.Outcomes {
		if scName != "" {
			c.Distinct("accept_concurrent_outcomes", scName+"|"+o)
			continue
		}
		c.Distinct("write_concurrent_outcomes", o)
	}
	if !st.Exhaustive {
		c.NotExhaustive(fmt.Sprintf("write-path bound %d shard %d: time cap", bound, shard))
	}
	if shard == 0 && bound == 0 {
		c.Sample(map[string]interface{}{"part": "c", "scenario": e.Sc.Name, "default_schedule": st.FirstTrace})
	}
	for _, f := range st.Violations {
		c.Violate(f.Sig, f.What+fmt.Sprintf(" | deviations at %v", f.Sites), map[string]interface{}{"part": "c", "choices": f.Choices, "bound": bound, "prequeued": pre, "scenario": scName})
	}
}

func partC(c *core.Ctx) {
	bound := 2
	if !c.Quick() {
		bound = 3
	}
	c.Set("write_concurrent_deviation_bound", driveC(c, []string{"", "pre"}, bound))
	c.Set("write_concurrent_distinct_outcomes", c.DistinctCount("write_concurrent_outcomes"))
}

// partE runs last: a time cap cuts only its deepest bound, never another part.
func partE(c *core.Ctx) {
	bound := 2
	if !c.Quick() {
		bound = 3
	}
	var scenarios []string
	for _, set := range acceptSets {
		scenarios = append(scenarios, "accept:"+set)
	}
	c.Set("accept_concurrent_preemption_bound_completed", driveC(c, scenarios, bound))
	c.Set("accept_concurrent_distinct_outcomes", c.DistinctCount("accept_concurrent_outcomes"))
}

// driveC: bound-major, so that every scenario is finished at bound b before any starts bound b+1.
func driveC(c *core.Ctx, scenarios []string, bound int) (completed int) {
	n := core.NumWorkers()
	completed = -1
	for b := 0; b <= bound && !c.Expired(); b++ {
		for _, pre := range scenarios {
			shards := n
			if b < 2 {
				shards = 1
			}
			outs := c.Shard(shards, n, func(i int) []string {
				return []string{fmt.Sprint(b), fmt.Sprint(i), fmt.Sprint(shards), pre}
			}, 20*time.Minute)
			c.CheckShards(outs)
		}
		if !c.Expired() {
			completed = b
		}
	}
	return completed
}

func replayC(c *core.Ctx, choices []int, pre bool, scName string) {
	defer installSchedLimiter()()
	sc := scenarioC(pre)
	if strings.HasPrefix(scName, "accept:") {
		sc = scenarioE(strings.TrimPrefix(scName, "accept:"))
		async.VerifHoldTimers.Store(true)
		defer async.VerifHoldTimers.Store(false)
	}
	sched.EnableFiles(sc.Files...)
	x := sched.Run(choices, true, sc.Body)
	s, w := "", ""
	if x.Deadlock {
		s, w = "write-concurrent:deadlock", strings.Join(x.Blocked, ";")
	} else if len(x.Panics) > 0 {
		s, w = "write-concurrent:panic", x.Panics[0]
	} else {
		s, w = sc.Check(x)
	}
	if s != "" {
		c.Violate(s, w, map[string]interface{}{"part": "c", "choices": choices})
	}
}
