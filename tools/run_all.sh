#!/bin/bash
# runs the quick (or $1) command of every check claimed in MANIFEST.json, prints one line per check
tier=${1:-quick}
cd /verif
for id in $(python3 -c "import json;print(' '.join(c['property_id'] for c in json.load(open('MANIFEST.json'))['checks']))"); do
  s=$(date +%s)
  out=$(./check $id --tier $tier 2>&1); rc=$?
  e=$(date +%s)
  echo "$id rc=$rc $((e-s))s $(echo "$out" | grep -E '^RESULT|^VIOLATION|^KNOWN|BUILD-FAILED|HARNESS' | tr '\n' ' ' | cut -c1-300)"
done
