package c09

import (
	"bufio"
	"bytes"
	"encoding/base64"
	"encoding/json"
	"fmt"
	"net"
	"os"
	"runtime"
	"runtime/debug"
	"runtime/metrics"
	"strconv"
	"strings"
	"syscall"
	"time"

	"github.com/emitter-io/emitter/internal/event"
	"github.com/emitter-io/emitter/internal/message"
	"github.com/emitter-io/emitter/internal/security"
	"github.com/emitter-io/emitter/internal/security/hash"
	"github.com/emitter-io/emitter/internal/service/survey"
	"github.com/emitter-io/emitter/internal/verifx/engine/brokerx"
	"github.com/emitter-io/emitter/internal/verifx/engine/core"
	"github.com/emitter-io/emitter/internal/verifx/engine/session"
	"github.com/golang/snappy"
	kbinary "github.com/kelindar/binary"
	"github.com/kelindar/binary/nocopy"
	"github.com/weaveworks/mesh"
)

// header is the first line of a work file.
type header struct {
	Env      SeedEnv `json:"env"`
	Tier     string  `json:"tier"`
	Deadline int64   `json:"deadline"` // unix seconds, 0 = none
}

// result is what the worker journals for one completed case.
type result struct {
	Status string // ok | skip | exit | alloc-ratio | hang | canary-failed | oversize-accepted | maxsize-refused | harness
	Alloc  uint64
	InLen  int
	Site   string
	Detail string
	How    string // how a passing case ended: accepted | rejected | served | error-reply | silent-close
}

const (
	allocSlack   = 8<<20 + 1<<20 // 8 MiB of the statement + 1 MiB for the harness' own and background allocations inside the measured window
	allocFactor  = 64
	caseWatchdog = 60 * time.Second
	connWait     = 25 * time.Second
)

func allowedAlloc(inLen int) uint64 { return uint64(allocFactor*inLen) + allocSlack }

// newSeedEnv mints the keys and constants the seeds need, from a real broker.
func newSeedEnv(env *brokerx.Env) SeedEnv {
	all := security.AllowRead | security.AllowWrite | security.AllowStore | security.AllowLoad | security.AllowPresence
	return SeedEnv{
		Keys: Keys{
			All:    env.MustKey("#/", all),
			Ext:    env.MustKey("a/b/", security.AllowRead|security.AllowWrite|security.AllowExtend),
			Master: env.Master,
			Victim: env.MustKey("victim/", security.AllowRead),
			Canary: env.MustKey("canary/#/", security.AllowRead|security.AllowWrite),
			Exact:  env.MustKey("a/b/", security.AllowRead|security.AllowWrite),
		},
		Contract: env.License.Contract(),
		HashA:    hash.Of([]byte("a")),
		HashB:    hash.Of([]byte("b")),
	}
}

// lookupMirror has the layout of storage.lookupQuery (unexported there); used only to cross-check
// the annotated encoder.
type lookupMirror struct {
	Ssid        message.Ssid
	From        int64
	Until       int64
	StartFromID message.ID
	Limit       int
}

// selfCheck validates the annotated encoders against the real codecs. A mismatch is a harness bug.
func selfCheck(e SeedEnv) error {
	get := func(n string) binSeed { s, _ := binSeedByName(e, n); return s }
	toMsg := func(m msgModel) message.Message {
		return message.Message{ID: m.ID, Channel: m.Channel, Payload: m.Payload, TTL: uint32(m.TTL)}
	}
	// frame
	fs := get("frame2")
	fr := message.Frame{toMsg(fs.Frame[0]), toMsg(fs.Frame[1])}
	real, err := snappy.Decode(nil, fr.Encode())
	if err != nil || !bytes.Equal(real, fs.encode().B) {
		return fmt.Errorf("frame encoder mismatch: real %x mine %x", real, fs.encode().B)
	}
	ms := get("message")
	m := toMsg(ms.Frame[0])
	real, err = snappy.Decode(nil, m.Encode())
	if err != nil || !bytes.Equal(real, ms.encode().B) {
		return fmt.Errorf("message encoder mismatch: real %x mine %x", real, ms.encode().B)
	}
	// query, ssid
	qs := get("query")
	q := lookupMirror{Ssid: message.Ssid{e.Contract, e.HashA, e.HashB}, From: 0, Until: 3029529600, Limit: 5}
	real, err = kbinary.Marshal(q)
	if err != nil || !bytes.Equal(real, qs.encode().B) {
		return fmt.Errorf("query encoder mismatch: real %x mine %x", real, qs.encode().B)
	}
	real, err = kbinary.Marshal(message.Ssid{e.Contract, e.HashA, e.HashB})
	if err != nil || !bytes.Equal(real, get("ssid").encode().B) {
		return fmt.Errorf("ssid encoder mismatch: real %x mine %x", real, get("ssid").encode().B)
	}
	// event values
	sub := &event.Subscription{Peer: foreignPee, Conn: 77, Ssid: message.Ssid{e.Contract, e.HashA, e.HashB}, User: nocopy.String("user"), Channel: nocopy.Bytes("a/b/")}
	if !bytes.Equal(sub.Val(), subVal("user", "a/b/")) {
		return fmt.Errorf("subscription value mismatch: real %x mine %x", sub.Val(), subVal("user", "a/b/"))
	}
	con := event.Connection{Peer: foreignPee, Conn: 77, WillFlag: true, WillRetain: false, WillQoS: 1, WillTopic: []byte("k/will/"), WillMessage: []byte("gone"), ClientID: []byte("cid"), Username: []byte("user")}
	if !bytes.Equal(con.Val(), connVal()) {
		return fmt.Errorf("connection value mismatch: real %x mine %x", con.Val(), connVal())
	}
	// state: the real decoder must see exactly what was put in
	in, _, err := buildBin(e, "state", nil)
	if err != nil {
		return err
	}
	st, err := event.DecodeState(in.Bytes)
	if err != nil {
		return fmt.Errorf("state seed rejected by DecodeState: %v", err)
	}
	n := 0
	st.Subscriptions(func(s *event.Subscription, v event.Value) {
		if s.Peer == foreignPee && s.Conn == 77 && len(s.Ssid) == 3 && s.Ssid[2] == e.HashB && string(s.Channel) == "a/b/" && v.IsAdded() {
			n++
		}
	})
	ban := event.Ban("0123456789abcdefghijklmnopqrstuv")
	if n != 1 || !st.Has(&ban) {
		return fmt.Errorf("state seed decoded to something else (subscriptions=%d ban=%v)", n, st.Has(&ban))
	}
	nc := 0
	st.ConnectionsOf(mesh.PeerName(foreignPee), func(c *event.Connection) {
		if string(c.Username) == "user" && c.WillFlag {
			nc++
		}
	})
	if nc != 1 {
		return fmt.Errorf("state seed: connection event not decoded")
	}
	return nil
}

// ---------------------------------------------------------------------------------------

type canary struct {
	env  *brokerx.Env
	key  string
	cl   *session.Client
	n    int
	cost uint64
}

func newCanary(env *brokerx.Env, key string) (*canary, error) {
	k := &canary{env: env, key: key}
	k.cl = session.NewClient("canary", func(c net.Conn) { env.Svc.VerifAttach(c) })
	if !k.cl.Connect(session.ConnectOpts{ClientID: "canary", Username: "canary"}) {
		return nil, fmt.Errorf("canary: CONNECT not acknowledged")
	}
	if code, ok := k.cl.Subscribe(key + "/canary/p/"); !ok || code == 0x80 {
		return nil, fmt.Errorf("canary: SUBSCRIBE refused")
	}
	k.cl.Drain()
	return k, nil
}

func (k *canary) echo(cl *session.Client, channel string) string {
	k.n++
	payload := []byte(fmt.Sprintf("canary-%d", k.n))
	if !cl.Publish(k.key+"/"+channel, payload, false) {
		return fmt.Sprintf("canary publish on %s not acknowledged (closed=%v err=%v)", channel, cl.Conn.IsClosed(), cl.Err)
	}
	got := cl.Drain()
	if cl.Err != nil {
		return "canary: " + cl.Err.Error()
	}
	if len(got) != 1 || got[0].Type != session.PUBLISH || got[0].Topic != channel || !bytes.Equal(got[0].Payload, payload) {
		return fmt.Sprintf("canary published %q on %s and received %v", payload, channel, got)
	}
	return ""
}

// light: one publish round trip on the standing subscription.
func (k *canary) light() string { return k.echo(k.cl, "canary/p/") }

// full: subscribe + publish + unsubscribe on the standing connection; every 32nd time also a
// complete round trip on a new connection.
func (k *canary) full() string {
	if s := k.light(); s != "" {
		return s
	}
	ch := fmt.Sprintf("canary/f%d/", k.n%8)
	if code, ok := k.cl.Subscribe(k.key + "/" + ch); !ok || code == 0x80 {
		return fmt.Sprintf("canary subscribe on %s: acked=%v code=%#x", ch, ok, code)
	}
	if s := k.echo(k.cl, ch); s != "" {
		return s
	}
	if !k.cl.Unsubscribe(k.key + "/" + ch) {
		return "canary unsubscribe not acknowledged"
	}
	if rest := k.cl.Drain(); len(rest) != 0 {
		return fmt.Sprintf("canary received unexpected packets %v", rest)
	}
	if k.n%32 == 0 {
		n := session.NewClient("canary2", func(c net.Conn) { k.env.Svc.VerifAttach(c) })
		if !n.Connect(session.ConnectOpts{ClientID: "canary2"}) {
			return "a new connection is not acknowledged any more"
		}
		if code, ok := n.Subscribe(k.key + "/canary/n/"); !ok || code == 0x80 {
			return "a new connection cannot subscribe any more"
		}
		if s := k.echo(n, "canary/n/"); s != "" {
			return "new connection: " + s
		}
		if !n.Disconnect() {
			return "new connection: not closed after DISCONNECT"
		}
	}
	return ""
}

// ---------------------------------------------------------------------------------------

type wk struct {
	se          SeedEnv
	env         *brokerx.Env
	can         *canary
	surveyor    *survey.Surveyor
	sizeEnvs    map[int]*brokerx.Env
	sizeCan     map[int]*canary
	journal     *mjournal
	mem         runtime.MemStats
	exact       bool
	rawSeq      int
	leakedLocks int
	sample      [1]metrics.Sample
}

// alloc returns the cumulative bytes allocated by the process. Exact mode stops the world
// (runtime.ReadMemStats); screening mode reads the runtime's metric, which lags by what sits in
// the single P's allocation caches (< 4 MiB, see approxBand).
func (w *wk) alloc() uint64 {
	if w.exact {
		runtime.ReadMemStats(&w.mem)
		return w.mem.TotalAlloc
	}
	metrics.Read(w.sample[:])
	return w.sample[0].Value.Uint64()
}

// approxBand bounds the error of the screening measurement: with GOMAXPROCS=1 the unaccounted
// part is at most one cached span per span class (136 classes, a few pages each).
const approxBand = 4 << 20

func (w *wk) jprintf(format string, a ...interface{}) {
	w.journal.WriteString(fmt.Sprintf(format, a...))
}

func newWk(se SeedEnv, journal *mjournal) (*wk, error) {
	w := &wk{se: se, journal: journal, sizeEnvs: map[int]*brokerx.Env{}, sizeCan: map[int]*canary{}}
	w.sample[0].Name = "/gc/heap/allocs:bytes"
	w.exact = true
	env, err := brokerx.New(brokerx.Options{Storage: "inmemory"})
	if err != nil {
		return nil, err
	}
	w.env = env
	if se.Keys.All == "" { // no keys supplied: mint them here (debugging aid)
		se = newSeedEnv(env)
		w.se = se
	}
	if w.can, err = newCanary(env, se.Keys.Canary); err != nil {
		return nil, err
	}
	// what Service.Listen does for a clustered broker: a surveyor subscribed to the query channel,
	// with the storage as handler (plus presence, which the task lists as a surveyee)
	w.surveyor = survey.New(env.Svc.VerifPubSub(), env.Svc.VerifCluster())
	w.surveyor.HandleFunc(env.Svc.VerifStorage(), env.Svc.VerifPresence())
	w.surveyor.Start()
	if s := w.can.full(); s != "" {
		return nil, fmt.Errorf("canary fails on a fresh broker: %s", s)
	}
	// calibrate the canary's own allocation
	var max uint64
	for i := 0; i < 8; i++ {
		a := w.alloc()
		w.can.light()
		if d := w.alloc() - a; d > max {
			max = d
		}
	}
	w.can.cost = max
	return w, nil
}

// siteOf extracts the first emitter frame (else the first github.com frame) of a Go traceback.
func siteOf(trace string) string {
	lines := strings.Split(trace, "\n")
	started := false
	var firstGithub string
	seenGoroutine := 0
	for i := 0; i < len(lines); i++ {
		l := lines[i]
		if strings.HasPrefix(l, "goroutine ") {
			seenGoroutine++
			if seenGoroutine > 1 && started {
				break
			}
			started = true
			continue
		}
		if !started || l == "" || l[0] == '\t' || l[0] == ' ' {
			continue
		}
		if strings.HasPrefix(l, "created by ") || strings.HasPrefix(l, "panic(") || strings.HasPrefix(l, "runtime.") || strings.HasPrefix(l, "runtime/") {
			continue
		}
		fn := stripArgs(l)
		if strings.Contains(fn, "/internal/verifx/") {
			if firstGithub != "" {
				break
			}
			continue
		}
		if strings.Contains(fn, "github.com/emitter-io/emitter/internal/") {
			return shortFunc(fn)
		}
		if firstGithub == "" && strings.HasPrefix(fn, "github.com/") {
			firstGithub = shortFunc(fn)
		}
	}
	if firstGithub != "" {
		return firstGithub
	}
	return ""
}

func stripArgs(l string) string {
	l = strings.TrimSpace(l)
	if !strings.HasSuffix(l, ")") {
		return l
	}
	depth := 0
	for i := len(l) - 1; i >= 0; i-- {
		switch l[i] {
		case ')':
			depth++
		case '(':
			depth--
			if depth == 0 {
				return l[:i]
			}
		}
	}
	return l
}

func shortFunc(fn string) string {
	if i := strings.LastIndex(fn, "/"); i >= 0 {
		fn = fn[i+1:]
	}
	return fn
}

// guarded calls f and reports a panic that would otherwise escape to the goroutine's top.
func guarded(f func()) (panicked bool, msg, site string) {
	defer func() {
		if r := recover(); r != nil {
			panicked = true
			msg = fmt.Sprint(r)
			site = siteOf(string(debug.Stack()))
		}
	}()
	f()
	return
}

// callTarget hands the input to a decoder entry point; errOut is the error it returned (if any).
func (w *wk) callTarget(target string, in []byte, msg *msgModel) (called bool, errOut error) {
	sw := w.env.Svc.VerifCluster()
	src := mesh.PeerName(foreignPee)
	switch target {
	case "DecodeFrame":
		_, errOut = message.DecodeFrame(in)
	case "DecodeMessage":
		_, errOut = message.DecodeMessage(in)
	case "DecodeState":
		_, errOut = event.DecodeState(in)
	case "storage.OnSurvey":
		if _, ok := w.env.Svc.VerifStorage().OnSurvey("ssdstore", in); !ok {
			errOut = fmt.Errorf("not handled")
		}
	case "presence.OnSurvey":
		if _, ok := w.env.Svc.VerifPresence().OnSurvey("presence", in); !ok {
			errOut = fmt.Errorf("not handled")
		}
	case "Surveyor.Send":
		if msg == nil {
			return false, nil
		}
		errOut = w.surveyor.Send(&message.Message{ID: append([]byte(nil), msg.ID...), Channel: append([]byte(nil), msg.Channel...), Payload: append([]byte(nil), msg.Payload...), TTL: uint32(msg.TTL)})
	case "OnGossipUnicast":
		errOut = sw.OnGossipUnicast(src, in)
	case "OnGossip":
		_, errOut = sw.OnGossip(in)
	case "OnGossipBroadcast":
		_, errOut = sw.OnGossipBroadcast(src, in)
	default:
		return false, nil
	}
	return true, errOut
}

// minimalSeed lists the hand-built smallest payloads (empty frame, empty state, empty ssid): bases
// for the "huge count in a tiny payload" deviations; an entry point may legitimately refuse them.
var minimalSeed = map[string]bool{"frame0": true, "state0": true, "state1": true, "ssid0": true}

func usesBroker(target string) bool {
	switch target {
	case "DecodeFrame", "DecodeMessage", "DecodeState":
		return false
	}
	return true
}

func (w *wk) runDecoder(cs Case) result {
	var in []byte
	var msg *msgModel
	if cs.Raw != "" {
		b, ok, err := render(w.se, cs)
		if err != nil || !ok {
			return result{Status: "harness", Detail: fmt.Sprintf("cannot render: %v", err)}
		}
		in = b
	} else {
		bi, ok, err := buildBin(w.se, cs.Seed, cs.Devs)
		if err != nil {
			return result{Status: "harness", Detail: "cannot render: " + err.Error()}
		}
		if !ok {
			return result{Status: "skip"}
		}
		in, msg = bi.Bytes, bi.Msg
		if cs.Target == "Surveyor.Send" && msg != nil {
			in = nil
		}
	}
	inLen := len(in)
	if cs.Target == "Surveyor.Send" && msg != nil {
		inLen = len(msg.ID) + len(msg.Channel) + len(msg.Payload)
	}
	buf := append([]byte(nil), in...)
	var called bool
	var rerr error
	a0 := w.alloc()
	panicked, pmsg, site := guarded(func() { called, rerr = w.callTarget(cs.Target, buf, msg) })
	d := w.alloc() - a0
	res := result{Status: "ok", Alloc: d, InLen: inLen, How: "accepted"}
	if rerr != nil {
		res.How = "rejected"
	}
	switch {
	case panicked:
		res.Status, res.Site, res.Detail = "exit", site, "panic: "+pmsg
	case !called:
		return result{Status: "harness", Detail: "unknown target " + cs.Target}
	case d > allowedAlloc(inLen):
		res.Status = "alloc-ratio"
		res.Detail = fmt.Sprintf("%d bytes allocated for an input of %d bytes (allowed %d)", d, inLen, allowedAlloc(inLen))
	case len(cs.Devs) == 0 && cs.Raw == "" && rerr != nil && cs.Target != "Surveyor.Send" && !minimalSeed[cs.Seed]:
		return result{Status: "harness", Detail: fmt.Sprintf("valid seed %s rejected by %s: %v", cs.Seed, cs.Target, rerr)}
	}
	if panicked && usesBroker(cs.Target) && !w.afterPanic(site) {
		res.Detail += " [restart]"
		return res
	}
	if panicked && strings.Contains(site, "Trie") {
		res.Detail += "; the panic left the subscription trie read-locked (writers block forever)"
	}
	if usesBroker(cs.Target) {
		var s string
		w.rawSeq++
		switch {
		case cs.Raw == "":
			s = w.can.full()
		case res.Status != "ok" || w.rawSeq%8 == 0:
			// the byte strings of length <= 2: canary after every failure and after every 8th input
			s = w.can.light()
		}
		if s != "" && res.Status == "ok" {
			res.Status, res.Detail = "canary-failed", s
		} else if s != "" {
			res.Detail += " | afterwards: " + s
		}
		if s != "" {
			res.Detail += " [restart]"
		}
	}
	return res
}

// checkValidResponses verifies that an undeviated seed session is really served.
func checkValidResponses(s clientSeed, out []session.Packet) string {
	if len(out) == 0 || out[0].Type != session.CONNACK || len(out[0].Codes) != 2 || out[0].Codes[1] != 0 {
		return fmt.Sprintf("no CONNACK(0): %v", out)
	}
	for _, p := range out {
		if p.Type == session.PUBLISH && p.Topic == "emitter/error/" {
			return fmt.Sprintf("error response %s", p.Payload)
		}
		if p.Type == session.SUBACK && (len(p.Codes) != 1 || p.Codes[0] == 0x80) {
			return fmt.Sprintf("subscription refused: %v", p)
		}
	}
	switch s.Kind {
	case "subscribe":
		if !hasType(out, session.SUBACK) {
			return "no SUBACK"
		}
	case "unsubscribe":
		if !hasType(out, session.UNSUBACK) {
			return "no UNSUBACK"
		}
	case "ping":
		if !hasType(out, session.PINGRESP) {
			return "no PINGRESP"
		}
	case "publish":
		if s.QoS > 0 && !hasType(out, session.PUBACK) {
			return "no PUBACK"
		}
	case "request":
		if !hasType(out, session.PUBACK) {
			return "no PUBACK"
		}
		ok := false
		for _, p := range out {
			if p.Type == session.PUBLISH && p.Topic == "emitter/"+s.Req+"/" {
				var r struct {
					Status   *int             `json:"status"`
					Messages *json.RawMessage `json:"messages"`
				}
				if json.Unmarshal(p.Payload, &r) == nil && ((r.Status != nil && *r.Status == 200) || r.Messages != nil) {
					ok = true
				}
			}
		}
		if !ok {
			return fmt.Sprintf("no successful emitter/%s/ response in %v", s.Req, out)
		}
	}
	return ""
}

func hasType(ps []session.Packet, t int) bool {
	for _, p := range ps {
		if p.Type == t {
			return true
		}
	}
	return false
}

func (w *wk) runClient(cs Case) result {
	in, ok, err := buildClient(cs.Seed, w.se.Keys, cs.Devs)
	if err != nil {
		return result{Status: "harness", Detail: "cannot render: " + err.Error()}
	}
	if !ok {
		return result{Status: "skip"}
	}
	stream := in.Stream
	a0 := w.alloc()
	cl := session.NewClient("H", func(c net.Conn) { w.env.Svc.VerifAttach(c) })
	cl.Send(stream)
	mid := w.can.light() // the hostile connection is open (possibly in the middle of a packet)
	cl.Conn.CloseClient(false)
	closed := false
	select {
	case <-cl.Conn.Closed():
		closed = true
	case <-time.After(connWait):
	}
	if closed {
		w.env.PresenceBarrier()
	}
	d := w.alloc() - a0
	if d > w.can.cost {
		d -= w.can.cost
	}
	res := result{Status: "ok", Alloc: d, InLen: len(stream)}
	if !closed {
		res.Status = "hang"
		res.Detail = fmt.Sprintf("the broker did not close the connection within %v of the client closing its side [restart]", connWait)
		return res
	}
	after := w.can.full()
	switch {
	case mid != "":
		res.Status, res.Detail = "canary-failed", "while the hostile connection was open: "+mid+" [restart]"
	case after != "":
		res.Status, res.Detail = "canary-failed", "after the hostile connection ended: "+after+" [restart]"
	case d > allowedAlloc(len(stream)):
		res.Status = "alloc-ratio"
		res.Detail = fmt.Sprintf("%d bytes allocated for an input of %d bytes (allowed %d)", d, len(stream), allowedAlloc(len(stream)))
	default:
		out := cl.Drain()
		res.How = "served"
		if len(out) == 0 {
			res.How = "silent-close"
		}
		for _, p := range out {
			if (p.Type == session.PUBLISH && p.Topic == "emitter/error/") || (p.Type == session.SUBACK && len(p.Codes) > 0 && p.Codes[0] == 0x80) {
				res.How = "error-reply"
			}
		}
		if len(cs.Devs) == 0 {
			s, _ := seedByName(cs.Seed)
			if why := checkValidResponses(s, out); why != "" {
				return result{Status: "harness", Detail: fmt.Sprintf("valid seed %s is not served: %s", cs.Seed, why)}
			}
		}
	}
	return res
}

// runSize: (c) a packet of exactly the configured size is served, a larger one is refused.
func (w *wk) runSize(cs Case) result {
	n, _ := strconv.Atoi(strings.TrimPrefix(cs.Target, "size:"))
	env := w.env
	can := w.can
	if n != 65536 {
		if w.sizeEnvs[n] == nil {
			e, err := brokerx.New(brokerx.Options{Storage: "inmemory", MessageSize: n})
			if err != nil {
				return result{Status: "harness", Detail: err.Error()}
			}
			c, err := newCanary(e, w.se.Keys.Canary)
			if err != nil {
				return result{Status: "harness", Detail: err.Error()}
			}
			w.sizeEnvs[n], w.sizeCan[n] = e, c
		}
		env, can = w.sizeEnvs[n], w.sizeCan[n]
	}
	if got := env.Svc.Config.MaxMessageBytes(); got != int64(n) {
		return result{Status: "harness", Detail: fmt.Sprintf("broker configured with limit %d, wanted %d", got, n)}
	}
	topic := w.se.Keys.Canary + "/canary/size/"
	sub := session.NewClient("S", func(c net.Conn) { env.Svc.VerifAttach(c) })
	if !sub.Connect(session.ConnectOpts{ClientID: "s"}) {
		return result{Status: "harness", Detail: "subscriber not connected"}
	}
	if code, ok := sub.Subscribe(topic); !ok || code == 0x80 {
		return result{Status: "harness", Detail: "subscriber not subscribed"}
	}
	sub.Drain()
	defer sub.Abort()
	// remaining = 2 + len(topic) + 2 + len(payload)
	fixed := 2 + len(topic) + 2
	var remaining int
	switch cs.Size {
	case "remaining=N":
		remaining = n
	case "remaining=N+1":
		remaining = n + 1
	case "total=N":
		remaining = n - 2
		for 1+len(encRemLen(remaining))+remaining > n {
			remaining--
		}
		for 1+len(encRemLen(remaining+1))+remaining+1 <= n {
			remaining++
		}
	}
	payload := make([]byte, remaining-fixed)
	for i := range payload {
		payload[i] = byte('a' + i%26)
	}
	pk := session.EncPublish(topic, payload, 1, false, 4242)
	if cs.Size == "total=N" && len(pk) != n {
		return result{Status: "harness", Detail: fmt.Sprintf("built %d bytes, wanted %d", len(pk), n)}
	}
	a0 := w.alloc()
	h := session.NewClient("H", func(c net.Conn) { env.Svc.VerifAttach(c) })
	if !h.Connect(session.ConnectOpts{ClientID: "h"}) {
		return result{Status: "harness", Detail: "publisher not connected"}
	}
	h.Send(pk)
	acked := h.Await(func(p session.Packet) bool { return p.Type == session.PUBACK && p.MsgID == 4242 })
	closedByBroker := h.Conn.IsClosed()
	h.Conn.CloseClient(false)
	h.WaitClosed()
	d := w.alloc() - a0
	var delivered, intact bool
	for _, p := range session.Publishes(sub.Drain()) {
		delivered = true
		intact = bytes.Equal(p.Payload, payload) && p.Topic == "canary/size/"
	}
	res := result{Status: "ok", Alloc: d, InLen: len(pk)}
	res.Detail = fmt.Sprintf("limit=%d packet=%d remaining=%d acked=%v delivered=%v intact=%v closed=%v", n, len(pk), remaining, acked, delivered, intact, closedByBroker)
	switch cs.Size {
	case "total=N":
		if !acked || !delivered || !intact {
			res.Status = "maxsize-refused"
		}
	case "remaining=N+1":
		if acked || delivered || !closedByBroker {
			res.Status = "oversize-accepted"
		}
	}
	if s := can.full(); s != "" && res.Status == "ok" {
		res.Status, res.Detail = "canary-failed", s+" [restart]"
	}
	if res.Status == "ok" && d > allowedAlloc(len(pk)) {
		res.Status = "alloc-ratio"
	}
	return res
}

// runCase screens with the cheap allocation counter and, when the result is within its error band
// of the limit, executes the case a second time under the exact (stop-the-world) measurement.
func (w *wk) runCase(cs Case) result {
	r := w.runCase1(cs)
	if w.exact || (r.Status != "ok" && r.Status != "alloc-ratio") {
		return r
	}
	limit := allowedAlloc(r.InLen)
	if r.Alloc+approxBand > limit && r.Alloc <= limit+approxBand {
		w.exact = true
		r2 := w.runCase1(cs)
		w.exact = false
		if r2.Detail != "" {
			r2.Detail += " "
		}
		r2.Detail += "(exact measurement on a second execution)"
		return r2
	}
	return r
}

func (w *wk) runCase1(cs Case) result {
	switch cs.Group {
	case "client":
		return w.runClient(cs)
	case "decoder":
		return w.runDecoder(cs)
	case "size":
		return w.runSize(cs)
	}
	return result{Status: "harness", Detail: "unknown group " + cs.Group}
}

// probe re-runs the valid seed of the failing case's target (and the canary): if the broker of
// this worker got damaged by a recovered panic, the worker is restarted rather than trusted.
// trieWritable tells whether a writer can still take the subscription trie's lock.
func (w *wk) trieWritable() bool {
	done := make(chan struct{})
	go func() {
		t := w.env.Svc.VerifTrie()
		t.Subscribe(message.Ssid{0xfffffff0, 1}, probeSub{})
		t.Unsubscribe(message.Ssid{0xfffffff0, 1}, probeSub{})
		close(done)
	}()
	select {
	case <-done:
		return true
	case <-time.After(250 * time.Millisecond):
		return false
	}
}

// afterPanic is called when a panic was caught at a broker entry point (in production the process
// would be gone). To keep enumerating in this worker the harness checks the one lock such a
// panic is known to leave behind - Trie.Lookup panics between RLock and RUnlock - and releases
// it; anything else that looks damaged makes the worker restart.
func (w *wk) afterPanic(site string) (healthy bool) {
	if w.trieWritable() {
		return true
	}
	if strings.Contains(site, "Trie") {
		w.env.Svc.VerifTrie().RUnlock()
		w.leakedLocks++
		return w.trieWritable()
	}
	return false
}

func (w *wk) probe(cs Case) bool {
	if cs.Group != "decoder" || !usesBroker(cs.Target) {
		return true
	}
	// a damaged broker typically shows as a blocked lock: fail fast (a wrong verdict only costs a restart)
	if !w.trieWritable() {
		return false
	}
	old := session.Timeout
	session.Timeout = 750 * time.Millisecond
	defer func() { session.Timeout = old }()
	for _, t := range decoderTargets {
		if t.Name == cs.Target {
			r := w.runDecoder(Case{Group: "decoder", Target: t.Name, Seed: t.Seeds[len(t.Seeds)-1]})
			return r.Status == "ok"
		}
	}
	return true
}

type probeSub struct{}

func (probeSub) ID() string                    { return "c09-probe" }
func (probeSub) Type() message.SubscriberType  { return message.SubscriberDirect }
func (probeSub) Send(m *message.Message) error { return nil }

func b64(s string) string {
	if s == "" {
		return "-"
	}
	return base64.RawStdEncoding.EncodeToString([]byte(s))
}

func unb64(s string) string {
	if s == "-" {
		return ""
	}
	b, _ := base64.RawStdEncoding.DecodeString(s)
	return string(b)
}

// mjournal is the write-ahead case journal: a file the parent created with its final size, mapped
// shared into the worker. A journal line is complete the moment it is copied into the mapping
// (no buffering, no system call); the kernel keeps the pages when the process dies, whichever way.
type mjournal struct {
	buf []byte
	off int
}

func openJournal(path string) (*mjournal, error) {
	f, err := os.OpenFile(path, os.O_RDWR, 0o644)
	if err != nil {
		return nil, err
	}
	defer f.Close()
	st, err := f.Stat()
	if err != nil {
		return nil, err
	}
	if st.Size() < 4096 {
		return nil, fmt.Errorf("journal %s too small", path)
	}
	b, err := syscall.Mmap(int(f.Fd()), 0, int(st.Size()), syscall.PROT_READ|syscall.PROT_WRITE, syscall.MAP_SHARED)
	if err != nil {
		return nil, err
	}
	return &mjournal{buf: b}, nil
}

// room tells whether another case (B + E line with a long detail) certainly fits.
func (j *mjournal) room() bool { return len(j.buf)-j.off > 8192 }

func (j *mjournal) WriteString(s string) {
	if len(s) > len(j.buf)-j.off {
		s = s[:len(j.buf)-j.off]
	}
	j.off += copy(j.buf[j.off:], s)
}

// worker is the sub-process entry: args[0] is the work file.
func worker(c *core.Ctx, args []string) {
	if len(args) < 1 {
		fmt.Println("c09 worker: work file missing")
		os.Exit(2)
	}
	path := args[0]
	journal, err := openJournal(path + ".journal")
	if err != nil {
		fmt.Println("c09 worker:", err)
		os.Exit(2)
	}
	if ef, err := os.OpenFile(path+".stderr", os.O_CREATE|os.O_WRONLY|os.O_TRUNC, 0o644); err == nil {
		syscall.Dup3(int(ef.Fd()), 2, 0)
	}
	f, err := os.Open(path)
	if err != nil {
		fmt.Println("c09 worker:", err)
		os.Exit(2)
	}
	rd := bufio.NewReaderSize(f, 1<<20)
	line, _ := rd.ReadString('\n')
	var hd header
	if err := json.Unmarshal([]byte(line), &hd); err != nil {
		fmt.Println("c09 worker: bad header:", err)
		os.Exit(2)
	}
	var items []string
	for {
		l, err := rd.ReadString('\n')
		if l = strings.TrimSpace(l); l != "" {
			items = append(items, l)
		}
		if err != nil {
			break
		}
	}
	var singles *caseTable
	for _, it := range items {
		if !strings.HasPrefix(it, "J") {
			singles = enumerateSingles(hd.Env)
			break
		}
	}
	session.Timeout = 20 * time.Second
	t0 := time.Now()
	w, err := newWk(hd.Env, journal)
	if err != nil {
		journal.WriteString("X " + b64("setup: "+err.Error()) + "\n")
		os.Exit(4)
	}
	if err := selfCheck(w.se); err != nil {
		journal.WriteString("X " + b64("self-check: "+err.Error()) + "\n")
		os.Exit(4)
	}
	if os.Getenv("C09_DEBUG") != "" {
		fmt.Fprintf(os.Stderr, "setup took %v\n", time.Since(t0))
	}
	w.exact = len(items) <= 8 || runtime.GOMAXPROCS(0) != 1
	for n, it := range items {
		if hd.Deadline > 0 && time.Now().Unix() > hd.Deadline {
			w.jprintf("S %d\n", n)
			return
		}
		if !journal.room() {
			w.jprintf("R %d\n", n)
			return
		}
		var cs Case
		switch {
		case strings.HasPrefix(it, "J"):
			if err := json.Unmarshal([]byte(it[1:]), &cs); err != nil {
				w.jprintf("B %d\nE %d harness 0 0 - %s\n", n, n, b64("bad case: "+err.Error()))
				continue
			}
		default:
			idx := strings.Split(it, ",")
			for k, s := range idx {
				i, err := strconv.Atoi(s)
				if err != nil || singles == nil || i < 0 || i >= singles.Len() {
					w.jprintf("X %s\n", b64("bad index "+it))
					os.Exit(4)
				}
				if k == 0 {
					cs = singles.At(i)
					cs.Devs = append([]Dev(nil), cs.Devs...)
				} else {
					cs.Devs = append(cs.Devs, singles.At(i).Devs...)
				}
			}
		}
		w.jprintf("B %d\n", n)
		dog := time.AfterFunc(caseWatchdog, func() {
			w.jprintf("H %d\n", n)
			os.Exit(3)
		})
		tc := time.Now()
		r := w.runCase(cs)
		dog.Stop()
		micros := time.Since(tc).Microseconds()
		if len(r.Detail) > 1500 {
			r.Detail = r.Detail[:1500] + "…"
		}
		if r.How == "" {
			r.How = "-"
		}
		w.jprintf("E %d %s %d %d %s %s %d %s\n", n, r.Status, r.Alloc, r.InLen, b64(r.Site), b64(r.Detail), micros, r.How)
		if strings.Contains(r.Detail, "[restart]") || r.Alloc > 100<<20 || (r.Status == "exit" && !w.probe(cs)) {
			w.jprintf("R %d\n", n)
			return
		}
	}
	w.jprintf("D %d\n", len(items))
}
