package c20

// Part (ord): a cipher is a function of (license, key). For every ordered pair of keys from a small set (salts at
// their boundaries x two bodies) a FRESH cipher instance encrypts the first key, then the second, then the first
// again, and decrypts both strings; a second fresh instance of the same license must agree on every string. A cipher
// that carries state from one call to the next (a cached nonce or sub-key, a reused buffer) shows up here.

import (
	"bytes"
	"encoding/hex"
	"fmt"

	"github.com/emitter-io/emitter/internal/security"
	"github.com/emitter-io/emitter/internal/verifx/engine/core"
)

type ordCase struct {
	Part    string `json:"part"` // "ord"
	Version int    `json:"version"`
	LicSeed byte   `json:"license_seed"`
	FirstHex  string `json:"first_key_hex"`
	SecondHex string `json:"second_key_hex"`
}

func ordKeys() [][]byte {
	var out [][]byte
	for _, body := range []byte{0x00, 0x5a} {
		for _, salt := range []uint16{0, 1, 2, 0x00ff, 0x0100, 0x7fff, 0x8000, 0xffff} {
			k := security.Key(bytes.Repeat([]byte{body}, 24))
			k.SetSalt(salt)
			out = append(out, k)
		}
	}
	return out
}

func checkOrder(c *core.Ctx, oc ordCase) {
	v := fmt.Sprintf("v%d", oc.Version)
	k1, _ := hex.DecodeString(oc.FirstHex)
	k2, _ := hex.DecodeString(oc.SecondHex)
	c.Add("evaluations", 1)
	c.Add("order_cases", 1)
	a, b := cipherOf(oc.Version, oc.LicSeed), cipherOf(oc.Version, oc.LicSeed)
	enc := func(ci interface {
		EncryptKey(security.Key) (string, error)
	}, k []byte) string {
		s, err := ci.EncryptKey(security.Key(append([]byte(nil), k...)))
		if err != nil {
			return "error:" + err.Error()
		}
		return s
	}
	var s1, s2, s1again, onB string
	var d1, d2 security.Key
	var e1, e2 error
	if p := safely(func() {
		s1 = enc(a, k1)
		s2 = enc(a, k2)
		s1again = enc(a, k1)
		d1, e1 = a.DecryptKey([]byte(s1))
		d2, e2 = a.DecryptKey([]byte(s2))
		onB = enc(b, k1)
	}); p != "" {
		c.Violate(v+":panic:order", "cipher panicked: "+p, oc)
		return
	}
	rel := "different-salts"
	if security.Key(k1).Salt() == security.Key(k2).Salt() {
		rel = "equal-salts"
	}
	if security.Key(k1).Salt() == 0 {
		rel += ":first-salt-zero"
	}
	switch {
	case s1 != s1again:
		c.Violate(v+":key-roundtrip:history-dependent:"+rel, fmt.Sprintf("one cipher instance encrypts key %x to %q, then (after key %x) to %q", k1, s1, k2, s1again), oc)
	case e1 != nil || !bytes.Equal(d1, k1):
		c.Violate(v+":key-roundtrip:history-dependent:"+rel, fmt.Sprintf("key %x -> %q no longer decrypts to itself after key %x was handled: %x (err %v)", k1, s1, k2, []byte(d1), e1), oc)
	case e2 != nil || !bytes.Equal(d2, k2):
		c.Violate(v+":key-roundtrip:history-dependent:"+rel, fmt.Sprintf("key %x -> %q decrypts to %x (err %v)", k2, s2, []byte(d2), e2), oc)
	case onB != s1:
		c.Violate(v+":key-roundtrip:instance-dependent:"+rel, fmt.Sprintf("two cipher instances of one license encrypt key %x to %q and %q", k1, s1, onB), oc)
	}
}

func partOrder(c *core.Ctx, ver int, licSeed byte) {
	ks := ordKeys()
	for _, k1 := range ks {
		for _, k2 := range ks {
			checkOrder(c, ordCase{Part: "ord", Version: ver, LicSeed: licSeed, FirstHex: hex.EncodeToString(k1), SecondHex: hex.EncodeToString(k2)})
		}
	}
	c.Add("nontrivial", int64(len(ks)*len(ks)))
}
