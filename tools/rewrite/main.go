// Command rewrite instruments one Go source file for the controlled scheduler:
//   - import "sync"        -> sync   ".../verifx/engine/shim/sync"
//   - import "sync/atomic" -> atomic ".../verifx/engine/shim/atomic"
//   - vxs.Yield(file, line) before every statement of every function body
//
// It refuses (exit 3) files containing go statements, channel operations or select:
// those would be synchronisation the scheduler cannot see.
package main

import (
	"bytes"
	"fmt"
	"go/ast"
	"go/parser"
	"go/printer"
	"go/token"
	"os"
	"path/filepath"
	"regexp"
	"strconv"
	"strings"
)

const base = "github.com/emitter-io/emitter/internal/verifx/engine/"

func main() {
	// options (before the two file arguments):
	//   -nofunclit      do not put yields inside function literals (closures run inside a library's transaction
	//                   hold that library's real lock: a thread parked there would block the others for real)
	//   -atomic=a,b,c   do not put yields inside the named functions/methods
	noFuncLit := false
	atomicFuncs := map[string]bool{}
	args := os.Args[1:]
	for len(args) > 0 && strings.HasPrefix(args[0], "-") {
		switch {
		case args[0] == "-nofunclit":
			noFuncLit = true
		case strings.HasPrefix(args[0], "-atomic="):
			for _, n := range strings.Split(strings.TrimPrefix(args[0], "-atomic="), ",") {
				atomicFuncs[n] = true
			}
		default:
			fmt.Println("unknown option", args[0])
			os.Exit(2)
		}
		args = args[1:]
	}
	if len(args) != 2 {
		fmt.Println("usage: rewrite [-nofunclit] [-atomic=f,g] <in.go> <out.go>")
		os.Exit(2)
	}
	in, out := args[0], args[1]
	fset := token.NewFileSet()
	f, err := parser.ParseFile(fset, in, nil, parser.ParseComments)
	if err != nil {
		fmt.Println("parse error:", err)
		os.Exit(2)
	}
	// refuse unseen synchronisation
	bad := ""
	ast.Inspect(f, func(n ast.Node) bool {
		switch x := n.(type) {
		case *ast.GoStmt:
			bad = fmt.Sprintf("go statement at %s", fset.Position(x.Pos()))
		case *ast.SendStmt:
			bad = fmt.Sprintf("channel send at %s", fset.Position(x.Pos()))
		case *ast.SelectStmt:
			bad = fmt.Sprintf("select at %s", fset.Position(x.Pos()))
		case *ast.UnaryExpr:
			if x.Op == token.ARROW {
				bad = fmt.Sprintf("channel receive at %s", fset.Position(x.Pos()))
			}
		case *ast.RangeStmt:
			// ranging over a channel cannot be told apart syntactically; the instrumented files
			// are checked by the build (a chan-typed field would have to be declared in them).
		}
		return bad == ""
	})
	if bad != "" {
		fmt.Println("refused:", bad)
		os.Exit(3)
	}

	for _, imp := range f.Imports {
		p, _ := strconv.Unquote(imp.Path.Value)
		switch p {
		case "sync":
			imp.Path.Value = strconv.Quote(base + "shim/sync")
			imp.Name = ast.NewIdent("sync")
		case "sync/atomic":
			imp.Path.Value = strconv.Quote(base + "shim/atomic")
			imp.Name = ast.NewIdent("atomic")
		}
	}

	tag := "_vxf_" + regexp.MustCompile(`[^a-zA-Z0-9]`).ReplaceAllString(strings.TrimSuffix(filepath.Base(in), ".go"), "_")
	rel := in
	if i := strings.Index(in, "/internal/"); i >= 0 {
		rel = in[i+1:]
	}

	var instr func(list []ast.Stmt) []ast.Stmt
	var visit func(s ast.Stmt)
	yield := func(pos token.Pos) ast.Stmt {
		line := fset.Position(pos).Line
		return &ast.ExprStmt{X: &ast.CallExpr{
			Fun:  &ast.SelectorExpr{X: ast.NewIdent("vxs"), Sel: ast.NewIdent("Yield")},
			Args: []ast.Expr{ast.NewIdent(tag), &ast.BasicLit{Kind: token.INT, Value: strconv.Itoa(line)}},
		}}
	}
	visitBlock := func(b *ast.BlockStmt) {
		if b != nil {
			b.List = instr(b.List)
		}
	}
	visitExprFuncs := func(n ast.Node) {
		ast.Inspect(n, func(m ast.Node) bool {
			if fl, ok := m.(*ast.FuncLit); ok {
				if !noFuncLit {
					visitBlock(fl.Body)
				}
				return false
			}
			// do not descend into nested statements here; they are handled by visit
			if _, ok := m.(ast.Stmt); ok && m != n {
				return false
			}
			return true
		})
	}
	visit = func(s ast.Stmt) {
		switch x := s.(type) {
		case *ast.BlockStmt:
			visitBlock(x)
		case *ast.IfStmt:
			if x.Init != nil {
				visitExprFuncs(x.Init)
			}
			visitBlock(x.Body)
			if x.Else != nil {
				visit(x.Else)
			}
		case *ast.ForStmt:
			visitBlock(x.Body)
		case *ast.RangeStmt:
			visitBlock(x.Body)
		case *ast.SwitchStmt:
			for _, c := range x.Body.List {
				cc := c.(*ast.CaseClause)
				cc.Body = instr(cc.Body)
			}
		case *ast.TypeSwitchStmt:
			for _, c := range x.Body.List {
				cc := c.(*ast.CaseClause)
				cc.Body = instr(cc.Body)
			}
		case *ast.LabeledStmt:
			visit(x.Stmt)
		default:
			visitExprFuncs(s)
		}
	}
	instr = func(list []ast.Stmt) []ast.Stmt {
		out := make([]ast.Stmt, 0, 2*len(list))
		for _, s := range list {
			visit(s)
			if _, isDecl := s.(*ast.DeclStmt); !isDecl {
				out = append(out, yield(s.Pos()))
			}
			out = append(out, s)
		}
		return out
	}
	for _, d := range f.Decls {
		switch x := d.(type) {
		case *ast.FuncDecl:
			if !atomicFuncs[x.Name.Name] {
				visitBlock(x.Body)
			}
		case *ast.GenDecl:
			if noFuncLit {
				continue
			}
			// function literals in package-level var initialisers (e.g. sync.Pool New)
			ast.Inspect(x, func(m ast.Node) bool {
				if fl, ok := m.(*ast.FuncLit); ok {
					visitBlock(fl.Body)
					return false
				}
				return true
			})
		}
	}

	var buf bytes.Buffer
	// drop comments: positions of inserted nodes are zero and confuse the printer's comment placement
	f.Comments = nil
	if err := printer.Fprint(&buf, fset, f); err != nil {
		fmt.Println("print error:", err)
		os.Exit(2)
	}
	src := buf.String()
	// add the scheduler import (before the original imports) and the file tag (at the end)
	imp := "\nimport vxs \"" + base + "sched\"\n"
	idx := strings.Index(src, "\nimport")
	if idx < 0 {
		nl := strings.Index(src, "\n")
		src = src[:nl+1] + imp + src[nl+1:]
	} else {
		src = src[:idx] + imp + src[idx:]
	}
	src += "\nvar " + tag + " = vxs.RegisterFile(" + strconv.Quote(rel) + ")\n"
	src = "// Code generated by verif rewrite from " + rel + "; DO NOT EDIT.\n" + src
	if err := os.WriteFile(out, []byte(src), 0o644); err != nil {
		fmt.Println(err)
		os.Exit(2)
	}
}
