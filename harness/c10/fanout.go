package c10

// Part (fanout): one publisher, one channel, N subscribers, one of which is slow for one write. The real
// pubsub.Service.Publish (real trie) is driven by a single publisher goroutine that publishes m1, m2, m3 one after
// the other, exactly as a connection's goroutine does. The slow subscriber's socket holds the k-th message until the
// harness lets it through — after the publisher has returned from all three Publish calls, or, if it is still inside
// one (which is what a sequential fan-out does), after a grace period. Whatever Publish does internally for small or
// large recipient sets, every subscriber must end up with m1 m2 m3 in this order, each once.
// The grace period only keeps the run going; no verdict depends on how long anything took.

import (
	"fmt"
	"strings"
	"sync"
	"time"

	"github.com/emitter-io/emitter/internal/message"
	"github.com/emitter-io/emitter/internal/provider/storage"
	"github.com/emitter-io/emitter/internal/service/fake"
	"github.com/emitter-io/emitter/internal/service/pubsub"
	"github.com/emitter-io/emitter/internal/verifx/engine/core"
)

type fanCase struct {
	Part string `json:"part"` // "fanout"
	N    int    `json:"subscribers"`
	Hold int    `json:"held_message"` // 1..3: which message the slow subscriber's socket holds up
}

type fanSub struct {
	mu      sync.Mutex
	id      string
	got     []string
	hold    int
	entered chan struct{}
	release chan struct{}
}

func (s *fanSub) ID() string                   { return s.id }
func (s *fanSub) Type() message.SubscriberType { return message.SubscriberDirect }
func (s *fanSub) Send(m *message.Message) error {
	p := string(m.Payload)
	if s.hold > 0 && p == fmt.Sprintf("m%d", s.hold) {
		select {
		case s.entered <- struct{}{}:
		default:
		}
		<-s.release
	}
	s.mu.Lock()
	s.got = append(s.got, p)
	s.mu.Unlock()
	return nil
}

func (s *fanSub) log() []string {
	s.mu.Lock()
	defer s.mu.Unlock()
	return append([]string(nil), s.got...)
}

func runFan(c *core.Ctx, fc fanCase) {
	ssid := message.Ssid{1, 3238259379, 500706888}
	store := storage.NewInMemory(nil)
	store.Configure(nil)
	defer store.Close()
	trie := message.NewTrie()
	svc := pubsub.New(&fake.Authorizer{Contract: 1, Success: true}, store, new(fake.Notifier), trie)
	slow := &fanSub{id: "slow", hold: fc.Hold, entered: make(chan struct{}, 1), release: make(chan struct{})}
	all := []*fanSub{slow}
	trie.Subscribe(ssid, slow)
	for i := 1; i < fc.N; i++ {
		s := &fanSub{id: fmt.Sprintf("sub-%d", i)}
		all = append(all, s)
		trie.Subscribe(ssid, s)
	}
	done := make(chan struct{})
	go func() {
		defer close(done)
		for k := 1; k <= 3; k++ {
			svc.Publish(message.New(ssid, []byte("a/b/"), []byte(fmt.Sprintf("m%d", k))), nil)
		}
	}()
	// let the held write through once the publisher is out of Publish, or is waiting for exactly this write
	select {
	case <-done:
	case <-slow.entered:
		select {
		case <-done:
		case <-time.After(150 * time.Millisecond):
		}
	case <-time.After(120 * time.Second):
		c.ViolatePart("fanout", "fanout:hang", "the publisher neither finished nor reached the slow subscriber within 120 s", fc)
		close(slow.release)
		return
	}
	close(slow.release)
	select {
	case <-done:
	case <-time.After(120 * time.Second):
		c.ViolatePart("fanout", "fanout:hang", "the publisher did not finish within 120 s after the slow write was released", fc)
		return
	}
	// writes still in flight (if Publish hands them to other goroutines) get time to land; an ordered, complete
	// log is final, so waiting longer can only turn "incomplete" into a verdict, never a pass into a failure
	deadline := time.Now().Add(20 * time.Second)
	for _, s := range all {
		for len(s.log()) < 3 && time.Now().Before(deadline) {
			time.Sleep(2 * time.Millisecond)
		}
	}
	size := "small"
	if fc.N > 16 {
		size = "large"
	}
	for _, s := range all {
		got := strings.Join(s.log(), " ")
		if got == "m1 m2 m3" {
			continue
		}
		kind := "reordered-within-publisher"
		switch {
		case len(s.log()) < 3:
			kind = "lost"
		case len(s.log()) > 3:
			kind = "duplicated"
		}
		c.ViolatePart("fanout", fmt.Sprintf("fanout:%s:%s-recipient-set", kind, size), fmt.Sprintf("%d subscribers, the slow one holds m%d: subscriber %s received [%s], published m1 m2 m3", fc.N, fc.Hold, s.id, got), fc)
		return
	}
}

func partFanout(c *core.Ctx) {
	sizes := []int{1, 2, 3, 8, 16, 17, 32, 33, 40, 64, 65, 100}
	if !c.Quick() {
		sizes = append(sizes, 128, 129, 256, 257, 1000)
	}
	var wg sync.WaitGroup
	sem := make(chan struct{}, core.NumWorkers())
	for _, n := range sizes {
		for hold := 1; hold <= 3; hold++ {
			fc := fanCase{Part: "fanout", N: n, Hold: hold}
			wg.Add(1)
			sem <- struct{}{}
			go func() {
				defer wg.Done()
				defer func() { <-sem }()
				runFan(c, fc)
				c.Add("fanout_cases", 1)
			}()
		}
	}
	wg.Wait()
	c.Sample(fanCase{Part: "fanout", N: 33, Hold: 1})
	c.Assume("fan-out part: subscribers are recording stand-ins for connections (the write path below them is explored by the other scenarios); the slow write is released when the publisher has returned or after a 150 ms grace period, which keeps a sequential fan-out moving and decides no verdict")
}
