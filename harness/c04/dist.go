package c04

// Breadth-first search of an xstate.Spec with the expansion work done by single-threaded worker
// PROCESSES (DESIGN §3.4: crdt.Now is process-global, and the replicas are allocation-heavy, which
// does not scale across goroutines of one process). The coordinator owns the seen-set and the
// frontier; a worker receives paths, builds a fresh instance per transition by replay, and returns
// for every enabled operation the canonical key hash of the child or "violating".
//
// The result is deterministic: the representative path of a state is the lexicographically smallest
// one found on its level, and the frontier is sorted before it is expanded.

import (
	"bufio"
	"bytes"
	"crypto/sha1"
	"encoding/binary"
	"encoding/json"
	"io"
	"os"
	"os/exec"
	"sort"
	"sync"
	"time"

	"github.com/emitter-io/emitter/internal/verifx/engine/core"
	"github.com/emitter-io/emitter/internal/verifx/engine/xstate"
)

type hkey [16]byte

func hashOf(k string) (h hkey) {
	s := sha1.Sum([]byte(k))
	copy(h[:], s[:16])
	return
}

// workerReport is what an expander process hands back when it is told to stop.
type workerReport struct {
	Counters map[string]int64  `json:"counters"`
	ByOp     map[string]int64  `json:"by_op"`
	ViolByOp map[string]int64  `json:"viol_by_op"`
	Best     map[string]*bestT `json:"best"`
}

type bestT struct {
	Kind string `json:"kind"`
	What string `json:"what"`
	Ops  []int  `json:"ops"`
}

// ---- worker side ---------------------------------------------------------------------------------------

// expandLoop serves expansion requests until a zero-count frame arrives.
// request:  uint32 count, uint8 depth, count*depth op bytes
// response: per path: uint16 n, n * (op uint8, flag uint8, hash [16]byte)
func expandLoop(spec *xstate.Spec, st *stats, in io.Reader, out io.Writer) {
	r := bufio.NewReaderSize(in, 1<<16)
	w := bufio.NewWriterSize(out, 1<<16)
	var hdr [5]byte
	for {
		if _, err := io.ReadFull(r, hdr[:]); err != nil {
			return
		}
		count := int(binary.LittleEndian.Uint32(hdr[:4]))
		depth := int(hdr[4])
		if count == 0 {
			break
		}
		buf := make([]byte, count*depth)
		if _, err := io.ReadFull(r, buf); err != nil {
			return
		}
		path := make([]int, depth)
		var rec [18]byte
		for i := 0; i < count; i++ {
			for j := 0; j < depth; j++ {
				path[j] = int(buf[i*depth+j])
			}
			base := spec.Build(0, path)
			en := base.Enabled()
			base.Close()
			var n [2]byte
			binary.LittleEndian.PutUint16(n[:], uint16(len(en)))
			w.Write(n[:])
			for _, op := range en {
				inst := spec.Build(0, path)
				inst.Apply(op)
				sig, _ := inst.Check()
				rec[0], rec[1] = byte(op), 0
				if sig != "" {
					rec[1] = 1
				} else {
					h := hashOf(inst.Key())
					copy(rec[2:], h[:])
				}
				inst.Close()
				w.Write(rec[:])
			}
		}
		w.Flush()
	}
	rep := workerReport{Counters: st.counters, ByOp: st.byOp, ViolByOp: st.violByOp, Best: map[string]*bestT{}}
	for k, f := range st.best {
		rep.Best[k] = &bestT{Kind: f.kind, What: f.what, Ops: f.ops}
	}
	b, _ := json.Marshal(rep)
	var l [4]byte
	binary.LittleEndian.PutUint32(l[:], uint32(len(b)))
	w.Write(l[:])
	w.Write(b)
	w.Flush()
}

// ---- coordinator side -----------------------------------------------------------------------------------

type expander struct {
	cmd *exec.Cmd
	in  io.WriteCloser
	out *bufio.Reader
}

type transition struct {
	op   byte
	bad  bool
	hash hkey
}

func startExpander(c *core.Ctx, args []string) *expander {
	full := append([]string{"worker", c.ID, c.Tier}, args...)
	cmd := exec.Command(os.Args[0], full...)
	cmd.Env = append(os.Environ(), "GOMAXPROCS=1")
	cmd.Stderr = os.Stderr
	in, err := cmd.StdinPipe()
	if err != nil {
		core.HarnessFailure("C04: cannot start expander: %v", err)
	}
	out, err := cmd.StdoutPipe()
	if err != nil {
		core.HarnessFailure("C04: cannot start expander: %v", err)
	}
	if err := cmd.Start(); err != nil {
		core.HarnessFailure("C04: cannot start expander: %v", err)
	}
	return &expander{cmd: cmd, in: in, out: bufio.NewReaderSize(out, 1<<16)}
}

// expand sends one chunk (count paths of length depth) and reads the transitions of every path.
func (e *expander) expand(paths []byte, depth, count int) [][]transition {
	var hdr [5]byte
	binary.LittleEndian.PutUint32(hdr[:4], uint32(count))
	hdr[4] = byte(depth)
	if _, err := e.in.Write(append(hdr[:], paths...)); err != nil {
		core.HarnessFailure("C04: expander died: %v", err)
	}
	out := make([][]transition, count)
	var rec [18]byte
	for i := 0; i < count; i++ {
		var n [2]byte
		if _, err := io.ReadFull(e.out, n[:]); err != nil {
			core.HarnessFailure("C04: expander died: %v", err)
		}
		ts := make([]transition, binary.LittleEndian.Uint16(n[:]))
		for j := range ts {
			if _, err := io.ReadFull(e.out, rec[:]); err != nil {
				core.HarnessFailure("C04: expander died: %v", err)
			}
			ts[j].op, ts[j].bad = rec[0], rec[1] != 0
			copy(ts[j].hash[:], rec[2:])
		}
		out[i] = ts
	}
	return out
}

func (e *expander) stop() workerReport {
	var rep workerReport
	var hdr [5]byte
	e.in.Write(hdr[:])
	var l [4]byte
	if _, err := io.ReadFull(e.out, l[:]); err != nil {
		core.HarnessFailure("C04: expander gave no report: %v", err)
	}
	b := make([]byte, binary.LittleEndian.Uint32(l[:]))
	if _, err := io.ReadFull(e.out, b); err != nil {
		core.HarnessFailure("C04: expander gave no report: %v", err)
	}
	if err := json.Unmarshal(b, &rep); err != nil {
		core.HarnessFailure("C04: bad expander report: %v", err)
	}
	e.in.Close()
	io.Copy(io.Discard, e.out)
	e.cmd.Wait()
	return rep
}

const chunkPaths = 128

// distRun is xstate.Run with process-level workers.
func distRun(c *core.Ctx, spec *xstate.Spec, workerArgs []string, nproc int) (*xstate.Result, []workerReport) {
	res := &xstate.Result{Exhaustive: true}
	root := spec.Build(0, nil)
	if sig, what := root.Check(); sig != "" {
		res.Violations = append(res.Violations, xstate.Found{Sig: sig, What: what})
		root.Close()
		return res, nil
	}
	seen := map[hkey]struct{}{hashOf(root.Key()): {}}
	root.Close()

	exps := make([]*expander, nproc)
	for i := range exps {
		exps[i] = startExpander(c, workerArgs)
	}
	frontier := []byte{} // flat: count paths of length depth
	count := 1
	for depth := 0; depth < spec.Depth && count > 0; depth++ {
		type chunk struct{ from, n int }
		per := (count + 4*nproc - 1) / (4 * nproc)
		if per > chunkPaths {
			per = chunkPaths
		}
		jobs := make(chan chunk, count/per+1)
		for i := 0; i < count; i += per {
			n := per
			if i+n > count {
				n = count - i
			}
			jobs <- chunk{i, n}
		}
		close(jobs)
		var mu sync.Mutex
		nextIdx := map[hkey]int{}
		var next []byte
		nd := depth + 1
		stopped := false
		var wg sync.WaitGroup
		for _, e := range exps {
			wg.Add(1)
			go func(e *expander) {
				defer wg.Done()
				for ch := range jobs {
					if !spec.Deadline.IsZero() && time.Now().After(spec.Deadline) {
						mu.Lock()
						stopped = true
						res.FrontierLeft += ch.n
						mu.Unlock()
						continue
					}
					paths := frontier[ch.from*depth : (ch.from+ch.n)*depth]
					// hang detector (generous: a chunk normally takes well under a second)
					watchdog := time.AfterFunc(5*time.Minute, func() {
						e.cmd.Process.Kill()
						core.HarnessFailure("C04: an expander process did not answer within 5 minutes (chunk of %d paths at depth %d)", ch.n, depth)
					})
					out := e.expand(paths, depth, ch.n)
					watchdog.Stop()
					mu.Lock()
					np := make([]byte, nd)
					for i, ts := range out {
						copy(np, paths[i*depth:(i+1)*depth])
						res.Replays += int64(len(ts)) + 1
						for _, t := range ts {
							res.Transitions++
							if t.bad {
								continue
							}
							if _, ok := seen[t.hash]; ok {
								continue
							}
							np[depth] = t.op
							if j, ok := nextIdx[t.hash]; ok {
								if bytes.Compare(np, next[j*nd:(j+1)*nd]) < 0 {
									copy(next[j*nd:(j+1)*nd], np)
								}
								continue
							}
							nextIdx[t.hash] = len(next) / nd
							next = append(next, np...)
						}
					}
					mu.Unlock()
				}
			}(e)
		}
		wg.Wait()
		if stopped {
			res.Exhaustive = false
			break
		}
		res.DepthCompleted = depth + 1
		for h := range nextIdx {
			seen[h] = struct{}{}
		}
		count = len(next) / nd
		frontier = sortPaths(next, nd)
		// samples: first, middle and last state of the level
		if count > 0 && nd >= 2 {
			for _, i := range []int{0, count / 2, count - 1} {
				p := make([]int, nd)
				for j := range p {
					p[j] = int(frontier[i*nd+j])
				}
				res.SamplePaths = append(res.SamplePaths, spec.Names(p))
			}
		}
	}
	res.States = len(seen)
	reports := make([]workerReport, len(exps))
	for i, e := range exps {
		reports[i] = e.stop()
	}
	return res, reports
}

func sortPaths(flat []byte, n int) []byte {
	count := len(flat) / n
	idx := make([]int, count)
	for i := range idx {
		idx[i] = i
	}
	sort.Slice(idx, func(a, b int) bool {
		return bytes.Compare(flat[idx[a]*n:(idx[a]+1)*n], flat[idx[b]*n:(idx[b]+1)*n]) < 0
	})
	out := make([]byte, 0, len(flat))
	for _, i := range idx {
		out = append(out, flat[i*n:(i+1)*n]...)
	}
	return out
}
