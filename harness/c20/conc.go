package c20

// Part (conc): two connections use the license's cipher at the same time. The cipher object is shared by every
// connection of a broker, so whatever it keeps between the steps of one call (a scratch buffer, a derived
// sub-key) must not be visible to the other call. Explored exhaustively under the controlled scheduler with
// statement-level yields in the cipher and key code.

import (
	"bytes"
	"fmt"

	"github.com/emitter-io/emitter/internal/security"
	"github.com/emitter-io/emitter/internal/verifx/engine/sched"
)

var concFiles = []string{"internal/security/cipher/", "internal/security/key.go"}

func concScenarios() map[string]*sched.Scenario {
	m := map[string]*sched.Scenario{}
	for ver := 1; ver <= 3; ver++ {
		ver := ver
		name := fmt.Sprintf("cipher-v%d", ver)
		m[name] = &sched.Scenario{
			Name: name, Files: concFiles,
			Body: func(s *sched.Sched) {
				ci := cipherOf(ver, 1)
				keys := make([]security.Key, 2)
				want := make([]string, 2)
				for i := range keys {
					k := security.Key(bytes.Repeat([]byte{byte(0x11 * (i + 1))}, 24))
					k.SetSalt(uint16(0x0101 * (i + 1)))
					keys[i] = k
					// reference: the same cipher used by one caller at a time
					want[i], _ = ci.EncryptKey(append(security.Key(nil), k...))
				}
				got := make([]string, 2)
				back := make([]security.Key, 2)
				for i := 0; i < 2; i++ {
					i := i
					s.Go(fmt.Sprintf("T%d", i), func() {
						got[i], _ = ci.EncryptKey(append(security.Key(nil), keys[i]...))
						back[i], _ = ci.DecryptKey([]byte(want[i]))
					})
				}
				s.AtEnd(func() {
					for i := 0; i < 2; i++ {
						s.Obs("T%d:encrypt=%v:decrypt=%v", i, got[i] == want[i], bytes.Equal(back[i], keys[i]))
					}
				})
			},
			Check: func(x *sched.Exec) (string, string) {
				for _, o := range x.Obs {
					if bytes.Contains([]byte(o), []byte("false")) {
						return "key-roundtrip:concurrent-use", "two simultaneous uses of one cipher object disturb each other: " + fmt.Sprint(x.Obs)
					}
				}
				if len(x.Obs) != 2 {
					return "key-roundtrip:concurrent-use", "execution did not complete"
				}
				return "", ""
			},
		}
	}
	return m
}

var concOrder = []string{"cipher-v1", "cipher-v2", "cipher-v3"}
