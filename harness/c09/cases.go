package c09

import (
	"crypto/sha1"
	"encoding/hex"
	"fmt"
	"strings"
)

// Dev is one deviation from a valid seed.
type Dev struct {
	Kind  string `json:"kind"`            // client: trunc len16 remlen type flags opt chan json | decoder: struct varint trunc zlen ztrunc
	Field string `json:"field,omitempty"` // which field
	Value string `json:"value,omitempty"` // symbolic value
}

// Case is one hostile input in symbolic form; the bytes are rendered from it by the worker.
type Case struct {
	Group  string `json:"group"`          // client | decoder | size
	Target string `json:"target"`         // entry point (decoder), client:<seed>, size:<limit>
	Seed   string `json:"seed,omitempty"` // seed name
	Raw    string `json:"raw,omitempty"`  // decoder group: literal input (hex) instead of a seed; "-" is the empty input
	Devs   []Dev  `json:"devs,omitempty"` // deviations applied to the seed
	Size   string `json:"size,omitempty"` // size group: total=N | remaining=N | remaining=N+1
}

func (c Case) devKinds() string {
	if c.Raw != "" {
		return "raw"
	}
	if c.Group == "size" {
		return "size"
	}
	if len(c.Devs) == 0 {
		return "valid"
	}
	var k []string
	for _, d := range c.Devs {
		k = append(k, d.Kind)
	}
	return strings.Join(k, "+")
}

func (c Case) devFields() string {
	if c.Raw != "" {
		n := len(c.Raw) / 2
		if c.Raw == "-" {
			n = 0
		}
		return fmt.Sprintf("len%d", n)
	}
	if c.Group == "size" {
		return c.Size
	}
	if len(c.Devs) == 0 {
		return "-"
	}
	var k []string
	for _, d := range c.Devs {
		f := d.Field
		if d.Kind == "trunc" || d.Kind == "ztrunc" {
			f = "offset"
		}
		if f == "" {
			f = "-"
		}
		k = append(k, f)
	}
	return strings.Join(k, "+")
}

func (c Case) devValues() string {
	if c.Raw != "" {
		if len(c.Raw) >= 2 && c.Raw != "-" {
			return c.Raw[:2]
		}
		return "-"
	}
	var k []string
	for _, d := range c.Devs {
		k = append(k, d.Value)
	}
	return strings.Join(k, "+")
}

// tupleKey is the (target, deviation, field, value-class) tuple counted as distinct_nontrivial.
func (c Case) tupleKey() string {
	return c.Target + "|" + c.Seed + "|" + c.devKinds() + "|" + c.devFields() + "|" + c.devValues()
}

func (c Case) String() string {
	if c.Raw != "" {
		return fmt.Sprintf("%s(raw %s)", c.Target, c.Raw)
	}
	if c.Group == "size" {
		return fmt.Sprintf("%s %s", c.Target, c.Size)
	}
	var ds []string
	for _, d := range c.Devs {
		ds = append(ds, fmt.Sprintf("%s %s=%s", d.Kind, d.Field, d.Value))
	}
	return fmt.Sprintf("%s seed=%s [%s]", c.Target, c.Seed, strings.Join(ds, "; "))
}

// ---------------------------------------------------------------------------------------
// Menus

var len16Menu = []string{"0", "1", "len-1", "len+1", "127", "128", "16383", "16384", "65535"}
var remlenMenu = []string{"0", "1", "actual-1", "actual+1", "65536", "65537", "268435455", "bytes:ff ff ff ff 7f", "bytes:80 80 80 80 10", "bytes:80 80 80 80 01"}
var optMenu = []string{"0", "1", "2^20", "2^31-1", "2^31", "2^32", "2^63-1", "2^63", "MinTime-1", "MinTime+1", "MaxTime-1", "MaxTime+1", "abc"}
var optNames = []string{"last", "ttl", "from", "until", "me"}
var varintMenu = []string{"0", "1", "127", "128", "2^14", "2^21", "2^28", "2^29", "2^31-1", "2^32", "2^63"}
var jsonMenu = []string{
	"raw:0", "raw:1", "raw:-1", "raw:2147483647", "raw:2147483648", "raw:4294967296", "raw:9223372036854775807",
	"raw:9223372036854775808", "raw:-9223372036854775809", "raw:1e308", "raw:1e400", "raw:0.5",
	"raw:true", "raw:false", "raw:null", "raw:[]", "raw:{}", `raw:""`, `raw:"a"`, `raw:"\u0000"`, `raw:"#/"`, `raw:"+/"`,
	"rep:a*60000", "rep:a/*30000", "rep:é*20000", "nest:5000", "nest:20000", "nestobj:5000", "absent",
}
var jsonWhole = []string{"raw:", "raw:null", "raw:[]", "raw:0", `raw:"x"`, "raw:{", "nest:5000", "nest:30000", "nestobj:10000", "rep:a*65000"}

// decoder targets and the seeds each one accepts
var decoderTargets = []struct {
	Name  string
	Raw   bool
	Seeds []string
}{
	{"DecodeFrame", true, []string{"frame0", "frame2"}},
	{"DecodeMessage", true, []string{"message"}},
	{"DecodeState", true, []string{"state0", "state1", "state", "state-unsub"}},
	{"storage.OnSurvey", true, []string{"query"}},
	{"presence.OnSurvey", true, []string{"ssid0", "ssid"}},
	{"OnGossipUnicast", true, []string{"frame0", "frame2", "frame-survey", "frame-survey-presence", "frame-response"}},
	{"OnGossip", true, []string{"state0", "state1", "state", "state-unsub"}},
	{"OnGossipBroadcast", true, []string{"state0", "state1", "state", "state-unsub"}},
	{"Surveyor.Send", false, []string{"survey-msg"}},
}

var idLens = []string{"len:0", "len:1", "len:4", "len:7", "len:8", "len:12", "len:15", "len:16", "len:17", "len:19", "len:20", "len:24", "len:40"}
var chanMenu = []string{"len:0", "str:response", "str:ssdstore", "str:/", "str:ssdstore/", "str:ssdstore/x", "str:ssdstore/1", "str:ssdstore/2/3", "str:presence/2", "str:unknown/2", "str:ssdstore/99999999999999999999"}
var keyLens = []string{"len:0", "len:1", "len:7", "len:8", "len:15", "len:16", "len:17", "len:19", "len:20", "len:32"}
var valLens = []string{"len:0", "len:1", "len:7", "len:8", "len:15", "len:16", "len:17", "len:18"}
var limitMenu = []string{"-1", "0", "1", "2^20", "2^31-1", "2^31", "2^32", "2^62", "-9223372036854775808"}
var timeMenu = []string{"-1", "0", "MinTime-1", "MaxTime+1", "2^62", "-9223372036854775808"}

// structDevs lists the semantic deviations of a decoder seed.
func structDevs(s binSeed) []Dev {
	var out []Dev
	add := func(f string, vs []string) {
		for _, v := range vs {
			out = append(out, Dev{"struct", f, v})
		}
	}
	switch {
	case s.IsMsg || (len(s.Frame) > 0 && s.State == nil):
		add("m0.id", idLens)
		add("m0.chan", chanMenu)
		add("m0.pay", []string{"len:0", "len:1"})
		if len(s.Frame) > 1 {
			add("m1.id", []string{"len:0", "len:15", "len:16"})
		}
	case len(s.State) > 0:
		for i, ss := range s.State {
			p := fmt.Sprintf("s%d", i)
			add(p, []string{"absent"})
			add(p+".typ", []string{"3", "255", "2^32"})
			if len(ss.Items) > 0 {
				add(p+".i0.k", keyLens)
				add(p+".i0.v", valLens)
			}
		}
	case s.Query != nil:
		add("limit", limitMenu)
		add("from", timeMenu)
		add("until", timeMenu)
		add("ssid", []string{"count:0", "count:1", "count:2", "count:4"})
		add("start", []string{"len:1", "len:8", "len:16", "len:28"})
	case s.IsSsid:
		add("ssid", []string{"count:0", "count:1", "count:2", "count:4", "count:8"})
	}
	return out
}

// decoderSingles lists the valid seed and every single deviation of (target, seed).
func decoderSingles(e SeedEnv, target, seed string) []Case {
	s, ok := binSeedByName(e, seed)
	if !ok {
		panic("unknown seed " + seed)
	}
	base := Case{Group: "decoder", Target: target, Seed: seed}
	out := []Case{base}
	with := func(d Dev) {
		c := base
		c.Devs = []Dev{d}
		out = append(out, c)
	}
	for _, d := range structDevs(s) {
		with(d)
	}
	if target == "Surveyor.Send" {
		return out
	}
	w := s.encode()
	for _, f := range w.F {
		for _, v := range varintMenu {
			with(Dev{"varint", f.Name, v})
		}
	}
	for i := 0; i < len(w.B); i++ {
		with(Dev{"trunc", "", fmt.Sprint(i)})
	}
	if s.Snappy {
		for _, v := range varintMenu {
			with(Dev{"zlen", "snappy.len", v})
		}
		in, _, _ := buildBin(e, seed, nil)
		for i := 0; i < len(in.Bytes); i++ {
			with(Dev{"ztrunc", "", fmt.Sprint(i)})
		}
	}
	return out
}

// clientSingles lists the valid session and every single deviation of a client seed.
func clientSingles(e SeedEnv, s clientSeed) []Case {
	base := Case{Group: "client", Target: "client:" + s.Name, Seed: s.Name}
	out := []Case{base}
	with := func(d Dev) {
		c := base
		c.Devs = []Dev{d}
		out = append(out, c)
	}
	in, _, err := buildClient(s.Name, e.Keys, nil)
	if err != nil {
		panic(err)
	}
	if s.Kind == "connect" && s.Channel != "" {
		for _, v := range chanDevMenu {
			with(Dev{"chan", "channel", v})
		}
	}
	if s.Kind == "subscribe" || s.Kind == "unsubscribe" || s.Kind == "publish" {
		for _, v := range chanDevMenu {
			with(Dev{"chan", "channel", v})
		}
		for _, o := range optNames {
			for _, v := range optMenu {
				with(Dev{"opt", o, decimalOf(v)})
			}
		}
	}
	if s.Kind == "request" {
		for _, f := range s.JSON {
			for _, v := range jsonMenu {
				with(Dev{"json", f.K, v})
			}
			if f.K == "channel" {
				// channel strings inside the JSON body carry options as well
				for _, o := range []string{"last", "from", "until", "ttl"} {
					for _, v := range optMenu {
						ch := "a/b/?" + o + "=" + decimalOf(v)
						if s.Req == "history" {
							ch = "$ALL/" + ch
						}
						with(Dev{"json", f.K, `raw:"` + ch + `"`})
					}
				}
			}
			if f.K == "startFromID" {
				for _, v := range []string{`raw:""`, `raw:"AA=="`, `raw:"AAAAAAAAAAAAAAAAAAAAAA=="`, `raw:"//////////////////////////////////////8="`, `raw:"!"`} {
					with(Dev{"json", f.K, v})
				}
			}
		}
		for _, v := range jsonWhole {
			with(Dev{"json", "*", v})
		}
		with(Dev{"json", "+extra", "raw:1"})
		with(Dev{"json", "+key", `raw:"dup"`})
	}
	for _, f := range in.Target.F16 {
		for _, v := range len16Menu {
			with(Dev{"len16", f.Name, v})
		}
	}
	for t := 0; t < 16; t++ {
		with(Dev{"type", "", fmt.Sprint(t)})
	}
	for t := 0; t < 16; t++ {
		with(Dev{"flags", "", fmt.Sprint(t)})
	}
	for _, v := range remlenMenu {
		with(Dev{"remlen", "", v})
	}
	for i := 0; i < len(in.Stream); i++ {
		with(Dev{"trunc", "", fmt.Sprint(i)})
	}
	return out
}

// channel shapes (the key prefix stays): rep:<unit>*<n> repeats a unit
var chanDevMenu = []string{
	// malformed option lists (the option parser runs before authorization)
	"a/b/?x", "a/b/?x=", "a/b/?=1", "a/b/?x=1&", "a/b/?x=1&y", "a/b/?last=1&x", "a/b/?x=1&&y=2", "a/b/?x=1=2", "a/b/?&", "a/b/?", "a/b/?x=1&y=", "rep:a/b/?x=1&*2000y",
	"rep:a/*2", "rep:a/*22", "rep:a/*23", "rep:a/*24", "rep:a/*25", "rep:a/*63", "rep:a/*64", "rep:a/*65", "rep:a/*1000", "rep:a/*30000", "rep:+/*64", "rep:a*60000/", "#/", "+/", "a//", "a", "/", "a/#/b/", "$share/g/a/b/"}

var sizeLimits = []int{1024, 65536}

// caseTable is the deterministic list of all cases with at most one deviation. Parent and workers
// compute the same table; work files refer to it by index. The byte strings of length <= 2 come
// first and are computed from the index (not materialised).
type caseTable struct {
	raw  []string // decoder targets that take raw bytes
	rest []Case
}

const rawPerTarget = 1 + 256 + 65536

func (t *caseTable) rawCount() int { return len(t.raw) * rawPerTarget }

// Len is the number of cases.
func (t *caseTable) Len() int { return t.rawCount() + len(t.rest) }

// At returns case i. Order: all empty inputs, all 1-byte inputs, all 2-byte inputs (each grouped
// by target), then seeds x single deviations, the client port, the size limit.
func (t *caseTable) At(i int) Case {
	const hexd = "0123456789abcdef"
	n := len(t.raw)
	if i < n {
		return Case{Group: "decoder", Target: t.raw[i], Raw: "-"}
	}
	i -= n
	if i < n*256 {
		a := i % 256
		return Case{Group: "decoder", Target: t.raw[i/256], Raw: string([]byte{hexd[a>>4], hexd[a&15]})}
	}
	i -= n * 256
	if i < n*65536 {
		a, b := (i%65536)>>8, i&255
		return Case{Group: "decoder", Target: t.raw[i/65536], Raw: string([]byte{hexd[a>>4], hexd[a&15], hexd[b>>4], hexd[b&15]})}
	}
	return t.rest[i-n*65536]
}

func enumerateSingles(e SeedEnv) *caseTable {
	t := &caseTable{}
	// (b) every byte string of length <= 2, for every decoder entry point
	for _, d := range decoderTargets {
		if d.Raw {
			t.raw = append(t.raw, d.Name)
		}
	}
	var out []Case
	// (b) seeds x single deviations
	for _, d := range decoderTargets {
		for _, s := range d.Seeds {
			out = append(out, decoderSingles(e, d.Name, s)...)
		}
	}
	// (a) client port
	for _, s := range clientSeeds() {
		out = append(out, clientSingles(e, s)...)
	}
	// (c) size limit
	for _, n := range sizeLimits {
		for _, k := range []string{"total=N", "remaining=N", "remaining=N+1"} {
			out = append(out, Case{Group: "size", Target: fmt.Sprintf("size:%d", n), Size: k})
		}
	}
	t.rest = out
	return t
}

// render returns the input bytes of a case (nil, false when the combination does not apply).
func render(e SeedEnv, c Case) ([]byte, bool, error) {
	switch c.Group {
	case "client":
		in, ok, err := buildClient(c.Seed, e.Keys, c.Devs)
		return in.Stream, ok, err
	case "decoder":
		if c.Raw != "" {
			if c.Raw == "-" {
				return []byte{}, true, nil
			}
			b, err := hex.DecodeString(c.Raw)
			return b, err == nil, err
		}
		in, ok, err := buildBin(e, c.Seed, c.Devs)
		if ok && c.Target == "Surveyor.Send" && in.Msg != nil {
			b := append(append(append([]byte(nil), in.Msg.ID...), in.Msg.Channel...), in.Msg.Payload...)
			return b, true, nil
		}
		return in.Bytes, ok, err
	}
	return nil, true, nil
}

func hashOf(target string, b []byte) [20]byte {
	h := sha1.New()
	h.Write([]byte(target))
	h.Write([]byte{0})
	h.Write(b)
	var out [20]byte
	copy(out[:], h.Sum(nil))
	return out
}

// compatible tells whether two single deviations may be combined.
func compatible(a, b Dev) bool {
	if a.Kind == b.Kind && a.Field == b.Field {
		return false // the same field twice (also trunc+trunc, type+type ...)
	}
	return true
}
