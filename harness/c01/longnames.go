package c01

// Part (long names): channel levels of 16…40 bytes. Every level name becomes one word of the ssid through the
// broker's hash, and the trie keys its nodes by that word; a family of names that differ from a base name in exactly
// one byte position (every position once) is subscribed by one subscriber each, through the real channel parser,
// and a lookup of each name must return exactly its own subscriber. (That the broker's 32-bit hash keeps THIS
// family apart is a fact about the unchanged tree, not an assumption: the part would report the pair otherwise.)

import (
	"fmt"

	"github.com/emitter-io/emitter/internal/verifx/engine/core"
)

func longFamily(l int) []string {
	base := make([]byte, l)
	for i := range base {
		base[i] = "abcdefghijklmnopqrstuvwxyz0123456789-_.:ABCDEFGH"[i%48]
	}
	names := []string{string(base)}
	for i := 0; i < l; i++ {
		v := append([]byte{}, base...)
		if v[i] == 'Z' {
			v[i] = 'Y'
		} else {
			v[i] = 'Z'
		}
		names = append(names, string(v))
	}
	return names
}

func longNames(c *core.Ctx) {
	for _, mode := range []string{"", "mqtt"} {
		for _, l := range []int{15, 16, 17, 20, 31, 32, 33, 40} {
			for _, where := range []string{"%s/", "a/%s/", "%s/b/"} {
				c.Add("longname_cases", 1)
				t := newTrie(mode)
				names := longFamily(l)
				subs := make([]*subscriber, len(names))
				for i, n := range names {
					subs[i] = &subscriber{fmt.Sprintf("s%d", i)}
					t.Subscribe(mkChannel(1, fmt.Sprintf(where, n)), subs[i])
				}
				for i, n := range names {
					got := ids(t.Lookup(mkChannel(1, fmt.Sprintf(where, n)), nil))
					if len(got) != 1 || !got[subs[i].id] {
						kind := "extra-recipient"
						if !got[subs[i].id] {
							kind = "missing-recipient"
						}
						c.Violate(fmt.Sprintf("%s:long-names:%s", modeName(mode), kind), fmt.Sprintf("%d channels whose %d-byte level differs in one byte each, one subscriber per channel: a lookup of %q returned %v, expected only %s", len(names), l, fmt.Sprintf(where, n), keys(got), subs[i].id), map[string]interface{}{"part": "long-names", "mode": mode})
						break
					}
				}
			}
		}
	}
}
