package c10

// Part (backlog): one publisher, one subscriber connection that is rate-limited for a long burst. Real PUBLISH packets
// of 100 B, 9 KB and 60 KB (real encoder) are written through the real buffered connection with the limiter answering
// "limited" for the whole burst (so the queue grows to about a megabyte), with a timer flush in the middle or not and
// a last write that is limited or not; the socket stream is decoded by the independent decoder: every message once,
// in order.

import (
	"fmt"
	"strings"

	"github.com/emitter-io/emitter/internal/network/listener"
	"github.com/emitter-io/emitter/internal/verifx/engine/core"
)

type backlogCase struct {
	Part     string `json:"part"` // "backlog"
	N        int    `json:"packets"`
	Size     int    `json:"payload_bytes"`
	MidFlush bool   `json:"flush_in_the_middle"`
	LastFree bool   `json:"last_write_not_limited"`
}

func runBacklog(c *core.Ctx, bc backlogCase) {
	sock := &recSock{}
	conn := listener.VerifNewConn(sock, 60)
	yes, no := true, false
	defer func() { forced = nil }()
	for i := 0; i < bc.N; i++ {
		forced = &yes
		if bc.LastFree && i == bc.N-1 {
			forced = &no
		}
		if err := publishSized(conn, 0, i, bc.Size); err != nil {
			c.ViolatePart("backlog", "backlog:write-error", fmt.Sprintf("write %d of %d failed on a healthy socket: %v", i, bc.N, err), bc)
			return
		}
		if bc.MidFlush && i == bc.N/2 {
			conn.Flush()
		}
	}
	forced = nil
	conn.Flush() // the next timer tick
	ps, e := parseStream(sock.stream())
	var want []string
	for i := 0; i < bc.N; i++ {
		want = append(want, fmt.Sprintf("a%d", i))
	}
	kind := ""
	switch {
	case e != "":
		kind = "torn-packet"
	case len(ps) > len(want):
		kind = "duplicated"
	case len(ps) < len(want) || conn.Len() != 0:
		kind = "lost"
	case strings.Join(ps, " ") != strings.Join(want, " "):
		kind = "reordered-within-publisher"
	}
	if kind != "" {
		got := strings.Join(ps, " ")
		if len(got) > 200 {
			got = got[:200] + "…"
		}
		c.ViolatePart("backlog", "backlog:"+kind, fmt.Sprintf("%d packets of %d bytes written while rate-limited (flush in the middle: %v, last write limited: %v): the socket carries %d packets [%s] %s, %d bytes still queued", bc.N, bc.Size, bc.MidFlush, !bc.LastFree, len(ps), got, e, conn.Len()), bc)
	}
}

func partBacklog(c *core.Ctx) {
	for _, n := range []int{2, 8, 20, 40} {
		for _, size := range []int{100, 9000, 60000} {
			if n*size > 1500000 {
				continue
			}
			for v := 0; v < 4; v++ {
				runBacklog(c, backlogCase{Part: "backlog", N: n, Size: size, MidFlush: v&1 != 0, LastFree: v&2 != 0})
				c.Add("backlog_cases", 1)
			}
		}
	}
	c.Sample(backlogCase{Part: "backlog", N: 20, Size: 60000, MidFlush: true})
}
