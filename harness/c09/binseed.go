package c09

import (
	"encoding/binary"
	"encoding/hex"
	"fmt"
	"strconv"
	"strings"

	"github.com/golang/snappy"
)

// ---------------------------------------------------------------------------------------
// Annotated encoder for the kelindar/binary wire format used on the cluster port: it remembers
// where every varint (count, length, number) sits so the deviation menu can address it by name.
// The encoder is cross-checked against the real encoders/decoders when a worker starts (selfCheck).

type vfield struct {
	Name string
	Off  int
	N    int
}

type bbuf struct {
	B []byte
	F []vfield
}

func (w *bbuf) uv(name string, v uint64) {
	var tmp [10]byte
	n := binary.PutUvarint(tmp[:], v)
	w.F = append(w.F, vfield{name, len(w.B), n})
	w.B = append(w.B, tmp[:n]...)
}

func (w *bbuf) sv(name string, v int64) { // zig-zag
	ux := uint64(v) << 1
	if v < 0 {
		ux = ^ux
	}
	w.uv(name, ux)
}

func (w *bbuf) raw(b []byte) { w.B = append(w.B, b...) }

func (w *bbuf) lp(name string, b []byte) { // length-prefixed bytes
	w.uv(name, uint64(len(b)))
	w.raw(b)
}

// models ----------------------------------------------------------------------------------

type msgModel struct {
	ID, Channel, Payload []byte
	TTL                  uint64
}

type itemModel struct{ K, V []byte }

type subsetModel struct {
	Typ   uint64
	Items []itemModel
}

type queryModel struct {
	Ssid        []uint64
	From, Until int64
	Start       []byte
	Limit       int64
}

// binSeed is one seed of the decoder group in model form.
type binSeed struct {
	Name   string
	Snappy bool
	Frame  []msgModel    // frame*, message (exactly one message, no count)
	IsMsg  bool          // encode Frame[0] without the count
	State  []subsetModel // state*
	Query  *queryModel
	Ssid   []uint64
	IsSsid bool
}

func encMsg(w *bbuf, p string, m msgModel) {
	w.lp(p+"idlen", m.ID)
	w.lp(p+"chanlen", m.Channel)
	w.lp(p+"paylen", m.Payload)
	w.uv(p+"ttl", m.TTL)
}

func (s binSeed) encode() *bbuf {
	w := &bbuf{}
	switch {
	case s.IsMsg:
		encMsg(w, "", s.Frame[0])
	case s.State != nil || strings.HasPrefix(s.Name, "state"):
		w.uv("subsets", uint64(len(s.State)))
		for i, ss := range s.State {
			p := fmt.Sprintf("s%d.", i)
			w.uv(p+"typ", ss.Typ)
			w.uv(p+"count", uint64(len(ss.Items)))
			for j, it := range ss.Items {
				q := fmt.Sprintf("%si%d.", p, j)
				w.lp(q+"klen", it.K)
				w.lp(q+"vlen", it.V)
			}
		}
	case s.Query != nil:
		q := s.Query
		w.uv("ssid.count", uint64(len(q.Ssid)))
		for i, e := range q.Ssid {
			w.uv(fmt.Sprintf("ssid.e%d", i), e)
		}
		w.sv("from", q.From)
		w.sv("until", q.Until)
		w.lp("start.len", q.Start)
		w.sv("limit", q.Limit)
	case s.IsSsid:
		w.uv("count", uint64(len(s.Ssid)))
		for i, e := range s.Ssid {
			w.uv(fmt.Sprintf("e%d", i), e)
		}
	default:
		w.uv("count", uint64(len(s.Frame)))
		for i, m := range s.Frame {
			encMsg(w, fmt.Sprintf("m%d.", i), m)
		}
	}
	return w
}

// SeedEnv is what the seeds need from the broker configuration.
type SeedEnv struct {
	Keys     Keys   `json:"keys"`
	Contract uint32 `json:"contract"`
	HashA    uint32 `json:"hash_a"` // hash of channel level "a"
	HashB    uint32 `json:"hash_b"`
}

const (
	idQuery    = uint32(3939663052)
	foreignPee = uint64(2) // peer name 00:00:00:00:00:02
)

func be32(vs ...uint32) []byte {
	out := make([]byte, 4*len(vs))
	for i, v := range vs {
		binary.BigEndian.PutUint32(out[4*i:], v)
	}
	return out
}

func be64(vs ...uint64) []byte {
	out := make([]byte, 8*len(vs))
	for i, v := range vs {
		binary.BigEndian.PutUint64(out[8*i:], v)
	}
	return out
}

// msgID builds a message id the way message.NewID lays it out (time = 2019, fixed counter).
func msgID(ssid ...uint32) []byte {
	id := be32(ssid[0]^ssid[1], 0xffffffff-40000000, 0xffffffff-7, 0x01020304)
	return append(id, be32(ssid...)...)
}

// crdtValue is add-time, del-time, payload.
func crdtValue(add, del uint64, payload []byte) []byte {
	return append(be64(add, del), payload...)
}

// subVal is binary.Marshal of event.Subscription{User, Channel}: two length-prefixed strings.
func subVal(user, channel string) []byte {
	w := &bbuf{}
	w.lp("u", []byte(user))
	w.lp("c", []byte(channel))
	return w.B
}

// connVal is binary.Marshal of event.Connection (bool,bool,uint8,4 byte slices).
func connVal() []byte {
	w := &bbuf{}
	w.raw([]byte{1, 0})
	w.uv("q", 1)
	w.lp("t", []byte("k/will/"))
	w.lp("m", []byte("gone"))
	w.lp("c", []byte("cid"))
	w.lp("u", []byte("user"))
	return w.B
}

func binSeeds(e SeedEnv) []binSeed {
	c, a, b := e.Contract, e.HashA, e.HashB
	now := uint64(1700000000) * 1e9
	querySeed := &queryModel{Ssid: []uint64{uint64(c), uint64(a), uint64(b)}, From: 0, Until: 3029529600, Start: nil, Limit: 5}
	qs := (&binSeed{Name: "query", Query: querySeed}).encode().B
	ss := (&binSeed{Name: "ssid", IsSsid: true, Ssid: []uint64{uint64(c), uint64(a), uint64(b)}}).encode().B
	m0 := msgModel{ID: msgID(c, a, b), Channel: []byte("a/b/"), Payload: []byte("hello"), TTL: 60}
	m1 := msgModel{ID: msgID(c, a), Channel: []byte("a/"), Payload: []byte("x"), TTL: 0}
	subKey := append(be64(foreignPee, 77), be32(c, a, b)...)
	connKey := be64(foreignPee, 77)
	return []binSeed{
		{Name: "frame0", Snappy: true, Frame: []msgModel{}},
		{Name: "frame2", Snappy: true, Frame: []msgModel{m0, m1}},
		{Name: "frame-survey", Snappy: true, Frame: []msgModel{{ID: msgID(0, idQuery, 7), Channel: []byte("ssdstore/2"), Payload: qs}}},
		{Name: "frame-survey-presence", Snappy: true, Frame: []msgModel{{ID: msgID(0, idQuery, 8), Channel: []byte("presence/2"), Payload: ss}}},
		{Name: "frame-response", Snappy: true, Frame: []msgModel{{ID: msgID(0, idQuery, 9), Channel: []byte("response"), Payload: []byte{0}}}},
		{Name: "message", Snappy: true, IsMsg: true, Frame: []msgModel{m0}},
		{Name: "state0", Snappy: true, State: []subsetModel{}},
		{Name: "state1", Snappy: true, State: []subsetModel{{Typ: 0}}},
		{Name: "state", Snappy: true, State: []subsetModel{
			{Typ: 0, Items: []itemModel{{K: subKey, V: crdtValue(now, 0, subVal("user", "a/b/"))}}},
			{Typ: 1, Items: []itemModel{{K: []byte("0123456789abcdefghijklmnopqrstuv"), V: crdtValue(now, 0, nil)}}},
			{Typ: 2, Items: []itemModel{{K: connKey, V: crdtValue(now, 0, connVal())}}},
		}},
		{Name: "state-unsub", Snappy: true, State: []subsetModel{
			{Typ: 0, Items: []itemModel{{K: subKey, V: crdtValue(now, now+1, subVal("user", "a/b/"))}}},
		}},
		{Name: "query", Query: querySeed},
		{Name: "ssid0", IsSsid: true, Ssid: []uint64{}},
		{Name: "ssid", IsSsid: true, Ssid: []uint64{uint64(c), uint64(a), uint64(b)}},
		{Name: "survey-msg", Frame: []msgModel{{ID: msgID(0, idQuery, 7), Channel: []byte("ssdstore/2"), Payload: qs}}},
	}
}

func binSeedByName(e SeedEnv, name string) (binSeed, bool) {
	for _, s := range binSeeds(e) {
		if s.Name == name {
			return s, true
		}
	}
	return binSeed{}, false
}

// numValue parses the symbolic numbers of the menus: 2^31, 2^31-1, 2^63, -1, MinTime+1, ...
func numValue(v string) (uint64, error) {
	base, delta := v, int64(0)
	if i := strings.LastIndexAny(v, "+-"); i > 0 {
		if d, err := strconv.ParseInt(v[i:], 10, 64); err == nil {
			base, delta = v[:i], d
		}
	}
	var x uint64
	switch {
	case strings.HasPrefix(base, "2^"):
		k, err := strconv.Atoi(base[2:])
		if err != nil || k > 63 {
			return 0, fmt.Errorf("bad number %q", v)
		}
		x = 1 << uint(k)
	case base == "MinTime":
		x = 1514764800
	case base == "MaxTime":
		x = 3029529600
	default:
		if strings.HasPrefix(v, "-") {
			n, err := strconv.ParseInt(v, 10, 64)
			return uint64(n), err
		}
		n, err := strconv.ParseUint(base, 10, 64)
		if err != nil {
			return 0, err
		}
		x = n
	}
	return x + uint64(delta), nil
}

// decimalOf renders a symbolic number in decimal (for channel options and JSON numbers).
func decimalOf(v string) string {
	if strings.HasPrefix(v, "-") {
		return v
	}
	n, err := numValue(v)
	if err != nil {
		return v
	}
	return strconv.FormatUint(n, 10)
}

func resize(b []byte, spec string) ([]byte, error) {
	switch {
	case strings.HasPrefix(spec, "len:"):
		n, err := strconv.Atoi(spec[4:])
		if err != nil || n < 0 || n > 1<<20 {
			return nil, fmt.Errorf("bad resize %q", spec)
		}
		out := make([]byte, n)
		copy(out, b)
		return out, nil
	case strings.HasPrefix(spec, "str:"):
		return []byte(spec[4:]), nil
	case strings.HasPrefix(spec, "hex:"):
		return hex.DecodeString(spec[4:])
	}
	return nil, fmt.Errorf("bad resize %q", spec)
}

// applyStruct applies one semantic deviation to the model.
func (s *binSeed) applyStruct(d Dev) error {
	parts := strings.Split(d.Field, ".")
	var err error
	switch {
	case len(s.Frame) > 0 && (strings.HasPrefix(parts[0], "m")):
		i, _ := strconv.Atoi(parts[0][1:])
		if i >= len(s.Frame) || len(parts) != 2 {
			return fmt.Errorf("bad field %s", d.Field)
		}
		m := &s.Frame[i]
		switch parts[1] {
		case "id":
			m.ID, err = resize(m.ID, d.Value)
		case "chan":
			m.Channel, err = resize(m.Channel, d.Value)
		case "pay":
			m.Payload, err = resize(m.Payload, d.Value)
		default:
			err = fmt.Errorf("bad field %s", d.Field)
		}
	case s.State != nil && strings.HasPrefix(parts[0], "s"):
		i, _ := strconv.Atoi(parts[0][1:])
		if i >= len(s.State) {
			return fmt.Errorf("bad field %s", d.Field)
		}
		if len(parts) == 1 {
			if d.Value != "absent" {
				return fmt.Errorf("bad value %s", d.Value)
			}
			s.State = append(s.State[:i:i], s.State[i+1:]...)
			return nil
		}
		if parts[1] == "typ" {
			n, e := numValue(d.Value)
			s.State[i].Typ = n
			return e
		}
		j, _ := strconv.Atoi(parts[1][1:])
		if j >= len(s.State[i].Items) || len(parts) != 3 {
			return fmt.Errorf("bad field %s", d.Field)
		}
		it := &s.State[i].Items[j]
		switch parts[2] {
		case "k":
			it.K, err = resize(it.K, d.Value)
		case "v":
			it.V, err = resize(it.V, d.Value)
		default:
			err = fmt.Errorf("bad field %s", d.Field)
		}
	case s.Query != nil:
		q := s.Query
		switch d.Field {
		case "limit", "from", "until":
			n, e := numValue(d.Value)
			if e != nil {
				return e
			}
			switch d.Field {
			case "limit":
				q.Limit = int64(n)
			case "from":
				q.From = int64(n)
			default:
				q.Until = int64(n)
			}
		case "ssid":
			n, e := strconv.Atoi(strings.TrimPrefix(d.Value, "count:"))
			if e != nil || n > 64 {
				return fmt.Errorf("bad value %s", d.Value)
			}
			for len(q.Ssid) < n {
				q.Ssid = append(q.Ssid, 1)
			}
			q.Ssid = q.Ssid[:n]
		case "start":
			q.Start, err = resize(q.Start, d.Value)
		default:
			err = fmt.Errorf("bad field %s", d.Field)
		}
	case s.IsSsid:
		n, e := strconv.Atoi(strings.TrimPrefix(d.Value, "count:"))
		if e != nil || n > 64 || d.Field != "ssid" {
			return fmt.Errorf("bad dev %v", d)
		}
		for len(s.Ssid) < n {
			s.Ssid = append(s.Ssid, 1)
		}
		s.Ssid = s.Ssid[:n]
	default:
		err = fmt.Errorf("seed %s has no field %s", s.Name, d.Field)
	}
	return err
}

var binOrder = map[string]int{"struct": 0, "varint": 1, "trunc": 2, "zlen": 3, "ztrunc": 4}

// binInput is a rendered decoder input.
type binInput struct {
	Bytes []byte    // what is handed to the entry point
	Msg   *msgModel // for Surveyor.Send
	Raw   []byte    // uncompressed form
	Model *binSeed
}

// buildBin renders a decoder case from its seed and deviations.
func buildBin(e SeedEnv, seedName string, devs []Dev) (in binInput, ok bool, err error) {
	s, found := binSeedByName(e, seedName)
	if !found {
		return in, false, fmt.Errorf("unknown seed %s", seedName)
	}
	// deep copy of what may be modified
	s.Frame = append([]msgModel(nil), s.Frame...)
	if s.State != nil {
		st := make([]subsetModel, len(s.State))
		for i := range s.State {
			st[i] = subsetModel{Typ: s.State[i].Typ, Items: append([]itemModel(nil), s.State[i].Items...)}
		}
		s.State = st
	}
	if s.Query != nil {
		q := *s.Query
		q.Ssid = append([]uint64(nil), q.Ssid...)
		s.Query = &q
	}
	s.Ssid = append([]uint64(nil), s.Ssid...)
	ds := append([]Dev(nil), devs...)
	// canonical order
	for i := 1; i < len(ds); i++ {
		for j := i; j > 0 && binOrder[ds[j].Kind] < binOrder[ds[j-1].Kind]; j-- {
			ds[j], ds[j-1] = ds[j-1], ds[j]
		}
	}
	for _, d := range ds {
		if d.Kind == "struct" {
			if err := s.applyStruct(d); err != nil {
				return in, false, err
			}
		}
	}
	w := s.encode()
	raw := append([]byte(nil), w.B...)
	// varints, applied from the last field to the first so offsets stay valid
	type rep struct {
		f vfield
		v uint64
	}
	var reps []rep
	for _, d := range ds {
		if d.Kind != "varint" {
			continue
		}
		var f *vfield
		for i := range w.F {
			if w.F[i].Name == d.Field {
				f = &w.F[i]
			}
		}
		if f == nil {
			return in, false, nil
		}
		v, err := numValue(d.Value)
		if err != nil {
			return in, false, err
		}
		cur, _ := binary.Uvarint(raw[f.Off : f.Off+f.N])
		if cur == v {
			return in, false, nil
		}
		reps = append(reps, rep{*f, v})
	}
	for i := 0; i < len(reps); i++ {
		for j := i + 1; j < len(reps); j++ {
			if reps[j].f.Off > reps[i].f.Off {
				reps[i], reps[j] = reps[j], reps[i]
			}
		}
	}
	for i, r := range reps {
		if i > 0 && reps[i-1].f.Off == r.f.Off {
			return in, false, nil
		}
		var tmp [10]byte
		n := binary.PutUvarint(tmp[:], r.v)
		nr := append([]byte(nil), raw[:r.f.Off]...)
		nr = append(nr, tmp[:n]...)
		nr = append(nr, raw[r.f.Off+r.f.N:]...)
		raw = nr
	}
	for _, d := range ds {
		if d.Kind == "trunc" {
			n, _ := strconv.Atoi(d.Value)
			if n >= len(raw) {
				return in, false, nil
			}
			raw = raw[:n]
		}
	}
	out := raw
	if s.Snappy {
		out = snappy.Encode(nil, raw)
		for _, d := range ds {
			switch d.Kind {
			case "zlen":
				v, err := numValue(d.Value)
				if err != nil {
					return in, false, err
				}
				cur, n := binary.Uvarint(out)
				if n <= 0 || cur == v {
					return in, false, nil
				}
				var tmp [10]byte
				m := binary.PutUvarint(tmp[:], v)
				out = append(append([]byte(nil), tmp[:m]...), out[n:]...)
			}
		}
		for _, d := range ds {
			if d.Kind == "ztrunc" {
				n, _ := strconv.Atoi(d.Value)
				if n >= len(out) {
					return in, false, nil
				}
				out = out[:n]
			}
		}
	} else {
		for _, d := range ds {
			if d.Kind == "zlen" || d.Kind == "ztrunc" {
				return in, false, nil
			}
		}
	}
	in.Bytes = out
	in.Raw = raw
	in.Model = &s
	if len(s.Frame) > 0 {
		in.Msg = &s.Frame[0]
	}
	return in, true, nil
}
