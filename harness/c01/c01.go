// Package c01: the subscription trie hands a publish to exactly the matching subscribers.
// Part 1 (E2): explicit-state search over subscribe/unsubscribe histories on the real Trie with
// lookups probed in every state. Part 2 (E1): 3-thread interleavings checked for linearizability.
package c01

import (
	"encoding/json"
	"fmt"
	"sort"
	"strings"
	"time"

	"github.com/emitter-io/emitter/internal/message"
	"github.com/emitter-io/emitter/internal/security"
	"github.com/emitter-io/emitter/internal/verifx/engine/core"
	"github.com/emitter-io/emitter/internal/verifx/engine/refmodel"
	"github.com/emitter-io/emitter/internal/verifx/engine/sched"
	"github.com/emitter-io/emitter/internal/verifx/engine/xstate"
)

func init() {
	core.Register(&core.Check{ID: "C01", Level: "model_checking", Run: run, Worker: worker, Replay: replay})
}

type subscriber struct{ id string }

func (s *subscriber) ID() string                   { return s.id }
func (s *subscriber) Type() message.SubscriberType { return message.SubscriberDirect }
func (s *subscriber) Send(*message.Message) error  { return nil }

var subsAll = []*subscriber{{"s1"}, {"s2"}, {"s3"}}

type filter struct {
	Contract uint32
	Text     string // as a client would write it
	Group    string // share group or ""
	Levels   []string
	ssid     message.Ssid
}

func mkFilter(contract uint32, text string) filter {
	f := filter{Contract: contract, Text: text}
	ch := security.ParseChannel([]byte("k/" + text))
	if ch.ChannelType == security.ChannelInvalid {
		panic("bad filter " + text)
	}
	f.ssid = message.NewSsid(contract, ch.Query)
	lv := refmodel.Levels(text)
	if len(lv) >= 2 && lv[0] == "$share" {
		f.Group = lv[1]
		lv = lv[2:]
	}
	f.Levels = lv
	return f
}

func mkChannel(contract uint32, text string) message.Ssid {
	ch := security.ParseChannel([]byte("k/" + text))
	return message.NewSsid(contract, ch.Query)
}

func filtersFor(mode string) []filter {
	var fs []filter
	for _, t := range []string{"a/", "b/", "a/b/", "b/a/", "a/a/", "+/", "a/+/", "+/b/", "$share/g1/a/", "$share/g1/a/b/", "$share/g2/a/"} {
		fs = append(fs, mkFilter(1, t))
	}
	fs = append(fs, mkFilter(2, "a/"))
	if mode == "mqtt" {
		for _, t := range []string{"a/#/", "#/", "a/+/#/", "$share/g1/a/#/"} {
			fs = append(fs, mkFilter(1, t))
		}
	}
	return fs
}

// scenFilters is the filter list of the interleaving scenarios: the sequential alphabet plus a share group in
// the second contract, so that two lookups can each meet exactly one share group (one group per share node keeps
// the execution independent of Go's map iteration order).
func scenFilters(mode string) []filter {
	return append(filtersFor(mode), mkFilter(2, "$share/g1/a/"))
}

type probe struct {
	Contract uint32
	Text     string
}

var probesAll = []probe{{1, "a/"}, {1, "b/"}, {1, "a/b/"}, {1, "b/a/"}, {1, "a/a/"}, {1, "a/b/a/"}, {2, "a/"}}

// ---- reference ------------------------------------------------------------------------------

type pair struct{ F, S int }

// reference returns the direct recipients and the candidate set per share group.
func reference(mode string, fs []filter, model map[pair]bool, p probe, exclude string) (direct map[string]bool, groups map[string]map[string]bool) {
	direct = map[string]bool{}
	groups = map[string]map[string]bool{}
	ch := refmodel.Levels(p.Text)
	for pr := range model {
		f := fs[pr.F]
		id := subsAll[pr.S].id
		if f.Contract != p.Contract || id == exclude {
			continue
		}
		if !refmodel.Match(mode, f.Levels, ch) {
			continue
		}
		if f.Group == "" {
			direct[id] = true
		} else {
			if groups[f.Group] == nil {
				groups[f.Group] = map[string]bool{}
			}
			groups[f.Group][id] = true
		}
	}
	return
}

// admissible: got == direct ∪ {one member per non-empty group} for some choice.
func admissible(got map[string]bool, direct map[string]bool, groups map[string]map[string]bool) (bool, string) {
	for d := range direct {
		if !got[d] {
			return false, "missing-recipient"
		}
	}
	var gnames []string
	for g := range groups {
		gnames = append(gnames, g)
	}
	sort.Strings(gnames)
	var rec func(i int, acc map[string]bool) bool
	rec = func(i int, acc map[string]bool) bool {
		if i == len(gnames) {
			if len(acc) != len(got) {
				return false
			}
			for k := range acc {
				if !got[k] {
					return false
				}
			}
			return true
		}
		for m := range groups[gnames[i]] {
			had := acc[m]
			acc[m] = true
			ok := rec(i+1, acc)
			if !had {
				delete(acc, m)
			}
			if ok {
				return true
			}
		}
		return false
	}
	acc := map[string]bool{}
	for d := range direct {
		acc[d] = true
	}
	if rec(0, acc) {
		return true, ""
	}
	// classify
	union := map[string]bool{}
	for d := range direct {
		union[d] = true
	}
	for _, g := range groups {
		for m := range g {
			union[m] = true
		}
	}
	for k := range got {
		if !union[k] {
			return false, "extra-recipient"
		}
	}
	for _, g := range gnames {
		hit := 0
		for m := range groups[g] {
			if got[m] && !direct[m] {
				hit++
			}
		}
		if hit == 0 {
			anyDirect := false
			for m := range groups[g] {
				if direct[m] {
					anyDirect = true
				}
			}
			if !anyDirect {
				return false, "share-group-skipped"
			}
		}
		if hit > 1 {
			return false, "share-group-multiple"
		}
	}
	return false, "share-mismatch"
}

func ids(s message.Subscribers) map[string]bool {
	out := map[string]bool{}
	for _, v := range s {
		out[v.ID()] = true
	}
	return out
}

func keys(m map[string]bool) []string {
	var out []string
	for k := range m {
		out = append(out, k)
	}
	sort.Strings(out)
	return out
}

// ---- part 1: explicit-state ---------------------------------------------------------------------

type op struct {
	Sub bool
	F   int
	S   int
}

type inst struct {
	mode  string
	fs    []filter
	ops   []op
	t     *message.Trie
	model map[pair]bool
	hist  []op
}

func newTrie(mode string) *message.Trie {
	if mode == "mqtt" {
		return message.NewTrieMQTT()
	}
	return message.NewTrie()
}

func (in *inst) Enabled() []int {
	out := make([]int, len(in.ops))
	for i := range out {
		out[i] = i
	}
	return out
}

func (in *inst) Apply(i int) {
	o := in.ops[i]
	in.hist = append(in.hist, o)
	f := in.fs[o.F]
	if o.Sub {
		in.t.Subscribe(f.ssid, subsAll[o.S])
		in.model[pair{o.F, o.S}] = true
	} else {
		in.t.Unsubscribe(f.ssid, subsAll[o.S])
		delete(in.model, pair{o.F, o.S})
	}
}

func (in *inst) sig(kind string, p *probe) string {
	var fl []string
	seen := map[string]bool{}
	for _, o := range in.hist {
		t := in.fs[o.F].Text
		if in.fs[o.F].Contract == 2 {
			t = "c2:" + t
		}
		if !seen[t] {
			seen[t] = true
			fl = append(fl, t)
		}
	}
	sort.Strings(fl)
	m := in.mode
	if m == "" {
		m = "emitter"
	}
	s := m + ":" + kind + ":filters=" + strings.Join(fl, ",")
	if p != nil {
		s += fmt.Sprintf(":probe=c%d:%s", p.Contract, p.Text)
	}
	return s
}

func (in *inst) Check() (string, string) {
	if c := in.t.Count(); c != len(in.model) {
		return in.sig("count", nil), fmt.Sprintf("Count()=%d but %d subscriptions are held", c, len(in.model))
	}
	if len(in.model) == 0 {
		nodes, pairs, _ := in.t.VerifDump()
		if nodes != 0 || len(pairs) != 0 {
			return in.sig("leaked-node", nil), fmt.Sprintf("every subscription was removed but the index still has %d nodes / %d entries", nodes, len(pairs))
		}
	}
	for pi := range probesAll {
		p := probesAll[pi]
		ssid := mkChannel(p.Contract, p.Text)
		for _, excl := range []string{"", "s1"} {
			direct, groups := reference(in.mode, in.fs, in.model, p, excl)
			var fl func(message.Subscriber) bool
			if excl != "" {
				fl = func(s message.Subscriber) bool { return s.ID() != excl }
			}
			reps := 1
			if len(groups) > 0 {
				reps = 4
			}
			for r := 0; r < reps; r++ {
				got := ids(in.t.Lookup(ssid, fl))
				if ok, kind := admissible(got, direct, groups); !ok {
					return in.sig(kind, &p), fmt.Sprintf("lookup of %s (contract %d, excluding %q) returned %v; reference: direct=%v share candidates=%v", p.Text, p.Contract, excl, keys(got), keys(direct), groups)
				}
			}
		}
	}
	return "", ""
}

func (in *inst) Key() string {
	nodes, pairs, count := in.t.VerifDump()
	var b strings.Builder
	fmt.Fprintf(&b, "%d/%d|", nodes, count)
	for _, p := range pairs {
		fmt.Fprintf(&b, "%v:%s;", []uint32(p.Ssid), p.ID)
	}
	return b.String()
}

func (in *inst) Close() {}

func opsFor(fs []filter) []op {
	var ops []op
	for _, sub := range []bool{true, false} {
		for f := range fs {
			for s := range subsAll {
				ops = append(ops, op{sub, f, s})
			}
		}
	}
	return ops
}

func opName(fs []filter, o op) string {
	k := "unsub"
	if o.Sub {
		k = "sub"
	}
	return fmt.Sprintf("%s(c%d:%s,%s)", k, fs[o.F].Contract, fs[o.F].Text, subsAll[o.S].id)
}

func search(c *core.Ctx, mode string, depth int) {
	fs := filtersFor(mode)
	ops := opsFor(fs)
	names := make([]string, len(ops))
	for i, o := range ops {
		names[i] = opName(fs, o)
	}
	spec := &xstate.Spec{Name: "c01-" + mode, Alphabet: names, Depth: depth, Workers: core.NumWorkers(), Deadline: c.Deadline,
		New: func(w int) xstate.Instance {
			return &inst{mode: mode, fs: fs, ops: ops, t: newTrie(mode), model: map[pair]bool{}}
		}}
	res := xstate.Run(spec)
	tag := mode
	if tag == "" {
		tag = "emitter"
	}
	c.Add("states", int64(res.States))
	c.Add("transitions", res.Transitions)
	c.Add("traces_validated_against_impl", res.Replays)
	c.Set("depth_completed_"+tag, res.DepthCompleted)
	c.Set("states_"+tag, res.States)
	if !res.Exhaustive {
		c.NotExhaustive(fmt.Sprintf("%s: time cap at depth %d", tag, res.DepthCompleted))
	}
	for i, p := range res.SamplePaths {
		if i < 2 {
			c.Sample(map[string]interface{}{"part": "histories", "matcher": tag, "history": p})
		}
	}
	for _, f := range res.Violations {
		c.Violate(f.Sig, f.What+" | history: "+strings.Join(f.Path, ", "), map[string]interface{}{"part": "hist", "mode": mode, "ops": f.Ops, "history": f.Path})
	}
}

// wide: many subscribers on one node (the sets start with room for 16), many members in a share group, many filters
// below one node: every direct subscriber once, exactly one member per group, and an empty index afterwards.
func wide(c *core.Ctx) {
	for _, mode := range []string{"", "mqtt"} {
		for _, n := range []int{15, 16, 17, 33, 100, 300} {
			c.Add("wide_cases", 1)
			t := newTrie(mode)
			direct := map[string]bool{}
			var subs []*subscriber
			for i := 0; i < n; i++ {
				s := &subscriber{fmt.Sprintf("d%d", i)}
				subs = append(subs, s)
				direct[s.id] = true
				t.Subscribe(mkChannel(1, "a/"), s)
				t.Subscribe(mkChannel(1, fmt.Sprintf("a/n%d/", i)), s) // n children below a/
			}
			group := map[string]bool{}
			for i := 0; i < n; i++ {
				s := &subscriber{fmt.Sprintf("g%d", i)}
				subs = append(subs, s)
				group[s.id] = true
				t.Subscribe(mkChannel(1, "$share/g1/a/"), s)
			}
			bad := func(kind, what string) {
				c.Violate(fmt.Sprintf("%s:wide:%s", modeName(mode), kind), fmt.Sprintf("%d direct subscribers and a share group of %d on a/: %s", n, n, what), map[string]interface{}{"part": "wide", "mode": mode, "n": n})
			}
			for rep := 0; rep < 4; rep++ {
				got := ids(t.Lookup(mkChannel(1, "a/"), nil))
				nd, ng := 0, 0
				for id := range got {
					switch {
					case direct[id]:
						nd++
					case group[id]:
						ng++
					default:
						bad("extra-recipient", "lookup returned "+id)
					}
				}
				if nd != n {
					bad("missing-recipient", fmt.Sprintf("lookup returned %d of the %d direct subscribers", nd, n))
				}
				if ng != 1 {
					bad("share-group", fmt.Sprintf("lookup returned %d members of the share group, expected exactly one", ng))
				}
			}
			if got := ids(t.Lookup(mkChannel(1, fmt.Sprintf("a/n%d/", n-1)), nil)); mode == "" && (len(got) != n+1) {
				bad("missing-recipient", fmt.Sprintf("lookup of a/n%d/ returned %d recipients, expected %d (every a/ subscriber and one share member)", n-1, len(got), n+1))
			}
			if t.Count() != 3*n {
				bad("count", fmt.Sprintf("Count() = %d, expected %d", t.Count(), 3*n))
			}
			for i, s := range subs {
				if i < n {
					t.Unsubscribe(mkChannel(1, "a/"), s)
					t.Unsubscribe(mkChannel(1, fmt.Sprintf("a/n%d/", i)), s)
				} else {
					t.Unsubscribe(mkChannel(1, "$share/g1/a/"), s)
				}
			}
			if nodes, pairs, count := t.VerifDump(); nodes != 0 || len(pairs) != 0 || count != 0 {
				bad("leaked-node", fmt.Sprintf("after removing everything the index holds %d nodes, %d entries, count %d", nodes, len(pairs), count))
			}
		}
	}
}

func modeName(mode string) string {
	if mode == "" {
		return "emitter"
	}
	return mode
}

// Subscribers.Random must return a member for every rnd.
func randomPick(c *core.Ctx) {
	rnds := []uint32{0, 1, 1<<31 - 1, 1 << 31, 1<<32 - 1}
	for k := uint32(0); k < 16; k++ {
		rnds = append(rnds, k<<28)
	}
	for size := 1; size <= 3; size++ {
		t := message.NewTrie()
		ss := mkChannel(1, "a/")
		for i := 0; i < size; i++ {
			t.Subscribe(ss, subsAll[i])
		}
		set := t.Lookup(ss, nil)
		for _, r := range rnds {
			c.Add("random_pick_cases", 1)
			v := set.Random(r)
			if v == nil || !ids(set)[v.ID()] {
				c.Violate(fmt.Sprintf("random-pick:size%d", size), fmt.Sprintf("Random(%d) on %d subscribers returned a non-member", r, size), map[string]interface{}{"part": "random", "size": size, "rnd": r})
			}
		}
	}
}

// ---- part 2: interleavings (E1) -----------------------------------------------------------------

type cop struct {
	Kind string // sub unsub lookup
	F    int    // filter index (sub/unsub)
	S    int
	P    int // probe index (lookup)
}

type call struct {
	Thread, Idx int
	Op          cop
	Start, End  int
	Got         []string
}

type scen struct {
	Name    string
	Mode    string
	Threads [][]cop
	Pre     []cop // applied before the threads start
}

func fidx(fs []filter, contract uint32, text string) int {
	for i, f := range fs {
		if f.Contract == contract && f.Text == text {
			return i
		}
	}
	panic("no filter " + text)
}

func pidx(contract uint32, text string) int {
	for i, p := range probesAll {
		if p.Contract == contract && p.Text == text {
			return i
		}
	}
	panic("no probe " + text)
}

func scens() []scen {
	e := scenFilters("")
	m := scenFilters("mqtt")
	return []scen{
		{Name: "prune-vs-walk", Mode: "", Threads: [][]cop{
			{{Kind: "sub", F: fidx(e, 1, "a/b/"), S: 0}, {Kind: "unsub", F: fidx(e, 1, "a/b/"), S: 0}},
			{{Kind: "sub", F: fidx(e, 1, "a/"), S: 1}, {Kind: "unsub", F: fidx(e, 1, "a/"), S: 1}},
			{{Kind: "lookup", P: pidx(1, "a/b/")}, {Kind: "lookup", P: pidx(1, "a/b/a/")}},
		}},
		{Name: "same-filter-twice", Mode: "", Threads: [][]cop{
			{{Kind: "sub", F: fidx(e, 1, "a/b/"), S: 0}, {Kind: "unsub", F: fidx(e, 1, "a/b/"), S: 0}},
			{{Kind: "sub", F: fidx(e, 1, "a/b/"), S: 0}},
			{{Kind: "lookup", P: pidx(1, "a/b/")}, {Kind: "sub", F: fidx(e, 1, "a/b/"), S: 1}},
		}},
		// a single share group with a single member: the pick is forced, so the execution is
		// deterministic (multi-member picks depend on Go's randomised map iteration and are covered
		// by the sequential search, where every lookup is repeated)
		{Name: "share-and-direct", Mode: "", Threads: [][]cop{
			{{Kind: "sub", F: fidx(e, 1, "$share/g1/a/"), S: 0}, {Kind: "sub", F: fidx(e, 1, "a/"), S: 0}},
			{{Kind: "unsub", F: fidx(e, 1, "$share/g1/a/"), S: 0}},
			{{Kind: "lookup", P: pidx(1, "a/")}, {Kind: "lookup", P: pidx(1, "a/b/")}},
		}},
		// a stray unsubscribe (subscriber not present, path present) racing with "last subscriber
		// leaves, another one arrives" on the same filter: the whole branch is pruned and re-created
		{Name: "stray-unsubscribe", Mode: "", Pre: []cop{{Kind: "sub", F: fidx(e, 1, "a/b/"), S: 0}}, Threads: [][]cop{
			{{Kind: "unsub", F: fidx(e, 1, "a/b/"), S: 1}},
			{{Kind: "unsub", F: fidx(e, 1, "a/b/"), S: 0}, {Kind: "sub", F: fidx(e, 1, "a/b/"), S: 2}},
			{{Kind: "lookup", P: pidx(1, "a/b/")}},
		}},
		// two publishes at the same time, each meeting a share group (of its own contract): lookups only hold the
		// read lock, so whatever scratch state the share selection uses must not be shared between them
		{Name: "concurrent-share-lookups", Mode: "", Pre: []cop{
			{Kind: "sub", F: fidx(e, 1, "$share/g1/a/"), S: 0}, {Kind: "sub", F: fidx(e, 2, "$share/g1/a/"), S: 1}, {Kind: "sub", F: fidx(e, 1, "a/b/"), S: 2}}, Threads: [][]cop{
			{{Kind: "lookup", P: pidx(2, "a/")}, {Kind: "lookup", P: pidx(1, "a/b/")}},
			{{Kind: "lookup", P: pidx(1, "a/")}, {Kind: "lookup", P: pidx(2, "a/")}},
		}},
		{Name: "mqtt-multi-wildcard", Mode: "mqtt", Threads: [][]cop{
			{{Kind: "sub", F: fidx(m, 1, "a/#/"), S: 0}, {Kind: "unsub", F: fidx(m, 1, "a/#/"), S: 0}},
			{{Kind: "sub", F: fidx(m, 1, "a/b/"), S: 1}},
			{{Kind: "lookup", P: pidx(1, "a/b/")}, {Kind: "lookup", P: pidx(1, "a/")}},
		}},
	}
}

type sharedRun struct {
	calls []*call
	clock int
	t     *message.Trie
}

func applyReal(t *message.Trie, fs []filter, o cop) []string {
	switch o.Kind {
	case "sub":
		t.Subscribe(fs[o.F].ssid, subsAll[o.S])
	case "unsub":
		t.Unsubscribe(fs[o.F].ssid, subsAll[o.S])
	case "lookup":
		p := probesAll[o.P]
		return keys(ids(t.Lookup(mkChannel(p.Contract, p.Text), nil)))
	}
	return nil
}

func (sc scen) scenario() *sched.Scenario {
	fs := scenFilters(sc.Mode)
	var last *sharedRun
	return &sched.Scenario{
		Name:  sc.Name,
		Files: []string{"internal/message/subtrie.go", "internal/message/sub.go"},
		Body: func(s *sched.Sched) {
			r := &sharedRun{t: newTrie(sc.Mode)}
			last = r
			for _, o := range sc.Pre {
				applyReal(r.t, fs, o)
			}
			for ti, ops := range sc.Threads {
				ti, ops := ti, ops
				s.Go(fmt.Sprintf("T%d", ti), func() {
					for i, o := range ops {
						cl := &call{Thread: ti, Idx: i, Op: o}
						r.clock++
						cl.Start = r.clock
						r.calls = append(r.calls, cl)
						cl.Got = applyReal(r.t, fs, o)
						r.clock++
						cl.End = r.clock
					}
				})
			}
			s.AtEnd(func() {
				sig, what := linearizable(sc, fs, r)
				s.Obs("%s", canonicalHistory(sc, fs, r))
				s.Obs("verdict=%s|%s", sig, what)
			})
		},
		Check: func(x *sched.Exec) (string, string) {
			_ = last
			for _, o := range x.Obs {
				if strings.HasPrefix(o, "verdict=") {
					parts := strings.SplitN(strings.TrimPrefix(o, "verdict="), "|", 2)
					if parts[0] != "" {
						return parts[0], parts[1]
					}
					return "", ""
				}
			}
			return "no-verdict", "execution did not complete"
		},
	}
}

// canonicalHistory prints the call/return history with share picks abstracted away.
func canonicalHistory(sc scen, fs []filter, r *sharedRun) string {
	var parts []string
	for _, cl := range r.calls {
		d := fmt.Sprintf("T%d.%d[%d,%d]%s", cl.Thread, cl.Idx, cl.Start, cl.End, cl.Op.Kind)
		if cl.Op.Kind == "lookup" {
			// print only members that are direct in every state this scenario can be in is not computable here;
			// print the size class and the non-share members
			d += "=" + fmt.Sprint(len(cl.Got))
		}
		parts = append(parts, d)
	}
	return strings.Join(parts, " ")
}

// linearizable searches a sequential witness consistent with real-time order.
func linearizable(sc scen, fs []filter, r *sharedRun) (string, string) {
	n := len(r.calls)
	used := make([]bool, n)
	base := map[pair]bool{}
	for _, o := range sc.Pre {
		if o.Kind == "sub" {
			base[pair{o.F, o.S}] = true
		}
	}
	var finalOK bool
	_, pairs, count := r.t.VerifDump()
	implPairs := map[string]bool{}
	for _, p := range pairs {
		implPairs[fmt.Sprintf("%v:%s", []uint32(p.Ssid), p.ID)] = true
	}
	matchFinal := func(model map[pair]bool) bool {
		if len(model) != len(implPairs) || count != len(model) {
			return false
		}
		for pr := range model {
			if !implPairs[fmt.Sprintf("%v:%s", []uint32(fs[pr.F].ssid), subsAll[pr.S].id)] {
				return false
			}
		}
		return true
	}
	var rec func(done int, model map[pair]bool) bool
	rec = func(done int, model map[pair]bool) bool {
		if done == n {
			if matchFinal(model) {
				finalOK = true
				return true
			}
			return false
		}
		for i, cl := range r.calls {
			if used[i] {
				continue
			}
			// real-time order: every unused call that ended before this one started must go first
			ok := true
			for j, o := range r.calls {
				if !used[j] && j != i && o.End < cl.Start {
					ok = false
					break
				}
			}
			if !ok {
				continue
			}
			var undo func()
			switch cl.Op.Kind {
			case "sub":
				pr := pair{cl.Op.F, cl.Op.S}
				had := model[pr]
				model[pr] = true
				undo = func() {
					if !had {
						delete(model, pr)
					}
				}
			case "unsub":
				pr := pair{cl.Op.F, cl.Op.S}
				had := model[pr]
				delete(model, pr)
				undo = func() {
					if had {
						model[pr] = true
					}
				}
			case "lookup":
				direct, groups := reference(sc.Mode, fs, model, probesAll[cl.Op.P], "")
				got := map[string]bool{}
				for _, g := range cl.Got {
					got[g] = true
				}
				if ok, _ := admissible(got, direct, groups); !ok {
					continue
				}
				undo = func() {}
			}
			used[i] = true
			if rec(done+1, model) {
				return true
			}
			used[i] = false
			undo()
		}
		return false
	}
	if rec(0, base) {
		return "", ""
	}
	_ = finalOK
	return "non-linearizable:" + sc.Name, "no sequential order of the calls explains the observed results and the final index: " + describeCalls(fs, r)
}

func describeCalls(fs []filter, r *sharedRun) string {
	var parts []string
	for _, cl := range r.calls {
		d := fmt.Sprintf("T%d[%d..%d] ", cl.Thread, cl.Start, cl.End)
		switch cl.Op.Kind {
		case "lookup":
			d += fmt.Sprintf("lookup(%s)=%v", probesAll[cl.Op.P].Text, cl.Got)
		default:
			d += fmt.Sprintf("%s(%s,%s)", cl.Op.Kind, fs[cl.Op.F].Text, subsAll[cl.Op.S].id)
		}
		parts = append(parts, d)
	}
	_, pairs, count := r.t.VerifDump()
	return strings.Join(parts, "; ") + fmt.Sprintf(" | final count=%d entries=%d", count, len(pairs))
}

func worker(c *core.Ctx, args []string) {
	var si, bound, shard, n int
	fmt.Sscan(args[0], &si)
	fmt.Sscan(args[1], &bound)
	fmt.Sscan(args[2], &shard)
	fmt.Sscan(args[3], &n)
	sc := scens()[si]
	e := &sched.Explorer{Sc: sc.scenario(), Bound: bound, Shard: shard, NShards: n, Deadline: c.Deadline}
	st := e.Explore()
	c.Add("schedules", st.Executions)
	c.Add("replay_divergences", st.Divergences)
	c.Add("schedules:"+sc.Name, st.Executions)
	for o := range st.Outcomes {
		c.Distinct("outcomes:"+sc.Name, o)
	}
	if !st.Exhaustive {
		c.NotExhaustive(fmt.Sprintf("scenario %s bound %d shard %d: time cap", sc.Name, bound, shard))
	}
	if shard == 0 && bound == 0 {
		c.Sample(map[string]interface{}{"part": "interleavings", "scenario": sc.Name, "default_schedule": st.FirstTrace})
	}
	for _, f := range st.Violations {
		c.Violate(f.Sig, f.What+fmt.Sprintf(" | preempted at %v", f.Sites), map[string]interface{}{"part": "sched", "scenario": si, "choices": f.Choices, "bound": bound})
	}
}

func run(c *core.Ctx) {
	depth := 3
	if !c.Quick() {
		depth = 4
	}
	search(c, "", depth)
	search(c, "mqtt", depth)
	randomPick(c)
	wide(c)
	longNames(c)
	bound := 2
	if !c.Quick() {
		bound = 3
	}
	n := core.NumWorkers()
	// bound-major: every scenario is finished at bound b before any starts bound b+1, so a time cap
	// only ever cuts the deepest bound
	completed := -1
	for b := 0; b <= bound && !c.Expired(); b++ {
		for si := range scens() {
			shards := n
			if b < 2 {
				shards = 1
			}
			outs := c.Shard(shards, n, func(i int) []string {
				return []string{fmt.Sprint(si), fmt.Sprint(b), fmt.Sprint(i), fmt.Sprint(shards)}
			}, 20*time.Minute)
			c.CheckShards(outs)
		}
		if !c.Expired() {
			completed = b
		}
	}
	bound = completed
	c.Set("preemption_bound_completed", bound)
	c.Set("history_depth", depth)
	for _, sc := range scens() {
		c.Set("distinct_outcomes_"+sc.Name, c.DistinctCount("outcomes:"+sc.Name))
	}
	c.Add("states", c.Count("schedules"))
	c.Add("transitions", c.Count("schedules"))
	c.Add("traces_validated_against_impl", c.Count("schedules"))
	c.Assume("murmur32 collisions between level names / subscriber ids are outside the alphabet")
	c.Assume("interleavings are sequentially consistent at statement granularity of subtrie.go/sub.go")
}

func replay(c *core.Ctx, raw json.RawMessage) {
	var cs struct {
		Part     string `json:"part"`
		Mode     string `json:"mode"`
		Ops      []int  `json:"ops"`
		Scenario int    `json:"scenario"`
		Choices  []int  `json:"choices"`
	}
	json.Unmarshal(raw, &cs)
	switch cs.Part {
	case "hist":
		fs := filtersFor(cs.Mode)
		in := &inst{mode: cs.Mode, fs: fs, ops: opsFor(fs), t: newTrie(cs.Mode), model: map[pair]bool{}}
		for _, o := range cs.Ops {
			in.Apply(o)
		}
		if s, w := in.Check(); s != "" {
			c.Violate(s, w, cs)
		}
	case "sched":
		sc := scens()[cs.Scenario].scenario()
		sched.EnableFiles(sc.Files...)
		x := sched.Run(cs.Choices, true, sc.Body)
		s, w := sc.Check(x)
		if x.Deadlock {
			s, w = "deadlock", strings.Join(x.Blocked, ";")
		} else if len(x.Panics) > 0 {
			s, w = "panic", x.Panics[0]
		}
		if s != "" {
			c.Violate(s, w, cs)
		}
	case "random":
		randomPick(c)
	case "wide":
		wide(c)
	case "long-names":
		longNames(c)
	}
}
