package xstate

import (
	"bufio"
	"encoding/json"
	"fmt"
	"io"
	"os"
	"os/exec"
	"sync"
	"time"
)

// Process-distributed variant of Run: the coordinator owns the seen-set and the frontier; the
// expansion of a frontier state (replays on fresh instances) happens in worker PROCESSES that are
// recycled after a number of requests. Used where instances cannot be released (real brokers leave
// goroutines and caches behind) or where the code under test has process-global hooks.

// ProcOpts configures RunProcs.
type ProcOpts struct {
	CheckID  string   // check id the worker entry belongs to
	Tier     string   // tier passed to the worker
	Args     []string // extra worker arguments (the check's Worker entry maps them to the same Spec)
	Procs    int      // number of worker processes
	Recycle  int      // requests served by one process before it is replaced
	Env      []string
	Deadline time.Time
}

type procReq struct {
	Path []int `json:"path"`
}

type procChild struct {
	Op   int    `json:"op"`
	Sig  string `json:"sig,omitempty"`
	What string `json:"what,omitempty"`
	Key  string `json:"key,omitempty"`
}

type procResp struct {
	Children []procChild `json:"children"`
	Replays  int64       `json:"replays"`
	Err      string      `json:"err,omitempty"`
}

// Serve is the worker side: it answers expansion requests read from stdin until EOF.
func Serve(s *Spec) {
	in := bufio.NewReaderSize(os.Stdin, 1<<20)
	out := bufio.NewWriterSize(os.Stdout, 1<<20)
	for {
		line, err := in.ReadBytes('\n')
		if len(line) > 0 {
			var req procReq
			var resp procResp
			if e := json.Unmarshal(line, &req); e != nil {
				resp.Err = e.Error()
			} else {
				func() {
					defer func() {
						if r := recover(); r != nil {
							resp.Err = fmt.Sprintf("worker panic: %v", r)
						}
					}()
					base := s.Build(0, req.Path)
					en := base.Enabled()
					base.Close()
					resp.Replays++
					for _, op := range en {
						in := s.Build(0, req.Path)
						in.Apply(op)
						key := in.Key() // before the probes of Check (see xstate.go)
						sig, what := in.Check()
						ch := procChild{Op: op, Sig: sig, What: what}
						if sig == "" {
							h := hashKey(key)
							ch.Key = string(fmtHex(h[:]))
						}
						in.Close()
						resp.Replays++
						resp.Children = append(resp.Children, ch)
					}
				}()
			}
			b, _ := json.Marshal(resp)
			out.Write(b)
			out.WriteByte('\n')
			out.Flush()
		}
		if err != nil {
			return
		}
	}
}

func fmtHex(b []byte) []byte {
	const hx = "0123456789abcdef"
	o := make([]byte, 2*len(b))
	for i, v := range b {
		o[2*i], o[2*i+1] = hx[v>>4], hx[v&15]
	}
	return o
}

type proc struct {
	cmd    *exec.Cmd
	in     io.WriteCloser
	out    *bufio.Reader
	served int
}

func startProc(o ProcOpts) (*proc, error) {
	args := append([]string{"worker", o.CheckID, o.Tier}, o.Args...)
	cmd := exec.Command(os.Args[0], args...)
	cmd.Env = append(os.Environ(), o.Env...)
	if !o.Deadline.IsZero() {
		cmd.Env = append(cmd.Env, fmt.Sprintf("VERIF_DEADLINE_UNIX=%d", o.Deadline.Unix()))
	}
	cmd.Stderr = os.Stderr
	in, err := cmd.StdinPipe()
	if err != nil {
		return nil, err
	}
	outp, err := cmd.StdoutPipe()
	if err != nil {
		return nil, err
	}
	if err := cmd.Start(); err != nil {
		return nil, err
	}
	return &proc{cmd: cmd, in: in, out: bufio.NewReaderSize(outp, 1<<20)}, nil
}

func (p *proc) stop() {
	p.in.Close()
	done := make(chan struct{})
	go func() { p.cmd.Wait(); close(done) }()
	select {
	case <-done:
	case <-time.After(20 * time.Second):
		p.cmd.Process.Kill()
		<-done
	}
}

func (p *proc) ask(path []int) (procResp, error) {
	b, _ := json.Marshal(procReq{Path: path})
	if _, err := p.in.Write(append(b, '\n')); err != nil {
		return procResp{}, err
	}
	for {
		line, err := p.out.ReadBytes('\n')
		if err != nil {
			return procResp{}, err
		}
		if len(line) > 0 && line[0] == '{' {
			var r procResp
			if e := json.Unmarshal(line, &r); e != nil {
				return r, e
			}
			return r, nil
		}
		// anything else on stdout (e.g. a WORKER-RESULT line at exit) is ignored here
	}
}

// RunProcs is Run with process workers. The root state is built in the coordinator.
func RunProcs(s *Spec, o ProcOpts) (*Result, error) {
	if o.Procs <= 0 {
		o.Procs = 16
	}
	if o.Recycle <= 0 {
		o.Recycle = 50
	}
	res := &Result{Exhaustive: true}
	seen := map[string]struct{}{}
	sigs := map[string]bool{}
	var mu sync.Mutex

	root := s.Build(0, nil)
	if sig, what := root.Check(); sig != "" {
		res.Violations = append(res.Violations, Found{Sig: sig, What: what})
		root.Close()
		return res, nil
	}
	rh := hashKey(root.Key())
	seen[string(fmtHex(rh[:]))] = struct{}{}
	root.Close()
	frontier := []item{{}}
	var firstErr error

	for depth := 0; depth < s.Depth && len(frontier) > 0; depth++ {
		var next []item
		jobs := make(chan item, len(frontier))
		for _, it := range frontier {
			jobs <- it
		}
		close(jobs)
		stopped := false
		var wg sync.WaitGroup
		for w := 0; w < o.Procs; w++ {
			wg.Add(1)
			go func() {
				defer wg.Done()
				var p *proc
				defer func() {
					if p != nil {
						p.stop()
					}
				}()
				for it := range jobs {
					if !s.Deadline.IsZero() && time.Now().After(s.Deadline) {
						mu.Lock()
						stopped = true
						res.FrontierLeft++
						mu.Unlock()
						continue
					}
					var resp procResp
					var err error
					for attempt := 0; attempt < 2; attempt++ {
						if p == nil || p.served >= o.Recycle {
							if p != nil {
								p.stop()
							}
							if p, err = startProc(o); err != nil {
								break
							}
						}
						p.served++
						if resp, err = p.ask(it.path); err == nil && resp.Err == "" {
							break
						}
						// the worker died or failed: replace it and try this path once more
						p.stop()
						p = nil
					}
					mu.Lock()
					if err != nil || resp.Err != "" {
						if firstErr == nil {
							firstErr = fmt.Errorf("expansion of %v failed twice: %v %s", s.Names(it.path), err, resp.Err)
						}
						mu.Unlock()
						continue
					}
					res.Replays += resp.Replays
					for _, ch := range resp.Children {
						res.Transitions++
						np := append(append([]int(nil), it.path...), ch.Op)
						if ch.Sig != "" {
							if !sigs[ch.Sig] {
								sigs[ch.Sig] = true
								res.Violations = append(res.Violations, Found{Sig: ch.Sig, What: ch.What, Path: s.Names(np), Ops: np})
							}
							continue
						}
						if _, ok := seen[ch.Key]; !ok {
							seen[ch.Key] = struct{}{}
							next = append(next, item{path: np})
							if len(res.SamplePaths) < 6 && len(np) >= 2 {
								res.SamplePaths = append(res.SamplePaths, s.Names(np))
							}
						}
					}
					mu.Unlock()
				}
			}()
		}
		wg.Wait()
		if firstErr != nil {
			return res, firstErr
		}
		if stopped {
			res.Exhaustive = false
			break
		}
		res.DepthCompleted = depth + 1
		frontier = next
	}
	res.States = len(seen)
	return res, nil
}
