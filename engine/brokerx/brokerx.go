// Package brokerx builds real broker.Service instances for the harnesses (no ports, quiet logging,
// noop monitor) and mints keys through the real key generator.
package brokerx

import (
	"context"
	"encoding/base64"
	"fmt"
	"os"
	"sync"
	"time"

	cfg "github.com/emitter-io/config"
	"github.com/emitter-io/emitter/internal/broker"
	"github.com/emitter-io/emitter/internal/config"
	"github.com/emitter-io/emitter/internal/provider/logging"
	"github.com/emitter-io/emitter/internal/security"
	"github.com/emitter-io/emitter/internal/security/license"
	"github.com/weaveworks/mesh"
)

type quiet struct{}

func (quiet) Name() string                                  { return "quiet" }
func (quiet) Configure(config map[string]interface{}) error { return nil }
func (quiet) Printf(format string, v ...interface{})        {}

var devnull, _ = os.OpenFile("/dev/null", os.O_WRONLY, 0)
var mu sync.Mutex

func init() { logging.Logger = quiet{} }

// Options selects the broker configuration.
type Options struct {
	LicenseVersion int    // 1, 2 or 3 (default 3); 4 = version 1 with a zero contract signature
	Contract       *cfg.ProviderConfig // contract provider (default: the single-contract provider of the license)
	Matcher        string // "" (emitter) or "mqtt"
	Storage        string // "noop" (default), "inmemory", "ssd"
	StorageDir     string
	StorageRetain  int
	Cluster        *config.ClusterConfig // explicit cluster configuration (overrides the default one)
	NoCluster      bool                  // build the broker without a cluster section (not the shipped default)
	Node           int                   // node number (peer name 00:00:00:00:00:NN), default 1
	ClusterDir     string                // state directory of the cluster (default: a fresh temp dir, removed on Close)
	KeepGossip     bool                  // do not replace the mesh gossip sender by a sink
	MessageSize    int
	ReadRate       int // packets per second a connection may send before it is throttled (0: the broker's default)
}

// sink swallows everything a single broker would gossip.
type sink struct{}

func (sink) GossipUnicast(dst mesh.PeerName, msg []byte) error { return nil }
func (sink) GossipBroadcast(update mesh.GossipData)            {}
func (sink) GossipNeighbourSubset(update mesh.GossipData)      {}

// Env is a broker plus the material to mint keys.
type Env struct {
	Svc     *broker.Service
	License license.License
	Cipher  license.Cipher
	Master  string // encrypted master key
	Opts    Options
	tmpDir  string
}

func pattern(n int, seed byte) []byte {
	b := make([]byte, n)
	for i := range b {
		b[i] = seed*31 + byte(i*17+3)
	}
	return b
}

// FixedLicense returns a deterministic license of the given version.
func FixedLicense(version int, seed byte) license.License {
	switch version {
	case 4:
		// version 4 = a v1 license whose contract signature is 0 (the broker's well-known sample license is like
		// that): a field value at its boundary, same cipher as version 1
		return &license.V1{EncryptionKey: base64.RawURLEncoding.EncodeToString(pattern(16, seed)), User: 0x01020304 + uint32(seed), Sign: 0, Expires: time.Unix(0, 0), Type: license.LicenseTypeOnPremise}
	case 1:
		return &license.V1{EncryptionKey: base64.RawURLEncoding.EncodeToString(pattern(16, seed)), User: 0x01020304 + uint32(seed), Sign: 0x0a0b0c0d, Expires: time.Unix(0, 0), Type: license.LicenseTypeOnPremise}
	case 2:
		return &license.V2{EncryptionKey: pattern(32, seed), EncryptionSalt: pattern(24, seed+1), User: 0x01020304 + uint32(seed), Sign: 0x0a0b0c0d, Index: 1}
	default:
		return &license.V3{EncryptionKey: pattern(32, seed), EncryptionSalt: pattern(16, seed+1), User: 0x01020304 + uint32(seed), Sign: 0x0a0b0c0d, Index: 1}
	}
}

// New creates a broker.
func New(o Options) (*Env, error) {
	if o.LicenseVersion == 0 {
		o.LicenseVersion = 3
	}
	lic := FixedLicense(o.LicenseVersion, 1)
	c := &config.Config{
		ListenAddr: "127.0.0.1:0",
		License:    lic.String(),
		Matcher:    o.Matcher,
		Monitor:    &cfg.ProviderConfig{Provider: "noop"},
		Cluster:    o.Cluster,
		Contract:   o.Contract,
	}
	if o.MessageSize > 0 {
		c.Limit.MessageSize = o.MessageSize
	}
	c.Limit.ReadRate = o.ReadRate
	switch o.Storage {
	case "", "noop":
		c.Storage = &cfg.ProviderConfig{Provider: "noop"}
	case "inmemory":
		c.Storage = &cfg.ProviderConfig{Provider: "inmemory", Config: map[string]interface{}{}}
	case "ssd":
		c.Storage = &cfg.ProviderConfig{Provider: "ssd", Config: map[string]interface{}{"dir": o.StorageDir}}
	}
	if o.StorageRetain > 0 && c.Storage.Config != nil {
		c.Storage.Config["retain"] = float64(o.StorageRetain)
	}
	tmpDir := ""
	if !o.NoCluster && c.Cluster == nil {
		if o.Node == 0 {
			o.Node = 1
		}
		dir := o.ClusterDir
		if dir == "" {
			d, err := os.MkdirTemp("", "vx-cluster-*")
			if err != nil {
				return nil, err
			}
			dir, tmpDir = d, d
		}
		c.Cluster = &config.ClusterConfig{
			NodeName:      fmt.Sprintf("00:00:00:00:00:%02x", o.Node),
			ListenAddr:    ":4000",
			AdvertiseAddr: ":4000",
			Directory:     dir,
		}
	}
	mu.Lock()
	saved := os.Stderr
	os.Stderr = devnull
	svc, err := broker.NewService(context.Background(), c)
	os.Stderr = saved
	logging.Logger = quiet{}
	mu.Unlock()
	if err != nil {
		return nil, err
	}
	e := &Env{Svc: svc, Opts: o, tmpDir: tmpDir}
	if sw := svc.VerifCluster(); sw != nil && !o.KeepGossip {
		sw.VerifSetGossip(sink{})
	}
	e.License = svc.License
	if e.Cipher, err = svc.License.Cipher(); err != nil {
		return nil, err
	}
	mk, err := svc.License.NewMasterKey(1)
	if err != nil {
		return nil, err
	}
	if e.Master, err = e.Cipher.EncryptKey(mk); err != nil {
		return nil, err
	}
	return e, nil
}

// MustNew is New that panics.
func MustNew(o Options) *Env {
	e, err := New(o)
	if err != nil {
		panic(err)
	}
	return e
}

// Key mints a key through the real key generator.
func (e *Env) Key(channel string, perms uint8, expires time.Time) (string, error) {
	k, err := e.Svc.VerifKeygen().CreateKey(e.Master, channel, perms, expires)
	if err != nil {
		return "", fmt.Errorf("%v", err)
	}
	return k, nil
}

// MustKey mints a key or panics.
func (e *Env) MustKey(channel string, perms uint8) string {
	k, err := e.Key(channel, perms, time.Unix(0, 0))
	if err != nil {
		panic(fmt.Sprintf("keygen %s: %v", channel, err))
	}
	return k
}

// RawKey encrypts an arbitrary 24-byte key with the broker's cipher (for crafted keys).
func (e *Env) RawKey(k security.Key) string {
	s, err := e.Cipher.EncryptKey(k)
	if err != nil {
		panic(err)
	}
	return s
}

// PresenceBarrier waits until every presence notification queued so far has been published (VerifBarrier of the real
// queue). It reports false when that does not happen within two minutes — the queue's consumer is not running or is
// stuck — instead of waiting forever; the caller turns that into a violation of its own property.
func (e *Env) PresenceBarrier() bool {
	done := make(chan struct{})
	go func() { e.Svc.VerifPresence().VerifBarrier(); close(done) }()
	select {
	case <-done:
		return true
	case <-time.After(120 * time.Second):
		return false
	}
}

// Close shuts the broker down.
func (e *Env) Close() {
	e.Svc.Close()
	if e.tmpDir != "" {
		os.RemoveAll(e.tmpDir)
	}
}
