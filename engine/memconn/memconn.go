// Package memconn is a deterministic in-memory net.Conn: the harness feeds client bytes
// explicitly, broker writes are appended to a buffer the harness inspects, Close is observable.
package memconn

import (
	"io"
	"net"
	"sync"
	"time"
)

// Conn is the broker-side end of an in-memory connection.
type Conn struct {
	mu            sync.Mutex
	cond          *sync.Cond
	in            []byte // bytes fed by the client, not yet read by the broker
	eof           bool   // client closed its side
	eofWith       bool   // deliver EOF together with the last bytes (n>0, io.EOF)
	closed        bool   // broker called Close
	out           []byte // bytes written by the broker
	closedCh      chan struct{}
	MaxRead       int // if >0, at most this many bytes per Read
	Writes        int
	WriteHook     func(p []byte)   // optional, called with every broker write (under lock)
	AfterWrite    func(writes int) // optional, called after every broker write, without the lock
	addr          net.Addr
	failWrites    bool
	FailedWrites  int
	stallWrites   bool
	BlockedWrites int // writers currently waiting in a stalled Write
}

// StallWrites makes broker writes block (on=true) until released (on=false).
func (c *Conn) StallWrites(on bool) {
	c.mu.Lock()
	c.stallWrites = on
	c.cond.Broadcast()
	c.mu.Unlock()
}

var errBrokenPipe = &net.OpError{Op: "write", Net: "tcp", Err: io.ErrClosedPipe}

// FailWrites makes every later broker write fail (the connection stays open for reading).
func (c *Conn) FailWrites() {
	c.mu.Lock()
	c.failWrites = true
	c.mu.Unlock()
}

// New creates a connection.
func New() *Conn {
	c := &Conn{closedCh: make(chan struct{}), addr: &net.TCPAddr{IP: net.IPv4(127, 0, 0, 1), Port: 1234}}
	c.cond = sync.NewCond(&c.mu)
	return c
}

// Feed makes bytes available to the broker.
func (c *Conn) Feed(p []byte) {
	c.mu.Lock()
	c.in = append(c.in, p...)
	c.cond.Broadcast()
	c.mu.Unlock()
}

// CloseClient closes the client side: the broker reads EOF after the remaining bytes.
func (c *Conn) CloseClient(together bool) {
	c.mu.Lock()
	c.eof = true
	c.eofWith = together
	c.cond.Broadcast()
	c.mu.Unlock()
}

// Read is called by the broker.
func (c *Conn) Read(p []byte) (int, error) {
	c.mu.Lock()
	defer c.mu.Unlock()
	for len(c.in) == 0 && !c.eof && !c.closed {
		c.cond.Wait()
	}
	if c.closed {
		return 0, io.ErrClosedPipe
	}
	if len(c.in) == 0 {
		return 0, io.EOF
	}
	n := len(p)
	if c.MaxRead > 0 && n > c.MaxRead {
		n = c.MaxRead
	}
	n = copy(p[:n], c.in)
	c.in = c.in[n:]
	if len(c.in) == 0 && c.eof && c.eofWith {
		return n, io.EOF
	}
	return n, nil
}

// Write is called by the broker.
func (c *Conn) Write(p []byte) (int, error) {
	c.mu.Lock()
	defer c.mu.Unlock()
	if c.closed {
		return 0, io.ErrClosedPipe
	}
	for c.stallWrites && !c.closed {
		// a consumer that stopped reading: the write blocks until the harness releases it
		c.BlockedWrites++
		c.cond.Wait()
		c.BlockedWrites--
	}
	if c.closed {
		return 0, io.ErrClosedPipe
	}
	if c.failWrites {
		// a peer that went away without the broker having noticed yet (half-open TCP connection, write
		// deadline of a stalled consumer): every write fails while reads keep blocking
		c.FailedWrites++
		return 0, errBrokenPipe
	}
	c.out = append(c.out, p...)
	c.Writes++
	if c.WriteHook != nil {
		c.WriteHook(p)
	}
	c.cond.Broadcast()
	if h := c.AfterWrite; h != nil {
		// called without the lock: the harness may let other traffic reach this connection right now, i.e. between
		// this write and the writer's next one
		c.mu.Unlock()
		h(c.Writes)
		c.mu.Lock()
	}
	return len(p), nil
}

// Close is called by the broker.
func (c *Conn) Close() error {
	c.mu.Lock()
	if !c.closed {
		c.closed = true
		close(c.closedCh)
	}
	c.cond.Broadcast()
	c.mu.Unlock()
	return nil
}

// Closed is closed when the broker closed the connection.
func (c *Conn) Closed() <-chan struct{} { return c.closedCh }

// IsClosed reports whether the broker closed the connection.
func (c *Conn) IsClosed() bool {
	c.mu.Lock()
	defer c.mu.Unlock()
	return c.closed
}

// Pending returns the number of fed bytes the broker has not read yet.
func (c *Conn) Pending() int {
	c.mu.Lock()
	defer c.mu.Unlock()
	return len(c.in)
}

// Take returns and removes the first n output bytes (n<=0: everything).
func (c *Conn) Take(n int) []byte {
	c.mu.Lock()
	defer c.mu.Unlock()
	if n <= 0 || n > len(c.out) {
		n = len(c.out)
	}
	b := append([]byte(nil), c.out[:n]...)
	c.out = c.out[n:]
	return b
}

// Peek returns a copy of the output buffer.
func (c *Conn) Peek() []byte {
	c.mu.Lock()
	defer c.mu.Unlock()
	return append([]byte(nil), c.out...)
}

// WaitOut blocks until at least n output bytes are buffered, the broker closed, or the timeout
// elapsed; it returns the number of buffered bytes.
func (c *Conn) WaitOut(n int, timeout time.Duration) int {
	deadline := time.Now().Add(timeout)
	c.mu.Lock()
	defer c.mu.Unlock()
	for len(c.out) < n && !c.closed {
		rem := time.Until(deadline)
		if rem <= 0 {
			break
		}
		t := time.AfterFunc(rem, func() { c.mu.Lock(); c.cond.Broadcast(); c.mu.Unlock() })
		c.cond.Wait()
		t.Stop()
	}
	return len(c.out)
}

func (c *Conn) LocalAddr() net.Addr                { return c.addr }
func (c *Conn) RemoteAddr() net.Addr               { return c.addr }
func (c *Conn) SetDeadline(t time.Time) error      { return nil }
func (c *Conn) SetReadDeadline(t time.Time) error  { return nil }
func (c *Conn) SetWriteDeadline(t time.Time) error { return nil }
