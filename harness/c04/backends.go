package c04

import (
	"fmt"
	"os"
	"reflect"
	"sort"
	"sync"
	"unsafe"

	"github.com/coocood/freecache"
	"github.com/emitter-io/emitter/internal/event"
	"github.com/emitter-io/emitter/internal/event/crdt"
	"github.com/emitter-io/emitter/internal/message"
	"github.com/emitter-io/emitter/internal/security"
	"github.com/kelindar/binary"
	"github.com/kelindar/binary/nocopy"
	"github.com/tidwall/buntdb"
	"github.com/weaveworks/mesh"
)

// ---- logical clock -------------------------------------------------------------------------------

// crdt.Now is process-global: every call that reads it runs under nowMu with the clock pinned.
var nowMu sync.Mutex

var clockFns = map[int64]func() int64{}

func init() {
	for t := int64(0); t <= 16; t++ {
		t := t
		clockFns[t] = func() int64 { return t }
	}
}

func withClock(t int64, f func()) {
	nowMu.Lock()
	defer nowMu.Unlock()
	fn := clockFns[t]
	if fn == nil {
		fn = func() int64 { return t }
	}
	crdt.Now = fn
	f()
}

// ---- what a check reads ----------------------------------------------------------------------------

// tm is the pair of times of one entry.
type tm struct{ A, D int64 }

func (t tm) active() bool   { return t.A != 0 && t.A >= t.D } // the statement's definition
func (t tm) String() string { return fmt.Sprintf("(add=%d,del=%d)", t.A, t.D) }

// obs is everything read from one replica in one state, per key of the alphabet.
type obs struct {
	get    []tm     // Map.Get (the cached path of Durable)
	has    []bool   // Map.Has / State.Has (the cached path of Durable)
	rng    []tm     // Map.Range(nil, tombstones=true)
	listed []bool   // active listing: Map.Range(prefix, false) / State.SubscriptionsOf / ConnectionsOf
	count  int      // Map.Count (summed over subsets)
	extra  []string // entries that are not in the alphabet, or cross-view disagreements
}

type replica interface {
	write(k int, del bool, t int64, origin int)
	touch() // the reads a broker performs between updates (Get + Has of every key)
	observe() obs
	snapshot(how int) payload
	merge(p payload)
	close()
}

// payload is what travels between replicas (always volatile, as in production).
type payload interface {
	read() ([]tm, []string)
}

const (
	howClone  = 0 // Range + reconstruct in a fresh volatile set
	howCodec  = 1 // Encode -> Decode
	howCodec2 = 2 // Encode -> Decode -> Encode -> Decode (relay without merging)
)

var howNames = []string{"clone", "codec", "codec2"}

type backendDef struct {
	ID    string
	Keys  []string
	Descr string
	Hows  []int // merge kinds in the alphabet
	New   func() replica
}

// The second hop of codec2 always re-encodes a volatile set, which is what the volatile backends
// enumerate; the durable backends (whose Encode allocates a 50 000-entry reservoir each time) leave it out.
var allHows = []int{howClone, howCodec, howCodec2}
var durHows = []int{howClone, howCodec}

func backends() []*backendDef {
	return []*backendDef{
		{ID: "vol<-vol", Keys: []string{"k1", "k2"}, Descr: "crdt.Volatile replicas, crdt.Volatile payloads", Hows: allHows,
			New: func() replica { return &mapRep{m: crdt.NewVolatile(), keys: []string{"k1", "k2"}} }},
		{ID: "dur<-vol", Keys: []string{"k1", "k2"}, Descr: "crdt.Durable replicas (in-memory buntdb), crdt.Volatile payloads", Hows: durHows,
			New: func() replica { return &mapRep{m: getDurable(), keys: []string{"k1", "k2"}} }},
		{ID: "state-vol", Keys: stateKeyNames, Descr: "event.NewState(\"\") replicas, one event per subset, decoded/volatile State payloads", Hows: allHows,
			New: func() replica { return newStateRep("") }},
		{ID: "state-dur", Keys: stateKeyNames, Descr: "event.NewState(\":memory:\") replicas, one event per subset, decoded/volatile State payloads", Hows: durHows,
			New: func() replica { return newStateRep(":memory:") }},
	}
}

func backendByID(id string) *backendDef {
	for _, b := range backends() {
		if b.ID == id {
			return b
		}
	}
	return nil
}

// ---- reading a crdt.Map ----------------------------------------------------------------------------

func timesOf(v crdt.Value) tm {
	if len(v) < 16 {
		return tm{-1, -1}
	}
	return tm{v.AddTime(), v.DelTime()}
}

func indexOf(keys []string, k string) int {
	for i, s := range keys {
		if s == k {
			return i
		}
	}
	return -1
}

// observeMap fills the slots [base, base+len(keys)) of o from one map.
func observeMap(m crdt.Map, keys []string, o *obs, base int, label string) {
	for i, k := range keys {
		o.get[base+i] = timesOf(m.Get(k))
		o.has[base+i] = m.Has(k)
	}
	seen := make([]bool, len(keys))
	m.Range(nil, true, func(k string, v crdt.Value) bool {
		i := indexOf(keys, k)
		if i < 0 {
			o.extra = append(o.extra, fmt.Sprintf("%sRange lists an entry %q that was never written", label, k))
			return true
		}
		if seen[i] {
			o.extra = append(o.extra, fmt.Sprintf("%sRange lists %q twice", label, k))
		}
		seen[i] = true
		o.rng[base+i] = timesOf(v)
		return true
	})
	for i, k := range keys {
		n := 0
		m.Range([]byte(k), false, func(k2 string, v crdt.Value) bool {
			if k2 == k {
				n++
			}
			return true
		})
		o.listed[base+i] = n > 0
		if n > 1 {
			o.extra = append(o.extra, fmt.Sprintf("%sRange(prefix) lists %q %d times", label, k, n))
		}
	}
	o.count += m.Count()
}

func newObs(n int) obs {
	return obs{get: make([]tm, n), has: make([]bool, n), rng: make([]tm, n), listed: make([]bool, n)}
}

// readVolatile reads a payload set.
func readVolatile(v *crdt.Volatile, keys []string, out []tm, base int, extra *[]string) {
	v.Range(nil, true, func(k string, val crdt.Value) bool {
		i := indexOf(keys, k)
		if i < 0 {
			*extra = append(*extra, fmt.Sprintf("payload carries an entry %q that was never written", k))
			return true
		}
		out[base+i] = timesOf(val)
		return true
	})
}

type entry struct {
	k   string
	t   tm
	val []byte
}

func entriesOf(m crdt.Map) []entry {
	var es []entry
	m.Range(nil, true, func(k string, v crdt.Value) bool {
		e := entry{k: k, t: timesOf(v)}
		if len(v) > 16 {
			e.val = append([]byte(nil), v.Value()...)
		}
		es = append(es, e)
		return true
	})
	sort.Slice(es, func(i, j int) bool { return es[i].k < es[j].k })
	return es
}

// ---- backend: a bare crdt.Map ----------------------------------------------------------------------

type mapRep struct {
	m    crdt.Map
	keys []string
}

type volPayload struct {
	v    *crdt.Volatile
	keys []string
}

func (p *volPayload) read() ([]tm, []string) {
	out := make([]tm, len(p.keys))
	var extra []string
	readVolatile(p.v, p.keys, out, 0, &extra)
	return out, extra
}

func valueFor(origin int, t int64) []byte { return []byte(fmt.Sprintf("v%d.%d", origin, t)) }

func (r *mapRep) write(k int, del bool, t int64, origin int) {
	withClock(t, func() {
		if del {
			r.m.Del(r.keys[k])
		} else {
			r.m.Add(r.keys[k], valueFor(origin, t))
		}
	})
}

func (r *mapRep) touch() {
	for _, k := range r.keys {
		r.m.Get(k)
		r.m.Has(k)
	}
}

func (r *mapRep) observe() obs {
	o := newObs(len(r.keys))
	observeMap(r.m, r.keys, &o, 0, "")
	return o
}

// cloneVolatile builds a fresh volatile set holding the entries of m (as read through Range).
func cloneVolatile(m crdt.Map) *crdt.Volatile {
	out := crdt.NewVolatile()
	for _, e := range entriesOf(m) {
		e := e
		if e.t.A != 0 {
			withClock(e.t.A, func() { out.Add(e.k, e.val) })
		}
		if e.t.D != 0 {
			withClock(e.t.D, func() { out.Del(e.k) })
		}
	}
	return out
}

// hopVolatile is one serialisation hop of a single map, shaped like State.Encode/DecodeState:
// the set is marshalled by its own codec (volatile or durable) and always decoded as volatile.
func hopVolatile(m crdt.Map) *crdt.Volatile {
	var buf []byte
	var err error
	switch x := m.(type) {
	case *crdt.Volatile:
		buf, err = binary.Marshal(map[uint8]crdt.Volatile{0: *x})
	case *crdt.Durable:
		buf, err = binary.Marshal(map[uint8]crdt.Durable{0: *x})
	default:
		panic("unknown map type")
	}
	if err != nil {
		panic(fmt.Sprintf("encode failed: %v", err))
	}
	dec := map[uint8]crdt.Volatile{}
	if err = binary.Unmarshal(buf, &dec); err != nil {
		panic(fmt.Sprintf("decode failed: %v", err))
	}
	v, ok := dec[0]
	if !ok {
		panic("decoded payload lost its set")
	}
	return &v
}

func (r *mapRep) snapshot(how int) payload {
	switch how {
	case howClone:
		return &volPayload{v: cloneVolatile(r.m), keys: r.keys}
	case howCodec:
		return &volPayload{v: hopVolatile(r.m), keys: r.keys}
	default:
		return &volPayload{v: hopVolatile(hopVolatile(r.m)), keys: r.keys}
	}
}

func (r *mapRep) merge(p payload) { r.m.Merge(p.(*volPayload).v) }

func (r *mapRep) close() {
	if d, ok := r.m.(*crdt.Durable); ok {
		putDurable(d)
	}
}

// ---- recycling of durable sets ------------------------------------------------------------------------
//
// crdt.NewDurable costs 1.5-7 ms on the verification machine (a 1 MB freecache + an in-memory buntdb),
// a hundred times the cost of a whole history. A finished instance therefore hands its durable sets
// back after emptying them through the PUBLIC API of the two libraries (buntdb DeleteAll, freecache
// Clear) and verifying that they are empty; anything else is closed and dropped. C04_FRESH=1 turns
// recycling off (used to cross-check that both modes give identical searches).

var recycle = os.Getenv("C04_FRESH") == ""

var poolMu sync.Mutex
var reuse = map[*crdt.Durable]int{}
var allRawKeys = append([]string{"k1", "k2"}, stateRawKeys...)
var durPool []*crdt.Durable
var statePool []*event.State

func durableParts(d *crdt.Durable) (*buntdb.DB, *freecache.Cache) {
	v := reflect.ValueOf(d).Elem()
	fdb, fc := v.FieldByName("db"), v.FieldByName("cache")
	if !fdb.IsValid() || !fc.IsValid() || fdb.Type() != reflect.TypeOf((*buntdb.DB)(nil)) || fc.Type() != reflect.TypeOf((*freecache.Cache)(nil)) {
		return nil, nil
	}
	return *(**buntdb.DB)(unsafe.Pointer(fdb.UnsafeAddr())), *(**freecache.Cache)(unsafe.Pointer(fc.UnsafeAddr()))
}

// resetDurable empties a durable set; false = could not be emptied verifiably.
func resetDurable(d *crdt.Durable) bool {
	db, cache := durableParts(d)
	if db == nil || cache == nil || reflect.TypeOf(*d).NumField() != 2 {
		return false
	}
	n := -1
	db.View(func(tx *buntdb.Tx) error { n, _ = tx.Len(); return nil })
	if n != 0 {
		if err := db.Update(func(tx *buntdb.Tx) error { return tx.DeleteAll() }); err != nil {
			return false
		}
	}
	// cached reads: drop the entries of the alphabet; a full Clear (0.2-0.4 ms) only when something
	// else is left or every 256th time (bounds the garbage in the ring buffers)
	for _, k := range allRawKeys {
		cache.Del(binary.ToBytes(k))
	}
	poolMu.Lock()
	reuse[d]++
	full := reuse[d]%256 == 0
	poolMu.Unlock()
	if full || cache.EntryCount() != 0 {
		cache.Clear()
	}
	n = -1
	db.View(func(tx *buntdb.Tx) error { n, _ = tx.Len(); return nil })
	return n == 0 && cache.EntryCount() == 0 && d.Count() == 0
}

func getDurable() *crdt.Durable {
	poolMu.Lock()
	defer poolMu.Unlock()
	if n := len(durPool); n > 0 {
		d := durPool[n-1]
		durPool = durPool[:n-1]
		return d
	}
	return crdt.NewDurable("")
}

func putDurable(d *crdt.Durable) {
	if recycle && resetDurable(d) {
		poolMu.Lock()
		defer poolMu.Unlock()
		if len(durPool) < 64 {
			durPool = append(durPool, d)
			return
		}
	}
	d.Close()
}

func getDurableState() *event.State {
	poolMu.Lock()
	defer poolMu.Unlock()
	if n := len(statePool); n > 0 {
		st := statePool[n-1]
		statePool = statePool[:n-1]
		return st
	}
	return event.NewState(":memory:")
}

func putDurableState(st *event.State) {
	ok := recycle
	if ok {
		sub := subsetsOf(st)
		ok = len(sub) == 3
		for _, m := range sub {
			d, isDur := m.(*crdt.Durable)
			ok = ok && isDur && resetDurable(d)
		}
	}
	if ok {
		poolMu.Lock()
		defer poolMu.Unlock()
		if len(statePool) < 32 {
			statePool = append(statePool, st)
			return
		}
	}
	st.Close()
}

// ---- backend: event.State ---------------------------------------------------------------------------

// subset ids of internal/event/events.go (typeSub, typeBan, typeConn; unexported constants)
const (
	typeSub  = uint8(0)
	typeBan  = uint8(1)
	typeConn = uint8(2)
)

const statePeer = uint64(0x0102030405060708)
const stateConn = security.ID(0x1122334455)

var stateSsid = message.Ssid{1, 0xAAAA0001, 0xBBBB0002}
var stateKeyNames = []string{"sub", "ban", "conn"}
var stateTypes = []uint8{typeSub, typeBan, typeConn}

func stateEvent(k int, origin int, t int64) event.Event {
	switch k {
	case 0:
		return &event.Subscription{Peer: statePeer, Conn: stateConn, Ssid: stateSsid,
			User: nocopy.String(fmt.Sprintf("u%d.%d", origin, t)), Channel: nocopy.Bytes("a/b/")}
	case 1:
		b := event.Ban("banned-key-0123456789abcdefghij")
		return &b
	default:
		return &event.Connection{Peer: statePeer, Conn: stateConn, ClientID: []byte(fmt.Sprintf("c%d.%d", origin, t)), Username: []byte("u")}
	}
}

var stateRawKeys = func() []string {
	out := make([]string, 3)
	for k := range out {
		out[k] = stateEvent(k, 0, 0).Key()
	}
	return out
}()

// subsetsOf reads the unexported State.subsets (read-only; a VerifSubsets hook would be cleaner).
func subsetsOf(st *event.State) map[uint8]crdt.Map {
	f := reflect.ValueOf(st).Elem().FieldByName("subsets")
	return *(*map[uint8]crdt.Map)(unsafe.Pointer(f.UnsafeAddr()))
}

type stateRep struct {
	st      *event.State
	durable bool
}

func newStateRep(dir string) *stateRep {
	if dir != "" {
		return &stateRep{st: getDurableState(), durable: true}
	}
	return &stateRep{st: event.NewState(dir)}
}

type statePayload struct{ st *event.State }

func (p *statePayload) read() ([]tm, []string) {
	out := make([]tm, 3)
	var extra []string
	for typ, m := range subsetsOf(p.st) {
		v, ok := m.(*crdt.Volatile)
		if !ok {
			extra = append(extra, "payload subset is not volatile")
			continue
		}
		k := int(typ)
		if k > 2 {
			if v.Count() > 0 {
				extra = append(extra, fmt.Sprintf("payload has a non-empty unknown subset %d", typ))
			}
			continue
		}
		readVolatile(v, stateRawKeys[k:k+1], out, k, &extra)
	}
	return out, extra
}

func (r *stateRep) write(k int, del bool, t int64, origin int) {
	ev := stateEvent(k, origin, t)
	withClock(t, func() {
		if del {
			r.st.Del(ev)
		} else {
			r.st.Add(ev)
		}
	})
}

func (r *stateRep) touch() {
	sub := subsetsOf(r.st)
	for k := 0; k < 3; k++ {
		r.st.Has(stateEvent(k, 0, 0))
		sub[stateTypes[k]].Get(stateRawKeys[k])
	}
}

func (r *stateRep) observe() obs {
	o := newObs(3)
	sub := subsetsOf(r.st)
	if len(sub) != 3 {
		o.extra = append(o.extra, fmt.Sprintf("state has %d subsets", len(sub)))
	}
	for k := 0; k < 3; k++ {
		m := sub[stateTypes[k]]
		if m == nil {
			o.extra = append(o.extra, "missing subset "+stateKeyNames[k])
			continue
		}
		observeMap(m, stateRawKeys[k:k+1], &o, k, stateKeyNames[k]+" subset: ")
		// the public surface of State
		o.has[k] = r.st.Has(stateEvent(k, 0, 0))
	}
	// State.Subscriptions lists every subscription entry (tombstones included) with its times
	n := 0
	r.st.Subscriptions(func(s *event.Subscription, v event.Value) {
		n++
		if s.Key() != stateRawKeys[0] {
			o.extra = append(o.extra, "State.Subscriptions lists an entry that was never written")
			return
		}
		if t := timesOf(v); t != o.rng[0] {
			o.extra = append(o.extra, fmt.Sprintf("State.Subscriptions reports %v, Range reports %v", t, o.rng[0]))
		}
	})
	if want := 0; true {
		if o.rng[0] != (tm{}) {
			want = 1
		}
		if n != want {
			o.extra = append(o.extra, fmt.Sprintf("State.Subscriptions lists %d entries, Range lists %d", n, want))
		}
	}
	// active listings by peer
	subs, conns := 0, 0
	r.st.SubscriptionsOf(mesh.PeerName(statePeer), func(s *event.Subscription) {
		if s.Key() == stateRawKeys[0] {
			subs++
		}
	})
	r.st.ConnectionsOf(mesh.PeerName(statePeer), func(c *event.Connection) {
		if c.Key() == stateRawKeys[2] {
			conns++
		}
	})
	if (subs > 0) != o.listed[0] || subs > 1 {
		o.extra = append(o.extra, fmt.Sprintf("State.SubscriptionsOf lists the subscription %d times, Range(prefix,false) says listed=%v", subs, o.listed[0]))
	}
	if (conns > 0) != o.listed[2] || conns > 1 {
		o.extra = append(o.extra, fmt.Sprintf("State.ConnectionsOf lists the connection %d times, Range(prefix,false) says listed=%v", conns, o.listed[2]))
	}
	return o
}

func (r *stateRep) snapshot(how int) payload {
	switch how {
	case howClone:
		out := event.NewState("")
		for k := 0; k < 3; k++ {
			for _, e := range entriesOf(subsetsOf(r.st)[stateTypes[k]]) {
				if e.k != stateRawKeys[k] {
					continue // flagged by observe
				}
				ev := stateEvent(k, 9, e.t.A)
				if e.t.A != 0 {
					withClock(e.t.A, func() { out.Add(ev) })
				}
				if e.t.D != 0 {
					withClock(e.t.D, func() { out.Del(ev) })
				}
			}
		}
		return &statePayload{st: out}
	case howCodec:
		return &statePayload{st: hopState(r.st)}
	default:
		mid := hopState(r.st)
		return &statePayload{st: hopState(mid)}
	}
}

func hopState(st *event.State) *event.State {
	enc := st.Encode()
	if len(enc) != 1 {
		panic(fmt.Sprintf("State.Encode returned %d buffers", len(enc)))
	}
	out, err := event.DecodeState(enc[0])
	if err != nil {
		panic(fmt.Sprintf("DecodeState failed: %v", err))
	}
	return out
}

func (r *stateRep) merge(p payload) { r.st.Merge(p.(*statePayload).st) }

func (r *stateRep) close() {
	if r.durable {
		putDurableState(r.st)
		return
	}
	r.st.Close()
}
