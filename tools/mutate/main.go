// Command mutate: a small AST mutation tool (stdlib only) used to *evaluate* the checks, never to decide a
// property. `mutate -file f.go -list` prints one line per mutant "<n>\t<line>\t<operator>\t<description>";
// `mutate -file f.go -id n -out g.go` writes the file with mutant n applied.
//
// Operators: relational/logical/arithmetic operator swaps, negated if-conditions, deleted statements
// (calls, plain assignments, inc/dec, defer, bare return/continue/break), integer literal 0<->1 / n->n+1,
// true<->false. The enumeration order is the source order, so mutant numbers are stable for one file content.
package main

import (
	"bytes"
	"flag"
	"fmt"
	"go/ast"
	"go/parser"
	"go/printer"
	"go/token"
	"os"
	"strconv"
)

type mutant struct {
	line  int
	op    string
	desc  string
	apply func()
}

var swaps = map[token.Token][]token.Token{
	token.LSS: {token.LEQ}, token.LEQ: {token.LSS}, token.GTR: {token.GEQ}, token.GEQ: {token.GTR},
	token.EQL: {token.NEQ}, token.NEQ: {token.EQL}, token.LAND: {token.LOR}, token.LOR: {token.LAND},
	token.ADD: {token.SUB}, token.SUB: {token.ADD}, token.AND: {token.OR}, token.OR: {token.AND},
	token.SHL: {token.SHR}, token.SHR: {token.SHL},
}

func main() {
	file := flag.String("file", "", "go source file")
	list := flag.Bool("list", false, "list mutants")
	id := flag.Int("id", -1, "mutant to apply")
	out := flag.String("out", "", "output file")
	flag.Parse()
	fset := token.NewFileSet()
	f, err := parser.ParseFile(fset, *file, nil, parser.ParseComments)
	if err != nil {
		fmt.Fprintln(os.Stderr, err)
		os.Exit(2)
	}
	var ms []mutant
	add := func(pos token.Pos, op, desc string, apply func()) {
		ms = append(ms, mutant{fset.Position(pos).Line, op, desc, apply})
	}
	src := func(n ast.Node) string {
		var b bytes.Buffer
		printer.Fprint(&b, fset, n)
		s := b.String()
		if len(s) > 70 {
			s = s[:70] + "..."
		}
		return string(bytes.ReplaceAll([]byte(s), []byte("\n"), []byte(" ")))
	}
	// statement deletion needs the enclosing list
	var visitList func(list []ast.Stmt)
	visitList = func(list []ast.Stmt) {
		for i := range list {
			i := i
			s := list[i]
			del := false
			switch t := s.(type) {
			case *ast.ExprStmt:
				del = true
			case *ast.AssignStmt:
				del = t.Tok != token.DEFINE
			case *ast.IncDecStmt:
				del = true
			case *ast.DeferStmt:
				del = true
			case *ast.ReturnStmt:
				del = len(t.Results) == 0
			case *ast.BranchStmt:
				del = t.Tok == token.CONTINUE || t.Tok == token.BREAK
			case *ast.GoStmt:
				del = false
			}
			if del {
				orig := s
				add(s.Pos(), "delete-stmt", src(s), func() { list[i] = &ast.EmptyStmt{Semicolon: orig.Pos(), Implicit: false} })
			}
		}
	}
	ast.Inspect(f, func(n ast.Node) bool {
		switch t := n.(type) {
		case *ast.FuncDecl:
			// skip verif hooks / String methods
			if t.Name.Name == "String" {
				return false
			}
		case *ast.BlockStmt:
			visitList(t.List)
		case *ast.CaseClause:
			visitList(t.Body)
		case *ast.CommClause:
			visitList(t.Body)
		case *ast.BinaryExpr:
			for _, alt := range swaps[t.Op] {
				alt, orig := alt, t.Op
				// string concatenation: '-' would not compile; leave to the compiler filter
				add(t.OpPos, "swap-op", fmt.Sprintf("%s : %s -> %s", src(t), orig, alt), func() { t.Op = alt })
			}
		case *ast.IfStmt:
			if t.Cond != nil {
				add(t.Cond.Pos(), "negate-if", src(t.Cond), func() { t.Cond = &ast.UnaryExpr{Op: token.NOT, X: &ast.ParenExpr{X: t.Cond}} })
			}
		case *ast.BasicLit:
			if t.Kind == token.INT {
				v, err := strconv.ParseInt(t.Value, 0, 64)
				if err == nil {
					nv := v + 1
					if v == 1 {
						nv = 0
					}
					old := t.Value
					add(t.Pos(), "int-lit", fmt.Sprintf("%s -> %d", old, nv), func() { t.Value = strconv.FormatInt(nv, 10) })
				}
			}
		case *ast.Ident:
			if t.Name == "true" || t.Name == "false" {
				nv := "false"
				if t.Name == "false" {
					nv = "true"
				}
				add(t.Pos(), "bool-lit", t.Name+" -> "+nv, func() { t.Name = nv })
			}
		}
		return true
	})
	if *list {
		for i, m := range ms {
			fmt.Printf("%d\t%d\t%s\t%s\n", i, m.line, m.op, m.desc)
		}
		return
	}
	if *id < 0 || *id >= len(ms) {
		fmt.Fprintln(os.Stderr, "mutant id out of range")
		os.Exit(2)
	}
	ms[*id].apply()
	var b bytes.Buffer
	if err := printer.Fprint(&b, fset, f); err != nil {
		fmt.Fprintln(os.Stderr, err)
		os.Exit(2)
	}
	if err := os.WriteFile(*out, b.Bytes(), 0o644); err != nil {
		fmt.Fprintln(os.Stderr, err)
		os.Exit(2)
	}
}
