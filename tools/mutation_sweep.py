#!/usr/bin/env python3
"""tools/mutation_sweep.py — evaluates the checks (it decides no property): applies AST mutants (tools/mutate) to the
source files the properties are anchored in, one at a time in scratch worktrees of /repo HEAD, keeps the mutants that
still compile and pass the repository's own tests of the touched package (+ internal/broker), and runs the quick tier
of the checks of the properties anchored in that file against each survivor (cheapest check first, stopping at the
first check that reports a violation).  Results: one JSON line per mutant in --out.

  tools/mutation_sweep.py --workers 3 --cap 24 --out seeded/mutation-sweep/results.jsonl [--files REGEX] [--budget-min 300]

Scratch worktrees and build directories live under /tmp/mut-w<i>* and are removed at the end.
"""
import argparse, json, os, re, subprocess, sys, threading, time, queue, shutil, collections

VERIF = os.path.dirname(os.path.dirname(os.path.abspath(__file__)))
REPO = "/repo"
ENV = dict(os.environ, GOFLAGS="-mod=mod", GOPROXY="off")
# the repository's tests keep cluster state under os.UserCacheDir()/emitter/<node>: give every test run its own cache
# home (concurrent runs corrupt the shared ban.db otherwise) while keeping the shared Go build cache
GOCACHE = subprocess.run(["go", "env", "GOCACHE"], capture_output=True, text=True, env=ENV).stdout.strip() or "/root/.cache/go-build"
COST = {"C20": 2, "C13": 3, "C03": 4, "C16": 4, "C08": 6, "C11": 8, "C19": 9, "C17": 10, "C18": 11, "C10": 15, "C09": 17,
        "C12": 17, "C07": 28, "C04": 32, "C14": 38, "C15": 47, "C01": 49, "C02": 50, "C06": 56, "C05": 96}


def sh(cmd, cwd=None, env=None, timeout=None):
    try:
        r = subprocess.run(cmd, cwd=cwd, env=env or ENV, stdout=subprocess.PIPE, stderr=subprocess.STDOUT, timeout=timeout, text=True, errors="replace")
        return r.returncode, r.stdout
    except subprocess.TimeoutExpired as e:
        return 124, (e.stdout or "") if isinstance(e.stdout, str) else ""


def anchored():
    m = collections.OrderedDict()
    for l in open(os.path.join(VERIF, "properties.jsonl")):
        p = json.loads(l)
        for f in p["anchors"].get("files", []):
            if os.path.exists(os.path.join(REPO, f)):
                m.setdefault(f, []).append(p["id"])
    return m


def main():
    ap = argparse.ArgumentParser()
    ap.add_argument("--workers", type=int, default=3)
    ap.add_argument("--cap", type=int, default=24, help="max mutants per file (evenly strided)")
    ap.add_argument("--files", default=".")
    ap.add_argument("--out", default=os.path.join(VERIF, "seeded/mutation-sweep/results.jsonl"))
    ap.add_argument("--budget-min", type=float, default=300)
    ap.add_argument("--offset", type=int, default=0, help="stride offset, to draw a different subset")
    ap.add_argument("--ops", default="", help="comma list of operators to keep (default all)")
    a = ap.parse_args()
    os.makedirs(os.path.dirname(a.out), exist_ok=True)
    os.makedirs(os.path.join(VERIF, "build"), exist_ok=True)
    mut = os.path.join(VERIF, "build", "mutate")
    rc, out = sh(["go", "build", "-o", mut, "."], cwd=os.path.join(VERIF, "tools", "mutate"))
    if rc != 0:
        print(out); sys.exit(2)
    done = set()
    if os.path.exists(a.out):
        for l in open(a.out):
            try:
                d = json.loads(l); done.add((d["file"], d["id"]))
            except Exception:
                pass
    tasks = []
    per_file = []
    for f, props in anchored().items():
        if not re.search(a.files, f):
            continue
        rc, out = sh([mut, "-file", os.path.join(REPO, f), "-list"])
        rows = [r.split("\t") for r in out.strip().split("\n") if r]
        if a.ops:
            rows = [r for r in rows if r[2] in a.ops.split(",")]
        if len(rows) > a.cap:
            step = len(rows) / float(a.cap)
            rows = [rows[int(i * step + a.offset) % len(rows)] for i in range(a.cap)]
        per_file.append([(f, props, r) for r in rows])
    # round-robin over files so that a partial run is representative
    while any(per_file):
        for lst in per_file:
            if lst:
                f, props, r = lst.pop(0)
                if (f, int(r[0])) not in done:
                    tasks.append((f, props, int(r[0]), int(r[1]), r[2], r[3]))
    print("mutants to run:", len(tasks), "already done:", len(done), flush=True)
    q = queue.Queue()
    for t in tasks:
        q.put(t)
    lock = threading.Lock()
    deadline = time.time() + a.budget_min * 60
    outf = open(a.out, "a")

    def worker(i):
        wt = "/tmp/mut-w%d" % i
        bd = wt + "-build"
        sh(["git", "-C", REPO, "worktree", "remove", "--force", wt]); shutil.rmtree(wt, ignore_errors=True)
        rc, out = sh(["git", "-C", REPO, "worktree", "add", "--detach", wt, "HEAD"])
        if rc != 0:
            print("worktree failed", out); return
        try:
            while time.time() < deadline:
                try:
                    f, props, mid, line, op, desc = q.get_nowait()
                except queue.Empty:
                    break
                rec = {"file": f, "id": mid, "line": line, "op": op, "desc": desc, "props": props}
                t0 = time.time()
                target = os.path.join(wt, f)
                rc, out = sh([mut, "-file", os.path.join(REPO, f), "-id", str(mid), "-out", target])
                pkg = "./" + os.path.dirname(f) + "/"
                rc, out = sh(["go", "build", "./..."], cwd=wt, timeout=300)
                if rc != 0:
                    rec["status"] = "does-not-compile"
                else:
                    pk = [pkg] + (["./internal/broker/"] if pkg != "./internal/broker/" else [])
                    # own network namespace: the broker tests listen on fixed ports (4000, 8080) and would collide
                    # with every other test run on this machine; one retry absorbs load-sensitive tests (TestTimeout)
                    tcmd = ["unshare", "-n", "--", "sh", "-c", "ip link set lo up; exec go test -vet=off -count=1 -timeout 150s " + " ".join(pk)]
                    tenv = dict(ENV, GOCACHE=GOCACHE, XDG_CACHE_HOME=bd + "-xdg")
                    shutil.rmtree(bd + "-xdg", ignore_errors=True); os.makedirs(bd + "-xdg", exist_ok=True)
                    rc, out = sh(tcmd, cwd=wt, env=tenv, timeout=400)
                    if rc != 0:
                        shutil.rmtree(bd + "-xdg", ignore_errors=True); os.makedirs(bd + "-xdg", exist_ok=True)
                        rc2, out2 = sh(tcmd, cwd=wt, env=tenv, timeout=400)
                        if rc2 == 0 or len(out2) < len(out):
                            rc, out = rc2, out2
                    fails = [l for l in out.split("\n") if l.startswith("--- FAIL") or l.startswith("panic:") or l.startswith("FAIL")]
                    fails = [l for l in fails if not re.search(r"TestJoin|TestNewClient|TestStatsd", l)]
                    real = [l for l in fails if l.startswith("--- FAIL") or l.startswith("panic:")]
                    if rc == 124 or (rc != 0 and (real or "panic: test timed out" in out or not re.search(r"TestJoin|TestNewClient|TestStatsd", out))):
                        rec["status"] = "killed-by-repo-tests"
                        rec["tests"] = (real or fails or ["timeout"])[:3]
                    else:
                        rec["status"] = "survived-tests"
                        rec["checks"] = {}
                        for cid in sorted(props, key=lambda c: COST.get(c, 50)):
                            env = dict(ENV, VERIF_REPO=wt, VERIF_BUILD=bd, VERIF_EVIDENCE_DIR=bd + "/evidence", VERIF_REPLAY_DIR=bd + "/replays", VERIF_ONLY=cid.lower())
                            c0 = time.time()
                            rc, out = sh([os.path.join(VERIF, "check"), cid, "--tier", "quick"], cwd=VERIF, env=env, timeout=900)
                            res = [l for l in out.split("\n") if l.startswith("RESULT")]
                            sig = [l.strip()[:300] for l in out.split("\n") if l.startswith("  signature")][:3]
                            viol = [l for l in out.split("\n") if l.startswith("VIOLATION")]
                            rec["checks"][cid] = {"rc": rc, "result": res[-1][:200] if res else out[-300:], "signatures": sig, "wall": round(time.time() - c0, 1)}
                            if rc == 1 and viol:
                                rec["status"] = "killed-by-check"; rec["killed_by"] = cid
                                break
                            if rc == 124:
                                rec["status"] = "check-timeout"; rec["killed_by"] = cid
                                break
                            if rc == 2:
                                rec["status"] = "check-build-or-harness-error"; rec["killed_by"] = cid
                                break
                        if rec["status"] == "survived-tests":
                            rec["status"] = "SURVIVED-ALL"
                sh(["git", "-C", wt, "checkout", "--", "."])
                rec["wall"] = round(time.time() - t0, 1)
                with lock:
                    outf.write(json.dumps(rec) + "\n"); outf.flush()
                    print("[w%d] %s:%d #%d %s %s -> %s %s" % (i, f, line, mid, op, desc[:50], rec["status"], rec.get("killed_by", "")), flush=True)
        finally:
            sh(["git", "-C", REPO, "worktree", "remove", "--force", wt]); shutil.rmtree(wt, ignore_errors=True); shutil.rmtree(bd, ignore_errors=True); shutil.rmtree(bd + "-xdg", ignore_errors=True)

    ths = [threading.Thread(target=worker, args=(i,)) for i in range(a.workers)]
    for t in ths: t.start()
    for t in ths: t.join()
    print("sweep finished; remaining in queue:", q.qsize())


if __name__ == "__main__":
    main()
