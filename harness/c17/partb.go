package c17

import (
	"bytes"
	"encoding/json"
	"fmt"

	"github.com/emitter-io/emitter/internal/network/listener"
	"github.com/emitter-io/emitter/internal/verifx/engine/core"
	"github.com/kelindar/rate"
)

// ---- (b) the write queue of listener.Conn, sequential ------------------------------------------

// limiterScript decides every Limit() answer of every rate limiter while installed: the limiter
// becomes an enumerated environment choice. rate.VerifLimit is a process-global, so whoever
// installs a script must be the only one writing to listener.Conn at that time.
type limiterScript struct {
	answers []bool
	next    int
	extra   int // Limit() calls beyond the script (answered "not limited")
}

func (l *limiterScript) hook(_ *rate.Limiter) (limited, handled bool) {
	if l.next < len(l.answers) {
		a := l.answers[l.next]
		l.next++
		return a, true
	}
	l.extra++
	return false, true
}

func (l *limiterScript) install() (restore func()) {
	prev := rate.VerifLimit
	rate.VerifLimit = l.hook
	return func() { rate.VerifLimit = prev }
}

type caseB struct {
	Part        string   `json:"part"`
	Sizes       []int    `json:"sizes,omitempty"` // when set, write i is a generated pattern of Sizes[i] bytes (large writes)
	Writes      []string `json:"writes"`
	Limited     []bool   `json:"limited"`      // the limiter's answer for each write
	FlushBefore bool     `json:"flush_before"` // a timer tick before the first write
	FlushAfter  []bool   `json:"flush_after"`  // a timer tick after write i
}

type outcomeB struct {
	v        verdict
	calls    int
	sockets  []string
	oddN     int // writes whose returned n differs from len(p) (observation, not part of the statement)
	limExtra int
}

// pattern is the payload of write i in the large-write family: position- and write-dependent bytes.
func pattern(i, size int) string {
	b := make([]byte, size)
	for j := range b {
		b[j] = 'a' + byte((7*i+j+j/251)%26)
	}
	return string(b)
}

// abbrev keeps messages about large streams readable.
func abbrev(b []byte) string {
	if len(b) <= 48 {
		return fmt.Sprintf("%q", b)
	}
	return fmt.Sprintf("%q..(%d bytes)", b[:24], len(b))
}

// execB replays one write/flush sequence against the real Conn over a recording socket.
func execB(cs caseB) (o outcomeB) {
	if len(cs.Sizes) > 0 {
		cs.Writes = make([]string, len(cs.Sizes))
		for i, n := range cs.Sizes {
			cs.Writes[i] = pattern(i, n)
		}
	}
	rec := NewRecConn()
	conn := listener.VerifNewConn(rec, 60)
	lim := &limiterScript{answers: cs.Limited}
	restore := lim.install()
	defer restore()

	var total []byte
	var scratch []byte
	check := func(step string, pendingBefore int) bool {
		shape := "step=" + step
		if pendingBefore > 0 {
			shape += ":pending>0"
		} else {
			shape += ":pending=0"
		}
		sock := rec.Stream()
		pend := conn.Len()
		isPrefix := len(sock) <= len(total) && bytes.Equal(total[:len(sock)], sock)
		if isPrefix && len(sock)+pend == len(total) {
			return true
		}
		var k string
		switch {
		case len(sock) > len(total):
			k = "duplicated"
		case !isPrefix:
			k = classify(total[:len(sock)], sock, false) // reordered | byte-mismatch
		case len(sock)+pend < len(total):
			k = "lost"
		default:
			k = "duplicated" // more bytes queued than remain to be sent
		}
		o.v = verdict{k, shape, fmt.Sprintf("after %s: written so far %s, socket has %s, %d bytes pending", step, abbrev(total), abbrev(sock), pend)}
		return false
	}
	flush := func(name string) bool {
		before := conn.Len()
		_, err := conn.Flush()
		o.calls++
		if err != nil {
			o.v = verdict{"lost", "step=" + name + ":flush-error", fmt.Sprintf("Flush failed on a healthy socket: %v", err)}
			return false
		}
		return check(name, before)
	}

	if p := safely(func() {
		if cs.FlushBefore && !flush("flush") {
			return
		}
		for i, w := range cs.Writes {
			before := conn.Len()
			name := "write-direct"
			if cs.Limited[i] {
				name = "write-limited"
			}
			// the writer owns one buffer and reuses it for every write, as bufio, io.Copy and the pooled MQTT
			// encoder do: an io.Writer must not keep p after returning, so the buffer is overwritten right away
			if cap(scratch) < len(w) {
				scratch = make([]byte, len(w))
			}
			p := scratch[:len(w)]
			copy(p, w)
			n, err := conn.Write(p)
			for j := range p {
				p[j] = '#'
			}
			o.calls++
			if err != nil {
				o.v = verdict{"lost", "step=" + name + ":write-error", fmt.Sprintf("Write %d failed on a healthy socket: %v", i, err)}
				return
			}
			if n != len(w) {
				o.oddN++
			}
			total = append(total, w...)
			if !check(name, before) {
				return
			}
			if cs.FlushAfter[i] && !flush("flush") {
				return
			}
		}
		// the next timer tick: everything must be on the wire, nothing may stay queued
		before := conn.Len()
		if !flush("final-flush") {
			return
		}
		if conn.Len() != 0 || !bytes.Equal(rec.Stream(), total) {
			shape := "step=final-flush:pending=0"
			if before > 0 {
				shape = "step=final-flush:pending>0"
			}
			k := classify(total, rec.Stream(), false)
			if k == "" {
				k = "duplicated"
			}
			o.v = verdict{k, shape, fmt.Sprintf("after the timer flush: written %s, socket has %s, %d bytes pending", abbrev(total), abbrev(rec.Stream()), conn.Len())}
		}
	}); p != "" {
		o.v = verdict{"panic", "write-path", "write path panicked: " + p}
	}
	for _, w := range rec.Writes {
		o.sockets = append(o.sockets, abbrev(w))
	}
	o.limExtra = lim.extra
	return
}

func partB(c *core.Ctx, ag *agg) {
	lens := []int{0, 1, 3}
	var cases, calls, odd, extra int64
	ord := int64(0)
	for k := 0; k <= 4; k++ {
		nl := 1
		for i := 0; i < k; i++ {
			nl *= len(lens)
		}
		for lc := 0; lc < nl; lc++ {
			// payload i: lens[digit i] distinct letters, different for every write
			writes := make([]string, k)
			x := lc
			for i := 0; i < k; i++ {
				l := lens[x%len(lens)]
				x /= len(lens)
				b := make([]byte, l)
				for j := range b {
					b[j] = 'a' + byte(4*i+j)
				}
				writes[i] = string(b)
			}
			for lm := 0; lm < 1<<uint(k); lm++ {
				for fm := 0; fm < 1<<uint(k); fm++ {
					for fb := 0; fb < 2; fb++ {
						cs := caseB{Part: "b", Writes: writes, Limited: make([]bool, k), FlushAfter: make([]bool, k), FlushBefore: fb == 1}
						for i := 0; i < k; i++ {
							cs.Limited[i] = lm&(1<<uint(i)) != 0
							cs.FlushAfter[i] = fm&(1<<uint(i)) != 0
						}
						o := execB(cs)
						ord++
						cases++
						calls += int64(o.calls)
						odd += int64(o.oddN)
						extra += int64(o.limExtra)
						if !o.v.ok() {
							ag.add("write:"+o.v.Kind+":"+o.v.Shape, o.v.What, ord, func() interface{} { return cs })
						}
						if k == 3 && lc == nl-1 && lm == 5 && fm == 2 && fb == 0 {
							c.Sample(map[string]interface{}{"case": cs, "socket_writes": o.sockets, "verdict": o.v.Kind})
						}
					}
				}
			}
		}
	}
	// large writes: sizes just above the power-of-two thresholds at which buffered writers commonly change
	// strategy (bypass the buffer, split, grow), mixed with a small write, every limiter answer and flush placement
	big := []int{2, 4100, 8200, 66000}
	if !c.Quick() {
		big = []int{2, 600, 1100, 2100, 4100, 8200, 16500, 33000, 66000}
	}
	var largeCases int64
	for k := 1; k <= 3; k++ {
		nl := 1
		for i := 0; i < k; i++ {
			nl *= len(big)
		}
		if k == 3 && !c.Quick() {
			continue // 9^3 size triples x 128 placements: pairs suffice for the larger menu
		}
		for lc := 0; lc < nl; lc++ {
			sizes := make([]int, k)
			x := lc
			for i := 0; i < k; i++ {
				sizes[i] = big[x%len(big)]
				x /= len(big)
			}
			for lm := 0; lm < 1<<uint(k); lm++ {
				for fm := 0; fm < 1<<uint(k); fm++ {
					for fb := 0; fb < 2; fb++ {
						cs := caseB{Part: "b", Sizes: sizes, Limited: make([]bool, k), FlushAfter: make([]bool, k), FlushBefore: fb == 1}
						for i := 0; i < k; i++ {
							cs.Limited[i] = lm&(1<<uint(i)) != 0
							cs.FlushAfter[i] = fm&(1<<uint(i)) != 0
						}
						o := execB(cs)
						ord++
						largeCases++
						calls += int64(o.calls)
						if !o.v.ok() {
							ag.add("write-large:"+o.v.Kind+":"+o.v.Shape, o.v.What, ord, func() interface{} { return cs })
						}
					}
				}
			}
		}
	}
	// backlog: a long run of rate-limited writes (up to ~1 MB queued) with or without a flush in the middle and with
	// a final write that is or is not limited: whatever the queue does when it grows, the socket gets every byte once
	for n := 4; n <= 16; n += 2 {
		for _, size := range []int{9000, 66000} {
			for variant := 0; variant < 4; variant++ {
				cs := caseB{Part: "b", Sizes: make([]int, n), Limited: make([]bool, n), FlushAfter: make([]bool, n)}
				for i := 0; i < n; i++ {
					cs.Sizes[i] = size + i // all different
					cs.Limited[i] = true
				}
				if variant&1 != 0 {
					cs.FlushAfter[n/2] = true
				}
				if variant&2 != 0 {
					cs.Limited[n-1] = false
				}
				o := execB(cs)
				ord++
				largeCases++
				calls += int64(o.calls)
				if !o.v.ok() {
					ag.add("write-backlog:"+o.v.Kind+":"+o.v.Shape, o.v.What, ord, func() interface{} { return cs })
				}
			}
		}
	}
	c.Add("cases_write_large", largeCases)
	c.Add("cases_write", cases)
	c.Add("adapter_calls", calls)
	c.Set("write_max_writes", 4)
	c.Set("write_observation_return_value_differs_from_len", odd)
	if extra > 0 {
		c.Set("write_observation_limit_calls_beyond_one_per_write", extra)
	}
}

func replayB(c *core.Ctx, ag *agg, raw json.RawMessage) {
	var cs caseB
	if err := json.Unmarshal(raw, &cs); err == nil && len(cs.Sizes) > 0 {
		cs.Writes = make([]string, len(cs.Sizes))
	}
	if err := json.Unmarshal(raw, &cs); err != nil || len(cs.Limited) != len(cs.Writes) || len(cs.FlushAfter) != len(cs.Writes) {
		core.HarnessFailure("C17 replay: malformed write case")
	}
	o := execB(cs)
	c.Add("cases_write", 1)
	if !o.v.ok() {
		ag.add("write:"+o.v.Kind+":"+o.v.Shape, o.v.What, 0, func() interface{} { return cs })
	}
}
