package c03

// Part (conc): two connections present keys at the same time. What Authorize does with a request — parse the
// channel, decrypt the key with the shared cipher, compare the key's target with the channel — is run by two callers
// under the controlled scheduler with statement-level yields in the channel parser, the key code and the ciphers;
// each caller's verdict must be the one it gets when it is alone. (The broker-level clauses — contract lookup, ban
// list — are exercised sequentially by the main part.)

import (
	"fmt"
	"strings"
	"time"

	"github.com/emitter-io/emitter/internal/security"
	"github.com/emitter-io/emitter/internal/verifx/engine/brokerx"
	"github.com/emitter-io/emitter/internal/verifx/engine/sched"
)

var concFiles = []string{"internal/security/cipher/", "internal/security/key.go", "internal/security/channel.go"}

type concReq struct {
	target  string
	perms   uint8
	request string
}

// verdictOf is the data path of Authorize for one request: (parsed, decrypted, target covers, permission).
func verdictOf(ci interface {
	DecryptKey([]byte) (security.Key, error)
}, keyStr, request string, perm uint8) string {
	ch := security.ParseChannel([]byte(keyStr + "/" + request))
	if ch.ChannelType == security.ChannelInvalid {
		return "unparsable"
	}
	k, err := ci.DecryptKey(append([]byte(nil), ch.Key...))
	if err != nil {
		return "undecryptable"
	}
	return fmt.Sprintf("covers=%v perm=%v opts=%d levels=%d", k.ValidateChannel(ch), k.HasPermission(perm), len(ch.Options), len(ch.Query))
}

func concScenarios() map[string]*sched.Scenario {
	m := map[string]*sched.Scenario{}
	pairs := map[string][2]concReq{
		// one request is covered, the other is not: a verdict leaking from one caller to the other flips one of them
		"covered-vs-refused": {{"a/b/", security.AllowRead, "a/b/"}, {"c/", security.AllowWrite, "a/b/c/"}},
		// wildcards and options on both sides
		"wildcards-options": {{"a/+/", security.AllowRead, "a/x/?last=3&ttl=5"}, {"a/#/", security.AllowWrite, "a/+/c/?me=0"}},
	}
	for ver := 1; ver <= 3; ver++ {
		for pname, pr := range pairs {
			ver, pr := ver, pr
			name := fmt.Sprintf("authorize-v%d-%s", ver, pname)
			m[name] = &sched.Scenario{
				Name: name, Files: concFiles,
				Body: func(s *sched.Sched) {
					lic := brokerx.FixedLicense(ver, 1)
					ci, err := lic.Cipher()
					if err != nil {
						panic(err)
					}
					keys := make([]string, 2)
					want := make([]string, 2)
					for i, r := range pr {
						k := security.Key(make([]byte, 24))
						k.SetSalt(uint16(0x0203 * (i + 1)))
						k.SetMaster(1)
						k.SetContract(lic.Contract())
						k.SetSignature(lic.Signature())
						k.SetPermissions(r.perms)
						k.SetExpires(time.Unix(0, 0))
						if err := k.SetTarget(r.target); err != nil {
							panic(err)
						}
						keys[i], _ = ci.EncryptKey(k)
						want[i] = verdictOf(ci, keys[i], r.request, r.perms) // the caller alone
					}
					got := make([]string, 2)
					for i := 0; i < 2; i++ {
						i := i
						s.Go(fmt.Sprintf("T%d", i), func() { got[i] = verdictOf(ci, keys[i], pr[i].request, pr[i].perms) })
					}
					s.AtEnd(func() {
						for i := 0; i < 2; i++ {
							s.Obs("T%d:%v:%s|alone:%s", i, got[i] == want[i], got[i], want[i])
						}
					})
				},
				Check: func(x *sched.Exec) (string, string) {
					if len(x.Obs) != 2 {
						return "concurrent-requests:incomplete", "execution did not complete"
					}
					for _, o := range x.Obs {
						if strings.Contains(o, ":false:") {
							return "concurrent-requests:verdict-differs", "a request is judged differently when another request is being judged at the same time: " + strings.Join(x.Obs, " ; ")
						}
					}
					return "", ""
				},
			}
		}
	}
	return m
}

func concOrder() []string {
	var out []string
	for ver := 1; ver <= 3; ver++ {
		for _, p := range []string{"covered-vs-refused", "wildcards-options"} {
			out = append(out, fmt.Sprintf("authorize-v%d-%s", ver, p))
		}
	}
	return out
}
