// Package sync is the drop-in replacement of the standard sync package used by instrumented
// files. Outside an exploration every operation falls through to the real primitive.
package sync

import (
	"fmt"
	rs "sync"

	"github.com/emitter-io/emitter/internal/verifx/engine/sched"
)

// Unmodelled primitives are the real ones.
type (
	WaitGroup = rs.WaitGroup
	Once      = rs.Once
	Map       = rs.Map
	Cond      = rs.Cond
	Locker    = rs.Locker
)

// Mutex is a scheduler-aware mutex.
type Mutex struct {
	real rs.Mutex
	held bool
}

func (m *Mutex) String() string { return fmt.Sprintf("Mutex@%p", m) }

// Lock acquires the mutex.
func (m *Mutex) Lock() {
	s := sched.Active()
	if s == nil {
		m.real.Lock()
		return
	}
	s.Acquire(m, "Mutex.Lock", func() bool {
		if m.held {
			return false
		}
		m.held = true
		return true
	}, nil)
}

// TryLock tries to acquire the mutex.
func (m *Mutex) TryLock() bool {
	s := sched.Active()
	if s == nil {
		return m.real.TryLock()
	}
	s.Op("Mutex.TryLock")
	if m.held {
		return false
	}
	m.held = true
	return true
}

// Unlock releases the mutex.
func (m *Mutex) Unlock() {
	s := sched.Active()
	if s == nil {
		m.real.Unlock()
		return
	}
	if s.Aborting() {
		return
	}
	if !m.held {
		panic("sync: unlock of unlocked mutex")
	}
	m.held = false
	s.Release(m)
}

// RWMutex is a scheduler-aware reader/writer mutex (a waiting writer excludes new readers, as in Go).
type RWMutex struct {
	real    rs.RWMutex
	writer  bool
	readers int
	waiting int
}

func (m *RWMutex) String() string { return fmt.Sprintf("RWMutex@%p", m) }

// Lock acquires the write lock.
func (m *RWMutex) Lock() {
	s := sched.Active()
	if s == nil {
		m.real.Lock()
		return
	}
	blockedOnce := false
	s.Acquire(m, "RWMutex.Lock", func() bool {
		if m.writer || m.readers > 0 {
			return false
		}
		m.writer = true
		if blockedOnce {
			m.waiting--
		}
		return true
	}, func() { blockedOnce = true; m.waiting++ })
}

// Unlock releases the write lock.
func (m *RWMutex) Unlock() {
	s := sched.Active()
	if s == nil {
		m.real.Unlock()
		return
	}
	if s.Aborting() {
		return
	}
	if !m.writer {
		panic("sync: Unlock of unlocked RWMutex")
	}
	m.writer = false
	s.Release(m)
}

// RLock acquires a read lock.
func (m *RWMutex) RLock() {
	s := sched.Active()
	if s == nil {
		m.real.RLock()
		return
	}
	s.Acquire(m, "RWMutex.RLock", func() bool {
		if m.writer || m.waiting > 0 {
			return false
		}
		m.readers++
		return true
	}, nil)
}

// RUnlock releases a read lock.
func (m *RWMutex) RUnlock() {
	s := sched.Active()
	if s == nil {
		m.real.RUnlock()
		return
	}
	if s.Aborting() {
		return
	}
	if m.readers <= 0 {
		panic("sync: RUnlock of unlocked RWMutex")
	}
	m.readers--
	s.Release(m)
}

// RLocker returns a Locker for the read side.
func (m *RWMutex) RLocker() Locker { return (*rlocker)(m) }

type rlocker RWMutex

func (r *rlocker) Lock()   { (*RWMutex)(r).RLock() }
func (r *rlocker) Unlock() { (*RWMutex)(r).RUnlock() }

// Pool is a deterministic LIFO pool; it empties itself at the start of every scheduled execution
// so that no state leaks from one explored execution into the next.
type Pool struct {
	New   func() interface{}
	mu    rs.Mutex
	items []interface{}
	epoch int64
}

// Get takes an item from the pool.
func (p *Pool) Get() interface{} {
	var ep int64
	if s := sched.Active(); s != nil {
		ep = s.Epoch()
	}
	p.mu.Lock()
	if p.epoch != ep {
		p.items = nil
		p.epoch = ep
	}
	if n := len(p.items); n > 0 {
		x := p.items[n-1]
		p.items = p.items[:n-1]
		p.mu.Unlock()
		return x
	}
	p.mu.Unlock()
	if p.New != nil {
		return p.New()
	}
	return nil
}

// Put returns an item to the pool.
func (p *Pool) Put(x interface{}) {
	if x == nil {
		return
	}
	var ep int64
	if s := sched.Active(); s != nil {
		ep = s.Epoch()
	}
	p.mu.Lock()
	if p.epoch != ep {
		p.items = nil
		p.epoch = ep
	}
	p.items = append(p.items, x)
	p.mu.Unlock()
}
