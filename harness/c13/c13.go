// Package c13: gossip payloads carry exactly what is new and lose nothing queued.
// (a) every pair (local entry, incoming entry) of add/remove times on two keys: the delta left by
//     Merge is exactly what changed; (b) every short sequence of payloads queued on real
//     mesh gossip senders: what is finally sent carries every update that was queued.
package c13

import (
	"encoding/json"
	"fmt"
	"sort"
	"strings"

	"github.com/emitter-io/emitter/internal/event"
	"github.com/emitter-io/emitter/internal/event/crdt"
	"github.com/emitter-io/emitter/internal/message"
	"github.com/emitter-io/emitter/internal/security"
	"github.com/emitter-io/emitter/internal/verifx/engine/brokerx"
	"github.com/emitter-io/emitter/internal/verifx/engine/core"
	"github.com/emitter-io/emitter/internal/verifx/engine/sched"
	"github.com/weaveworks/mesh"
)

func init() {
	core.Register(&core.Check{ID: "C13", Level: "model_checking", Run: run, Replay: replay, Worker: schedWorker})
}

func at(t int64, f func()) {
	saved := crdt.Now
	crdt.Now = func() int64 { return t }
	f()
	crdt.Now = saved
}

// ---- part (a): delta exactness ----------------------------------------------------------------

type cell struct{ LA, LD, IA, ID int64 } // local add/del, incoming add/del (0 = absent)

type aCase struct {
	Part    string `json:"part"`
	Backend string `json:"backend"`
	K1, K2  cell
}

func rel(a, b int64) string {
	switch {
	case b == 0:
		return "absent"
	case a == 0:
		return "new"
	case b > a:
		return "newer"
	case b == a:
		return "tie"
	}
	return "older"
}

var caseCounter int

// runA executes one case on the given backend; fresh key names make instances reusable.
func runA(c *core.Ctx, cs aCase, shared *crdt.Durable) {
	caseCounter++
	names := []string{fmt.Sprintf("k1-%d", caseCounter), fmt.Sprintf("k2-%d", caseCounter)}
	cells := []cell{cs.K1, cs.K2}
	c.Add("delta_cases", 1)
	switch cs.Backend {
	case "volatile<-volatile", "durable<-volatile":
		var local crdt.Map
		if cs.Backend == "durable<-volatile" {
			local = shared
		} else {
			local = crdt.NewVolatile()
		}
		in := crdt.NewVolatile()
		for i, ce := range cells {
			if ce.LA > 0 {
				at(ce.LA, func() { local.Add(names[i], nil) })
			}
			if ce.LD > 0 {
				at(ce.LD, func() { local.Del(names[i]) })
			}
			if ce.IA > 0 {
				at(ce.IA, func() { in.Add(names[i], nil) })
			}
			if ce.ID > 0 {
				at(ce.ID, func() { in.Del(names[i]) })
			}
		}
		var p string
		func() {
			defer func() {
				if r := recover(); r != nil {
					p = fmt.Sprint(r)
				}
			}()
			local.Merge(in)
		}()
		if p != "" {
			c.Violate("a:"+cs.Backend+":panic", "Merge panicked: "+p, cs)
			return
		}
		expectEntries := 0
		for i, ce := range cells {
			wa, wd := max64(ce.LA, ce.IA), max64(ce.LD, ce.ID)
			got := local.Get(names[i])
			if got.AddTime() != wa || got.DelTime() != wd {
				c.Violate(fmt.Sprintf("a:%s:local-not-max:add-%s:del-%s", cs.Backend, rel(ce.LA, ce.IA), rel(ce.LD, ce.ID)),
					fmt.Sprintf("local (%d,%d) merged with incoming (%d,%d) gives (%d,%d), expected (%d,%d)", ce.LA, ce.LD, ce.IA, ce.ID, got.AddTime(), got.DelTime(), wa, wd), cs)
			}
			if (wa != 0 && wa >= wd) != local.Has(names[i]) {
				c.Violate("a:"+cs.Backend+":activity", "Has() disagrees with 'added and latest add not older than latest remove'", cs)
			}
			da, dd := int64(0), int64(0)
			if ce.IA > ce.LA {
				da = ce.IA
			}
			if ce.ID > ce.LD {
				dd = ce.ID
			}
			d := in.Get(names[i])
			if d.AddTime() != da || d.DelTime() != dd {
				comp := "add"
				if d.AddTime() == da {
					comp = "del"
				}
				c.Violate(fmt.Sprintf("a:%s:delta-wrong-%s:add-%s:del-%s", cs.Backend, comp, rel(ce.LA, ce.IA), rel(ce.LD, ce.ID)),
					fmt.Sprintf("local (%d,%d), incoming (%d,%d): delta holds (%d,%d), expected (%d,%d)", ce.LA, ce.LD, ce.IA, ce.ID, d.AddTime(), d.DelTime(), da, dd), cs)
			}
			if da != 0 || dd != 0 {
				expectEntries++
			}
		}
		if in.Count() != expectEntries {
			c.Violate("a:"+cs.Backend+":delta-entry-count", fmt.Sprintf("delta has %d entries, %d changed", in.Count(), expectEntries), cs)
		}
	case "state":
		local := event.NewState("")
		in := event.NewState("")
		evs := []*event.Subscription{{Peer: 1, Conn: 1, Ssid: message.Ssid{1, uint32(caseCounter)}}, {Peer: 1, Conn: 2, Ssid: message.Ssid{1, uint32(caseCounter)}}}
		for i, ce := range cells {
			if ce.LA > 0 {
				at(ce.LA, func() { local.Add(evs[i]) })
			}
			if ce.LD > 0 {
				at(ce.LD, func() { local.Del(evs[i]) })
			}
			if ce.IA > 0 {
				at(ce.IA, func() { in.Add(evs[i]) })
			}
			if ce.ID > 0 {
				at(ce.ID, func() { in.Del(evs[i]) })
			}
		}
		var ret mesh.GossipData
		var p string
		func() {
			defer func() {
				if r := recover(); r != nil {
					p = fmt.Sprint(r)
				}
			}()
			ret = local.Merge(in)
		}()
		if p != "" {
			c.Violate("a:state:panic", "State.Merge panicked: "+p, cs)
			return
		}
		changed := false
		for _, ce := range cells {
			if ce.IA > ce.LA || ce.ID > ce.LD {
				changed = true
			}
		}
		if changed == (ret == nil) {
			k := "nil-although-changed"
			if ret != nil {
				k = "non-nil-although-nothing-changed"
			}
			c.Violate("a:state:"+k, fmt.Sprintf("State.Merge returned nil=%v but changed=%v", ret == nil, changed), cs)
		}
		// the delta contains exactly the changed components
		times := map[string][2]int64{}
		in.Subscriptions(func(ev *event.Subscription, v event.Value) { times[ev.Key()] = [2]int64{v.AddTime(), v.DelTime()} })
		ltimes := map[string][2]int64{}
		local.Subscriptions(func(ev *event.Subscription, v event.Value) { ltimes[ev.Key()] = [2]int64{v.AddTime(), v.DelTime()} })
		for i, ce := range cells {
			da, dd := int64(0), int64(0)
			if ce.IA > ce.LA {
				da = ce.IA
			}
			if ce.ID > ce.LD {
				dd = ce.ID
			}
			if got := times[evs[i].Key()]; got != [2]int64{da, dd} {
				c.Violate(fmt.Sprintf("a:state:delta-wrong:add-%s:del-%s", rel(ce.LA, ce.IA), rel(ce.LD, ce.ID)), fmt.Sprintf("delta holds %v, expected (%d,%d)", got, da, dd), cs)
			}
			if got := ltimes[evs[i].Key()]; got != [2]int64{max64(ce.LA, ce.IA), max64(ce.LD, ce.ID)} {
				c.Violate(fmt.Sprintf("a:state:local-not-max:add-%s:del-%s", rel(ce.LA, ce.IA), rel(ce.LD, ce.ID)), fmt.Sprintf("local holds %v", got), cs)
			}
		}
	}
}

func max64(a, b int64) int64 {
	if a > b {
		return a
	}
	return b
}

func partA(c *core.Ctx) {
	vals := []int64{0, 1, 2, 3}
	var cells []cell
	for _, la := range vals {
		for _, ld := range vals {
			for _, ia := range vals {
				for _, id := range vals {
					cells = append(cells, cell{la, ld, ia, id})
				}
			}
		}
	}
	shared := crdt.NewDurable("")
	defer shared.Close()
	for _, be := range []string{"volatile<-volatile", "durable<-volatile", "state"} {
		for i, c1 := range cells {
			for j, c2 := range cells {
				if c.Quick() && be != "volatile<-volatile" && (i*7+j)%5 != 0 && j != 0 {
					continue // quick: full product on one backend, every 5th pair (+ all single-key cases) on the others
				}
				runA(c, aCase{Part: "a", Backend: be, K1: c1, K2: c2}, shared)
				c.Distinct("delta_shapes", be+rel(c1.LA, c1.IA)+rel(c1.LD, c1.ID)+rel(c2.LA, c2.IA)+rel(c2.LD, c2.ID))
			}
		}
	}
	c.Sample(aCase{Part: "a", Backend: "durable<-volatile", K1: cell{2, 1, 3, 1}, K2: cell{0, 0, 1, 2}})
}

// ---- part (b): coalescing in the real gossip sender ------------------------------------------------

// payload kinds offered to a sender
var kinds = []string{"opAdd1", "opDel1", "opAdd2", "delta", "live"}

type step struct {
	Call string `json:"call"` // B1 B2 Bboth (broadcast from source 1 on link 1 / 2 / both), S1 S2 Sboth (send)
	Kind string `json:"kind"`
}

func (s step) String() string { return s.Call + "(" + s.Kind + ")" }

type bCase struct {
	Part  string `json:"part"`
	Steps []step `json:"steps"`
	// Big > 0: payload kind "bigdelta" is the delta left by merging a peer's complete state of Big subscriptions (a
	// volatile payload as large as a complete state ever is); only the update queued next to it (opAdd3) is tracked
	Big int `json:"big_state_entries,omitempty"`
}

type entry struct{ A, D int64 }

func union(a, b map[string]entry) map[string]entry {
	out := map[string]entry{}
	for k, v := range a {
		out[k] = v
	}
	for k, v := range b {
		o := out[k]
		out[k] = entry{max64(o.A, v.A), max64(o.D, v.D)}
	}
	return out
}

func covers(have, want map[string]entry) (bool, string) {
	var ks []string
	for k := range want {
		ks = append(ks, k)
	}
	sort.Strings(ks)
	for _, k := range ks {
		w, h := want[k], have[k]
		if h.A < w.A {
			return false, fmt.Sprintf("add time of %s (queued %d, sent %d)", k, w.A, h.A)
		}
		if h.D < w.D {
			return false, fmt.Sprintf("remove time of %s (queued %d, sent %d)", k, w.D, h.D)
		}
	}
	return true, ""
}

// benv is a real broker whose swarm produces the payloads exactly as production hands them to the
// gossip transport: Notify -> broadcast payload (captured), OnGossip -> delta, Gossip() -> live state.
type benv struct {
	env   *brokerx.Env
	cap   *capture
	cases int
}

type capture struct{ last mesh.GossipData }

func (c *capture) GossipUnicast(dst mesh.PeerName, msg []byte) error { return nil }
func (c *capture) GossipBroadcast(update mesh.GossipData)            { c.last = update }
func (c *capture) GossipNeighbourSubset(update mesh.GossipData)      {}

func newBenv() *benv {
	b := &benv{env: brokerx.MustNew(brokerx.Options{KeepGossip: true}), cap: &capture{}}
	b.env.Svc.VerifCluster().VerifSetGossip(b.cap)
	return b
}

var theEnv *benv

func getEnv() *benv {
	if theEnv == nil || theEnv.cases >= 40 {
		if theEnv != nil {
			theEnv.env.Close()
		}
		theEnv = newBenv()
	}
	theEnv.cases++
	return theEnv
}

func snapshotOf(d mesh.GossipData, mine map[string]bool) map[string]entry {
	out := map[string]entry{}
	for _, buf := range d.Encode() {
		dec, err := event.DecodeState(buf)
		if err != nil {
			continue
		}
		dec.Subscriptions(func(ev *event.Subscription, v event.Value) {
			k := fmt.Sprintf("conn%d", ev.Conn)
			if mine[k] {
				out[k] = entry{v.AddTime(), v.DelTime()}
			}
		})
	}
	return out
}

// runB executes one enqueue sequence under a one-thread scheduler (deadlocks are detected, not timed out).
func runB(c *core.Ctx, cs bCase) {
	c.Add("coalescing_cases", 1)
	var verdictSig, verdictWhat string
	b := getEnv()
	if cs.Big > 0 {
		b = newBenv() // a broker of its own: the state size matters
		defer b.env.Close()
	}
	sw := b.env.Svc.VerifCluster()
	self := sw.ID()
	base := security.ID(b.cases * 10)

	body := func(s *sched.Sched) {
		ev1 := &event.Subscription{Peer: self, Conn: base + 1, Ssid: message.Ssid{1, 2}}
		ev2 := &event.Subscription{Peer: self, Conn: base + 2, Ssid: message.Ssid{1, 3}}
		ev3 := &event.Subscription{Peer: self, Conn: base + 3, Ssid: message.Ssid{1, 4}}
		mine := map[string]bool{fmt.Sprintf("conn%d", base+1): true, fmt.Sprintf("conn%d", base+2): true}
		if cs.Big > 0 {
			// a complete state beyond the encoder's sample size is sent as a sample: only the new update is tracked
			mine = map[string]bool{fmt.Sprintf("conn%d", base+3): true}
		}
		sw.Notify(ev1, true)
		sw.Notify(ev2, true)
		senders := []*mesh.VerifSender{mesh.NewVerifSender(), mesh.NewVerifSender()}
		queued := []map[string]entry{{}, {}}
		mk := func(kind string) mesh.GossipData {
			switch kind {
			case "opAdd1":
				sw.Notify(ev1, true)
				return b.cap.last
			case "opDel1":
				sw.Notify(ev1, false)
				return b.cap.last
			case "opAdd2":
				sw.Notify(ev2, true)
				return b.cap.last
			case "opAdd3":
				sw.Notify(ev3, true)
				return b.cap.last
			case "bigdelta":
				// a peer's complete state (Big subscriptions of that peer) arrives; everything in it is news, so the
				// delta relayed onward is a volatile payload of that size
				in := event.NewState("")
				for i := 0; i < cs.Big; i++ {
					in.Add(&event.Subscription{Peer: 77, Conn: security.ID(1000000 + i), Ssid: message.Ssid{1, 9}})
				}
				d, err := sw.OnGossip(in.Encode()[0])
				if err != nil || d == nil {
					panic(fmt.Sprintf("harness: OnGossip returned no delta for the big snapshot (%v)", err))
				}
				return d
			case "delta":
				// what merging an incoming payload returns for onward relay
				in := event.NewState("")
				in.Del(ev2)
				d, err := sw.OnGossip(in.Encode()[0])
				if err != nil || d == nil {
					panic(fmt.Sprintf("harness: OnGossip returned no delta (%v)", err))
				}
				return d
			case "live":
				return sw.Gossip()
			}
			panic(kind)
		}
		for _, st := range cs.Steps {
			p := mk(st.Kind)
			snap := snapshotOf(p, mine)
			links := []int{0}
			switch st.Call[1:] {
			case "2":
				links = []int{1}
			case "both":
				links = []int{0, 1}
			}
			for _, l := range links {
				queued[l] = union(queued[l], snap)
				if st.Call[0] == 'B' {
					senders[l].Broadcast(mesh.PeerName(1), p)
				} else {
					senders[l].Send(p)
				}
			}
		}
		// drain every link: pick, encode, decode, merge at a receiver
		for l, snd := range senders {
			got := map[string]entry{}
			for i := 0; i < 10; i++ {
				d, _, _ := snd.PickAny()
				if d == nil {
					break
				}
				for _, buf := range d.Encode() {
					if _, err := event.DecodeState(buf); err != nil {
						verdictSig, verdictWhat = "b:undecodable", "a queued payload does not decode: "+err.Error()
						return
					}
				}
				got = union(got, snapshotOf(d, mine))
			}
			if ok, what := covers(got, queued[l]); !ok {
				verdictSig = "b:lost"
				verdictWhat = fmt.Sprintf("link %d: the payload finally sent lacks the %s; queued %v, sent %v", l+1, what, queued[l], got)
				return
			}
		}
	}
	x := sched.Run(nil, false, body)
	if x.Deadlock || len(x.Panics) > 0 || x.Hang {
		theEnv = nil // the broker may be poisoned (a lock held by the aborted thread)
	}
	var seq []string
	for _, st := range cs.Steps {
		seq = append(seq, st.String())
	}
	_ = seq
	shape := shapeOf(cs.Steps)
	if cs.Big > 0 {
		shape += ":big-state"
	}
	switch {
	case x.Hang:
		c.Violate("b:hang:"+shape, "execution did not finish", cs)
	case x.Deadlock:
		c.Violate("b:deadlock:"+shape, "coalescing deadlocks: "+strings.Join(x.Blocked, "; "), cs)
	case len(x.Panics) > 0:
		first := strings.SplitN(x.Panics[0], "\n", 2)[0]
		c.Violate("b:crash:"+shape, "coalescing panics (in production: on a gossip goroutine, nothing is sent): "+first, cs)
	case verdictSig != "":
		c.Violate(verdictSig+":"+shape, verdictWhat, cs)
	}
}

// shapeOf classifies an enqueue sequence: call type (B/S), payload class (op/delta/live) and whether
// the steps meet on one link — the raw operation and link numbers are dropped.
func shapeOf(steps []step) string {
	var out []string
	for _, st := range steps {
		k := "op"
		if st.Kind == "delta" || st.Kind == "live" || st.Kind == "bigdelta" {
			k = st.Kind
		}
		l := "1"
		if strings.HasSuffix(st.Call, "both") {
			l = "both"
		} else if strings.HasSuffix(st.Call, "2") {
			l = "2"
		}
		out = append(out, fmt.Sprintf("%c%s(%s)", st.Call[0], l, k))
	}
	return strings.Join(out, ",")
}

func partB(c *core.Ctx) {
	sched.EnableFiles() // no statement yields needed: one thread, lock operations only
	calls := []string{"B1", "Bboth", "S1", "Sboth"}
	var all []step
	for _, ca := range calls {
		for _, k := range kinds {
			all = append(all, step{ca, k})
		}
	}
	maxLen := 2
	if !c.Quick() {
		maxLen = 3
	}
	var rec func(cur []step)
	rec = func(cur []step) {
		if len(cur) > 0 {
			runB(c, bCase{Part: "b", Steps: append([]step(nil), cur...)})
			var ks []string
			for _, s := range cur {
				ks = append(ks, s.String())
			}
			c.Distinct("sequences", strings.Join(ks, ","))
		}
		if len(cur) == maxLen || c.Expired() {
			return
		}
		for _, s := range all {
			rec(append(cur, s))
		}
	}
	rec(nil)
	// a delta as large as a complete state ever is (50000 entries, relayed after a peer's complete state was merged)
	// queued on a link, and an update with a new key queued behind / before it
	for _, steps := range [][]step{
		{{"B1", "bigdelta"}, {"B1", "opAdd3"}}, // same bucket (broadcasts of one source): coalesced
		{{"S1", "opAdd3"}, {"S1", "bigdelta"}},
		{{"Sboth", "bigdelta"}, {"Sboth", "opAdd3"}, {"S1", "opDel1"}},
	} {
		if c.Expired() {
			break
		}
		runB(c, bCase{Part: "b", Steps: steps, Big: 50000})
		c.Distinct("sequences", fmt.Sprint("big", steps))
	}
	c.Sample(bCase{Part: "b", Steps: []step{{"B1", "opAdd1"}, {"B1", "opAdd2"}}})
}

func schedWorker(c *core.Ctx, args []string) {
	if len(args) > 0 && args[0] == "sched" {
		sched.WorkerMain(c, concScenarios(), args[1:])
	}
}

func run(c *core.Ctx) {
	partA(c)
	partB(c)
	bound := 2
	if !c.Quick() {
		bound = 3
	}
	c.Set("sched_bound_completed", sched.Drive(c, concOrder, bound))
	c.Set("sched_schedules", c.Count("schedules"))
	n := c.Count("delta_cases") + c.Count("coalescing_cases") + c.Count("schedules")
	c.Set("states", n)
	c.Set("transitions", n)
	c.Set("traces_validated_against_impl", n)
	c.Set("distinct_delta_shapes", c.DistinctCount("delta_shapes"))
	c.Set("distinct_enqueue_sequences", c.DistinctCount("sequences"))
	c.Assume("the gossip senders are real weaveworks/mesh gossipSender objects built without their delivery goroutine; picking follows the real order (gossip bucket first)")
	c.Assume("damage done to the live state by coalescing is observed by C05, not here")
}

func replay(c *core.Ctx, raw json.RawMessage) {
	if sched.ReplayCase(c, concScenarios(), raw) {
		return
	}
	var probe struct {
		Part string `json:"part"`
	}
	json.Unmarshal(raw, &probe)
	if probe.Part == "a" {
		var cs aCase
		json.Unmarshal(raw, &cs)
		shared := crdt.NewDurable("")
		defer shared.Close()
		runA(c, cs, shared)
		return
	}
	var cs bCase
	json.Unmarshal(raw, &cs)
	sched.EnableFiles()
	runB(c, cs)
}
