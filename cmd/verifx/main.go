// Command verifx runs one registered check: verifx run <id> <tier> | replay <id> <file> | worker <id> <tier> args...
package main

import (
	"encoding/json"
	"fmt"
	"os"
	"os/exec"
	"strings"

	"github.com/emitter-io/emitter/internal/verifx/engine/core"
)

func main() {
	if len(os.Args) < 3 {
		fmt.Println("usage: verifx run|replay|worker <id> ...; checks:", core.IDs())
		os.Exit(2)
	}
	mode, id := os.Args[1], os.Args[2]
	ch := core.Lookup(id)
	if ch == nil {
		fmt.Println("unknown check", id, "have", core.IDs())
		os.Exit(2)
	}
	switch mode {
	case "run":
		tier := "quick"
		if len(os.Args) > 3 {
			tier = os.Args[3]
		}
		c := core.NewCtx(id, ch.Level, tier)
		ch.Run(c)
		os.Exit(c.Finish())
	case "worker":
		c := core.NewCtx(id, ch.Level, os.Args[3])
		c.IsWorker = true
		if ch.Worker == nil {
			fmt.Println("check has no worker entry")
			os.Exit(2)
		}
		ch.Worker(c, os.Args[4:])
		c.EmitWorkerResult()
	case "replay":
		if ch.Replay == nil || len(os.Args) < 4 {
			fmt.Println("check has no replay entry or file missing")
			os.Exit(2)
		}
		sig, _, raw, err := core.ReadReplay(os.Args[3])
		if err != nil {
			fmt.Println("cannot read replay:", err)
			os.Exit(2)
		}
		// an interleaving case of a check whose main part runs uninstrumented: hand over to the scheduled binary
		var partProbe struct {
			Part string `json:"part"`
		}
		json.Unmarshal(raw, &partProbe)
		if sb := core.SchedBin(); sb != "" && strings.HasPrefix(partProbe.Part, "sched:") {
			cmd := exec.Command(sb, os.Args[1:]...)
			cmd.Stdout, cmd.Stderr = os.Stdout, os.Stderr
			if err := cmd.Run(); err != nil {
				if ee, ok := err.(*exec.ExitError); ok {
					os.Exit(ee.ExitCode())
				}
				os.Exit(2)
			}
			os.Exit(0)
		}
		fmt.Println("replaying", sig)
		reproduced := 0
		for i := 0; i < 2; i++ {
			c := core.NewCtx(id, ch.Level, "quick")
			ch.Replay(c, raw)
			vs := c.Violations()
			for _, v := range vs {
				fmt.Printf("run %d: %s: %s\n", i+1, v.Signature, v.What)
			}
			if len(vs) > 0 {
				reproduced++
			}
		}
		if reproduced == 2 {
			fmt.Println("REPRODUCED twice")
			os.Exit(1)
		}
		if reproduced == 1 {
			fmt.Println("NONDETERMINISTIC replay (1 of 2)")
			os.Exit(2)
		}
		fmt.Println("not reproduced")
		os.Exit(0)
	}
}
