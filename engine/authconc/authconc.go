package authconc

// Package authconc holds the interleaving scenarios shared by C03 and C12: two connections present keys at the same time. What Authorize does with a request — parse the
// channel, decrypt the key with the shared cipher, compare the key's target with the channel — is run by two callers
// under the controlled scheduler with statement-level yields in the channel parser, the key code and the ciphers;
// each caller's verdict must be the one it gets when it is alone. (The broker-level clauses — contract lookup, ban
// list — are exercised sequentially by the main part.)

import (
	"fmt"
	"strings"
	"time"

	"github.com/emitter-io/emitter/internal/security"
	"github.com/emitter-io/emitter/internal/security/license"
	"github.com/emitter-io/emitter/internal/service/keygen"
	"github.com/emitter-io/emitter/internal/verifx/engine/brokerx"
	"github.com/emitter-io/emitter/internal/verifx/engine/sched"
)

var concFiles = []string{"internal/security/cipher/", "internal/security/key.go", "internal/security/channel.go", "internal/service/keygen/keygen.go"}

type concReq struct {
	target  string
	perms   uint8
	request string
	alter   bool // present the key with one character changed
}

// decrypter is what Authorize decrypts keys with: the key generation service in front of the license's cipher.
type decrypter interface {
	DecryptKey(string) (security.Key, error)
}

// verdictOf is the data path of Authorize for one request: parse the channel, decrypt the key, compare the key's
// contract fields with the license's, its target with the channel, its permissions with the operation.
func verdictOf(kg decrypter, lic license.License, keyStr, request string, perm uint8) string {
	ch := security.ParseChannel([]byte(keyStr + "/" + request))
	if ch.ChannelType == security.ChannelInvalid {
		return "unparsable"
	}
	k, err := kg.DecryptKey(string(ch.Key))
	if err != nil {
		return "undecryptable"
	}
	same := k.Contract() == lic.Contract() && k.Signature() == lic.Signature() && k.Master() == 1
	return fmt.Sprintf("same-contract=%v covers=%v perm=%v opts=%d levels=%d", same, k.ValidateChannel(ch), k.HasPermission(perm), len(ch.Options), len(ch.Query))
}

// Scenarios returns the scenarios by name.
func Scenarios() map[string]*sched.Scenario {
	m := map[string]*sched.Scenario{}
	pairs := map[string][2]concReq{
		// one request is covered, the other is not: a verdict leaking from one caller to the other flips one of them
		"covered-vs-refused": {{"a/b/", security.AllowRead, "a/b/", false}, {"c/", security.AllowWrite, "a/b/c/", false}},
		// wildcards and options on both sides
		"wildcards-options": {{"a/+/", security.AllowRead, "a/x/?last=3&ttl=5", false}, {"a/#/", security.AllowWrite, "a/+/c/?me=0", false}},
		// an altered (hence invalid) read key next to a valid read-write key for the same channel
		"altered-vs-powerful": {{"a/b/", security.AllowRead, "a/b/", true}, {"a/b/", security.AllowReadWrite, "a/b/", false}},
	}
	for ver := 1; ver <= 3; ver++ {
		for pname, pr := range pairs {
			ver, pr := ver, pr
			name := fmt.Sprintf("authorize-v%d-%s", ver, pname)
			m[name] = &sched.Scenario{
				Name: name, Files: concFiles,
				Body: func(s *sched.Sched) {
					lic := brokerx.FixedLicense(ver, 1)
					ci, err := lic.Cipher()
					if err != nil {
						panic(err)
					}
					kg := keygen.New(ci, nil, nil)
					keys := make([]string, 2)
					want := make([]string, 2)
					for i, r := range pr {
						k := security.Key(make([]byte, 24))
						k.SetSalt(uint16(0x0203 * (i + 1)))
						k.SetMaster(1)
						k.SetContract(lic.Contract())
						k.SetSignature(lic.Signature())
						k.SetPermissions(r.perms)
						k.SetExpires(time.Unix(0, 0))
						if err := k.SetTarget(r.target); err != nil {
							panic(err)
						}
						keys[i], _ = ci.EncryptKey(k)
						if r.alter {
							// one character of the issued key changed: to the broker a different (and invalid) key
							b := []byte(keys[i])
							if b[20] == 'A' {
								b[20] = 'B'
							} else {
								b[20] = 'A'
							}
							keys[i] = string(b)
						}
						want[i] = verdictOf(kg, lic, keys[i], r.request, r.perms) // the caller alone
					}
					got := make([]string, 2)
					for i := 0; i < 2; i++ {
						i := i
						s.Go(fmt.Sprintf("T%d", i), func() { got[i] = verdictOf(kg, lic, keys[i], pr[i].request, pr[i].perms) })
					}
					s.AtEnd(func() {
						for i := 0; i < 2; i++ {
							s.Obs("T%d:%v:%s|alone:%s", i, got[i] == want[i], got[i], want[i])
						}
					})
				},
				Check: func(x *sched.Exec) (string, string) {
					if len(x.Obs) != 2 {
						return "concurrent-requests:incomplete", "execution did not complete"
					}
					for _, o := range x.Obs {
						if strings.Contains(o, ":false:") {
							return "concurrent-requests:verdict-differs", "a request is judged differently when another request is being judged at the same time: " + strings.Join(x.Obs, " ; ")
						}
					}
					return "", ""
				},
			}
		}
	}
	return m
}

// Order lists the scenario names in exploration order.
func Order() []string {
	var out []string
	for ver := 1; ver <= 3; ver++ {
		for _, p := range []string{"covered-vs-refused", "wildcards-options", "altered-vs-powerful"} {
			out = append(out, fmt.Sprintf("authorize-v%d-%s", ver, p))
		}
	}
	return out
}
