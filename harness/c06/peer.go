package c06

// Part (peer): history is stored on the node the publisher was connected to, so a query asks the other nodes too (the
// store's cluster survey) and answers with the most recent `limit` messages of all of them. Two real stores A and B
// of one provider, A's survey wired to B's real OnSurvey; four messages on one channel at four different seconds are
// distributed over A and B in every way, and A is queried with every limit: the answer must be the newest `limit`
// messages of the union, oldest first. (Payloads are small: the reply-size cap of a single node never binds here.)
//
// Part (many): 100 small messages on one channel (local, on the peer, alternating) and limits 63…150: the answer
// is the newest min(limit, 100) of them.
//
// Part (retained): a message stored with the retain marker lives for the configured retention period — the store is
// configured with a retention of 2 s, retained and long-lived messages are stored, and after the period (plus a
// margin; waiting longer can only make the verdict more certain) only the long-lived ones may come back.

import (
	"fmt"
	"os"
	"path/filepath"
	"strings"
	"sync/atomic"
	"time"

	"github.com/emitter-io/emitter/internal/message"
	"github.com/emitter-io/emitter/internal/provider/storage"
	"github.com/emitter-io/emitter/internal/service"
	"github.com/emitter-io/emitter/internal/verifx/engine/core"
)

type peerCase struct {
	Part     string `json:"part"` // "peer" | "retained"
	Provider string `json:"provider"`
	OnB      []bool `json:"stored_on_peer,omitempty"` // message i (oldest first) is stored on the peer
	Limit    int    `json:"limit,omitempty"`
	Spread   string `json:"spread,omitempty"` // part "many": local | peer | alternate
}

// linkSurvey answers a store's survey with the peer store's real OnSurvey.
type linkSurvey struct {
	peer interface {
		OnSurvey(string, []byte) ([]byte, bool)
	}
}
type linkAwaiter struct{ resp [][]byte }

func (a linkAwaiter) Gather(time.Duration) [][]byte { return a.resp }
func (l *linkSurvey) Query(kind string, payload []byte) (message.Awaiter, error) {
	if b, ok := l.peer.OnSurvey(kind, payload); ok {
		return linkAwaiter{[][]byte{b}}, nil
	}
	return linkAwaiter{}, nil
}

type peerStore interface {
	storage.Storage
	OnSurvey(string, []byte) ([]byte, bool)
}

func openPair(provider, root string, retain int) (a, b peerStore, cleanup func(), err error) {
	cfg := func(dir string) map[string]interface{} {
		m := map[string]interface{}{}
		if dir != "" {
			m["dir"] = dir
		}
		if retain > 0 {
			m["retain"] = float64(retain)
		}
		return m
	}
	link := &linkSurvey{}
	var dirs []string
	mk := func(s service.Surveyor) (peerStore, error) {
		if provider == "inmemory" {
			st := storage.NewInMemory(s)
			return st, st.Configure(cfg(""))
		}
		dir := filepath.Join(root, fmt.Sprintf("p%d", atomic.AddInt64(&storeSerial, 1)))
		dirs = append(dirs, dir)
		st := storage.NewSSD(s)
		return st, st.Configure(cfg(dir))
	}
	if b, err = mk(nil); err != nil {
		return
	}
	link.peer = b
	if a, err = mk(link); err != nil {
		return
	}
	cleanup = func() {
		a.Close()
		b.Close()
		for _, d := range dirs {
			os.RemoveAll(d)
		}
	}
	return
}

var peerSsid = message.Ssid{0x0C060001, 0x61000AAA, 0x0A0A0A01}

func runPeer(c *core.Ctx, root string, pc peerCase) {
	a, b, cleanup, err := openPair(pc.Provider, root, 0)
	if err != nil {
		core.HarnessFailure("C06 peer part: cannot open the stores: %v", err)
	}
	defer cleanup()
	now := time.Now().Unix()
	names := make([]string, len(pc.OnB))
	for i, onB := range pc.OnB {
		id := message.NewID(peerSsid)
		id.SetTime(now - int64(400-100*i)) // oldest first, one per second value
		names[i] = fmt.Sprintf("m%d", i+1)
		m := message.Message{ID: id, Channel: []byte("x/a/"), Payload: []byte(names[i]), TTL: 100000}
		dst := storage.Storage(a)
		if onB {
			dst = b
		}
		if err := dst.Store(&m); err != nil {
			c.Violate(pc.Provider+":peer:store-failed", err.Error(), pc)
			return
		}
	}
	f, err := a.Query(peerSsid, time.Unix(now-1000, 0), time.Unix(now+10, 0), nil, pc.Limit)
	if err != nil {
		c.Violate(pc.Provider+":peer:query-failed", err.Error(), pc)
		return
	}
	var got []string
	for _, m := range f {
		got = append(got, string(m.Payload))
	}
	k := pc.Limit
	if k > len(names) {
		k = len(names)
	}
	want := names[len(names)-k:]
	if strings.Join(got, " ") != strings.Join(want, " ") {
		where := ""
		for i, onB := range pc.OnB {
			if onB {
				where += fmt.Sprintf(" m%d@peer", i+1)
			} else {
				where += fmt.Sprintf(" m%d@local", i+1)
			}
		}
		kind := "missing"
		if len(got) > len(want) {
			kind = "too-many"
		} else if len(got) == len(want) {
			kind = "not-the-most-recent"
		}
		c.Violate(fmt.Sprintf("%s:peer:%s", pc.Provider, kind), fmt.Sprintf("messages (oldest first)%s; query on the local node with limit %d returned [%s], the most recent %d of all nodes are [%s]", where, pc.Limit, strings.Join(got, " "), k, strings.Join(want, " ")), pc)
	}
}

// runMany: more matching messages than any internal buffer is sized for (100 small ones, spread over the two
// nodes in three ways), queried with limits around and above those sizes.
func runMany(c *core.Ctx, root string, pc peerCase) {
	a, b, cleanup, err := openPair(pc.Provider, root, 0)
	if err != nil {
		core.HarnessFailure("C06 many part: cannot open the stores: %v", err)
	}
	defer cleanup()
	const n = 100
	now := time.Now().Unix()
	names := make([]string, n)
	for i := 0; i < n; i++ {
		id := message.NewID(peerSsid)
		id.SetTime(now - int64(5*(n-i)))
		names[i] = fmt.Sprintf("m%03d", i+1)
		m := message.Message{ID: id, Channel: []byte("x/a/"), Payload: []byte(names[i]), TTL: 100000}
		dst := storage.Storage(a)
		if pc.Spread == "peer" || (pc.Spread == "alternate" && i%2 == 1) {
			dst = b
		}
		if err := dst.Store(&m); err != nil {
			c.Violate(pc.Provider+":many:store-failed", err.Error(), pc)
			return
		}
	}
	f, err := a.Query(peerSsid, time.Unix(now-10000, 0), time.Unix(now+10, 0), nil, pc.Limit)
	if err != nil {
		c.Violate(pc.Provider+":many:query-failed", err.Error(), pc)
		return
	}
	var got []string
	for _, m := range f {
		got = append(got, string(m.Payload))
	}
	k := pc.Limit
	if k > n {
		k = n
	}
	want := names[n-k:]
	if strings.Join(got, " ") != strings.Join(want, " ") {
		kind := "missing"
		if len(got) > len(want) {
			kind = "too-many"
		} else if len(got) == len(want) {
			kind = "not-the-most-recent"
		}
		first, last := "", ""
		if len(got) > 0 {
			first, last = got[0], got[len(got)-1]
		}
		c.Violate(fmt.Sprintf("%s:many:%s:%s", pc.Provider, pc.Spread, kind), fmt.Sprintf("%d small messages stored (%s), query with limit %d returned %d messages (%s … %s), expected the most recent %d (%s … %s)", n, pc.Spread, pc.Limit, len(got), first, last, k, want[0], want[len(want)-1]), pc)
	}
}

func runRetained(c *core.Ctx, root string, pc peerCase) {
	const retain = 2
	a, _, cleanup, err := openPair(pc.Provider, root, retain)
	if err != nil {
		core.HarnessFailure("C06 retained part: cannot open the stores: %v", err)
	}
	defer cleanup()
	now := time.Now().Unix()
	store := func(name string, age int64, ttl uint32) {
		id := message.NewID(peerSsid)
		id.SetTime(now - age)
		m := message.Message{ID: id, Channel: []byte("x/a/"), Payload: []byte(name), TTL: ttl}
		if err := a.Store(&m); err != nil {
			c.Violate(pc.Provider+":retained:store-failed", err.Error(), pc)
		}
	}
	store("retained-1", 30, message.RetainedTTL)
	store("long-lived", 20, 100000)
	store("retained-2", 10, message.RetainedTTL)
	time.Sleep((retain + 3) * time.Second)
	f, err := a.Query(peerSsid, time.Unix(now-1000, 0), time.Unix(now+100, 0), nil, 100)
	if err != nil {
		c.Violate(pc.Provider+":retained:query-failed", err.Error(), pc)
		return
	}
	var got []string
	for _, m := range f {
		got = append(got, string(m.Payload))
	}
	for _, g := range got {
		if strings.HasPrefix(g, "retained") {
			c.Violate(pc.Provider+":expired:retained-message", fmt.Sprintf("retention period %d s; %d s after they were stored a query still returns [%s] (a retained message lives for the retention period)", retain, retain+3, strings.Join(got, " ")), pc)
			return
		}
	}
	if len(got) != 1 || got[0] != "long-lived" {
		c.Violate(pc.Provider+":missing:next-to-retained", fmt.Sprintf("the message stored with ttl 100000 next to two retained ones is not returned: [%s]", strings.Join(got, " ")), pc)
	}
}

func partPeer(c *core.Ctx, root string) {
	restore := quietBadger()
	defer restore()
	done := make(chan struct{})
	go func() { // the retention wait runs next to the peer enumeration
		defer close(done)
		for _, p := range providers {
			runRetained(c, root, peerCase{Part: "retained", Provider: p})
			c.Add("evaluations", 1)
			c.Distinct("nontrivial", "retained|"+p)
		}
	}()
	for _, p := range providers {
		for mask := 0; mask < 16; mask++ {
			onB := []bool{mask&1 != 0, mask&2 != 0, mask&4 != 0, mask&8 != 0}
			for _, limit := range []int{1, 2, 3, 4, 10} {
				runPeer(c, root, peerCase{Part: "peer", Provider: p, OnB: onB, Limit: limit})
				c.Add("evaluations", 1)
				c.Add("peer_cases", 1)
				c.Distinct("nontrivial", fmt.Sprintf("peer|%s|%d|%d", p, mask, limit))
			}
		}
	}
	for _, p := range providers {
		for _, spread := range []string{"local", "peer", "alternate"} {
			for _, limit := range []int{63, 64, 65, 80, 100, 150} {
				runMany(c, root, peerCase{Part: "many", Provider: p, Spread: spread, Limit: limit})
				c.Add("evaluations", 1)
				c.Add("many_cases", 1)
				c.Distinct("nontrivial", fmt.Sprintf("many|%s|%s|%d", p, spread, limit))
			}
		}
	}
	<-done
	c.Sample(peerCase{Part: "peer", Provider: "ssd", OnB: []bool{false, false, true, true}, Limit: 1})
	c.Assume("peer part: two stores of one provider, the queried store's cluster survey answered by the other store's real OnSurvey (no mesh transport); small payloads only, so a single node's reply-size cap never binds")
	c.Assume("many part: 100 messages of 4 bytes on one channel (all on the queried node, all on the peer, alternating), limits 63-150; the reply stays far below the 64 KiB cap")
	c.Assume("retained part: retention configured to 2 s, query 5 s after the stores; only 'an expired retained message is not returned' is judged (waiting longer cannot turn that verdict around)")
}
