package core

import (
	"bufio"
	"bytes"
	"encoding/json"
	"fmt"
	"os"
	"os/exec"
	"path/filepath"
	"runtime"
	"strings"
	"sync"
	"syscall"
	"time"
)

// NumWorkers is the default process fan-out.
func NumWorkers() int {
	n := runtime.NumCPU()
	if n > 16 {
		n = 16
	}
	if n < 1 {
		n = 1
	}
	return n
}

const workerTag = "WORKER-RESULT "

// EmitWorkerResult is called at the end of a worker process.
func (c *Ctx) EmitWorkerResult() {
	b, _ := json.Marshal(c.ExportWorker())
	w := bufio.NewWriter(os.Stdout)
	w.WriteString(workerTag)
	w.Write(b)
	w.WriteString("\n")
	w.Flush()
}

// WorkerOutcome describes how one worker process ended.
type WorkerOutcome struct {
	Args     []string
	ExitCode int
	Killed   bool // timeout
	Signal   string
	Stderr   string
	Stdout   string
	HasRes   bool
}

// Instrumented is set by the generated registration file of the scheduled binary (sync shims + yields).
var Instrumented bool

// SchedBin returns the path of the scheduled binary that belongs to this binary ("" if this is it or none exists).
func SchedBin() string {
	if Instrumented {
		return ""
	}
	dir, base := filepath.Dir(os.Args[0]), filepath.Base(os.Args[0])
	p := filepath.Join(dir, strings.Replace(base, "verifx", "verifx-sched", 1))
	if _, err := os.Stat(p); err != nil {
		return ""
	}
	return p
}

// SpawnWorker runs one worker process of this binary: verifx worker <id> <tier> args...
// env may add environment entries; timeout kills the process group.
func (c *Ctx) SpawnWorker(args []string, env []string, timeout time.Duration, prlimitAS uint64) WorkerOutcome {
	full := append([]string{"worker", c.ID, c.Tier}, args...)
	env = append(env, fmt.Sprintf("VERIF_DEADLINE_UNIX=%d", c.Deadline.Unix()))
	bin := os.Args[0]
	if c.WorkerBin != "" {
		bin = c.WorkerBin
	}
	cmd := exec.Command(bin, full...)
	cmd.Env = append(os.Environ(), env...)
	cmd.SysProcAttr = &syscall.SysProcAttr{Setpgid: true}
	var so, se bytes.Buffer
	cmd.Stdout = &so
	cmd.Stderr = &se
	out := WorkerOutcome{Args: args}
	if prlimitAS > 0 {
		// wrap in a shell that sets ulimit -v (KiB)
		sh := fmt.Sprintf("ulimit -v %d; exec \"$0\" \"$@\"", prlimitAS/1024)
		cmd = exec.Command("/bin/sh", append([]string{"-c", sh, bin}, full...)...)
		cmd.Env = append(os.Environ(), env...)
		cmd.SysProcAttr = &syscall.SysProcAttr{Setpgid: true}
		cmd.Stdout = &so
		cmd.Stderr = &se
	}
	if err := cmd.Start(); err != nil {
		out.ExitCode = -1
		out.Stderr = err.Error()
		return out
	}
	done := make(chan error, 1)
	go func() { done <- cmd.Wait() }()
	var err error
	if timeout <= 0 {
		timeout = 30 * time.Minute
	}
	select {
	case err = <-done:
	case <-time.After(timeout):
		syscall.Kill(-cmd.Process.Pid, syscall.SIGKILL)
		err = <-done
		out.Killed = true
	}
	if err != nil {
		if ee, ok := err.(*exec.ExitError); ok {
			out.ExitCode = ee.ExitCode()
			if ws, ok := ee.Sys().(syscall.WaitStatus); ok && ws.Signaled() {
				out.Signal = ws.Signal().String()
			}
		} else {
			out.ExitCode = -1
		}
	}
	out.Stdout = so.String()
	out.Stderr = tail(se.String(), 4000)
	for _, line := range strings.Split(out.Stdout, "\n") {
		if strings.HasPrefix(line, workerTag) {
			var r WorkerResult
			if json.Unmarshal([]byte(line[len(workerTag):]), &r) == nil {
				c.ImportWorker(r)
				out.HasRes = true
			}
		}
	}
	return out
}

func tail(s string, n int) string {
	if len(s) > n {
		return s[len(s)-n:]
	}
	return s
}

// Shard runs n workers with args produced by argsOf(i, n) in parallel (at most par at a
// time) and returns their outcomes. A worker that dies without a result is a harness
// error and is reported as such by the caller.
func (c *Ctx) Shard(n, par int, argsOf func(i int) []string, timeout time.Duration) []WorkerOutcome {
	outs := make([]WorkerOutcome, n)
	sem := make(chan struct{}, par)
	var wg sync.WaitGroup
	for i := 0; i < n; i++ {
		wg.Add(1)
		sem <- struct{}{}
		go func(i int) {
			defer wg.Done()
			defer func() { <-sem }()
			outs[i] = c.SpawnWorker(argsOf(i), nil, timeout, 0)
		}(i)
	}
	wg.Wait()
	return outs
}

// HarnessFailure prints a harness error and exits 2 (never a VIOLATION).
func HarnessFailure(format string, a ...interface{}) {
	fmt.Printf("HARNESS-UNSOUND: "+format+"\n", a...)
	os.Exit(2)
}

// CheckShards turns worker failures into a harness failure.
func (c *Ctx) CheckShards(outs []WorkerOutcome) {
	for _, o := range outs {
		if !o.HasRes || o.ExitCode != 0 {
			if o.Killed {
				c.NotExhaustive(fmt.Sprintf("worker %v hit its time cap", o.Args))
				if o.HasRes {
					continue
				}
			}
			HarnessFailure("worker %v exit=%d signal=%s killed=%v stderr:\n%s", o.Args, o.ExitCode, o.Signal, o.Killed, o.Stderr)
		}
	}
}
