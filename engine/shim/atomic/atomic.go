// Package atomic is the drop-in replacement of sync/atomic for instrumented files:
// each operation is a scheduling point followed by the real atomic operation.
package atomic

import (
	ra "sync/atomic"

	"github.com/emitter-io/emitter/internal/verifx/engine/sched"
)

func pt(what string) {
	if s := sched.Active(); s != nil {
		s.Op(what)
	}
}

func AddInt32(addr *int32, delta int32) int32     { pt("atomic.AddInt32"); return ra.AddInt32(addr, delta) }
func AddUint32(addr *uint32, delta uint32) uint32 { pt("atomic.AddUint32"); return ra.AddUint32(addr, delta) }
func AddInt64(addr *int64, delta int64) int64     { pt("atomic.AddInt64"); return ra.AddInt64(addr, delta) }
func AddUint64(addr *uint64, delta uint64) uint64 { pt("atomic.AddUint64"); return ra.AddUint64(addr, delta) }
func LoadInt32(addr *int32) int32                 { pt("atomic.LoadInt32"); return ra.LoadInt32(addr) }
func LoadUint32(addr *uint32) uint32              { pt("atomic.LoadUint32"); return ra.LoadUint32(addr) }
func LoadInt64(addr *int64) int64                 { pt("atomic.LoadInt64"); return ra.LoadInt64(addr) }
func LoadUint64(addr *uint64) uint64              { pt("atomic.LoadUint64"); return ra.LoadUint64(addr) }
func StoreInt32(addr *int32, v int32)             { pt("atomic.StoreInt32"); ra.StoreInt32(addr, v) }
func StoreUint32(addr *uint32, v uint32)          { pt("atomic.StoreUint32"); ra.StoreUint32(addr, v) }
func StoreInt64(addr *int64, v int64)             { pt("atomic.StoreInt64"); ra.StoreInt64(addr, v) }
func StoreUint64(addr *uint64, v uint64)          { pt("atomic.StoreUint64"); ra.StoreUint64(addr, v) }
func CompareAndSwapInt32(addr *int32, o, n int32) bool {
	pt("atomic.CASInt32")
	return ra.CompareAndSwapInt32(addr, o, n)
}
func CompareAndSwapUint32(addr *uint32, o, n uint32) bool {
	pt("atomic.CASUint32")
	return ra.CompareAndSwapUint32(addr, o, n)
}
func CompareAndSwapInt64(addr *int64, o, n int64) bool {
	pt("atomic.CASInt64")
	return ra.CompareAndSwapInt64(addr, o, n)
}
func CompareAndSwapUint64(addr *uint64, o, n uint64) bool {
	pt("atomic.CASUint64")
	return ra.CompareAndSwapUint64(addr, o, n)
}
func SwapInt32(addr *int32, n int32) int32     { pt("atomic.SwapInt32"); return ra.SwapInt32(addr, n) }
func SwapUint32(addr *uint32, n uint32) uint32 { pt("atomic.SwapUint32"); return ra.SwapUint32(addr, n) }
func SwapInt64(addr *int64, n int64) int64     { pt("atomic.SwapInt64"); return ra.SwapInt64(addr, n) }
func SwapUint64(addr *uint64, n uint64) uint64 { pt("atomic.SwapUint64"); return ra.SwapUint64(addr, n) }

// Typed atomics are the real ones (not used by the instrumented files on the pinned tree).
type (
	Int32  = ra.Int32
	Int64  = ra.Int64
	Uint32 = ra.Uint32
	Uint64 = ra.Uint64
	Bool   = ra.Bool
	Value  = ra.Value
)
