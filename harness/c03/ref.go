package c03

// Reference predicate for C03, written from the property statement only. Everything here works on
// strings and small structs; nothing calls into the emitter code.

import "strings"

// Operations and the permission bit each one needs (statement: read to subscribe, write to publish,
// load for history, presence for presence, extend only for link extension; store for storing).
var opNames = []string{"read", "write", "store", "load", "presence", "extend"}

var opBit = map[string]uint8{
	"read":     1 << 1,
	"write":    1 << 2,
	"store":    1 << 3,
	"load":     1 << 4,
	"presence": 1 << 5,
	"extend":   1 << 6,
}

// Clauses of the statement in the order they are evaluated by the reference.
const (
	clDecrypt    = "decrypt"
	clContract   = "contract"
	clExpiry     = "expiry"
	clBan        = "ban"
	clPermission = "permission"
	clDepth      = "depth"
	clLiteral    = "literal"
	clWildcard   = "wildcard"
)

// keySpec describes a key by how it was made (never by its bytes).
type keySpec struct {
	Kind   string `json:"kind"`   // see kinds below
	Target string `json:"target"` // e.g. "a/+/#/"
	Mask   uint8  `json:"mask"`
	Expiry string `json:"expiry"` // past | none | future
}

// Key kinds.
const (
	kMinted      = "minted"            // real keygen.CreateKey with the broker's master key
	kRecrafted   = "recrafted"         // minted, decrypted, re-encrypted unchanged (control for the crafted kinds)
	kContractP1  = "foreign-contract"  // contract id + 1
	kContract0   = "foreign-contract0" // contract id 0
	kSignature   = "foreign-signature" // signature + 1
	kMaster2     = "foreign-master"    // master id 2 (the contract's master id is 1)
	kMaster0     = "foreign-master0"   // master id 0
	kAllForeign  = "foreign-all"       // other contract, signature and master
	kOtherCipher = "foreign-license"   // same contract/signature/master but encrypted under another license's key
	kOtherBoth   = "foreign-license2"  // another license altogether (other key, other contract)
	kBanned      = "banned"            // minted, then banned in the cluster state
	kBannedAlias = "banned-respelled"  // banned, then presented in the standard base64 alphabet ('+' for '-')
	kGarbage     = "garbage:"          // + name of an undecryptable string
)

// splitLevels parses "a/+/#/" into ([a +], true).
func splitLevels(s string) (levels []string, multi bool) {
	s = strings.TrimSuffix(s, "/")
	if s == "" {
		return nil, false
	}
	levels = strings.Split(s, "/")
	if levels[len(levels)-1] == "#" {
		return levels[:len(levels)-1], true
	}
	return levels, false
}

func joinLevels(levels []string, multi bool) string {
	var b strings.Builder
	for _, l := range levels {
		b.WriteString(l)
		b.WriteByte('/')
	}
	if multi {
		b.WriteString("#/")
	}
	return b.String()
}

// refCovers says whether the target covers the requested channel; when it does not, the clause
// that fails first is returned.
//
//   - exact target: the request has exactly the target's depth; a trailing '#' in the request asks
//     for more depth than any exact target grants.
//   - '#/' target: the request has at least the target's depth (its '#', if any, then sits at the
//     position of the target's '#' or beyond).
//   - within the target's depth: a literal of the target needs the same literal in the request (a
//     '+' there is a wildcard the target does not grant); a '+' of the target accepts any level.
//   - beyond the target's depth ('#/' targets only) anything goes.
func refCovers(target, request string) (bool, string) {
	tl, tm := splitLevels(target)
	rl, rm := splitLevels(request)
	if tm {
		if len(rl) < len(tl) {
			return false, clDepth
		}
	} else {
		if rm || len(rl) != len(tl) {
			return false, clDepth
		}
	}
	for i, t := range tl {
		if t == "+" {
			continue
		}
		if rl[i] == "+" {
			return false, clWildcard
		}
		if rl[i] != t {
			return false, clLiteral
		}
	}
	return true, ""
}

// refPermit is the whole statement: permitted iff every clause holds. The clause returned with
// false is the first one that fails.
func refPermit(k keySpec, op, request string) (bool, string) {
	if cl := refKeyClause(k, op); cl != "" {
		return false, cl
	}
	if ok, cl := refCovers(k.Target, request); !ok {
		return false, cl
	}
	return true, ""
}

// refKeyClause evaluates the clauses that do not involve the requested channel: the key decrypts
// under the broker's license, same contract/signature/master, not expired, not banned, carries the
// permission of the operation. Returns "" when all hold.
func refKeyClause(k keySpec, op string) string {
	switch {
	case strings.HasPrefix(k.Kind, kGarbage), k.Kind == kOtherCipher, k.Kind == kOtherBoth:
		return clDecrypt
	case k.Kind == kContractP1, k.Kind == kContract0, k.Kind == kSignature, k.Kind == kMaster2, k.Kind == kMaster0, k.Kind == kAllForeign:
		return clContract
	}
	if k.Expiry == "past" {
		return clExpiry
	}
	if k.Kind == kBanned || k.Kind == kBannedAlias {
		return clBan // the respelled string is either not a key at all or the banned key: refused either way
	}
	if k.Mask&opBit[op] == 0 {
		return clPermission
	}
	return ""
}

// shape renders levels as L (literal) / P ('+') with a '#' suffix.
func shape(s string) string {
	levels, multi := splitLevels(s)
	var b strings.Builder
	for _, l := range levels {
		if l == "+" {
			b.WriteByte('P')
		} else {
			b.WriteByte('L')
		}
	}
	if multi {
		b.WriteByte('#')
	}
	return b.String()
}

// nontrivial: the verdict for the pair depends on the wildcard/depth rules, not just on comparing
// two literal strings of the same depth.
func nontrivial(target, request string) bool {
	if strings.ContainsAny(target, "+#") || strings.ContainsAny(request, "+#") {
		return true
	}
	return strings.Count(target, "/") != strings.Count(request, "/")
}
