package c17

// Part (e): connections accepted at the same time. Serve hands every accepted connection to its own goroutine,
// and all of them run the SAME matcher values (the matchers are built once, when the sub-listeners are
// registered). Two/three connections carrying different protocols go through the real serve loop under the
// controlled scheduler; whatever the interleaving, each connection must come out on the sub-listener the
// string-level rule names for ITS stream, and reading it must give exactly its own bytes, once, in order.

import (
	"fmt"
	"io"
	"sort"
	"strings"

	"github.com/emitter-io/emitter/internal/network/listener"
	"github.com/emitter-io/emitter/internal/verifx/engine/sched"
)

var acceptStreams = [][]byte{
	[]byte("GET /keygen HTTP/1.1\r\nHost: x\r\n\r\n"),
	[]byte("\x10\x0c\x00\x04MQTT\x04\x02\x00\x1e\x00\x00"),
	[]byte("PRI * HTTP/2.0\r\n\r\nSM\r\n\r\n"),
}

var acceptSets = []string{"http,any", "prefix,http,any", "prefix|http,any"}

func acceptConns(set string) int {
	if set == "http,any" {
		return 2
	}
	return 3
}

func scenarioE(setName string) *sched.Scenario {
	set := setByName(setName)
	n := acceptConns(setName)
	return &sched.Scenario{
		Name:  "accept:" + setName,
		Files: []string{"internal/network/listener/matcher.go", "internal/network/listener/conn.go"},
		Body: func(s *sched.Sched) {
			root := &scriptListener{ch: nil, done: make(chan struct{})}
			l := listener.VerifNewListener(root, listener.Config{})
			var outs []func() []string
			for _, ls := range set.Listeners {
				var ms []listener.Matcher
				for _, m := range ls.Matchers {
					ms = append(ms, m.build())
				}
				sub := l.Match(ms...)
				outs = append(outs, func() (got []string) {
					for _, c := range listener.VerifTake(sub) {
						b, _ := io.ReadAll(c)
						got = append(got, fmt.Sprintf("%s=%s", c.RemoteAddr(), hx(b)))
						c.Close() // also stops the connection's 1 s flush timer, which must not outlive the execution
					}
					return
				})
			}
			socks := make([]*RecConn, n)
			for i := 0; i < n; i++ {
				socks[i] = NewRecConn(ReadStep{Data: acceptStreams[i]})
				socks[i].Tag = int64(i + 1)
				i := i
				s.Go(fmt.Sprintf("A%d", i), func() { l.VerifServe(socks[i]) })
			}
			s.AtEnd(func() {
				var all []string
				for k, f := range outs {
					for _, g := range f() {
						all = append(all, fmt.Sprintf("%d:%s", k, g))
					}
				}
				sort.Strings(all)
				s.Obs("%s", strings.Join(all, " "))
			})
		},
		Check: func(x *sched.Exec) (string, string) {
			if len(x.Obs) != 1 {
				return "accept-concurrent:no-observation", "scenario did not complete"
			}
			var want []string
			for i := 0; i < n; i++ {
				idx, _ := set.expect(acceptStreams[i])
				want = append(want, fmt.Sprintf("%d:%s=%s", idx, tagAddr(int64(i+1)), hx(acceptStreams[i])))
			}
			sort.Strings(want)
			if w := strings.Join(want, " "); w != x.Obs[0] {
				kind := "altered-stream"
				if stripBytes(w) != stripBytes(x.Obs[0]) {
					kind = "wrong-listener"
				}
				return "accept-concurrent:" + kind, fmt.Sprintf("matchers %s, %d connections served concurrently: sub-listener:connection=bytes is [%s], expected [%s]", setName, n, x.Obs[0], w)
			}
			return "", ""
		},
	}
}

// stripBytes keeps "listener:connection" of every entry.
func stripBytes(s string) string {
	var out []string
	for _, e := range strings.Fields(s) {
		out = append(out, strings.SplitN(e, "=", 2)[0])
	}
	return strings.Join(out, " ")
}
