#!/usr/bin/env python3
"""tools/save_seed.py <ID> <seed-dir> <name> '<caught-by>' '<note>' : copies SEEDED/* into /verif/seeded/<name>/ and records what I ran."""
import json, os, shutil, sys, glob
pid, src, name, caught, note = sys.argv[1:6]
dst = os.path.join('/verif/seeded', name)
os.makedirs(dst, exist_ok=True)
for f in glob.glob(os.path.join(src, 'SEEDED', '*')):
    shutil.copy(f, dst)
meta = json.load(open(os.path.join(dst, 'meta.json')))
meta['property'] = pid
meta['confirmed_by_main_session'] = {
    'how': 'tools/confirm_seed.sh (fresh worktree of /repo HEAD: demo passes without the patch, fails with it, tests of the touched packages + internal/broker pass with it) and tools/try_seed.sh (checks run against a scratch worktree with the patch applied)',
    'caught_by': caught.split(),
    'note': note,
}
json.dump(meta, open(os.path.join(dst, 'meta.json'), 'w'), indent=1)
print('saved', dst)
