package c11

// Part (http): the key generation page (POST form handled by keygen.Service.HTTP) mints keys too. Every parent key
// kind that is not an extendable key x four permission sets x two ttls x two channels is posted through the real
// handler; a key may come back only for a valid, unexpired master key of the contract, and what comes back never has
// the master permission or a permission that was not ticked.

import (
	"fmt"
	"net/http/httptest"
	"net/url"
	"regexp"
	"strings"

	"github.com/emitter-io/emitter/internal/security"
	"github.com/emitter-io/emitter/internal/verifx/engine/core"
)

type httpCase struct {
	Part    string     `json:"part"` // "http"
	Parent  parentSpec `json:"parent"`
	Boxes   []string   `json:"ticked"`
	TTL     int        `json:"ttl"`
	Channel string     `json:"channel"`
}

var keyLine = regexp.MustCompile(`key\s+:\s+([A-Za-z0-9_\-]{32})`)

var boxPerm = map[string]uint8{"sub": security.AllowRead, "pub": security.AllowWrite, "store": security.AllowStore, "load": security.AllowLoad, "presence": security.AllowPresence, "extend": security.AllowExtend}

func (h *harness) runHTTP(c *core.Ctx, hc httpCase) {
	pk := h.parent(hc.Parent)
	form := url.Values{"key": {pk.str}, "channel": {hc.Channel}, "ttl": {fmt.Sprint(hc.TTL)}}
	var asked uint8
	for _, b := range hc.Boxes {
		form.Set(b, "on")
		asked |= boxPerm[b]
	}
	req := httptest.NewRequest("POST", "/keygen", strings.NewReader(form.Encode()))
	req.Header.Set("Content-Type", "application/x-www-form-urlencoded")
	rec := httptest.NewRecorder()
	h.env.Svc.VerifKeygen().HTTP()(rec, req)
	c.Add("evaluations", 1)
	c.Add("http_form_requests", 1)
	m := keyLine.FindStringSubmatch(rec.Body.String())
	if m == nil {
		return // refused: always allowed
	}
	c.Distinct("nontrivial", fmt.Sprintf("http|%s|%v|%d|%s", hc.Parent, hc.Boxes, hc.TTL, hc.Channel))
	kind := hc.Parent.Kind + ":http"
	if pk.class != "master" {
		c.Violate(kind+":minted-without-master", fmt.Sprintf("the key generation page minted %s for a parent key that is not a valid unexpired master key (%s)", m[1], hc.Parent), hc)
		return
	}
	k, err := h.env.Cipher.DecryptKey([]byte(m[1]))
	if err != nil {
		c.Violate(kind+":undecryptable-result", fmt.Sprintf("returned key %q does not decrypt: %v", m[1], err), hc)
		return
	}
	perms := k.Permissions()
	if perms&security.AllowMaster != 0 {
		c.Violate(kind+":master-bit", "the page minted a key with the master permission", hc)
	}
	if extra := perms &^ security.AllowMaster &^ asked; extra != 0 {
		c.Violate(kind+":extra-permission:not-requested", fmt.Sprintf("minted key has %s, ticked %v", permString(perms), hc.Boxes), hc)
	}
	if (hc.TTL == 0) != (k.Expires().Unix() == 0) {
		c.Violate(kind+":expiry:unrequested", fmt.Sprintf("ttl %d requested, key expiry %d", hc.TTL, k.Expires().Unix()), hc)
	}
	if k.Contract() != pk.fields.Contract() || k.Signature() != pk.fields.Signature() || k.Master() != pk.fields.Master() {
		c.Violate(kind+":contract/signature/master", "contract fields not copied from the master key", hc)
	}
}

func (h *harness) partHTTP(c *core.Ctx) {
	boxes := [][]string{{}, {"sub"}, {"sub", "pub"}, {"sub", "pub", "store", "load", "presence", "extend"}}
	for _, p := range parents(true) {
		if strings.HasPrefix(p.Kind, "ext") && p.Kind == "ext" {
			continue // extendable keys extend through connections (private links), not through the page
		}
		for _, b := range boxes {
			for _, ttl := range []int{0, 60} {
				for _, ch := range []string{"a/", "a/b/"} {
					h.runHTTP(c, httpCase{Part: "http", Parent: p, Boxes: b, TTL: ttl, Channel: ch})
				}
			}
		}
	}
}
