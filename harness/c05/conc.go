package c05

// Part (conc): two gossip connections deliver at the same time. A broker hears of a peer for the first time through
// two deliveries at once — two clients of that peer subscribed to one channel, the two one-operation broadcasts arrive
// on two connections — then one of the clients unsubscribes. The peer still has a subscriber, so it must still be
// forwarded to; when the second client leaves too, forwarding must stop. Explored exhaustively under the controlled
// scheduler with statement-level yields in the member list (everything else a delivery does is atomic, as in the
// searches).

import (
	"fmt"
	"github.com/emitter-io/emitter/internal/verifx/c19"
	"strings"
	"sync/atomic"

	"github.com/emitter-io/emitter/internal/event"
	"github.com/emitter-io/emitter/internal/message"
	"github.com/emitter-io/emitter/internal/security"
	"github.com/emitter-io/emitter/internal/verifx/engine/brokerx"
	"github.com/emitter-io/emitter/internal/verifx/engine/sched"
	"github.com/weaveworks/mesh"
)

var concEnv *brokerx.Env
var concPeerSeq uint64 = 0x5000

func concBroker() *brokerx.Env {
	if concEnv == nil {
		concEnv = brokerx.MustNew(brokerx.Options{Node: 1})
	}
	return concEnv
}

// oneOp encodes a one-operation state as Swarm.Notify broadcasts it.
func oneOp(ev *event.Subscription, add bool) []byte {
	st := event.NewState("")
	if add {
		st.Add(ev)
	} else {
		st.Del(ev)
	}
	return st.Encode()[0]
}

func forwardsTo(env *brokerx.Env, peer mesh.PeerName, ssid message.Ssid) bool {
	_, pairs, _ := env.Svc.VerifTrie().VerifDump()
	for _, p := range pairs {
		if p.ID == peer.String() && fmt.Sprint([]uint32(p.Ssid)) == fmt.Sprint([]uint32(ssid)) {
			return true
		}
	}
	return false
}

func concScenarios() map[string]*sched.Scenario {
	m := concScenarios0()
	// forwarding: two publishers hand messages to one real Peer while its flush timer runs (C19's scenario,
	// judged here as "every forwarded message reaches the peer once")
	ps := c19.PeerScenario()
	fw := *ps
	fw.Name = "peer-forward"
	fw.Check = func(x *sched.Exec) (string, string) {
		sig, what := ps.Check(x)
		return strings.Replace(sig, "e:peer:", "concurrent-forward:", 1), what
	}
	m["peer-forward"] = &fw
	return m
}

func concScenarios0() map[string]*sched.Scenario {
	return map[string]*sched.Scenario{"first-contact": {
		Name: "first-contact", Files: []string{"internal/service/cluster/memberlist.go"}, YieldsOnly: true,
		Body: func(s *sched.Sched) {
			env := concBroker()
			sw := env.Svc.VerifCluster()
			// a peer this broker has never heard of (the broker is reused between executions)
			peer := mesh.PeerName(atomic.AddUint64(&concPeerSeq, 1))
			ssid := message.Ssid{env.License.Contract(), 0x0A0A0A05}
			ev1 := &event.Subscription{Peer: uint64(peer), Conn: security.ID(1001), Ssid: ssid, Channel: []byte("a/")}
			ev2 := &event.Subscription{Peer: uint64(peer), Conn: security.ID(1002), Ssid: ssid, Channel: []byte("a/")}
			p1, p2 := oneOp(ev1, true), oneOp(ev2, true)
			var e1, e2 error
			s.Go("D1", func() { _, e1 = sw.OnGossipBroadcast(peer, p1) })
			s.Go("D2", func() { _, e2 = sw.OnGossipBroadcast(peer, p2) })
			s.AtEnd(func() {
				both := forwardsTo(env, peer, ssid)
				_, e3 := sw.OnGossipBroadcast(peer, oneOp(ev1, false))
				one := forwardsTo(env, peer, ssid)
				_, e4 := sw.OnGossipBroadcast(peer, oneOp(ev2, false))
				none := forwardsTo(env, peer, ssid)
				s.Obs("errors=%v,%v,%v,%v two-subscribers=%v one-left=%v none-left=%v", e1, e2, e3, e4, both, one, none)
			})
		},
		Check: func(x *sched.Exec) (string, string) {
			want := "errors=<nil>,<nil>,<nil>,<nil> two-subscribers=true one-left=true none-left=false"
			if len(x.Obs) != 1 {
				return "concurrent-first-contact:incomplete", "execution did not complete"
			}
			if x.Obs[0] != want {
				kind := "missing-forward"
				if strings.Contains(x.Obs[0], "none-left=true") {
					kind = "stale-forward"
				}
				return "concurrent-first-contact:" + kind, "a peer's first two subscriptions (two clients, one channel) delivered at the same time, then the clients leave one by one; is the peer forwarded to? " + x.Obs[0] + " ; expected " + want
			}
			return "", ""
		},
	}}
}
