package sched

import (
	"crypto/sha1"
	"fmt"
	"os"
	"strings"
	"time"
)

// Scenario is a closed multi-threaded driver plus its oracle.
type Scenario struct {
	Name  string
	Files []string // substrings of instrumented files whose yields are on
	// YieldsOnly: only those yields (plus environment choices and blocking) are scheduling points; see sched.YieldsOnly
	YieldsOnly bool
	Body       func(s *Sched)                   // builds fresh objects and starts threads
	Check      func(x *Exec) (sig, what string) // "" when the execution satisfies the property
}

// Stats summarises an exploration.
type Stats struct {
	Executions int64
	MaxPoints  int
	Outcomes   map[string]struct{}
	Bound      int
	Exhaustive bool
	Violations []Found
	FirstTrace []string
	Level1     int
	// Divergences counts executions whose prefix could not be replayed (nondeterminism the harness does
	// not own). A run with divergences and no violation ends HARNESS-UNSOUND (core.Finish); a violating
	// execution is reported regardless, because it is a real execution of the code under test.
	Divergences int64
}

// Found is one violating execution.
type Found struct {
	Sig     string
	What    string
	Choices []int
	Obs     []string
	Sites   []string
}

// Explorer runs the iterative-context-bounding DFS of one scenario.
type Explorer struct {
	Sc       *Scenario
	Bound    int
	Shard    int
	NShards  int
	Deadline time.Time
	MaxViol  int
	st       *Stats
	paranoid int
	sigs     map[string]bool
	stop     bool
}

func hashObs(obs []string) string {
	h := sha1.Sum([]byte(strings.Join(obs, "\x00")))
	return string(h[:10])
}

func (e *Explorer) runOne(prefix []int) *Exec {
	par := e.paranoid > 0
	if par {
		e.paranoid--
	}
	x := Run(prefix, par, e.Sc.Body)
	if x.Hang {
		fmt.Printf("HARNESS-UNSOUND: execution of scenario %s did not finish within 60s (choices %v)\n", e.Sc.Name, prefix)
		os.Exit(2)
	}
	if len(x.Points) < len(prefix) {
		x.Diverged = true
	}
	if x.Diverged {
		e.st.Divergences++
	}
	return x
}

func (e *Explorer) check(x *Exec, count bool) {
	if count {
		e.st.Executions++
		if len(x.Points) > e.st.MaxPoints {
			e.st.MaxPoints = len(x.Points)
		}
		e.st.Outcomes[hashObs(x.Obs)] = struct{}{}
	}
	sig, what := "", ""
	if x.Deadlock {
		sig, what = "deadlock", "deadlock: "+strings.Join(x.Blocked, "; ")
	} else if len(x.Panics) > 0 {
		sig, what = "panic", x.Panics[0]
	}
	if s2, w2 := e.Sc.Check(x); s2 != "" && sig == "" {
		sig, what = s2, w2
	}
	if sig != "" && !e.sigs[sig] {
		e.sigs[sig] = true
		f := Found{Sig: sig, What: what, Choices: append([]int(nil), x.Choices...), Obs: x.Obs}
		for _, p := range x.Points {
			if p.Chosen != 0 && p.Costly {
				f.Sites = append(f.Sites, p.Site())
			}
		}
		e.st.Violations = append(e.st.Violations, f)
		if len(e.st.Violations) >= e.MaxViol {
			e.stop = true
		}
	}
}

func costBefore(x *Exec, i int) int {
	c := 0
	for j := 0; j < i; j++ {
		if x.Points[j].Costly && x.Points[j].Chosen != 0 {
			c++
		}
	}
	return c
}

// children lists the prefixes branching off execution x at points >= from, within the bound.
func (e *Explorer) children(x *Exec, from int) [][]int {
	var out [][]int
	cost := costBefore(x, from)
	for i := from; i < len(x.Points); i++ {
		p := x.Points[i]
		c := cost
		if p.Costly {
			c++
		}
		if c <= e.Bound {
			for alt := 1; alt < p.N; alt++ {
				np := make([]int, i+1)
				copy(np, x.Choices[:i])
				np[i] = alt
				out = append(out, np)
			}
		}
		if p.Costly && p.Chosen != 0 {
			cost++
		}
	}
	return out
}

func (e *Explorer) dfs(prefix []int) {
	if e.stop {
		return
	}
	if time.Now().After(e.Deadline) {
		e.st.Exhaustive = false
		e.stop = true
		return
	}
	x := e.runOne(prefix)
	e.check(x, true)
	if x.Diverged {
		return // where the execution went after the divergence is unknown: do not branch from it
	}
	for _, ch := range e.children(x, len(prefix)) {
		e.dfs(ch)
		if e.stop {
			return
		}
	}
}

// Explore runs the search. Every shard re-derives the level-0/1/2 executions deterministically;
// level-0 and level-1 executions are counted by shard 0 only, level-2 subtrees are dealt round-robin.
func (e *Explorer) Explore() *Stats {
	EnableFiles(e.Sc.Files...)
	YieldsOnly = e.Sc.YieldsOnly
	if e.NShards < 1 {
		e.NShards = 1
	}
	if e.MaxViol == 0 {
		e.MaxViol = 8
	}
	e.st = &Stats{Outcomes: map[string]struct{}{}, Bound: e.Bound, Exhaustive: true}
	e.sigs = map[string]bool{}
	e.paranoid = 50

	// determinism self-test on the default schedule
	root := e.runOne(nil)
	again := Run(root.Choices, true, e.Sc.Body)
	if strings.Join(root.Obs, "\x00") != strings.Join(again.Obs, "\x00") || len(root.Points) != len(again.Points) || again.Diverged {
		fmt.Printf("NONDETERMINISM: scenario %s is not deterministic under replay:\n%v\nvs\n%v\n", e.Sc.Name, root.Obs, again.Obs)
		e.st.Divergences++
		e.check(again, false)
	}
	e.st.FirstTrace = root.Obs
	mine := e.Shard == 0
	e.check(root, mine)
	l1 := e.children(root, 0)
	e.st.Level1 = len(l1)
	idx := 0
	for _, p1 := range l1 {
		if e.stop {
			break
		}
		x1 := e.runOne(p1)
		e.check(x1, mine)
		if x1.Diverged {
			continue
		}
		for _, p2 := range e.children(x1, len(p1)) {
			if idx%e.NShards == e.Shard {
				e.dfs(p2)
			}
			idx++
			if e.stop {
				break
			}
		}
	}
	return e.st
}
