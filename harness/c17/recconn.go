package c17

import (
	"io"
	"net"
	"strconv"
	"sync"
	"time"
)

// ReadStep is one scripted answer of RecConn.Read: the bytes of one socket read and whether the
// socket reports io.EOF together with the last byte of this chunk ((n>0, io.EOF)). A step without
// data and with EOF is the plain (0, io.EOF).
type ReadStep struct {
	Data []byte
	EOF  bool
}

// RecConn is the fake socket of C17 (reusable by part (c)):
//   - every Write call is recorded, in call order, as its own []byte (Writes); Stream() is their
//     concatenation. A Write is atomic (a TCP/TLS socket serialises whole writes).
//   - Reads are scripted: each ReadStep is handed out in order; a caller buffer smaller than the
//     chunk gets the chunk in pieces (a chunk is never merged with the next one). After the script
//     the connection reports io.EOF on every further Read (a closed socket keeps saying EOF),
//     unless OpenTail is set: then the Read blocks until Release() (EOF afterwards) or Close().
//
// No lock is taken around Writes: under the controlled scheduler exactly one thread runs at a time,
// and the sequential parts hand the connection over through channels.
type RecConn struct {
	Tag      int64 // reported through RemoteAddr/LocalAddr so that a harness can recognise the connection
	Writes   [][]byte
	WriteErr error // when set, Write fails with it (nothing recorded)
	OpenTail bool

	script    []ReadStep
	pos, off  int
	ReadCalls int

	once     sync.Once
	relOnce  sync.Once
	closed   chan struct{}
	released chan struct{}
}

// NewRecConn creates a recording connection with the scripted reads.
func NewRecConn(script ...ReadStep) *RecConn {
	return &RecConn{script: script, closed: make(chan struct{}), released: make(chan struct{})}
}

// Read hands out the next scripted bytes.
func (r *RecConn) Read(p []byte) (int, error) {
	r.ReadCalls++
	select {
	case <-r.closed:
		return 0, net.ErrClosed
	default:
	}
	if len(p) == 0 {
		return 0, nil
	}
	for r.pos < len(r.script) {
		st := r.script[r.pos]
		if len(st.Data) == 0 {
			r.pos++
			if st.EOF {
				r.pos = len(r.script)
				r.OpenTail = false
				return 0, io.EOF
			}
			continue
		}
		n := copy(p, st.Data[r.off:])
		r.off += n
		if r.off == len(st.Data) {
			r.pos++
			r.off = 0
			if st.EOF {
				r.pos = len(r.script)
				r.OpenTail = false
				return n, io.EOF
			}
		}
		return n, nil
	}
	if r.OpenTail {
		select {
		case <-r.released:
			return 0, io.EOF
		case <-r.closed:
			return 0, net.ErrClosed
		}
	}
	return 0, io.EOF
}

// Unread reports how many scripted bytes were never read.
func (r *RecConn) Unread() int {
	n := 0
	for i := r.pos; i < len(r.script); i++ {
		n += len(r.script[i].Data)
	}
	return n - r.off
}

// Write records the call.
func (r *RecConn) Write(p []byte) (int, error) {
	if r.WriteErr != nil {
		return 0, r.WriteErr
	}
	r.Writes = append(r.Writes, append([]byte(nil), p...))
	return len(p), nil
}

// Stream is the concatenation of everything written so far.
func (r *RecConn) Stream() []byte {
	var b []byte
	for _, w := range r.Writes {
		b = append(b, w...)
	}
	return b
}

// Release ends an OpenTail stream: blocked and future Reads see io.EOF.
func (r *RecConn) Release() { r.relOnce.Do(func() { close(r.released) }) }

// Close unblocks Reads.
func (r *RecConn) Close() error { r.once.Do(func() { close(r.closed) }); return nil }

// IsClosed reports whether Close was called.
func (r *RecConn) IsClosed() bool {
	select {
	case <-r.closed:
		return true
	default:
		return false
	}
}

type tagAddr int64

func (a tagAddr) Network() string { return "rec" }
func (a tagAddr) String() string  { return "rec:" + strconv.FormatInt(int64(a), 10) }

func (r *RecConn) LocalAddr() net.Addr                { return tagAddr(r.Tag) }
func (r *RecConn) RemoteAddr() net.Addr               { return tagAddr(r.Tag) }
func (r *RecConn) SetDeadline(t time.Time) error      { return nil }
func (r *RecConn) SetReadDeadline(t time.Time) error  { return nil }
func (r *RecConn) SetWriteDeadline(t time.Time) error { return nil }
