// Package session is a scripted MQTT 3.1.1 client over memconn with its own minimal
// encoder/decoder (independent of internal/network/mqtt).
package session

import (
	"errors"
	"fmt"
)

// Packet types.
const (
	CONNECT     = 1
	CONNACK     = 2
	PUBLISH     = 3
	PUBACK      = 4
	SUBSCRIBE   = 8
	SUBACK      = 9
	UNSUBSCRIBE = 10
	UNSUBACK    = 11
	PINGREQ     = 12
	PINGRESP    = 13
	DISCONNECT  = 14
)

// Packet is a decoded broker packet.
type Packet struct {
	Type    int
	Flags   byte
	Topic   string
	Payload []byte
	MsgID   uint16
	Codes   []byte
	Raw     []byte
}

func (p Packet) String() string {
	switch p.Type {
	case PUBLISH:
		return fmt.Sprintf("PUBLISH(%s,%q)", p.Topic, p.Payload)
	case SUBACK:
		return fmt.Sprintf("SUBACK(%d,%v)", p.MsgID, p.Codes)
	case UNSUBACK:
		return fmt.Sprintf("UNSUBACK(%d)", p.MsgID)
	case PUBACK:
		return fmt.Sprintf("PUBACK(%d)", p.MsgID)
	case CONNACK:
		return fmt.Sprintf("CONNACK(%v)", p.Codes)
	}
	return fmt.Sprintf("PKT(%d)", p.Type)
}

func encLen(n int) []byte {
	var out []byte
	for {
		d := byte(n % 128)
		n /= 128
		if n > 0 {
			d |= 0x80
		}
		out = append(out, d)
		if n == 0 {
			return out
		}
	}
}

func str(s []byte) []byte {
	return append([]byte{byte(len(s) >> 8), byte(len(s))}, s...)
}

func frame(typeFlags byte, body []byte) []byte {
	out := []byte{typeFlags}
	out = append(out, encLen(len(body))...)
	return append(out, body...)
}

// ConnectOpts are the CONNECT fields.
type ConnectOpts struct {
	ClientID    string
	Username    string
	Password    string
	WillTopic   string
	WillMessage string
	WillRetain  bool
	WillQoS     byte
	HasWill     bool
	KeepAlive   uint16
}

// EncConnect encodes a CONNECT packet.
func EncConnect(o ConnectOpts) []byte {
	var b []byte
	b = append(b, str([]byte("MQTT"))...)
	b = append(b, 4)
	var flags byte = 0x02 // clean session
	if o.HasWill {
		flags |= 0x04 | (o.WillQoS&3)<<3
		if o.WillRetain {
			flags |= 0x20
		}
	}
	if o.Username != "" {
		flags |= 0x80
	}
	if o.Password != "" {
		flags |= 0x40
	}
	b = append(b, flags, byte(o.KeepAlive>>8), byte(o.KeepAlive))
	b = append(b, str([]byte(o.ClientID))...)
	if o.HasWill {
		b = append(b, str([]byte(o.WillTopic))...)
		b = append(b, str([]byte(o.WillMessage))...)
	}
	if o.Username != "" {
		b = append(b, str([]byte(o.Username))...)
	}
	if o.Password != "" {
		b = append(b, str([]byte(o.Password))...)
	}
	return frame(CONNECT<<4, b)
}

// EncPublish encodes a PUBLISH packet.
func EncPublish(topic string, payload []byte, qos byte, retain bool, msgID uint16) []byte {
	b := str([]byte(topic))
	if qos > 0 {
		b = append(b, byte(msgID>>8), byte(msgID))
	}
	b = append(b, payload...)
	f := byte(PUBLISH<<4) | (qos&3)<<1
	if retain {
		f |= 1
	}
	return frame(f, b)
}

// EncSubscribe encodes a SUBSCRIBE packet.
func EncSubscribe(msgID uint16, topics ...string) []byte {
	b := []byte{byte(msgID >> 8), byte(msgID)}
	for _, t := range topics {
		b = append(b, str([]byte(t))...)
		b = append(b, 0)
	}
	return frame(SUBSCRIBE<<4|2, b)
}

// EncUnsubscribe encodes an UNSUBSCRIBE packet.
func EncUnsubscribe(msgID uint16, topics ...string) []byte {
	b := []byte{byte(msgID >> 8), byte(msgID)}
	for _, t := range topics {
		b = append(b, str([]byte(t))...)
	}
	return frame(UNSUBSCRIBE<<4|2, b)
}

// EncDisconnect encodes DISCONNECT.
func EncDisconnect() []byte { return []byte{DISCONNECT << 4, 0} }

// EncPing encodes PINGREQ.
func EncPing() []byte { return []byte{PINGREQ << 4, 0} }

// ErrShort means more bytes are needed.
var ErrShort = errors.New("short")

// Decode decodes one packet from the start of b; it returns the packet and its total length.
func Decode(b []byte) (Packet, int, error) {
	if len(b) < 2 {
		return Packet{}, 0, ErrShort
	}
	p := Packet{Type: int(b[0] >> 4), Flags: b[0] & 0x0f}
	rl, mult, i := 0, 1, 1
	for {
		if i >= len(b) {
			return p, 0, ErrShort
		}
		d := b[i]
		i++
		rl += int(d&0x7f) * mult
		mult *= 128
		if d&0x80 == 0 {
			break
		}
		if i > 4 {
			return p, 0, errors.New("malformed remaining length")
		}
	}
	if len(b) < i+rl {
		return p, 0, ErrShort
	}
	body := b[i : i+rl]
	p.Raw = append([]byte(nil), b[:i+rl]...)
	switch p.Type {
	case PUBLISH:
		if len(body) < 2 {
			return p, 0, errors.New("publish too short")
		}
		tl := int(body[0])<<8 | int(body[1])
		if len(body) < 2+tl {
			return p, 0, errors.New("publish topic overruns packet")
		}
		p.Topic = string(body[2 : 2+tl])
		rest := body[2+tl:]
		if (p.Flags>>1)&3 > 0 {
			if len(rest) < 2 {
				return p, 0, errors.New("publish without message id")
			}
			p.MsgID = uint16(rest[0])<<8 | uint16(rest[1])
			rest = rest[2:]
		}
		p.Payload = append([]byte(nil), rest...)
	case CONNACK:
		if len(body) != 2 {
			return p, 0, errors.New("connack length")
		}
		p.Codes = append([]byte(nil), body...)
	case SUBACK:
		if len(body) < 2 {
			return p, 0, errors.New("suback length")
		}
		p.MsgID = uint16(body[0])<<8 | uint16(body[1])
		p.Codes = append([]byte(nil), body[2:]...)
	case PUBACK, UNSUBACK:
		if len(body) != 2 {
			return p, 0, errors.New("ack length")
		}
		p.MsgID = uint16(body[0])<<8 | uint16(body[1])
	case PINGRESP:
		if len(body) != 0 {
			return p, 0, errors.New("pingresp length")
		}
	default:
		return p, 0, fmt.Errorf("unexpected packet type %d from broker", p.Type)
	}
	return p, i + rl, nil
}
