// Package core holds what every check shares: the run context, evidence writer,
// violation recording, known-findings matching and the exit protocol.
package core

import (
	"crypto/sha1"
	"encoding/hex"
	"encoding/json"
	"fmt"
	"os"
	"path/filepath"
	"sort"
	"strconv"
	"strings"
	"sync"
	"time"
)

// VerifRoot is the directory of the framework (evidence, findings, replays).
var VerifRoot = envOr("VERIF_ROOT", "/verif")

func envOr(k, d string) string {
	if v := os.Getenv(k); v != "" {
		return v
	}
	return d
}

// Check describes a registered check.
type Check struct {
	ID     string
	Level  string // exploration | fault_enumeration | model_checking
	Run    func(c *Ctx)
	Replay func(c *Ctx, raw json.RawMessage) // re-executes a single recorded case
	Worker func(c *Ctx, args []string)       // optional sub-process entry point
}

var registry = map[string]*Check{}

// Register adds a check to the registry.
func Register(ch *Check) { registry[ch.ID] = ch }

// Lookup finds a check.
func Lookup(id string) *Check { return registry[id] }

// IDs returns registered ids.
func IDs() []string {
	var out []string
	for k := range registry {
		out = append(out, k)
	}
	sort.Strings(out)
	return out
}

// Violation is one recorded failure.
type Violation struct {
	Signature string      `json:"signature"`
	What      string      `json:"what"`
	Case      interface{} `json:"case"`
	Part      string      `json:"part,omitempty"`
}

// Finding is an entry of known_findings.json.
type Finding struct {
	Property  string `json:"property"`
	Signature string `json:"signature"`
	What      string `json:"what"`
	Status    string `json:"status"` // known | fixed
	Commit    string `json:"commit,omitempty"`
}

// Ctx is the run context handed to a check.
type Ctx struct {
	WorkerBin string // when set, worker processes are started from this binary (the scheduled one)
	ID       string
	Level    string
	Tier     string
	Seed     int64
	Start    time.Time
	Deadline time.Time // soft deadline: checks stop exploring and report exhaustive:false

	mu          sync.Mutex
	cov         map[string]interface{}
	counters    map[string]int64
	samples     []interface{}
	assumptions []string
	violations  []Violation
	bySig       map[string]int
	distinct    map[string]map[string]struct{}
	notExh      []string
	IsWorker    bool
}

// NewCtx creates a context.
func NewCtx(id, level, tier string) *Ctx {
	seed, _ := strconv.ParseInt(os.Getenv("VERIF_SEED"), 10, 64)
	c := &Ctx{ID: id, Level: level, Tier: tier, Seed: seed, Start: time.Now(),
		cov: map[string]interface{}{}, counters: map[string]int64{}, bySig: map[string]int{},
		distinct: map[string]map[string]struct{}{}}
	budget := 8 * time.Minute
	if tier == "quick" {
		budget = 150 * time.Second
	}
	if v := os.Getenv("VERIF_BUDGET_S"); v != "" {
		if n, err := strconv.Atoi(v); err == nil {
			budget = time.Duration(n) * time.Second
		}
	}
	c.Deadline = c.Start.Add(budget)
	// worker processes inherit the deadline of the run that spawned them
	if v := os.Getenv("VERIF_DEADLINE_UNIX"); v != "" {
		if n, err := strconv.ParseInt(v, 10, 64); err == nil {
			c.Deadline = time.Unix(n, 0)
		}
	}
	return c
}

// Quick reports whether this is the quick tier.
func (c *Ctx) Quick() bool { return c.Tier != "thorough" }

// Expired reports whether the soft deadline passed.
func (c *Ctx) Expired() bool { return time.Now().After(c.Deadline) }

// Add adds n to a named coverage counter.
func (c *Ctx) Add(name string, n int64) {
	c.mu.Lock()
	c.counters[name] += n
	c.mu.Unlock()
}

// Count reads a counter.
func (c *Ctx) Count(name string) int64 {
	c.mu.Lock()
	defer c.mu.Unlock()
	return c.counters[name]
}

// Set sets a coverage key.
func (c *Ctx) Set(name string, v interface{}) {
	c.mu.Lock()
	c.cov[name] = v
	c.mu.Unlock()
}

// Distinct records a member of a named distinct-set (measured, hashed).
func (c *Ctx) Distinct(set, member string) {
	c.mu.Lock()
	m := c.distinct[set]
	if m == nil {
		m = map[string]struct{}{}
		c.distinct[set] = m
	}
	if len(member) > 40 {
		h := sha1.Sum([]byte(member))
		member = string(h[:12])
	}
	m[member] = struct{}{}
	c.mu.Unlock()
}

// DistinctCount returns the size of a distinct set.
func (c *Ctx) DistinctCount(set string) int {
	c.mu.Lock()
	defer c.mu.Unlock()
	return len(c.distinct[set])
}

// Sample records an example case (bounded).
func (c *Ctx) Sample(v interface{}) {
	c.mu.Lock()
	if len(c.samples) < 12 {
		c.samples = append(c.samples, v)
	}
	c.mu.Unlock()
}

// Assume records an assumption.
func (c *Ctx) Assume(s string) {
	c.mu.Lock()
	for _, a := range c.assumptions {
		if a == s {
			c.mu.Unlock()
			return
		}
	}
	c.assumptions = append(c.assumptions, s)
	c.mu.Unlock()
}

// NotExhaustive marks the run as capped.
func (c *Ctx) NotExhaustive(why string) {
	c.mu.Lock()
	c.notExh = append(c.notExh, why)
	c.mu.Unlock()
}

// Violate records a violation; only the first per signature keeps its case.
func (c *Ctx) Violate(sig, what string, cs interface{}) {
	c.mu.Lock()
	defer c.mu.Unlock()
	c.bySig[sig]++
	if c.bySig[sig] == 1 {
		c.violations = append(c.violations, Violation{Signature: sig, What: what, Case: cs})
	}
}

// Violations returns what was recorded so far.
func (c *Ctx) Violations() []Violation {
	c.mu.Lock()
	defer c.mu.Unlock()
	return append([]Violation(nil), c.violations...)
}

// ViolationCount returns the number of distinct signatures violated.
func (c *Ctx) ViolationCount() int {
	c.mu.Lock()
	defer c.mu.Unlock()
	return len(c.violations)
}

// LoadFindings reads known_findings.json.
func LoadFindings() []Finding {
	var f struct {
		Findings []Finding `json:"findings"`
	}
	b, err := os.ReadFile(filepath.Join(VerifRoot, "known_findings.json"))
	if err != nil {
		return nil
	}
	if err := json.Unmarshal(b, &f); err != nil {
		fmt.Fprintln(os.Stderr, "known_findings.json unreadable:", err)
		return nil
	}
	return f.Findings
}

func matchFinding(fs []Finding, prop, sig string) *Finding {
	for i := range fs {
		f := &fs[i]
		if f.Property != prop || f.Status != "known" {
			continue
		}
		if f.Signature == sig {
			return f
		}
		if strings.HasSuffix(f.Signature, "*") && strings.HasPrefix(sig, strings.TrimSuffix(f.Signature, "*")) {
			return f
		}
	}
	return nil
}

// WorkerResult is what a sub-process prints for its parent.
type WorkerResult struct {
	Counters   map[string]int64    `json:"counters"`
	Distinct   map[string][]string `json:"distinct"`
	Samples    []interface{}       `json:"samples"`
	Violations []Violation         `json:"violations"`
	SigCounts  map[string]int      `json:"sig_counts"`
	NotExh     []string            `json:"not_exhaustive"`
}

// ExportWorker serialises the context of a worker process.
func (c *Ctx) ExportWorker() WorkerResult {
	c.mu.Lock()
	defer c.mu.Unlock()
	r := WorkerResult{Counters: c.counters, Distinct: map[string][]string{}, Samples: c.samples,
		Violations: c.violations, SigCounts: c.bySig, NotExh: c.notExh}
	for k, m := range c.distinct {
		for e := range m {
			r.Distinct[k] = append(r.Distinct[k], hex.EncodeToString([]byte(e)))
		}
	}
	return r
}

// ImportWorker merges a worker result into this context.
func (c *Ctx) ImportWorker(r WorkerResult) {
	for k, v := range r.Counters {
		c.Add(k, v)
	}
	for k, l := range r.Distinct {
		for _, e := range l {
			b, _ := hex.DecodeString(e)
			c.Distinct(k, string(b))
		}
	}
	for _, s := range r.Samples {
		c.Sample(s)
	}
	c.mu.Lock()
	for _, v := range r.Violations {
		if c.bySig[v.Signature] == 0 {
			c.violations = append(c.violations, v)
		}
		c.bySig[v.Signature] += r.SigCounts[v.Signature]
	}
	c.notExh = append(c.notExh, r.NotExh...)
	c.mu.Unlock()
}

// Finish writes evidence, prints the verdict lines and returns the exit code.
func (c *Ctx) Finish() int {
	c.mu.Lock()
	defer c.mu.Unlock()
	findings := LoadFindings()
	wall := time.Since(c.Start).Seconds()

	sort.SliceStable(c.violations, func(i, j int) bool { return c.violations[i].Signature < c.violations[j].Signature })
	exit := 0
	known := 0
	var lines []string
	seenKnown := map[string]bool{}
	for _, v := range c.violations {
		if f := matchFinding(findings, c.ID, v.Signature); f != nil {
			known++
			if !seenKnown[f.Signature] {
				seenKnown[f.Signature] = true
				lines = append(lines, fmt.Sprintf("KNOWN-FINDING: property=%s %s [%s]", c.ID, f.What, f.Signature))
			}
			continue
		}
		exit = 1
		path := writeReplay(c.ID, v)
		lines = append(lines, fmt.Sprintf("VIOLATION property=%s replay=%s", c.ID, path))
		lines = append(lines, fmt.Sprintf("  signature=%s occurrences=%d what=%s", v.Signature, c.bySig[v.Signature], v.What))
	}

	cov := map[string]interface{}{}
	for k, v := range c.counters {
		cov[k] = v
	}
	for k, m := range c.distinct {
		cov["distinct_"+k] = len(m)
	}
	for k, v := range c.cov {
		cov[k] = v
	}
	if len(c.samples) == 0 {
		c.samples = append(c.samples, "no sample recorded")
	}
	cov["samples"] = c.samples
	if _, ok := cov["exhaustive"]; !ok {
		cov["exhaustive"] = len(c.notExh) == 0
	} else if len(c.notExh) > 0 {
		cov["exhaustive"] = false
	}
	if len(c.notExh) > 0 {
		cov["caps_hit"] = c.notExh
	}
	if known > 0 {
		var sigs []string
		for s := range seenKnown {
			sigs = append(sigs, s)
		}
		sort.Strings(sigs)
		cov["known_findings_reproduced"] = sigs
	}
	ev := map[string]interface{}{
		"property_id": c.ID,
		"tier":        c.Tier,
		"seed":        c.Seed,
		"level":       c.Level,
		"coverage":    cov,
		"assumptions": c.assumptions,
		"wall_s":      float64(int(wall*100)) / 100,
		"violations":  len(c.violations) - known,
	}
	if c.assumptions == nil {
		ev["assumptions"] = []string{}
	}
	b, _ := json.MarshalIndent(ev, "", " ")
	// experiments against scratch worktrees (tools/try_seed.sh) must not overwrite the evidence of /repo
	evDir := envOr("VERIF_EVIDENCE_DIR", filepath.Join(VerifRoot, "evidence"))
	os.MkdirAll(evDir, 0o755)
	tmp := filepath.Join(evDir, c.ID+".json.tmp")
	if err := os.WriteFile(tmp, append(b, '\n'), 0o644); err == nil {
		os.Rename(tmp, filepath.Join(evDir, c.ID+".json"))
	}

	for _, l := range lines {
		fmt.Println(l)
	}
	if d := c.counters["replay_divergences"]; d > 0 && exit == 0 {
		// a schedule could not be replayed: the exploration was not systematic, so "no violation" would not
		// mean anything. Never a VIOLATION by itself; a violating (real) execution is reported as usual.
		fmt.Printf("HARNESS-UNSOUND: %d schedule prefixes could not be replayed (nondeterminism not owned by the harness) and no violation was observed\n", d)
		exit = 2
	}
	fmt.Printf("RESULT property=%s tier=%s violations=%d known=%d wall=%.1fs exhaustive=%v\n", c.ID, c.Tier, len(c.violations)-known, known, wall, cov["exhaustive"])
	return exit
}

func writeReplay(id string, v Violation) string {
	dir := envOr("VERIF_REPLAY_DIR", filepath.Join(VerifRoot, "replays"))
	os.MkdirAll(dir, 0o755)
	h := sha1.Sum([]byte(v.Signature))
	p := filepath.Join(dir, fmt.Sprintf("%s-%s.json", id, hex.EncodeToString(h[:5])))
	b, _ := json.MarshalIndent(map[string]interface{}{"property": id, "signature": v.Signature, "what": v.What, "part": v.Part, "case": v.Case}, "", " ")
	os.WriteFile(p, append(b, '\n'), 0o644)
	return p
}

// ReadReplay loads a replay artefact.
func ReadReplay(path string) (sig string, part string, cs json.RawMessage, err error) {
	var r struct {
		Signature string          `json:"signature"`
		Part      string          `json:"part"`
		Case      json.RawMessage `json:"case"`
	}
	b, err := os.ReadFile(path)
	if err != nil {
		return "", "", nil, err
	}
	err = json.Unmarshal(b, &r)
	return r.Signature, r.Part, r.Case, err
}

// ViolatePart is Violate with a part tag used by replay dispatch.
func (c *Ctx) ViolatePart(part, sig, what string, cs interface{}) {
	c.mu.Lock()
	defer c.mu.Unlock()
	c.bySig[sig]++
	if c.bySig[sig] == 1 {
		c.violations = append(c.violations, Violation{Signature: sig, What: what, Case: cs, Part: part})
	}
}
