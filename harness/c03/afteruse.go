package c03

// Part (use): a key's verdicts do not depend on what it was used for before. For each license an extendable key is
// judged over a probe set (channels x operations), then used for what it is for — a private-link extension through
// the real keygen service, a subscribe-style and a publish-style authorization — and judged again: every verdict must
// be the same, and the extension itself must work a second time for another connection.

import (
	"fmt"
	"time"

	"github.com/emitter-io/emitter/internal/security"
	"github.com/emitter-io/emitter/internal/verifx/engine/core"
)

type afterUseCase struct {
	Part    string `json:"part"` // "use"
	License int    `json:"license"`
	Target  string `json:"target"`
	Mask    uint8  `json:"mask"`
}

var afterUseProbes = []string{"a/", "a/b/", "a/conn1/", "a/conn2/", "a/conn1/x/", "b/", "a/+/", "a/#/"}

func (w *worker) verdictTable(lic int, key string) []string {
	var out []string
	for _, ch := range afterUseProbes {
		for _, op := range opNames {
			out = append(out, fmt.Sprintf("%s:%s=%v", ch, op, authorize(w.env(lic), key, ch, opBit[op])))
		}
	}
	return out
}

func (w *worker) afterUse(c *core.Ctx, ac afterUseCase) {
	env := w.env(ac.License)
	key, err := env.Key(ac.Target, ac.Mask, time.Unix(0, 0))
	if err != nil {
		c.Violate("harness:mint", err.Error(), ac)
		return
	}
	c.Add("after_use_cases", 1)
	before := w.verdictTable(ac.License, key)
	kg := env.Svc.VerifKeygen()
	_, e1 := kg.ExtendKey(key, "a/", "conn1", security.AllowReadWrite, time.Unix(0, 0))
	mid := w.verdictTable(ac.License, key)
	_, e2 := kg.ExtendKey(key, "a/", "conn2", security.AllowReadWrite, time.Unix(0, 0))
	after := w.verdictTable(ac.License, key)
	sig := fmt.Sprintf("v%d:verdict-changed-after-use:", ac.License)
	for i := range before {
		if before[i] != mid[i] || before[i] != after[i] {
			c.Violate(sig+"extension", fmt.Sprintf("key for %s (mask %#x): verdict %s before a link extension, %s after one, %s after two", ac.Target, ac.Mask, before[i], mid[i], after[i]), ac)
			return
		}
	}
	if (e1 == nil) != (e2 == nil) {
		c.Violate(sig+"second-extension", fmt.Sprintf("key for %s (mask %#x): first link extension error=%v, second (another connection) error=%v", ac.Target, ac.Mask, e1, e2), ac)
	}
}

func (w *worker) partAfterUse(c *core.Ctx) {
	for _, lic := range []int{1, 2, 3} {
		for _, target := range []string{"a/", "a/#/"} {
			for _, mask := range []uint8{security.AllowExtend | security.AllowReadWrite, security.AllowExtend | security.AllowRead, security.AllowExtend, security.AllowReadWrite} {
				w.afterUse(c, afterUseCase{Part: "use", License: lic, Target: target, Mask: mask})
			}
		}
	}
}
