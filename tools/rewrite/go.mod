module rewrite

go 1.24
