// Package c08: a connection that ends leaves nothing behind; its last will fires exactly once.
// Enumeration of every cut point (packet boundary and byte offset) x every way of ending, of
// every generated client session, against one real broker with a second client watching.
package c08

import (
	"encoding/json"
	"fmt"
	"net"
	"sort"
	"strings"
	"sync"
	"time"

	"github.com/emitter-io/emitter/internal/broker"
	"github.com/emitter-io/emitter/internal/security"
	"github.com/emitter-io/emitter/internal/verifx/engine/brokerx"
	"github.com/emitter-io/emitter/internal/verifx/engine/core"
	"github.com/emitter-io/emitter/internal/verifx/engine/refmodel"
	"github.com/emitter-io/emitter/internal/verifx/engine/session"
)

func init() {
	core.Register(&core.Check{ID: "C08", Level: "fault_enumeration", Run: run, Replay: replay})
}

// request menu of the session under test
var requests = []string{"sub:a/b/", "sub:b/a/", "unsub:a/b/", "unsub:b/a/", "sub:a/", "watch:x/", "link:a/b/", "sub:y/", "sub:x/x/y/", "unsub:y/"}
var wills = []string{"nowill", "will-ok", "will-unauthorized", "noconnect"}
var endings = []string{"disconnect", "abort", "abort-eof-with-data", "malformed-subscribe", "bad-type", "oversized"}

// Case is one cut of one session.
type Case struct {
	Will   string   `json:"will"`
	Reqs   []string `json:"requests"`
	Full   int      `json:"full_packets"`  // number of request packets completely sent and acknowledged
	Offset int      `json:"offset"`        // bytes of the next packet sent before the cut (0 = boundary)
	Ending string   `json:"ending"`        // how the connection ends (mid-packet cuts always end by abrupt close)
	// burst family: the connection holds Burst subscriptions a/s<i>/ below a watched channel and ends while the
	// watcher's socket is stalled (Stall) — its consumer stopped reading — and is released afterwards
	Burst int  `json:"burst,omitempty"`
	Stall bool `json:"stall,omitempty"`
}

type worker struct {
	env      *brokerx.Env
	rw, ro   string
	w        *session.Client
	wid      string
	baseline string
}

func newWorker() *worker {
	k := &worker{env: brokerx.MustNew(brokerx.Options{})}
	all := security.AllowRead | security.AllowWrite | security.AllowPresence | security.AllowStore | security.AllowLoad
	k.rw = k.env.MustKey("#/", all)
	k.ro = k.env.MustKey("#/", security.AllowRead)
	var wc *broker.Conn
	k.w = session.NewClient("W", func(c net.Conn) { wc = k.env.Svc.VerifAttach(c) })
	k.w.Connect(session.ConnectOpts{ClientID: "watcher", Username: "w"})
	k.wid = wc.ID()
	k.w.Subscribe(k.rw + "/w/")
	for _, ch := range []string{"a/", "b/", "c/", "y/", "x/"} {
		k.w.Request("presence", map[string]interface{}{"key": k.rw, "channel": ch, "status": false, "changes": true})
	}
	k.env.PresenceBarrier()
	k.w.Drain()
	k.baseline = k.dump("")
	return k
}

// dump renders the trie with the watcher's entries named and everything else anonymous.
func (k *worker) dump(tid string) string {
	_, pairs, count := k.env.Svc.VerifTrie().VerifDump()
	var ps []string
	for _, p := range pairs {
		who := "OTHER"
		if p.ID == k.wid {
			who = "W"
		} else if p.ID == tid {
			who = "T"
		}
		ps = append(ps, fmt.Sprintf("%s:%v", who, []uint32(p.Ssid)))
	}
	sort.Strings(ps)
	return fmt.Sprintf("%d|%s", count, strings.Join(ps, ";"))
}

func encodeRequest(k *worker, r string, id uint16) []byte {
	parts := strings.SplitN(r, ":", 2)
	switch parts[0] {
	case "sub":
		return session.EncSubscribe(id, k.rw+"/"+parts[1])
	case "unsub":
		return session.EncUnsubscribe(id, k.rw+"/"+parts[1])
	case "watch":
		b, _ := json.Marshal(map[string]interface{}{"key": k.rw, "channel": parts[1], "status": false, "changes": true})
		return session.EncPublish("emitter/presence/", b, 1, false, id)
	case "link":
		b, _ := json.Marshal(map[string]interface{}{"name": "l1", "key": k.rw, "channel": parts[1], "subscribe": true})
		return session.EncPublish("emitter/link/", b, 1, false, id)
	}
	panic("bad request " + r)
}

func ackOf(r string) int {
	switch strings.SplitN(r, ":", 2)[0] {
	case "sub":
		return session.SUBACK
	case "unsub":
		return session.UNSUBACK
	}
	return session.PUBACK
}

// runBurst: a connection with many subscriptions below a watched channel ends while the presence watcher is not
// reading. Every one of its subscriptions must be removed and the watcher told about each, once it reads again.
func (k *worker) runBurst(cs Case) (kind, what string) {
	var tc *broker.Conn
	t := session.NewClient("T", func(c net.Conn) { tc = k.env.Svc.VerifAttach(c) })
	tid := tc.ID()
	if !t.Connect(session.ConnectOpts{ClientID: "t", Username: "tuser"}) {
		return "harness:no-connack", "CONNECT not acknowledged"
	}
	want := map[string]int{}
	for i := 0; i < cs.Burst; i++ {
		ch := fmt.Sprintf("a/s%d/", i)
		if code, ok := t.Subscribe(k.rw + "/" + ch); !ok || code == 0x80 {
			return "harness:no-ack", "subscribe not acknowledged"
		}
		want["unsubscribe|"+ch]++
	}
	pres := k.env.Svc.VerifPresence()
	if !k.env.PresenceBarrier() {
		return "presence-missing:queue-not-served", "presence notifications were not published within 120 s (the queue is not being served)"
	}
	if n := len(k.w.Drain()); n != cs.Burst {
		return "presence-session-stream", fmt.Sprintf("watcher saw %d notifications for %d subscriptions", n, cs.Burst)
	}
	if cs.Stall {
		k.w.Conn.StallWrites(true)
	}
	switch cs.Ending {
	case "disconnect":
		t.Send(session.EncDisconnect())
	default:
		t.Conn.CloseClient(false)
	}
	if cs.Stall {
		// release the watcher once the teardown is over or is itself waiting for room in the notification queue
		deadline := time.Now().Add(120 * time.Second)
		for {
			pending, capacity := pres.VerifQueue()
			if t.Conn.IsClosed() || pending >= capacity {
				break
			}
			if time.Now().After(deadline) {
				k.w.Conn.StallWrites(false)
				return "connection-not-closed", "teardown neither finished nor filled the notification queue within 120s"
			}
			time.Sleep(200 * time.Microsecond)
		}
		k.w.Conn.StallWrites(false)
	}
	if !t.WaitClosed() {
		return "connection-not-closed", "the broker did not close the socket after the connection ended"
	}
	if !k.env.PresenceBarrier() {
		return "presence-missing:queue-not-served", "presence notifications were not published within 120 s (the queue is not being served)"
	}
	if d := k.dump(tid); d != k.baseline {
		return "trie-entry", fmt.Sprintf("subscription index after the end: %.300s ; expected %s", d, k.baseline)
	}
	if n := len(tc.VerifCounters()); n != 0 {
		return "counter", fmt.Sprintf("the ended connection still holds %d subscription counters", n)
	}
	got := map[string]int{}
	for _, p := range k.w.Drain() {
		var n struct {
			Event   string `json:"event"`
			Channel string `json:"channel"`
		}
		json.Unmarshal(p.Payload, &n)
		got[n.Event+"|"+n.Channel]++
	}
	missing, extra := 0, 0
	for key, n := range want {
		if got[key] < n {
			missing++
		}
	}
	for key, n := range got {
		if n > want[key] {
			extra++
		}
	}
	if missing > 0 {
		return "presence-missing", fmt.Sprintf("the connection held %d subscriptions when it left; the watcher was not told about %d of them", cs.Burst, missing)
	}
	if extra > 0 {
		return "presence-extra", fmt.Sprintf("the watcher received %d notifications it should not have", extra)
	}
	return "", ""
}

// runCase executes one case and returns ("", "") or a violation.
func (k *worker) runCase(cs Case) (kind, what string) {
	if cs.Burst > 0 {
		return k.runBurst(cs)
	}
	var tc *broker.Conn
	t := session.NewClient("T", func(c net.Conn) { tc = k.env.Svc.VerifAttach(c) })
	tid := tc.ID()
	o := session.ConnectOpts{ClientID: "t", Username: "tuser"}
	switch cs.Will {
	case "will-ok":
		o.HasWill, o.WillTopic, o.WillMessage = true, k.rw+"/w/", "bye"
	case "will-unauthorized":
		o.HasWill, o.WillTopic, o.WillMessage = true, k.ro+"/w/", "bye"
	}
	// "noconnect": the client never sends CONNECT (the broker serves requests without it)
	if cs.Will != "noconnect" && !t.Connect(o) {
		return "harness:no-connack", "CONNECT not acknowledged"
	}
	held := map[string]bool{}
	var wantNotes []string
	for i := 0; i < cs.Full; i++ {
		r := cs.Reqs[i]
		id := uint16(10 + i)
		t.Send(encodeRequest(k, r, id))
		typ := ackOf(r)
		if !t.Await(func(p session.Packet) bool { return p.Type == typ && p.MsgID == id }) {
			return "harness:no-ack", "request " + r + " not acknowledged"
		}
		parts := strings.SplitN(r, ":", 2)
		switch parts[0] {
		case "sub", "link":
			if !held[parts[1]] {
				held[parts[1]] = true
				wantNotes = append(wantNotes, "subscribe|"+parts[1])
			}
		case "unsub":
			if held[parts[1]] {
				delete(held, parts[1])
				wantNotes = append(wantNotes, "unsubscribe|"+parts[1])
			}
		}
	}
	// the cut
	if cs.Offset > 0 {
		next := encodeRequest(k, cs.Reqs[cs.Full], uint16(10+cs.Full))
		if cs.Offset >= len(next) {
			return "harness:bad-offset", "offset beyond packet"
		}
		t.Send(next[:cs.Offset])
		t.Conn.CloseClient(false)
	} else {
		switch cs.Ending {
		case "disconnect":
			t.Send(session.EncDisconnect())
		case "abort":
			t.Conn.CloseClient(false)
		case "abort-eof-with-data":
			t.Send(session.EncPing())
			t.Conn.CloseClient(true)
		case "malformed-subscribe":
			t.Send([]byte{0x82, 0x01, 0x00})
		case "bad-type":
			t.Send([]byte{0x00, 0x00})
		case "oversized":
			t.Send([]byte{0x30, 0x81, 0x80, 0x04})
		}
	}
	if !t.WaitClosed() {
		return "connection-not-closed", "the broker did not close the socket after the connection ended"
	}
	if !k.env.PresenceBarrier() {
		return "presence-missing:queue-not-served", "presence notifications were not published within 120 s (the queue is not being served)"
	}
	var ends []string
	for f := range held {
		ends = append(ends, "unsubscribe|"+f)
	}
	sort.Strings(ends)

	// 1. nothing of T is left in the index, W's entries are untouched
	if d := k.dump(tid); d != k.baseline {
		leak := "trie-entry"
		if !strings.Contains(d, "T:") && !strings.Contains(d, "OTHER:") {
			leak = "other-connection-touched"
		}
		return leak, fmt.Sprintf("subscription index after the end: %s ; expected %s", d, k.baseline)
	}
	// 2. connection counter
	if n := k.env.Svc.VerifConnections(); n != 1 {
		return "connection-counter", fmt.Sprintf("open-connection counter is %d, expected 1 (the watcher)", n)
	}
	if cs := tc.VerifCounters(); len(cs) != 0 {
		return "counter", fmt.Sprintf("the ended connection still holds %d subscription counters", len(cs))
	}
	// 3. what the watcher saw
	willCount := 0
	var notes []string
	for _, p := range k.w.Drain() {
		if p.Type != session.PUBLISH {
			return "harness:unexpected-packet", fmt.Sprint(p)
		}
		switch p.Topic {
		case "w/":
			if string(p.Payload) != "bye" {
				return "will-wrong-payload", string(p.Payload)
			}
			willCount++
		case "emitter/presence/":
			var n struct {
				Event   string `json:"event"`
				Channel string `json:"channel"`
				Who     struct {
					ID string `json:"id"`
				} `json:"who"`
			}
			json.Unmarshal(p.Payload, &n)
			if n.Who.ID != tid {
				return "presence-wrong-connection", string(p.Payload)
			}
			notes = append(notes, n.Event+"|"+n.Channel)
		default:
			return "harness:unexpected-topic", p.Topic
		}
	}
	wantWill := 0
	if cs.Will == "will-ok" {
		wantWill = 1
	}
	switch {
	case willCount < wantWill:
		return "will-missing", "the last will was supplied with a key that may publish but was not delivered"
	case willCount > wantWill && wantWill == 0 && cs.Will == "nowill":
		return "will-unexpected", "a will was delivered although none was supplied"
	case willCount > wantWill && wantWill == 0:
		return "will-unauthorized", "the last will was delivered although its key does not allow publishing"
	case willCount > 1:
		return "will-duplicate", fmt.Sprintf("the last will was delivered %d times", willCount)
	}
	// notifications: the session part in order, then the end part in any order
	if len(notes) < len(wantNotes) || strings.Join(notes[:len(wantNotes)], ";") != strings.Join(wantNotes, ";") {
		return "presence-session-stream", fmt.Sprintf("watcher saw %v, expected prefix %v", notes, wantNotes)
	}
	tail := append([]string(nil), notes[len(wantNotes):]...)
	sort.Strings(tail)
	if strings.Join(tail, ";") != strings.Join(ends, ";") {
		if len(tail) < len(ends) {
			return "presence-missing", fmt.Sprintf("watchers were told %v when the connection left, expected %v", tail, ends)
		}
		return "presence-extra", fmt.Sprintf("watchers were told %v when the connection left, expected %v", tail, ends)
	}
	return "", ""
}

func colliding(reqs []string) bool {
	var fs []string
	for _, r := range reqs {
		p := strings.SplitN(r, ":", 2)
		fs = append(fs, p[1])
	}
	for i := range fs {
		for j := range fs {
			if fs[i] != fs[j] && xorEq(fs[i], fs[j]) {
				return true
			}
		}
	}
	return false
}

func xorEq(a, b string) bool {
	la, lb := refmodel.Levels(a), refmodel.Levels(b)
	cnt := map[string]int{}
	for _, l := range la {
		cnt[l] ^= 1
	}
	for _, l := range lb {
		cnt[l] ^= 1
	}
	for _, v := range cnt {
		if v != 0 {
			return false
		}
	}
	return true
}

func signature(cs Case, kind string) string {
	if cs.Burst > 0 {
		size := "within-queue"
		if cs.Burst > 100 {
			size = "beyond-queue"
		}
		return fmt.Sprintf("%s:%s:burst:%s:stalled-watcher=%v", kind, cs.Ending, size, cs.Stall)
	}
	cut := "boundary"
	end := cs.Ending
	if cs.Offset > 0 {
		cut = "mid-" + strings.SplitN(cs.Reqs[cs.Full], ":", 2)[0]
		end = "abort"
	}
	feat := "plain"
	if colliding(cs.Reqs[:cs.Full]) {
		feat = "xor-colliding-filters"
	}
	var kinds []string
	seen := map[string]bool{}
	for _, r := range cs.Reqs[:cs.Full] {
		k := strings.SplitN(r, ":", 2)[0]
		if !seen[k] {
			seen[k] = true
			kinds = append(kinds, k)
		}
	}
	sort.Strings(kinds)
	return fmt.Sprintf("%s:%s:%s:%s:%s:%s", kind, end, cut, cs.Will, feat, strings.Join(kinds, "+"))
}

func sessions(maxLen int) [][]string {
	var out [][]string
	var rec func(cur []string)
	rec = func(cur []string) {
		out = append(out, append([]string(nil), cur...))
		if len(cur) == maxLen {
			return
		}
		for _, r := range requests {
			rec(append(cur, r))
		}
	}
	rec(nil)
	return out
}

func run(c *core.Ctx) {
	maxLen := 2
	if !c.Quick() {
		maxLen = 3
	}
	sess := sessions(maxLen)
	// build the case list (deterministic, simplest first)
	var cases []Case
	probe := newWorker()
	for _, reqs := range sess {
		for _, w := range wills {
			for full := 0; full <= len(reqs); full++ {
				// boundary cuts only after the last packet of this session prefix: prefixes are sessions themselves
				if full == len(reqs) {
					for _, e := range endings {
						cases = append(cases, Case{Will: w, Reqs: reqs, Full: full, Ending: e})
					}
				}
				if full == len(reqs)-1 {
					// byte offsets inside the last packet
					n := len(encodeRequest(probe, reqs[full], 10))
					for off := 1; off < n; off++ {
						if c.Quick() && w != "will-ok" && off%4 != 1 {
							continue // quick: every offset with a will, every 4th otherwise
						}
						cases = append(cases, Case{Will: w, Reqs: reqs, Full: full, Offset: off, Ending: "abort"})
					}
				}
			}
		}
	}
	// bounded family of longer sessions: three filters that share one bookkeeping bucket (a/a, b/b, c/c)
	// subscribed in every order, then one of them unsubscribed, each way of ending at the boundary
	col := []string{"sub:a/a/", "sub:b/b/", "sub:c/c/"}
	perms := [][]int{{0, 1, 2}, {0, 2, 1}, {1, 0, 2}, {1, 2, 0}, {2, 0, 1}, {2, 1, 0}}
	for _, pm := range perms {
		for _, un := range []string{"unsub:a/a/", "unsub:b/b/", "unsub:c/c/"} {
			reqs := []string{col[pm[0]], col[pm[1]], col[pm[2]], un}
			for _, e := range endings {
				cases = append(cases, Case{Will: "will-ok", Reqs: reqs, Full: 4, Ending: e})
			}
		}
	}
	// burst family: many subscriptions below a watched channel, watcher reading or stalled while the connection ends
	bursts := []int{1, 99, 100, 101, 102, 150}
	if !c.Quick() {
		bursts = append(bursts, 2, 50, 103, 199, 200, 201, 202, 203, 300, 1000)
	}
	for _, b := range bursts {
		for _, e := range []string{"abort", "disconnect"} {
			for _, st := range []bool{false, true} {
				cases = append(cases, Case{Will: "nowill", Ending: e, Burst: b, Stall: st})
			}
		}
	}
	probe.env.Close()
	n := core.NumWorkers()
	jobs := make(chan Case, 1024)
	var wg sync.WaitGroup
	capped := false
	var mu sync.Mutex
	for i := 0; i < n; i++ {
		wg.Add(1)
		go func() {
			defer wg.Done()
			k := newWorker()
			defer func() { k.env.Close() }()
			for cs := range jobs {
				if c.Expired() {
					mu.Lock()
					capped = true
					mu.Unlock()
					continue
				}
				kind, what := k.runCase(cs)
				c.Add("evaluations", 1)
				c.Distinct("nontrivial", fmt.Sprint(cs))
				c.Distinct("outcome_classes", fmt.Sprintf("%s|%s|%v|%d", cs.Will, cs.Ending, cs.Offset > 0, cs.Full))
				if kind != "" {
					c.Violate(signature(cs, kind), what+fmt.Sprintf(" | case %+v", cs), cs)
					// the broker may be dirty now: start from a fresh one
					k.env.Close()
					k = newWorker()
				}
			}
		}()
	}
	for _, cs := range cases {
		jobs <- cs
	}
	close(jobs)
	wg.Wait()
	if capped {
		c.NotExhaustive("time cap hit before all cut points were run")
	}
	c.Set("evaluations", c.Count("evaluations"))
	c.Set("distinct_nontrivial", c.DistinctCount("nontrivial"))
	c.Set("sessions", len(sess)*len(wills))
	c.Set("rule", "case = (will variant, request sequence of length <= maxLen over 10 requests incl. xor-colliding filters, presence-change and link subscriptions, cut after the last complete packet with each of 6 endings or at a byte offset inside the last packet followed by an abrupt close); every case executes a full real session against the broker, so each distinct tuple is non-trivial")
	c.Sample(Case{Will: "will-ok", Reqs: []string{"sub:a/b/", "sub:b/a/"}, Full: 2, Ending: "abort"})
	c.Sample(Case{Will: "will-unauthorized", Reqs: []string{"link:a/b/", "unsub:a/b/"}, Full: 1, Offset: 7, Ending: "abort"})
	c.Assume("the transport is an in-memory net.Conn attached through the real accept path (no TCP, no TLS)")
	c.Assume("burst family: the watcher's stall is a socket whose Write blocks; it is released when the ending connection's teardown has finished or waits for room in the presence queue (read through a verif hook)")
	c.Assume("'internal failure while serving' is represented by decoder errors/panics only")
}

func replay(c *core.Ctx, raw json.RawMessage) {
	var cs Case
	json.Unmarshal(raw, &cs)
	k := newWorker()
	defer k.env.Close()
	if kind, what := k.runCase(cs); kind != "" {
		c.Violate(signature(cs, kind), what, cs)
	}
}
