package c16

// Part (conc): two connections run the codec at the same time — one decodes a SUBSCRIBE with two topics and
// encodes the SUBACK, the other decodes a PUBLISH and encodes it again (what a broker does when a subscriber and a
// publisher are busy simultaneously). Explored exhaustively under the controlled scheduler with statement-level
// yields in the codec and its buffer pool; each caller must see exactly what it sees alone.

import (
	"bytes"
	"fmt"
	"strings"

	"github.com/emitter-io/emitter/internal/network/mqtt"
	"github.com/emitter-io/emitter/internal/verifx/engine/sched"
)

func concWork(which int) string {
	var out bytes.Buffer
	switch which {
	case 0:
		sub := &mqtt.Subscribe{Header: mqtt.Header{QOS: 1}, MessageID: 0x0102, Subscriptions: []mqtt.TopicQOSTuple{{Qos: 1, Topic: []byte("key/a/b/")}, {Qos: 0, Topic: []byte("key/c/")}}}
		var wire bytes.Buffer
		sub.EncodeTo(&wire)
		m, err := mqtt.DecodePacket(bytes.NewReader(wire.Bytes()), 65536)
		if err != nil {
			return "decode-error:" + err.Error()
		}
		s, ok := m.(*mqtt.Subscribe)
		if !ok {
			return fmt.Sprintf("decoded %T", m)
		}
		fmt.Fprintf(&out, "sub id=%d n=%d", s.MessageID, len(s.Subscriptions))
		for _, t := range s.Subscriptions {
			fmt.Fprintf(&out, " %s:%d", t.Topic, t.Qos)
		}
		ack := &mqtt.Suback{MessageID: s.MessageID, Qos: []uint8{1, 0}}
		var w2 bytes.Buffer
		ack.EncodeTo(&w2)
		fmt.Fprintf(&out, " suback=%x", w2.Bytes())
	case 1:
		pub := &mqtt.Publish{Header: mqtt.Header{QOS: 1, Retain: true}, MessageID: 0x0304, Topic: []byte("key/x/y/"), Payload: bytes.Repeat([]byte("p"), 200)}
		var wire bytes.Buffer
		pub.EncodeTo(&wire)
		m, err := mqtt.DecodePacket(bytes.NewReader(wire.Bytes()), 65536)
		if err != nil {
			return "decode-error:" + err.Error()
		}
		p, ok := m.(*mqtt.Publish)
		if !ok {
			return fmt.Sprintf("decoded %T", m)
		}
		var w2 bytes.Buffer
		p.EncodeTo(&w2)
		fmt.Fprintf(&out, "pub id=%d topic=%s len=%d qos=%d retain=%v same-bytes=%v", p.MessageID, p.Topic, len(p.Payload), p.Header.QOS, p.Header.Retain, bytes.Equal(w2.Bytes(), wire.Bytes()))
	}
	return out.String()
}

func concScenarios() map[string]*sched.Scenario {
	return map[string]*sched.Scenario{"codec": {
		Name: "codec", Files: []string{"internal/network/mqtt/mqtt.go", "internal/network/mqtt/buffer.go"},
		Body: func(s *sched.Sched) {
			want := []string{concWork(0), concWork(1)} // each caller alone
			got := make([]string, 2)
			for i := 0; i < 2; i++ {
				i := i
				s.Go(fmt.Sprintf("T%d", i), func() { got[i] = concWork(i) })
			}
			s.AtEnd(func() {
				for i := 0; i < 2; i++ {
					s.Obs("T%d:%v:%s|alone:%s", i, got[i] == want[i], got[i], want[i])
				}
			})
		},
		Check: func(x *sched.Exec) (string, string) {
			if len(x.Obs) != 2 {
				return "concurrent-codec:incomplete", "execution did not complete"
			}
			for _, o := range x.Obs {
				if strings.Contains(o, ":false:") {
					return "concurrent-codec:differs", "a connection's decode/encode gives another result while another connection uses the codec: " + strings.Join(x.Obs, " ; ")
				}
			}
			return "", ""
		},
	}}
}
