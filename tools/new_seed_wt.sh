#!/bin/bash
# tools/new_seed_wt.sh <round> <ID> : scratch worktree /tmp/seed<round>-<ID> of /repo HEAD for a seeding sub-agent,
# with PROPERTY.txt (statement + code anchors only, nothing from /verif's machinery) and an empty SEEDED/ directory.
r=$1; id=$2; wt=/tmp/seed$r-$id
git -C /repo worktree add --detach $wt HEAD >/dev/null 2>&1 || { echo "cannot create $wt"; exit 2; }
mkdir -p $wt/SEEDED
python3 - "$id" "$wt" <<'PY'
import json,sys
pid,wt=sys.argv[1:3]
for l in open('/verif/properties.jsonl'):
    p=json.loads(l)
    if p['id']==pid:
        with open(wt+'/PROPERTY.txt','w') as f:
            f.write(p['id']+': '+p.get('title','')+'\n\n'+p['statement']+'\n\nCode the property is anchored in:\n')
            a=p.get('anchors',{})
            for x in a.get('files',[]): f.write('  '+x+'\n')
            for m in a.get('mechanism',[]): f.write('  - '+m.get('name','')+' ('+m.get('where','')+')\n')
PY
echo $wt
