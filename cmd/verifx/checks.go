package main

// Blank imports register the checks.
import (
	_ "github.com/emitter-io/emitter/internal/verifx/c19"
)
