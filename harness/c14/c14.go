// Package c14: banning a key takes effect immediately and survives restarts.
// Every sequence of ban / unban / use / restart / crash-restart / gossip-to-second-broker
// operations up to a depth is executed against real brokers with a real state directory.
package c14

import (
	"bufio"
	"encoding/json"
	"fmt"
	"net"
	"os"
	"os/exec"
	"path/filepath"
	"regexp"
	"strconv"
	"strings"
	"syscall"
	"time"

	"github.com/emitter-io/emitter/internal/security"
	"github.com/emitter-io/emitter/internal/verifx/engine/brokerx"
	"github.com/emitter-io/emitter/internal/verifx/engine/core"
	"github.com/emitter-io/emitter/internal/verifx/engine/session"
	"github.com/emitter-io/emitter/internal/verifx/engine/xstate"
	"github.com/weaveworks/mesh"
)

func init() {
	core.Register(&core.Check{ID: "C14", Level: "model_checking", Run: run, Replay: replay, Worker: worker})
}

var fullAlphabet = []string{"ban", "unban", "use", "restart", "crash", "useB2", "sync"}
var toggleAlphabet = []string{"ban", "unban", "use"}
var restartAlphabet = []string{"ban", "unban", "use", "restart", "crash"}

// agedAlphabet: the broker is stopped and comes back seven hours later on the same directory (every expiry time
// recorded in the state file is moved seven hours into the past before the restart): an acknowledged ban is still in
// force then, and an unbanned key still works, however the key's history of bans and unbans looked
var agedAlphabet = []string{"ban", "unban", "use", "restart7h"}
var peerAlphabet = []string{"ban", "unban", "sync", "useB2"}

// peerFullAlphabet: the second broker learns through the periodic full-state exchange (one payload carrying the
// whole entry, i.e. possibly a newer add time and a newer remove time at once) instead of the single broadcasts
var peerFullAlphabet = []string{"ban", "unban", "syncfull", "useB2"}

// capture records what the broker would broadcast.
type capture struct{ payloads []mesh.GossipData }

func (c *capture) GossipUnicast(dst mesh.PeerName, msg []byte) error { return nil }
func (c *capture) GossipBroadcast(update mesh.GossipData)            { c.payloads = append(c.payloads, update) }
func (c *capture) GossipNeighbourSubset(update mesh.GossipData)      {}

// wenv is reused by every path of one worker; each path bans its own freshly minted key, so the
// state left behind by earlier paths (other keys) cannot influence it.
type wenv struct {
	dir     string
	b1, b2  *brokerx.Env
	cap     *capture
	cl, cl2 *session.Client
	abandon []*brokerx.Env
	paths   int
}

func newWenv() *wenv {
	w := &wenv{}
	w.dir, _ = os.MkdirTemp("", "c14-*")
	w.start()
	w.b2 = brokerx.MustNew(brokerx.Options{Node: 2})
	return w
}

func (w *wenv) start() {
	w.b1 = brokerx.MustNew(brokerx.Options{Node: 1, ClusterDir: w.dir, KeepGossip: true})
	w.cap = &capture{}
	w.b1.Svc.VerifCluster().VerifSetGossip(w.cap)
	w.cl = nil
}

func (w *wenv) close() {
	if w.cl != nil {
		w.cl.Abort()
	}
	if w.cl2 != nil {
		w.cl2.Abort()
	}
	w.b1.Close()
	w.b2.Close()
	for _, a := range w.abandon {
		a.Close()
	}
	os.RemoveAll(w.dir)
}

type inst struct {
	*wenv
	ops      []string
	key      string
	banned   bool // reference: what the last acknowledged ban request said
	b2banned bool // reference for the second broker: value at the last sync
	hist     []string
	pending  string
	pwhat    string
}

func newInst(w *wenv, ops []string) *inst {
	// abandoned brokers pile up goroutines and file handles: renew the environment now and then
	if w.paths++; w.paths > 400 || len(w.abandon) > 20 {
		w.close()
		*w = *newWenv()
	}
	in := &inst{wenv: w, ops: ops}
	w.cap.payloads = nil
	// a fresh key per path (different channel target each time, so the strings differ)
	// ... and one whose text contains '-', so that it has another spelling in the standard base64 alphabet
	for try := 0; ; try++ {
		in.key = w.b1.MustKey(fmt.Sprintf("k%d/", w.paths), security.AllowRead|security.AllowWrite|security.AllowLoad|security.AllowPresence)
		if strings.Contains(in.key, "-") || try > 64 {
			break
		}
		w.paths++
	}
	return in
}

func (in *inst) client() *session.Client {
	if in.cl == nil {
		in.cl = session.NewClient("U", func(c net.Conn) { in.b1.Svc.VerifAttach(c) })
		if !in.cl.Connect(session.ConnectOpts{ClientID: "u"}) {
			in.fail("harness:no-connack", "CONNECT not acknowledged")
		}
	}
	return in.cl
}

func (in *inst) client2() *session.Client {
	if in.cl2 == nil {
		in.cl2 = session.NewClient("V", func(c net.Conn) { in.b2.Svc.VerifAttach(c) })
		if !in.cl2.Connect(session.ConnectOpts{ClientID: "v"}) {
			in.fail("harness:no-connack", "CONNECT not acknowledged")
		}
	}
	return in.cl2
}

func (in *inst) fail(s, w string) {
	if in.pending == "" {
		in.pending, in.pwhat = s, w
	}
}

func (in *inst) Enabled() []int {
	out := make([]int, len(in.ops))
	for i := range out {
		out[i] = i
	}
	return out
}

// tryUse presents the key for every kind of operation (subscribe, publish, history, presence) and
// reports whether all of them were accepted; mixed answers are reported through the third result.
func tryUse(c *session.Client, key string, ch string) (accepted bool, ok bool) {
	acc, ok, mixed := tryUseAll(c, key, ch)
	if mixed != "" {
		return !acc, ok // make the caller's comparison fail whatever the ban state is
	}
	return acc, ok
}

var lastMixed string

func tryUseAll(c *session.Client, key string, ch string) (accepted bool, ok bool, mixed string) {
	var res []string
	// subscribe
	code, acked := c.Subscribe(key + "/" + ch)
	if !acked {
		return false, false, ""
	}
	c.Drain()
	if code != 0x80 {
		c.Unsubscribe(key + "/" + ch)
		c.Drain()
		res = append(res, "subscribe:yes")
	} else {
		res = append(res, "subscribe:no")
	}
	// publish
	if !c.Publish(key+"/"+ch, []byte("x"), false) {
		return false, false, ""
	}
	perr := false
	for _, p := range c.Drain() {
		if p.Type == session.PUBLISH && p.Topic == "emitter/error/" {
			perr = true
		}
	}
	if perr {
		res = append(res, "publish:no")
	} else {
		res = append(res, "publish:yes")
	}
	// history (load) and presence
	for _, rq := range []struct {
		name string
		body map[string]interface{}
	}{
		{"history", map[string]interface{}{"key": key, "channel": key + "/" + ch}},
		{"presence", map[string]interface{}{"key": key, "channel": ch, "status": true}},
	} {
		resp, got := c.Request(rq.name, rq.body)
		if !got {
			return false, false, ""
		}
		// errors are answered on the request's own topic as {"status":4xx,"message":...}
		var st struct {
			Status int `json:"status"`
		}
		json.Unmarshal(resp.Payload, &st)
		if resp.Topic == "emitter/"+rq.name+"/" && st.Status < 400 {
			res = append(res, rq.name+":yes")
		} else {
			res = append(res, rq.name+":no")
		}
		c.Drain()
	}
	yes, no := 0, 0
	for _, r := range res {
		if strings.HasSuffix(r, ":yes") {
			yes++
		} else {
			no++
		}
	}
	if yes > 0 && no > 0 {
		lastMixed = strings.Join(res, " ")
		return yes > no, true, lastMixed
	}
	lastMixed = ""
	return yes > 0, true, ""
}

// respelled: a banned key must stay refused however its text is written. The only other spelling a lenient decoder
// could take for the same key is the standard base64 alphabet ('+' for '-'); an invalid string is refused anyway.
func (in *inst) respelled(c *session.Client, sig string) {
	if !strings.Contains(in.key, "-") {
		return
	}
	alias := strings.ReplaceAll(in.key, "-", "+")
	acc, ok, mixed := tryUseAll(c, alias, fmt.Sprintf("k%d/", in.paths))
	if ok && (acc || mixed != "") {
		in.fail(sig, fmt.Sprintf("the banned key %s is accepted when written as %s (%s)", in.key, alias, mixed))
	}
}

// ageStateFile moves every absolute expiry time in a buntdb append-only file ("ae" field of a set record) the given
// number of seconds into the past: to the store, that much time has passed since the records were written.
var aeField = regexp.MustCompile(`\$2\r\nae\r\n\$\d+\r\n(\d+)\r\n`)

func ageStateFile(path string, seconds int64) error {
	raw, err := os.ReadFile(path)
	if err != nil {
		if os.IsNotExist(err) {
			return nil
		}
		return err
	}
	out := aeField.ReplaceAllFunc(raw, func(m []byte) []byte {
		sub := aeField.FindSubmatch(m)
		at, _ := strconv.ParseInt(string(sub[1]), 10, 64)
		v := strconv.FormatInt(at-seconds, 10)
		return []byte(fmt.Sprintf("$2\r\nae\r\n$%d\r\n%s\r\n", len(v), v))
	})
	return os.WriteFile(path, out, 0o644)
}

func (in *inst) banRequest(b bool) {
	resp, ok := in.client().Request("keyban", map[string]interface{}{"secret": in.b1.Master, "target": in.key, "banned": b})
	var r struct {
		Status int  `json:"status"`
		Banned bool `json:"banned"`
	}
	if !ok || resp.Topic != "emitter/keyban/" || json.Unmarshal(resp.Payload, &r) != nil || r.Status != 200 || r.Banned != b {
		in.fail("harness:keyban-request-refused", fmt.Sprintf("keyban(%v) answered %v %s", b, resp.Topic, resp.Payload))
		return
	}
	in.banned = b
}

func (in *inst) Apply(i int) {
	o := in.ops[i]
	in.hist = append(in.hist, o)
	if in.pending != "" {
		return
	}
	switch o {
	case "ban":
		in.banRequest(true)
	case "unban":
		in.banRequest(false)
	case "use":
		acc, ok := tryUse(in.client(), in.key, fmt.Sprintf("k%d/", in.paths))
		if !ok {
			in.fail("harness:no-suback", "subscribe not acknowledged")
			return
		}
		if lastMixed != "" {
			in.fail(in.sig("ban-partial"), "operations presenting the same key disagree: "+lastMixed)
		} else if acc && in.banned {
			in.fail(in.sig("ban-ignored"), "the key was used successfully although its ban had been acknowledged")
		} else if !acc && !in.banned {
			in.fail(in.sig("unban-ignored"), "the key was refused although it is not banned (unban acknowledged or never banned)")
		} else if in.banned {
			in.respelled(in.client(), in.sig("ban-ignored:respelled-key"))
		}
	case "restart":
		if in.cl != nil {
			in.cl.Abort()
		}
		in.b1.Close()
		in.start()
	case "restart7h":
		if in.cl != nil {
			in.cl.Abort()
		}
		in.b1.Close()
		if err := ageStateFile(filepath.Join(in.dir, "ban.db"), 7*3600); err != nil {
			in.fail("harness:age-state-file", err.Error())
			return
		}
		in.start()
	case "crash":
		// abandon the running broker without closing anything and open a new one on the same directory
		in.abandon = append(in.abandon, in.b1)
		in.start()
	case "useB2":
		acc, ok := tryUse(in.client2(), in.key, fmt.Sprintf("k%d/", in.paths))
		if !ok {
			in.fail("harness:no-suback", "subscribe on the second broker not acknowledged")
			return
		}
		if acc && in.b2banned {
			in.fail(in.sigB2("not-effective-on-peer:ban"), "second broker accepts the key although it merged the gossip carrying the ban")
		} else if !acc && !in.b2banned {
			in.fail(in.sigB2("not-effective-on-peer:unban"), "second broker refuses the key although the last gossip it merged says it is not banned")
		} else if in.b2banned {
			in.respelled(in.client2(), in.sigB2("not-effective-on-peer:respelled-key"))
		}
	case "sync":
		for _, p := range in.cap.payloads {
			for _, buf := range p.Encode() {
				if _, err := in.b2.Svc.VerifCluster().OnGossipBroadcast(mesh.PeerName(1), buf); err != nil {
					in.fail("harness:gossip-rejected", err.Error())
				}
			}
		}
		in.cap.payloads = nil
		in.b2banned = in.banned
	case "syncfull":
		// the periodic exchange: the first broker's complete state in one payload; broadcasts captured so far
		// are dropped (a link that only carries periodic gossip, e.g. after a partition)
		for _, buf := range in.b1.Svc.VerifCluster().Gossip().Encode() {
			if _, err := in.b2.Svc.VerifCluster().OnGossip(buf); err != nil {
				in.fail("harness:gossip-rejected", err.Error())
			}
		}
		in.cap.payloads = nil
		in.b2banned = in.banned
	}
}

func compress(h []string) string {
	// pattern of the history: toggles and uses with restarts marked
	return strings.Join(h, ",")
}

func (in *inst) sig(kind string) string {
	feat := "toggle"
	for _, o := range in.hist {
		if o == "restart" || o == "restart7h" {
			feat = "restart"
		}
		if o == "crash" {
			feat = "crash"
		}
	}
	if feat == "restart" && kind == "ban-ignored" {
		kind = "lost-after-restart"
	}
	if feat == "crash" && kind == "ban-ignored" {
		kind = "lost-after-kill"
	}
	var h []string
	for _, o := range in.hist {
		if o != "useB2" && o != "sync" && o != "syncfull" {
			h = append(h, o)
		}
	}
	return kind + ":" + compress(h)
}

func (in *inst) sigB2(kind string) string {
	var h []string
	for _, o := range in.hist {
		if o != "use" {
			h = append(h, o)
		}
	}
	return kind + ":" + compress(h)
}

func (in *inst) Check() (string, string) { return in.pending, in.pwhat }

func (in *inst) Key() string { return strings.Join(in.hist, ",") } // no merging: every history is its own state

func (in *inst) Close() {}

var procEnv *wenv

func alphabetOf(name string) []string {
	switch name {
	case "toggle":
		return toggleAlphabet
	case "restart":
		return restartAlphabet
	case "peer":
		return peerAlphabet
	case "peerfull":
		return peerFullAlphabet
	case "aged":
		return agedAlphabet
	}
	return fullAlphabet
}

func specFor(name string, ops []string, depth int, deadline time.Time) *xstate.Spec {
	return &xstate.Spec{Name: name, Alphabet: ops, Depth: depth, Deadline: deadline,
		New: func(w int) xstate.Instance {
			if procEnv == nil {
				procEnv = newWenv()
			}
			return newInst(procEnv, ops)
		}}
}

func search(c *core.Ctx, name string, ops []string, depth int) {
	spec := specFor(name, ops, depth, c.Deadline)
	// restarts and abandoned brokers cannot be released (routers, caches, pollers stay referenced):
	// the expansion runs in worker processes that are replaced after a few dozen requests
	res, err := xstate.RunProcs(spec, xstate.ProcOpts{CheckID: "C14", Tier: c.Tier, Args: []string{"xstate", name, fmt.Sprint(depth)}, Procs: core.NumWorkers(), Recycle: 60, Deadline: c.Deadline})
	if err != nil {
		core.HarnessFailure("C14 %s: %v", name, err)
	}
	c.Add("states", int64(res.States))
	c.Add("transitions", res.Transitions)
	c.Add("traces_validated_against_impl", res.Replays)
	c.Set("depth_completed_"+name, res.DepthCompleted)
	if !res.Exhaustive {
		c.NotExhaustive(fmt.Sprintf("%s: time cap at depth %d (%d unexpanded)", name, res.DepthCompleted, res.FrontierLeft))
	}
	for i, p := range res.SamplePaths {
		if i < 3 {
			c.Sample(map[string]interface{}{"alphabet": name, "history": p})
		}
	}
	for _, f := range res.Violations {
		c.Violate(f.Sig, f.What+" | history: "+strings.Join(f.Path, ", "), map[string]interface{}{"alphabet": name, "ops": f.Ops, "history": f.Path})
	}
}

// ---- real process kills ---------------------------------------------------------------------
//
// A child process runs a broker on a state directory, executes a script of ban/unban requests
// (real emitter/keyban/ requests) and prints "ACK i" after each acknowledged one; the parent reads
// the acks and delivers SIGKILL right after the k-th. A second child then opens a broker on the same
// directory and reports whether the key is accepted. Expected: the state of the last acknowledged
// request (a request in flight may or may not have taken effect).

func worker(c *core.Ctx, args []string) {
	if len(args) == 3 && args[0] == "xstate" {
		var depth int
		fmt.Sscan(args[2], &depth)
		xstate.Serve(specFor(args[1], alphabetOf(args[1]), depth, time.Time{}))
		if procEnv != nil {
			procEnv.close()
		}
		return
	}
	if len(args) < 3 {
		return
	}
	dir, key := args[1], args[2]
	env := brokerx.MustNew(brokerx.Options{Node: 1, ClusterDir: dir})
	cl := session.NewClient("U", func(cn net.Conn) { env.Svc.VerifAttach(cn) })
	cl.Connect(session.ConnectOpts{ClientID: "u"})
	switch args[0] {
	case "kill-child":
		if key == "-" { // mint the key and tell the parent
			key = env.MustKey("a/", security.AllowRead|security.AllowWrite|security.AllowLoad|security.AllowPresence)
			fmt.Printf("KEY %s\n", key)
		}
		for i, op := range strings.Split(args[3], ",") {
			resp, ok := cl.Request("keyban", map[string]interface{}{"secret": env.Master, "target": key, "banned": op == "ban"})
			if !ok || resp.Topic != "emitter/keyban/" {
				fmt.Printf("FAILED %d\n", i)
				os.Stdout.Sync()
				os.Exit(3)
			}
			fmt.Printf("ACK %d\n", i)
			os.Stdout.Sync()
			// wait for the parent's go-ahead (or its SIGKILL)
			var b [1]byte
			if _, err := os.Stdin.Read(b[:]); err != nil {
				select {}
			}
		}
		select {} // never exits by itself: the parent kills it
	case "kill-verify":
		acc, ok := tryUse(cl, key, "a/")
		fmt.Printf("USE accepted=%v ok=%v\n", acc, ok)
		os.Stdout.Sync()
		os.Exit(0)
	}
}

type killCase struct {
	Part   string   `json:"part"`
	Script []string `json:"script"`
	KillAt int      `json:"kill_after_ack"` // index of the last acknowledged request
}

func runKill(c *core.Ctx, kc killCase) {
	c.Add("kill_cases", 1)
	dir, _ := os.MkdirTemp("", "c14k-*")
	defer os.RemoveAll(dir)
	cmd := exec.Command(os.Args[0], "worker", "C14", c.Tier, "kill-child", dir, "-", strings.Join(kc.Script, ","))
	stdin, _ := cmd.StdinPipe()
	stdout, _ := cmd.StdoutPipe()
	cmd.Stderr = nil
	if err := cmd.Start(); err != nil {
		core.HarnessFailure("C14 kill child: %v", err)
	}
	rd := bufio.NewReader(stdout)
	key := ""
	acked := -1
	deadline := time.AfterFunc(120*time.Second, func() { cmd.Process.Kill() })
	for acked < kc.KillAt {
		line, err := rd.ReadString('\n')
		if err != nil {
			break
		}
		line = strings.TrimSpace(line)
		switch {
		case strings.HasPrefix(line, "KEY "):
			key = line[4:]
		case strings.HasPrefix(line, "ACK "):
			fmt.Sscanf(line, "ACK %d", &acked)
			if acked < kc.KillAt {
				stdin.Write([]byte("g"))
			}
		}
	}
	cmd.Process.Signal(syscall.SIGKILL)
	cmd.Wait()
	deadline.Stop()
	if acked != kc.KillAt || key == "" {
		core.HarnessFailure("C14 kill child did not reach ack %d (got %d)", kc.KillAt, acked)
	}
	out, err := exec.Command(os.Args[0], "worker", "C14", c.Tier, "kill-verify", dir, key).Output()
	if err != nil || !strings.Contains(string(out), "ok=true") {
		c.Violate("reopen-failed:after-kill", fmt.Sprintf("the broker did not come up / answer on the state directory of a killed broker: %v %s", err, out), kc)
		return
	}
	accepted := strings.Contains(string(out), "accepted=true")
	banned := kc.Script[kc.KillAt] == "ban"
	if banned && accepted {
		c.Violate("lost-after-kill:"+strings.Join(kc.Script[:kc.KillAt+1], ","), "an acknowledged ban is not in force after the broker was killed and restarted on the same directory", kc)
	} else if !banned && !accepted {
		c.Violate("unban-lost-after-kill:"+strings.Join(kc.Script[:kc.KillAt+1], ","), "an acknowledged unban is not in force after the broker was killed and restarted", kc)
	}
}

func killPart(c *core.Ctx) {
	scripts := [][]string{{"ban"}, {"ban", "unban"}, {"ban", "unban", "ban"}}
	if !c.Quick() {
		scripts = append(scripts, []string{"ban", "ban", "unban", "unban", "ban"}, []string{"unban", "ban", "unban"})
	}
	for _, sc := range scripts {
		for k := range sc {
			runKill(c, killCase{Part: "kill", Script: sc, KillAt: k})
		}
	}
	c.Sample(killCase{Part: "kill", Script: []string{"ban", "unban", "ban"}, KillAt: 2})
}

func run(c *core.Ctx) {
	killPart(c)
	if c.Quick() {
		search(c, "toggle", toggleAlphabet, 6)
		search(c, "restart", restartAlphabet, 4)
		search(c, "peer", peerAlphabet, 6)
		search(c, "peerfull", peerFullAlphabet, 6)
		search(c, "aged", agedAlphabet, 5)
		search(c, "full", fullAlphabet, 3)
	} else {
		search(c, "toggle", toggleAlphabet, 8)
		search(c, "restart", restartAlphabet, 6)
		search(c, "peer", peerAlphabet, 8)
		search(c, "peerfull", peerFullAlphabet, 8)
		search(c, "aged", agedAlphabet, 7)
		search(c, "full", fullAlphabet, 5)
	}
	c.Add("states", c.Count("kill_cases"))
	c.Add("transitions", c.Count("kill_cases"))
	c.Add("traces_validated_against_impl", c.Count("kill_cases"))
	c.Assume("the 60 s read-cache TTL never elapses inside a run; the 6 h tombstone TTL elapses only through the 'restart7h' operation, which rewrites the expiry times recorded in the stopped broker's state file")
	c.Assume("'crash' = a second Service opened on the state directory while the first is abandoned un-closed (buntdb writes each commit with an immediate write(2)); power loss is out of scope")
	c.Assume("gossip to the second broker is delivered as the exact one-operation payloads the first broker broadcast, in order")
}

func replay(c *core.Ctx, raw json.RawMessage) {
	var pk killCase
	if json.Unmarshal(raw, &pk); pk.Part == "kill" {
		runKill(c, pk)
		return
	}
	var cs struct {
		Alphabet string `json:"alphabet"`
		Ops      []int  `json:"ops"`
	}
	json.Unmarshal(raw, &cs)
	ops := alphabetOf(cs.Alphabet)
	w := newWenv()
	defer w.close()
	in := newInst(w, ops)
	for _, o := range cs.Ops {
		in.Apply(o)
	}
	if s, w := in.Check(); s != "" {
		c.Violate(s, w, cs)
	}
}
