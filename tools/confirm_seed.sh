#!/bin/bash
# tools/confirm_seed.sh <ID> <seed-dir containing SEEDED/> : confirms a seeded change independently:
# demo fails with the patch, passes without, the repository's tests of the touched packages pass with it.
id=$1; src=$2/SEEDED
wt=/tmp/cs-$id-$$
git -C /repo worktree add --detach $wt HEAD >/dev/null 2>&1 || exit 2
trap "rm -rf $wt-xdg; git -C /repo worktree remove --force $wt >/dev/null 2>&1" EXIT
export GOFLAGS=-mod=mod GOPROXY=off
demo=$(python3 -c "import json;print(json.load(open('$src/meta.json')).get('demo',''))")
files=$(ls $src/*_test.go 2>/dev/null)
# place demo tests where the seed worktree has them
for f in $(cd $2 && git status --short | grep '_test.go' | awk '{print $2}'); do mkdir -p $wt/$(dirname $f); cp $2/$f $wt/$f; done
pkgs=$(cd $2 && git status --short | grep '_test.go' | awk '{print $2}' | xargs -n1 dirname | sort -u | sed 's|^|./|' | tr '\n' ' ')
echo "demo packages: $pkgs"
( cd $wt && env GOCACHE=$(go env GOCACHE) XDG_CACHE_HOME=$wt-xdg unshare -n -- sh -c 'ip link set lo up; exec "$@"' sh go test -vet=off -count=1 -run 'Seeded|SeededDemo' $pkgs 2>&1 | grep -E "^(--- FAIL|FAIL|ok)" | tr '\n' ' '; echo " <= WITHOUT patch (expect ok)" )
git -C $wt apply $src/patch.diff || { echo PATCH-DOES-NOT-APPLY; exit 2; }
( cd $wt && env GOCACHE=$(go env GOCACHE) XDG_CACHE_HOME=$wt-xdg unshare -n -- sh -c 'ip link set lo up; exec "$@"' sh go test -vet=off -count=1 -run 'Seeded|SeededDemo' $pkgs 2>&1 | grep -E "^(--- FAIL|FAIL|ok)" | head -4 | tr '\n' ' '; echo " <= WITH patch (expect FAIL)" )
tp=$(git -C $wt diff --name-only | xargs -n1 dirname | sort -u | sed 's|^|./|' | tr '\n' ' ')
( cd $wt && go build ./... && env GOCACHE=$(go env GOCACHE) XDG_CACHE_HOME=$wt-xdg unshare -n -- sh -c 'ip link set lo up; exec "$@"' sh go test -vet=off -count=1 -skip 'Seeded' $tp ./internal/broker/ 2>&1 | grep -E "^(--- FAIL|FAIL|ok)" | grep -v -E "TestJoin|TestNewClient|TestStatsd" | tr '\n' ' '; echo " <= existing tests WITH patch" )
