#!/usr/bin/env python3
"""Builds the verifx binaries from /repo's current working tree.

 * harness/engine/cmd sources of /verif are overlaid as virtual packages under
   github.com/emitter-io/emitter/internal/verifx/...
 * kind 'sched' additionally replaces the files under test by instrumented copies
   (sync -> shim, statement-level yields) produced by tools/rewrite from the CURRENT /repo file
 * module-cache files that need exported test constructors are replaced by
   "original text + appended text" (regenerated each build)
Nothing is written into /repo.
"""
import fcntl, hashlib, json, os, shutil, subprocess, sys, time

VERIF = os.environ.get("VERIF_ROOT", "/verif")
REPO = os.environ.get("VERIF_REPO", "/repo")
BUILD = os.environ.get("VERIF_BUILD") or os.path.join(VERIF, "build")
MOD = "github.com/emitter-io/emitter"
VX = os.path.join(REPO, "internal", "verifx")
MODCACHE = subprocess.run(["go", "env", "GOMODCACHE"], capture_output=True, text=True,
                          env=dict(os.environ, GOFLAGS="-mod=mod", GOPROXY="off"), cwd=REPO).stdout.strip() or "/root/go/pkg/mod"

# files instrumented in the scheduled binary (relative to /repo)
INSTRUMENTED = [
    "internal/message/subtrie.go",
    "internal/message/sub.go",
    "internal/message/id.go",
    "internal/network/listener/conn.go",
    "internal/network/listener/matcher.go",
    "internal/network/websocket/websocket.go",
    "internal/network/mqtt/mqtt.go",
    "internal/network/mqtt/buffer.go",
    "internal/service/cluster/peer.go",
    "internal/service/cluster/memberlist.go",
    "internal/event/crdt/volatile.go",
    "internal/event/crdt/map.go",
    # the durable set: yields between the statements of its methods only. Its transactions (closures handed to buntdb,
    # and fetch/store/getValue, which run inside or hold one) stay atomic: they hold buntdb's real lock
    ("internal/event/crdt/durable.go", ["-nofunclit", "-atomic=fetch,store,getValue"]),
    "internal/message/codec.go",
    "internal/message/message.go",
    "internal/security/channel.go",
    "internal/security/key.go",
    "internal/service/keygen/keygen.go",
    "internal/security/cipher/base64.go",
    "internal/security/cipher/salsa.go",
    "internal/security/cipher/shuffle.go",
    "internal/security/cipher/xtea.go",
]

# module-cache files extended by appending text (path in module cache, appended file)
CACHE_APPEND = [
    ("github.com/weaveworks/mesh@v0.0.0-20191105120815-58dbcc3e8e63/logger.go", "overlays/mesh_export.go.txt", None),
    ("github.com/kelindar/rate@v1.0.0/ratelimit.go", "overlays/rate_hook.go.txt",
     ("func (rl *Limiter) Limit() bool {", "func (rl *Limiter) limitReal() bool {")),
]


# repository files built with small textual substitutions (both binaries); every pattern must match exactly once.
# internal/async/timer.go: the periodic goroutine of Repeat skips its ticks while VerifHoldTimers is set. The real
# listener.serve gives every accepted connection a 1 s flush timer on a goroutine the controlled scheduler does not
# own; a scheduled scenario that runs serve (C17 part (e)) holds the timers so that a tick can never run
# instrumented code from outside the scheduler (the first, synchronous call of the action is unaffected).
REPO_SUBST = [
    ("internal/async/timer.go", [
        ('import (\n\t"context"', 'import (\n\t"sync/atomic"\n\t"context"'),
        ("\t\t\tcase <-timer.C:\n\t\t\t\tsafeAction()", "\t\t\tcase <-timer.C:\n\t\t\t\tif VerifHoldTimers.Load() {\n\t\t\t\t\tcontinue\n\t\t\t\t}\n\t\t\t\tsafeAction()"),
        ("// Repeat performs an action asynchronously on a predetermined interval.", "// VerifHoldTimers (verification builds only): while set, Repeat's ticks are skipped.\nvar VerifHoldTimers atomic.Bool\n\n// Repeat performs an action asynchronously on a predetermined interval."),
    ]),
]


def goenv():
    env = dict(os.environ)
    env["GOFLAGS"] = "-mod=mod"
    env["GOPROXY"] = "off"
    env.pop("GOSUMDB", None) if env.get("GOSUMDB") == "off" else None
    env.pop("GOTOOLCHAIN", None) if env.get("GOTOOLCHAIN") == "local" else None
    return env


def walk_go(srcdir, dstdir, overlay):
    for root, dirs, files in os.walk(srcdir):
        for f in files:
            if f.endswith(".go"):
                src = os.path.join(root, f)
                rel = os.path.relpath(src, srcdir)
                overlay[os.path.join(dstdir, rel)] = src


def build_rewriter():
    out = os.path.join(BUILD, "rewrite")
    src = os.path.join(VERIF, "tools", "rewrite")
    newest = max(os.path.getmtime(os.path.join(src, f)) for f in os.listdir(src))
    if os.path.exists(out) and os.path.getmtime(out) >= newest:
        return out
    env = goenv()
    env["GOFLAGS"] = "-mod=mod"
    r = subprocess.run(["go", "build", "-o", out, "."], cwd=src, env=env, capture_output=True, text=True)
    if r.returncode != 0:
        print("BUILD-FAILED (rewriter)\n" + r.stdout + r.stderr)
        sys.exit(2)
    return out


def tree_hash(root, skip=(".git",)):
    h = hashlib.sha256()
    for d, dirs, files in os.walk(root):
        dirs[:] = sorted(x for x in dirs if x not in skip)
        for f in sorted(files):
            p = os.path.join(d, f)
            try:
                data = open(p, "rb").read()
            except OSError:
                continue
            h.update(p.encode() + b"\0" + hashlib.sha256(data).digest())
    return h.hexdigest()


def fingerprint(kind, only):
    h = hashlib.sha256()
    h.update(("%s|%s|" % (kind, ",".join(only))).encode())
    h.update(tree_hash(REPO).encode())
    for sub in ("engine", "cmd", "overlays", os.path.join("tools", "rewrite")):
        h.update(tree_hash(os.path.join(VERIF, sub)).encode())
    hd = os.path.join(VERIF, "harness")
    claimed = None
    if not only:
        try:
            claimed = set(c["property_id"].lower() for c in json.load(open(os.path.join(VERIF, "MANIFEST.json")))["checks"])
        except Exception:
            claimed = None
    for d in sorted(os.listdir(hd)):
        if os.path.isdir(os.path.join(hd, d)) and ((only and d in only) or (not only and (claimed is None or d in claimed))):
            h.update(tree_hash(os.path.join(hd, d)).encode())
    h.update(open(os.path.abspath(__file__), "rb").read())
    return h.hexdigest()


def main():
    kind = sys.argv[1] if len(sys.argv) > 1 else "plain"
    os.makedirs(BUILD, exist_ok=True)
    lock = open(os.path.join(BUILD, ".lock-%s-%s" % (kind, os.environ.get("VERIF_ONLY", "all").lower().replace(",", "-"))), "w")
    fcntl.flock(lock, fcntl.LOCK_EX)
    t0 = time.time()
    for f in ("go.mod", "go.sum"):
        src = os.path.join(REPO, f)
        dst = os.path.join(BUILD, f)
        data = open(src, "rb").read()
        if not os.path.exists(dst) or open(dst, "rb").read() != data:
            open(dst, "wb").write(data)
    overlay = {}
    walk_go(os.path.join(VERIF, "engine"), os.path.join(VX, "engine"), overlay)
    walk_go(os.path.join(VERIF, "harness"), VX, overlay)
    walk_go(os.path.join(VERIF, "cmd"), os.path.join(VX, "cmd"), overlay)
    only = [x for x in os.environ.get("VERIF_ONLY", "").lower().split(",") if x]
    suffix = ("-only-" + "-".join(only)) if only else ""
    out = os.path.join(BUILD, ("verifx-sched" if kind == "sched" else "verifx") + suffix)
    fp = fingerprint(kind, only)
    if os.path.exists(out) and os.path.exists(out + ".fp") and open(out + ".fp").read() == fp:
        # the binary was built from exactly these sources (content hash of /repo's working tree,
        # the harness, the engines and the overlays): nothing to rebuild
        fcntl.flock(lock, fcntl.LOCK_UN)
        return
    gen = os.path.join(BUILD, "gen", kind + suffix)
    os.makedirs(gen, exist_ok=True)
    # the list of registered checks is generated from the harness directories
    # without VERIF_ONLY the binary holds exactly the checks registered in MANIFEST.json
    # (harness directories still under construction are left out)
    claimed = None
    if not only:
        try:
            claimed = set(c["property_id"].lower() for c in json.load(open(os.path.join(VERIF, "MANIFEST.json")))["checks"])
        except Exception:
            claimed = None
    pkgs = sorted(d for d in os.listdir(os.path.join(VERIF, "harness"))
                  if os.path.isdir(os.path.join(VERIF, "harness", d))
                  and ((only and d in only) or (not only and (claimed is None or d in claimed))))
    reg = "package main\n\nimport (\n" + "".join('\t_ "%s/internal/verifx/%s"\n' % (MOD, d) for d in pkgs) + ")\n"
    if kind == "sched":
        reg = reg.replace("import (\n", 'import (\n\t"%s/internal/verifx/engine/core"\n' % MOD, 1) + "\nfunc init() { core.Instrumented = true }\n"
    regpath = os.path.join(gen, "checks_gen.go")
    if not os.path.exists(regpath) or open(regpath).read() != reg:
        open(regpath, "w").write(reg)
    overlay[os.path.join(VX, "cmd", "verifx", "checks_gen.go")] = regpath
    for rel, substs in REPO_SUBST:
        src = os.path.join(REPO, rel)
        text = open(src).read()
        for old, new in substs:
            if text.count(old) != 1:
                print("BUILD-FAILED: cannot hook %s (pattern %r)" % (rel, old))
                sys.exit(2)
            text = text.replace(old, new)
        dst = os.path.join(gen, "subst_" + rel.replace("/", "_"))
        if not os.path.exists(dst) or open(dst).read() != text:
            open(dst, "w").write(text)
        overlay[src] = dst
    for cached, app, subst in CACHE_APPEND:
        apppath = os.path.join(VERIF, app)
        orig = os.path.join(MODCACHE, cached)
        if not os.path.exists(apppath) or not os.path.exists(orig):
            continue
        base = open(orig).read()
        if subst:
            if base.count(subst[0]) != 1:
                print("BUILD-FAILED: cannot hook %s" % cached)
                sys.exit(2)
            base = base.replace(subst[0], subst[1])
        text = base + "\n" + open(apppath).read()
        dst = os.path.join(gen, cached.replace("/", "_"))
        if not os.path.exists(dst) or open(dst).read() != text:
            open(dst, "w").write(text)
        overlay[orig] = dst
    if kind == "sched":
        rw = build_rewriter()
        for ent in INSTRUMENTED:
            rel, flags = (ent, []) if isinstance(ent, str) else ent
            src = os.path.join(REPO, rel)
            dst = os.path.join(gen, rel.replace("/", "_"))
            r = subprocess.run([rw] + flags + [src, dst + ".new"], capture_output=True, text=True)
            if r.returncode != 0:
                print("HARNESS-UNSOUND: rewriter refused %s: %s" % (rel, r.stdout + r.stderr))
                sys.exit(2)
            new = open(dst + ".new").read()
            if not os.path.exists(dst) or open(dst).read() != new:
                os.replace(dst + ".new", dst)
            else:
                os.remove(dst + ".new")
            overlay[src] = dst
    ovpath = os.path.join(BUILD, "overlay-%s%s.json" % (kind, suffix))
    open(ovpath, "w").write(json.dumps({"Replace": overlay}, indent=1))
    cmd = ["go", "build", "-tags", "verif", "-overlay", ovpath, "-modfile", os.path.join(BUILD, "go.mod"),
           "-o", out + ".new", MOD + "/internal/verifx/cmd/verifx"]
    r = subprocess.run(cmd, cwd=REPO, env=goenv(), capture_output=True, text=True)
    if r.returncode != 0:
        print("BUILD-FAILED\n" + r.stdout + r.stderr)
        sys.exit(2)
    os.replace(out + ".new", out)
    open(out + ".fp", "w").write(fp)
    if os.environ.get("VERIF_VERBOSE"):
        print("built %s in %.1fs" % (out, time.time() - t0), file=sys.stderr)
    fcntl.flock(lock, fcntl.LOCK_UN)


if __name__ == "__main__":
    main()
