package c19

// Part (f): a peer flush that needs several transport calls, with a transport that refuses some of them.
// Every message handed to an active peer must be passed to the transport exactly once and in order — also the
// messages of the chunks after a chunk the transport answered with an error (mesh does that transiently, e.g.
// "unknown relay destination" while routes are recalculated).

import (
	"errors"
	"fmt"

	"github.com/emitter-io/emitter/internal/message"
	"github.com/emitter-io/emitter/internal/service/cluster"
	"github.com/emitter-io/emitter/internal/verifx/engine/core"
	"github.com/weaveworks/mesh"
)

type chunkCase struct {
	Part  string `json:"part"`     // "f"
	Msgs  int    `json:"messages"` // messages of 1 MiB handed to the peer before the flush
	Fail  []bool `json:"fail"`     // Fail[i]: the i-th transport call of the flush returns an error
	Calls int    `json:"calls"`    // transport calls the flush needs (filled by the enumeration, informative)
}

// scriptSender records every frame it is handed and answers with an error where the script says so.
type scriptSender struct {
	frames [][]byte
	fail   []bool
}

func (r *scriptSender) GossipUnicast(dst mesh.PeerName, msg []byte) error {
	i := len(r.frames)
	r.frames = append(r.frames, append([]byte(nil), msg...))
	if i < len(r.fail) && r.fail[i] {
		return errors.New("unknown relay destination")
	}
	return nil
}
func (r *scriptSender) GossipBroadcast(update mesh.GossipData)       {}
func (r *scriptSender) GossipNeighbourSubset(update mesh.GossipData) {}

const chunkMsgSize = 1 << 20

func chunkPayload(i int) []byte {
	b := make([]byte, chunkMsgSize)
	for j := range b {
		b[j] = byte(i + 1)
	}
	return b
}

// runChunks executes one case and returns the number of transport calls of the first flush.
func runChunks(c *core.Ctx, cc chunkCase) int {
	rs := &scriptSender{fail: cc.Fail}
	p := cluster.VerifNewPeer(rs, mesh.PeerName(42))
	for i := 0; i < cc.Msgs; i++ {
		m := message.Message{ID: message.NewID(message.Ssid{1, 2, uint32(i)}), Channel: []byte("ch/"), Payload: chunkPayload(i), TTL: 0}
		p.Send(&m)
	}
	p.VerifFlush()
	calls := len(rs.frames)
	p.VerifFlush() // the next tick: nothing may be left, nothing may be sent twice
	var got []int
	for fi, buf := range rs.frames {
		f, err := message.DecodeFrame(buf)
		if err != nil {
			c.ViolatePart("f", "f:peer-chunks:undecodable", fmt.Sprintf("transport call %d carries a frame that does not decode: %v", fi, err), cc)
			return calls
		}
		for _, m := range f {
			if len(m.Payload) != chunkMsgSize {
				c.ViolatePart("f", "f:peer-chunks:altered", fmt.Sprintf("a message of %d bytes came out with %d bytes", chunkMsgSize, len(m.Payload)), cc)
				return calls
			}
			got = append(got, int(m.Payload[0])-1)
		}
	}
	shape := fmt.Sprintf("calls=%d:failed=%v", calls, cc.Fail)
	seen := map[int]int{}
	for _, g := range got {
		seen[g]++
	}
	for i := 0; i < cc.Msgs; i++ {
		if seen[i] == 0 {
			c.ViolatePart("f", "f:peer-chunks:lost:"+failShape(cc.Fail), fmt.Sprintf("%d messages handed to the peer, message %d never reached the transport (%s; the transport saw %d messages)", cc.Msgs, i, shape, len(got)), cc)
			return calls
		}
		if seen[i] > 1 {
			c.ViolatePart("f", "f:peer-chunks:duplicated:"+failShape(cc.Fail), fmt.Sprintf("message %d reached the transport %d times (%s)", i, seen[i], shape), cc)
			return calls
		}
	}
	for i := 1; i < len(got); i++ {
		if got[i] < got[i-1] {
			c.ViolatePart("f", "f:peer-chunks:reordered:"+failShape(cc.Fail), fmt.Sprintf("messages reached the transport out of order: %v", got), cc)
			return calls
		}
	}
	return calls
}

func failShape(f []bool) string {
	first, n := -1, 0
	for i, b := range f {
		if b {
			n++
			if first < 0 {
				first = i
			}
		}
	}
	switch {
	case n == 0:
		return "no-transport-error"
	case first == len(f)-1:
		return "last-call-refused"
	default:
		return "earlier-call-refused"
	}
}

func partF(c *core.Ctx) {
	// 1 MiB messages, 10 MiB per transport call: 5 -> 1 call, 12 -> 2 calls, 25 -> 3 calls
	for _, n := range []int{5, 12, 25} {
		calls := runChunks(c, chunkCase{Part: "f", Msgs: n})
		c.Add("evaluations", 1)
		for mask := 1; mask < 1<<uint(calls); mask++ {
			cc := chunkCase{Part: "f", Msgs: n, Calls: calls, Fail: make([]bool, calls)}
			for i := 0; i < calls; i++ {
				cc.Fail[i] = mask&(1<<uint(i)) != 0
			}
			runChunks(c, cc)
			c.Add("evaluations", 1)
			c.Add("cases_peer_chunks", 1)
			c.Distinct("nontrivial", fmt.Sprint("f", n, cc.Fail))
		}
		if n == 25 {
			c.Sample(chunkCase{Part: "f", Msgs: n, Calls: calls, Fail: []bool{true, false, false}})
		}
	}
}
