// Package c10: concurrent delivery keeps packet framing and per-publisher order.
// Preemption-bounded exhaustive exploration (controlled scheduler) of publishers writing real
// MQTT packets into the real buffered/rate-limited connection while the periodic flush runs.
package c10

import (
	"encoding/json"
	"fmt"
	"io"
	"net"
	"strings"
	"time"

	"github.com/emitter-io/emitter/internal/network/listener"
	"github.com/emitter-io/emitter/internal/network/mqtt"
	"github.com/emitter-io/emitter/internal/network/websocket"
	"github.com/emitter-io/emitter/internal/verifx/engine/core"
	"github.com/emitter-io/emitter/internal/verifx/engine/sched"
	"github.com/emitter-io/emitter/internal/verifx/engine/session"
	"github.com/kelindar/rate"
)

func init() {
	core.Register(&core.Check{ID: "C10", Level: "model_checking", Run: run, Worker: worker, Replay: replay})
	// every Limit() answer of every rate limiter is an environment choice while a scenario runs
	rate.VerifLimit = func(rl *rate.Limiter) (bool, bool) {
		if forced != nil {
			return *forced, true
		}
		if sched.Active() == nil {
			return false, false
		}
		return sched.Choose(2, "rate.Limit") == 1, true
	}
}

// forced, when set, fixes the limiter's answer (used by a scenario's setup to pre-queue a packet
// without spending a deviation).
var forced *bool

// recSock records every Write call (assumed atomic, as a TCP/TLS socket serialises whole writes).
type recSock struct {
	writes [][]byte
}

func (r *recSock) Write(p []byte) (int, error) {
	r.writes = append(r.writes, append([]byte(nil), p...))
	return len(p), nil
}
func (r *recSock) Read(p []byte) (int, error)         { return 0, io.EOF }
func (r *recSock) Close() error                       { return nil }
func (r *recSock) LocalAddr() net.Addr                { return &net.TCPAddr{} }
func (r *recSock) RemoteAddr() net.Addr               { return &net.TCPAddr{} }
func (r *recSock) SetDeadline(t time.Time) error      { return nil }
func (r *recSock) SetReadDeadline(t time.Time) error  { return nil }
func (r *recSock) SetWriteDeadline(t time.Time) error { return nil }

func (r *recSock) stream() []byte {
	var b []byte
	for _, w := range r.writes {
		b = append(b, w...)
	}
	return b
}

// frameSink is a fake websocket connection: one message per NextWriter/Close.
type frameSink struct {
	msgs [][]byte
	open bool
}

type sinkWriter struct {
	s   *frameSink
	buf []byte
}

func (w *sinkWriter) Write(p []byte) (int, error) { w.buf = append(w.buf, p...); return len(p), nil }
func (w *sinkWriter) Close() error {
	w.s.msgs = append(w.s.msgs, w.buf)
	w.s.open = false
	return nil
}

func (f *frameSink) NextReader() (int, io.Reader, error) { return 0, nil, io.EOF }
func (f *frameSink) NextWriter(mt int) (io.WriteCloser, error) {
	if f.open {
		// gorilla panics/errs on concurrent writers; record it as corruption
		f.msgs = append(f.msgs, []byte("CONCURRENT-WRITER"))
	}
	f.open = true
	return &sinkWriter{s: f}, nil
}
func (f *frameSink) Close() error                       { return nil }
func (f *frameSink) LocalAddr() net.Addr                { return &net.TCPAddr{} }
func (f *frameSink) RemoteAddr() net.Addr               { return &net.TCPAddr{} }
func (f *frameSink) SetReadDeadline(t time.Time) error  { return nil }
func (f *frameSink) SetWriteDeadline(t time.Time) error { return nil }

// publishSized pads the payload with dots to the given size (the id stays the part before the first dot).
func publishSized(w io.Writer, pub, k, size int) error {
	id := fmt.Sprintf("%c%d", 'a'+pub, k)
	if size > len(id) {
		id += strings.Repeat(".", size-len(id))
	}
	p := mqtt.Publish{Header: mqtt.Header{QOS: 0}, Topic: []byte("ch/"), Payload: []byte(id)}
	_, err := p.EncodeTo(w)
	return err
}

// largeSizes: payload sizes just above the power-of-two thresholds at which buffered writers change strategy.
var largeSizes = []int{1100, 4200, 8300, 60000}

func publish(w io.Writer, pub, k int) error {
	p := mqtt.Publish{Header: mqtt.Header{QOS: 0}, Topic: []byte("ch/"), Payload: []byte(fmt.Sprintf("%c%d", 'a'+pub, k))}
	_, err := p.EncodeTo(w)
	return err
}

// parseStream decodes the socket bytes with the independent decoder.
func parseStream(b []byte) (payloads []string, err string) {
	for len(b) > 0 {
		p, n, e := session.Decode(b)
		if e != nil {
			return payloads, fmt.Sprintf("torn-packet: %v at % x", e, head(b))
		}
		if p.Type != session.PUBLISH || p.Topic != "ch/" {
			return payloads, fmt.Sprintf("torn-packet: unexpected packet %v", p)
		}
		id := string(p.Payload)
		if i := strings.IndexByte(id, '.'); i >= 0 {
			id = id[:i] // padded payload of the large-packet scenarios
		}
		payloads = append(payloads, id)
		b = b[n:]
	}
	return payloads, ""
}

func head(b []byte) []byte {
	if len(b) > 16 {
		return b[:16]
	}
	return b
}

func judge(payloads []string, perr string, npub, nmsg int) (string, string) {
	got := strings.Join(payloads, " ")
	if perr != "" {
		return "torn-packet", perr + " | stream so far: " + got
	}
	count := map[string]int{}
	pos := map[string]int{}
	for i, p := range payloads {
		count[p]++
		pos[p] = i
	}
	for pub := 0; pub < npub; pub++ {
		for k := 0; k < nmsg; k++ {
			id := fmt.Sprintf("%c%d", 'a'+pub, k)
			if count[id] == 0 {
				return "lost", "message " + id + " never reached the socket: " + got
			}
			if count[id] > 1 {
				return "duplicated", "message " + id + " reached the socket more than once: " + got
			}
			if k > 0 && pos[fmt.Sprintf("%c%d", 'a'+pub, k-1)] > pos[id] {
				return "reordered-within-publisher", "messages of one publisher out of order: " + got
			}
		}
	}
	if len(payloads) != npub*nmsg {
		return "duplicated", "unexpected extra packets: " + got
	}
	return "", ""
}

func scenarios() map[string]*sched.Scenario {
	m := map[string]*sched.Scenario{}

	// 1. plain transport: two publishers x two packets, the periodic flush twice
	m["plain"] = &sched.Scenario{
		Name: "plain", Files: []string{"internal/network/listener/conn.go"},
		Body: func(s *sched.Sched) {
			sock := &recSock{}
			conn := listener.VerifNewConn(sock, 60)
			for pub := 0; pub < 2; pub++ {
				pub := pub
				s.Go(fmt.Sprintf("P%d", pub), func() {
					for k := 0; k < 2; k++ {
						publish(conn, pub, k)
					}
				})
			}
			s.Go("F", func() { conn.Flush(); conn.Flush() })
			s.AtEnd(func() {
				conn.Flush() // the next timer tick
				ps, e := parseStream(sock.stream())
				s.Obs("%s|%s|pending=%d", strings.Join(ps, " "), e, conn.Len())
			})
		},
		Check: func(x *sched.Exec) (string, string) { return verdict(x, 2, 2) },
	}

	// 1b. the same with one packet of publisher a already queued when the threads start (a rate-limited
	// write that happened earlier): windows of the flush are reachable with one deviation less
	m["plain-prequeued"] = &sched.Scenario{
		Name: "plain-prequeued", Files: []string{"internal/network/listener/conn.go"},
		Body: func(s *sched.Sched) {
			sock := &recSock{}
			conn := listener.VerifNewConn(sock, 60)
			yes := true
			forced = &yes
			publish(conn, 0, 0)
			forced = nil
			s.Go("P0", func() { publish(conn, 0, 1) })
			s.Go("P1", func() { publish(conn, 1, 0); publish(conn, 1, 1) })
			s.Go("F", func() { conn.Flush(); conn.Flush() })
			s.AtEnd(func() {
				conn.Flush()
				ps, e := parseStream(sock.stream())
				s.Obs("%s|%s|pending=%d", strings.Join(ps, " "), e, conn.Len())
			})
		},
		Check: func(x *sched.Exec) (string, string) { return verdict(x, 2, 2) },
	}

	// 1c. a large packet behind a queued small one of the same publisher: whatever path large writes take
	// (direct, split, buffered) they must stay behind what the publisher sent before
	for _, size := range largeSizes {
		size := size
		name := fmt.Sprintf("plain-large-%d", size)
		m[name] = &sched.Scenario{
			Name: name, Files: []string{"internal/network/listener/conn.go"},
			Body: func(s *sched.Sched) {
				sock := &recSock{}
				conn := listener.VerifNewConn(sock, 60)
				yes := true
				forced = &yes
				publish(conn, 0, 0)
				forced = nil
				s.Go("P0", func() { publishSized(conn, 0, 1, size) })
				s.Go("P1", func() { publishSized(conn, 1, 0, size/2); publish(conn, 1, 1) })
				s.Go("F", func() { conn.Flush() })
				s.AtEnd(func() {
					conn.Flush()
					ps, e := parseStream(sock.stream())
					s.Obs("%s|%s|pending=%d", strings.Join(ps, " "), e, conn.Len())
				})
			},
			Check: func(x *sched.Exec) (string, string) { return verdict(x, 2, 2) },
		}
	}

	// 2. websocket transport: one message per Write
	m["websocket"] = &sched.Scenario{
		Name: "websocket", Files: []string{"internal/network/websocket/websocket.go"},
		Body: func(s *sched.Sched) {
			sink := &frameSink{}
			tr := websocket.VerifNewTransport(sink)
			for pub := 0; pub < 2; pub++ {
				pub := pub
				s.Go(fmt.Sprintf("P%d", pub), func() {
					for k := 0; k < 2; k++ {
						publish(tr, pub, k)
					}
				})
			}
			s.AtEnd(func() {
				var ps []string
				e := ""
				for _, msg := range sink.msgs {
					p, er := parseStream(msg)
					if er != "" || len(p) != 1 {
						e = fmt.Sprintf("torn-packet: websocket message is not exactly one packet: %q %s", msg, er)
					}
					ps = append(ps, p...)
				}
				s.Obs("%s|%s|pending=0", strings.Join(ps, " "), e)
			})
		},
		Check: func(x *sched.Exec) (string, string) { return verdict(x, 2, 2) },
	}

	// 3. websocket over the buffered connection: listener.Conn below, transport above
	m["ws-over-buffered"] = &sched.Scenario{
		Name: "ws-over-buffered", Files: []string{"internal/network/websocket/websocket.go", "internal/network/listener/conn.go"},
		Body: func(s *sched.Sched) {
			sock := &recSock{}
			conn := listener.VerifNewConn(sock, 60)
			sink := &pipeSink{w: conn}
			tr := websocket.VerifNewTransport(sink)
			for pub := 0; pub < 2; pub++ {
				pub := pub
				s.Go(fmt.Sprintf("P%d", pub), func() { publish(tr, pub, 0) })
			}
			s.Go("F", func() { conn.Flush() })
			s.AtEnd(func() {
				conn.Flush()
				ps, e := parseStream(sock.stream())
				s.Obs("%s|%s|pending=%d", strings.Join(ps, " "), e, conn.Len())
			})
		},
		Check: func(x *sched.Exec) (string, string) { return verdict(x, 2, 1) },
	}

	// 4. the shared encode-buffer pool: yields inside the encoder
	m["encode-pool"] = &sched.Scenario{
		Name: "encode-pool", Files: []string{"internal/network/mqtt/mqtt.go", "internal/network/mqtt/buffer.go"},
		Body: func(s *sched.Sched) {
			sock := &recSock{}
			for pub := 0; pub < 2; pub++ {
				pub := pub
				s.Go(fmt.Sprintf("P%d", pub), func() { publish(sock, pub, 0); publish(sock, pub, 1) })
			}
			s.AtEnd(func() {
				ps, e := parseStream(sock.stream())
				s.Obs("%s|%s|pending=0", strings.Join(ps, " "), e)
			})
		},
		Check: func(x *sched.Exec) (string, string) { return verdict(x, 2, 2) },
	}
	return m
}

// pipeSink writes each websocket message (as raw bytes, framing elided) into a writer.
type pipeSink struct{ w io.Writer }
type pipeWriter struct {
	p   *pipeSink
	buf []byte
}

func (w *pipeWriter) Write(b []byte) (int, error) { w.buf = append(w.buf, b...); return len(b), nil }
func (w *pipeWriter) Close() error                { _, err := w.p.w.Write(w.buf); return err }
func (p *pipeSink) NextReader() (int, io.Reader, error)       { return 0, nil, io.EOF }
func (p *pipeSink) NextWriter(mt int) (io.WriteCloser, error) { return &pipeWriter{p: p}, nil }
func (p *pipeSink) Close() error                              { return nil }
func (p *pipeSink) LocalAddr() net.Addr                       { return &net.TCPAddr{} }
func (p *pipeSink) RemoteAddr() net.Addr                      { return &net.TCPAddr{} }
func (p *pipeSink) SetReadDeadline(t time.Time) error         { return nil }
func (p *pipeSink) SetWriteDeadline(t time.Time) error        { return nil }

func verdict(x *sched.Exec, npub, nmsg int) (string, string) {
	if len(x.Obs) != 1 {
		return "no-observation", "scenario did not complete"
	}
	parts := strings.SplitN(x.Obs[0], "|", 3)
	var ps []string
	if parts[0] != "" {
		ps = strings.Split(parts[0], " ")
	}
	if s, w := judge(ps, parts[1], npub, nmsg); s != "" {
		return s, w
	}
	if parts[2] != "pending=0" {
		return "lost", "bytes still queued after the timer flush: " + parts[2]
	}
	return "", ""
}

var order = []string{"plain", "plain-prequeued", "plain-large-1100", "plain-large-4200", "plain-large-8300", "plain-large-60000", "websocket", "ws-over-buffered", "encode-pool"}

func worker(c *core.Ctx, args []string) {
	var bound, shard, n int
	fmt.Sscan(args[1], &bound)
	fmt.Sscan(args[2], &shard)
	fmt.Sscan(args[3], &n)
	sc := scenarios()[args[0]]
	e := &sched.Explorer{Sc: sc, Bound: bound, Shard: shard, NShards: n, Deadline: c.Deadline}
	st := e.Explore()
	c.Add("schedules", st.Executions)
	c.Add("replay_divergences", st.Divergences)
	c.Add("schedules:"+sc.Name, st.Executions)
	for o := range st.Outcomes {
		c.Distinct("outcomes:"+sc.Name, o)
	}
	if !st.Exhaustive {
		c.NotExhaustive(fmt.Sprintf("scenario %s bound %d shard %d: time cap", sc.Name, bound, shard))
	}
	if shard == 0 && bound == 0 {
		c.Sample(map[string]interface{}{"scenario": sc.Name, "default_schedule_socket_stream": st.FirstTrace, "branch_points": st.MaxPoints})
	}
	for _, f := range st.Violations {
		c.Violate(sc.Name+":"+f.Sig, f.What+fmt.Sprintf(" | deviations at %v", f.Sites), map[string]interface{}{"scenario": sc.Name, "choices": f.Choices, "bound": bound})
	}
}

func run(c *core.Ctx) {
	partFanout(c)
	partBacklog(c)
	bound := 2
	if !c.Quick() {
		bound = 3
	}
	n := core.NumWorkers()
	completed := -1
	for b := 0; b <= bound && !c.Expired(); b++ {
		for _, name := range order {
			shards := n
			if b < 2 {
				shards = 1
			}
			outs := c.Shard(shards, n, func(i int) []string {
				return []string{name, fmt.Sprint(b), fmt.Sprint(i), fmt.Sprint(shards)}
			}, 20*time.Minute)
			c.CheckShards(outs)
		}
		if !c.Expired() {
			completed = b
		}
	}
	for _, name := range order {
		c.Set("distinct_outcomes_"+name, c.DistinctCount("outcomes:"+name))
	}
	bound = completed
	c.Set("deviation_bound_completed", bound)
	sch := c.Count("schedules")
	c.Set("states", sch)
	c.Set("transitions", sch)
	c.Set("traces_validated_against_impl", sch)
	c.Assume("the underlying socket serialises whole Write calls (TCP/TLS); real sockets, TLS and OS scheduling are not modelled")
	c.Assume("deviation = preemption of a runnable thread or a 'limited' answer of the rate limiter; statement-level sequentially consistent interleavings")
}

func replay(c *core.Ctx, raw json.RawMessage) {
	var cs struct {
		Scenario string `json:"scenario"`
		Choices  []int  `json:"choices"`
	}
	json.Unmarshal(raw, &cs)
	var fc fanCase
	if json.Unmarshal(raw, &fc) == nil && fc.Part == "fanout" {
		runFan(c, fc)
		return
	}
	var bc backlogCase
	if json.Unmarshal(raw, &bc) == nil && bc.Part == "backlog" {
		runBacklog(c, bc)
		return
	}
	sc := scenarios()[cs.Scenario]
	sched.EnableFiles(sc.Files...)
	x := sched.Run(cs.Choices, true, sc.Body)
	s, w := "", ""
	if x.Deadlock {
		s, w = "deadlock", strings.Join(x.Blocked, ";")
	} else if len(x.Panics) > 0 {
		s, w = "panic", x.Panics[0]
	} else {
		s, w = sc.Check(x)
	}
	if s != "" {
		c.Violate(cs.Scenario+":"+s, w, cs)
	}
}
