package c17

import (
	"bufio"
	"bytes"
	"encoding/json"
	"fmt"
	"net"
	"net/http"
	"net/url"
	"strings"
	"time"

	ews "github.com/emitter-io/emitter/internal/network/websocket"
	"github.com/emitter-io/emitter/internal/verifx/engine/core"
	gws "github.com/gorilla/websocket"
)

// ---- (d, thorough) real gorilla framing over an in-memory pipe -----------------------------------
//
// A gorilla client talks to the transport returned by the real websocket.TryUpgrade (gorilla's
// server side + the emitter adapter) over net.Pipe. The client's write-buffer size decides how a
// message is cut into frames (continuation frames), several Write calls on one message writer add
// to that, and pings/pongs travel in between.

type gItem struct {
	Op    int      `json:"op"`    // 1 text, 2 binary, 9 ping, 10 pong
	Parts []string `json:"parts"` // successive Write calls of one message (control: one payload)
}

type caseG struct {
	Part     string  `json:"part"`
	Dir      string  `json:"dir"` // read (client -> transport) | write (transport -> client)
	WriteBuf int     `json:"client_write_buffer"`
	Items    []gItem `json:"items"`
	consumer
}

// hijackRW is the minimal http.ResponseWriter + http.Hijacker the upgrader needs.
type hijackRW struct {
	conn net.Conn
	br   *bufio.Reader
	hdr  http.Header
	code int
	body bytes.Buffer
}

func (h *hijackRW) Header() http.Header {
	if h.hdr == nil {
		h.hdr = http.Header{}
	}
	return h.hdr
}
func (h *hijackRW) Write(p []byte) (int, error) { return h.body.Write(p) }
func (h *hijackRW) WriteHeader(code int)        { h.code = code }
func (h *hijackRW) Hijack() (net.Conn, *bufio.ReadWriter, error) {
	return h.conn, bufio.NewReadWriter(h.br, bufio.NewWriter(h.conn)), nil
}

// gorillaPair performs a real client/server handshake over a pipe; the server side is the
// transport produced by the code under test.
func gorillaPair(wbuf int) (cli *gws.Conn, tr net.Conn, cc net.Conn, err error) {
	cc, sc := net.Pipe()
	dl := time.Now().Add(hangAfter)
	cc.SetDeadline(dl)
	sc.SetDeadline(dl)
	type res struct {
		tr  net.Conn
		err error
	}
	ch := make(chan res, 1)
	go func() {
		br := bufio.NewReader(sc)
		req, e := http.ReadRequest(br)
		if e != nil {
			ch <- res{nil, fmt.Errorf("server could not read the upgrade request: %v", e)}
			return
		}
		w := &hijackRW{conn: sc, br: br}
		t, ok := ews.TryUpgrade(w, req)
		if !ok {
			ch <- res{nil, fmt.Errorf("TryUpgrade refused the request (status %d: %s)", w.code, strings.TrimSpace(w.body.String()))}
			return
		}
		ch <- res{t, nil}
	}()
	u, _ := url.Parse("ws://c17.test/")
	cli, _, cerr := gws.NewClient(cc, u, http.Header{"Sec-WebSocket-Protocol": {"mqtt"}}, 1024, wbuf)
	r := <-ch
	if cerr != nil || r.err != nil {
		cc.Close()
		sc.Close()
		return nil, nil, nil, fmt.Errorf("handshake failed: client=%v server=%v", cerr, r.err)
	}
	r.tr.SetDeadline(dl) // the upgrader clears the deadlines; keep every blocking call bounded
	return cli, r.tr, cc, nil
}

func gWant(items []gItem) []byte {
	var b []byte
	for _, it := range items {
		if isData(it.Op) {
			for _, p := range it.Parts {
				b = append(b, p...)
			}
		}
	}
	return b
}

func execGorilla(cs caseG) (v verdict) {
	shape := fmt.Sprintf("gorilla:%s:client-write-buffer=%d", cs.Dir, cs.WriteBuf)
	cli, tr, cc, err := gorillaPair(cs.WriteBuf)
	if err != nil {
		core.HarnessFailure("C17 gorilla pair: %v", err)
		return
	}
	defer cc.Close()
	defer tr.Close()

	if cs.Dir == "write" {
		type msg struct {
			t   int
			b   []byte
			err error
		}
		ch := make(chan msg, len(cs.Items)+1)
		go func() {
			for range cs.Items {
				t, b, e := cli.ReadMessage()
				ch <- msg{t, b, e}
				if e != nil {
					return
				}
			}
		}()
		for i, it := range cs.Items {
			p := []byte(strings.Join(it.Parts, ""))
			n, e := tr.Write(p)
			if e != nil {
				return verdict{hangOr("lost", e), shape + ":write-error", fmt.Sprintf("Write %d failed: %v", i, e)}
			}
			m := <-ch
			switch {
			case m.err != nil:
				return verdict{hangOr("lost", m.err), shape + ":client-read", fmt.Sprintf("the client could not read the message of Write %d: %v", i, m.err)}
			case m.t != gws.BinaryMessage:
				return verdict{"byte-mismatch", shape + ":message-type", fmt.Sprintf("Write %d arrived as message type %d", i, m.t)}
			case !bytes.Equal(m.b, p):
				return verdict{classifyNonEmpty(p, m.b), shape + ":message-body", fmt.Sprintf("Write %d of %q arrived as %q", i, p, m.b)}
			case n != len(p):
				return verdict{"byte-mismatch", shape + ":return-value", fmt.Sprintf("Write %d of %d bytes returned %d", i, len(p), n)}
			}
		}
		return verdict{}
	}

	// read direction: the client sends, a consumer pulls from the transport
	sendErr := make(chan error, 1) // informational; the verdict is taken from what the consumer saw
	go func() {                    // drains pongs and the close echo so that the server never blocks on the pipe
		for {
			if _, _, e := cli.NextReader(); e != nil {
				return
			}
		}
	}()
	go func() {
		dl := time.Now().Add(hangAfter)
		for _, it := range cs.Items {
			if !isData(it.Op) {
				if e := cli.WriteControl(it.Op, []byte(strings.Join(it.Parts, "")), dl); e != nil {
					sendErr <- e
					return
				}
				continue
			}
			w, e := cli.NextWriter(it.Op)
			if e != nil {
				sendErr <- e
				return
			}
			for _, p := range it.Parts {
				if _, e := w.Write([]byte(p)); e != nil {
					sendErr <- e
					return
				}
			}
			if e := w.Close(); e != nil {
				sendErr <- e
				return
			}
		}
		sendErr <- cli.WriteControl(gws.CloseMessage, gws.FormatCloseMessage(gws.CloseNormalClosure, ""), dl)
	}()
	want := gWant(cs.Items)
	w := newDWorker()
	var rerr error
	var note string
	if p := safely(func() { rerr, note = w.pull(tr, cs.consumer, len(want)+64) }); p != "" {
		return verdict{"panic", shape, "websocket read path panicked: " + p}
	}
	if ne, ok := rerr.(net.Error); ok && ne.Timeout() {
		return verdict{"hang", shape, fmt.Sprintf("the consumer was still waiting after %v; received %q of %q", hangAfter, w.got, want)}
	}
	_, closed := rerr.(*gws.CloseError)
	if k := classify(want, w.got, closed); k != "" {
		return verdict{k, shape + ":consumer=" + cs.Mode, fmt.Sprintf("the client sent %q, the consumer received %q then %v %s", want, w.got, rerr, note)}
	}
	if rerr == nil {
		return verdict{"missing-eof", shape + ":consumer=" + cs.Mode, "all bytes delivered but the end of the connection was not reported " + note}
	}
	return verdict{}
}

func hangOr(kind string, err error) string {
	if ne, ok := err.(net.Error); ok && ne.Timeout() {
		return "hang"
	}
	return kind
}

func gorillaScripts() [][]gItem {
	long := strings.Repeat("0123456789", 30)
	var singles []gItem
	for i := 0; i < 20; i++ {
		singles = append(singles, gItem{opBinary, []string{string(rune('a' + i))}})
	}
	return [][]gItem{
		{{opBinary, []string{"abcdefghijklmnop"}}},
		{{opText, []string{"a"}}, {opBinary, []string{"bcdefghijklmnop"}}},
		{{opBinary, []string{"abcde"}}, {opBinary, []string{""}}, {opText, []string{"fghijklmnop"}}},
		{{opBinary, []string{"abc", "def"}}, {opPing, []string{"!!"}}, {opBinary, []string{"g", "", "hij"}}, {opPong, []string{"?"}}, {opText, []string{"klmnop"}}},
		{{opBinary, nil}, {opBinary, []string{""}}, {opPing, []string{""}}, {opBinary, []string{long[:100], long[100:]}}},
		singles,
	}
}

func partGorilla(c *core.Ctx, ag *agg, deadline time.Time) {
	var ord, cases int64
	skipped := 0
	for _, wb := range []int{1, 3, 16, 4096} {
		for _, items := range gorillaScripts() {
			for _, cons := range consumersD {
				if time.Now().After(deadline) {
					skipped++
					continue
				}
				cs := caseG{Part: "d-gorilla", Dir: "read", WriteBuf: wb, Items: items, consumer: cons}
				v := execGorilla(cs)
				ord++
				cases++
				if !v.ok() {
					ag.add("websocket-read:"+v.Kind+":"+v.Shape, v.What, ord, func() interface{} { return cs })
				}
			}
		}
	}
	for _, lens := range [][]int{{0}, {1}, {125}, {126}, {70000}, {3, 0, 126}, {70000, 1, 70000}} {
		cs := caseG{Part: "d-gorilla", Dir: "write", WriteBuf: 4096}
		for i, n := range lens {
			cs.Items = append(cs.Items, gItem{opBinary, []string{string(payloadDW(i, n))}})
		}
		v := execGorilla(cs)
		ord++
		cases++
		if !v.ok() {
			ag.add("websocket-write:"+v.Kind+":"+v.Shape, v.What, ord, func() interface{} { return cs })
		}
	}
	if skipped > 0 {
		c.NotExhaustive(fmt.Sprintf("part (d) gorilla set: time cap, %d cases not run", skipped))
	}
	c.Add("cases_websocket_gorilla", cases)
}

func replayGorilla(c *core.Ctx, ag *agg, raw json.RawMessage) {
	var cs caseG
	if err := json.Unmarshal(raw, &cs); err != nil || (cs.Dir != "read" && cs.Dir != "write") {
		core.HarnessFailure("C17 replay: malformed gorilla case")
	}
	v := execGorilla(cs)
	c.Add("cases_websocket_gorilla", 1)
	if !v.ok() {
		scen := "websocket-read:"
		if cs.Dir == "write" {
			scen = "websocket-write:"
		}
		ag.add(scen+v.Kind+":"+v.Shape, v.What, 0, func() interface{} { return cs })
	}
}
