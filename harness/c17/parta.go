package c17

import (
	"bytes"
	"encoding/json"
	"errors"
	"fmt"
	"io"
	"net"
	"sort"
	"strconv"
	"sync"
	"sync/atomic"
	"time"

	"github.com/emitter-io/emitter/internal/network/listener"
	"github.com/emitter-io/emitter/internal/verifx/engine/core"
)

// ---- (a) the protocol sniffer, through the real Listener.Serve ---------------------------------

// The request methods that make a stream "HTTP" (RFC 7231 §4 + PATCH), written from the statement.
var httpMethods = []string{"OPTIONS", "GET", "HEAD", "POST", "PATCH", "PUT", "DELETE", "TRACE", "CONNECT"}

type matcherSpec struct {
	Kind string   `json:"kind"` // any | http | prefix
	Strs []string `json:"strs,omitempty"`
}

// matches is the string-level rule: the stream starts with one of the candidate strings.
func (m matcherSpec) matches(stream []byte) bool {
	switch m.Kind {
	case "any":
		return true
	case "http":
		for _, s := range httpMethods {
			if bytes.HasPrefix(stream, []byte(s)) {
				return true
			}
		}
	case "prefix":
		for _, s := range m.Strs {
			if bytes.HasPrefix(stream, []byte(s)) {
				return true
			}
		}
	}
	return false
}

// need is how many bytes of an open stream the matcher may have to look at before it can decide:
// one more than its longest candidate (shorter open streams legitimately block).
func (m matcherSpec) need() int {
	l := 0
	switch m.Kind {
	case "any":
		return 0
	case "http":
		for _, s := range httpMethods {
			if len(s) > l {
				l = len(s)
			}
		}
	case "prefix":
		for _, s := range m.Strs {
			if len(s) > l {
				l = len(s)
			}
		}
	}
	return l + 1
}

func (m matcherSpec) build() listener.Matcher {
	switch m.Kind {
	case "http":
		return listener.MatchHTTP()
	case "prefix":
		return listener.MatchPrefix(m.Strs...)
	}
	return listener.MatchAny()
}

type listenerSpec struct {
	Name     string
	Matchers []matcherSpec
}

type matcherSet struct {
	Name      string
	Listeners []listenerSpec // in the order of the Match calls (the broker: HTTP first, then Any)
}

var (
	mAny     = matcherSpec{Kind: "any"}
	mHTTP    = matcherSpec{Kind: "http"}
	mShort   = matcherSpec{Kind: "prefix", Strs: []string{"\x10\x0c", "PRI"}}
	mLong    = matcherSpec{Kind: "prefix", Strs: []string{"\x10\x0c\x00\x04MQTT\x04"}}
	mPRI     = matcherSpec{Kind: "prefix", Strs: []string{"PRI"}}
	lAny     = listenerSpec{"any", []matcherSpec{mAny}}
	lHTTP    = listenerSpec{"http", []matcherSpec{mHTTP}}
	matchSet = []matcherSet{
		{"http,any", []listenerSpec{lHTTP, lAny}}, // what broker.Service.listen registers
		{"any", []listenerSpec{lAny}},
		{"prefix,http,any", []listenerSpec{{"prefix", []matcherSpec{mShort}}, lHTTP, lAny}},
		{"longprefix,http,any", []listenerSpec{{"prefix", []matcherSpec{mLong}}, lHTTP, lAny}},
		{"prefix|http,any", []listenerSpec{{"prefix|http", []matcherSpec{mPRI, mHTTP}}, lAny}}, // two matchers on one sub-listener
	}
)

func setByName(n string) *matcherSet {
	for i := range matchSet {
		if matchSet[i].Name == n {
			return &matchSet[i]
		}
	}
	return nil
}

// expect applies the string-level rule: the first sub-listener one of whose matchers accepts the
// stream. peeked is the number of stream bytes the matchers that ran may have looked at.
func (s *matcherSet) expect(stream []byte) (idx int, peeked int) {
	for i, l := range s.Listeners {
		for _, m := range l.Matchers {
			if n := m.need(); n > peeked {
				peeked = n
			}
			if m.matches(stream) {
				if peeked > len(stream) {
					peeked = len(stream)
				}
				return i, peeked
			}
		}
	}
	return -1, len(stream)
}

func (s *matcherSet) need() int {
	n := 0
	for _, l := range s.Listeners {
		for _, m := range l.Matchers {
			if k := m.need(); k > n {
				n = k
			}
		}
	}
	return n
}

const (
	eofSeparate = "separate"            // chunks..., then (0, io.EOF)
	eofWithLast = "with-last-chunk"     // the last chunk arrives as (n>0, io.EOF)
	eofOpen     = "open-until-accepted" // the client keeps the stream open until a sub-listener accepted the connection, then closes
)

var eofModes = []string{eofSeparate, eofWithLast, eofOpen}
var consumerBufs = []int{1, 2, 3, 8, 64}

type caseA struct {
	Part      string `json:"part"`
	StreamHex string `json:"stream_hex"`
	Stream    string `json:"stream_quoted"` // for the reader only
	Chunks    []int  `json:"chunks"`
	EOF       string `json:"eof"`
	Matchers  string `json:"matchers"`
	Buf       int    `json:"consumer_buffer"`
}

func mkCaseA(stream []byte, chunks []int, eof, set string, buf int) caseA {
	return caseA{Part: "a", StreamHex: hx(stream), Stream: strconv.Quote(string(stream)), Chunks: append([]int(nil), chunks...), EOF: eof, Matchers: set, Buf: buf}
}

func scriptA(stream []byte, chunks []int, eof string) []ReadStep {
	steps := make([]ReadStep, 0, len(chunks)+1)
	off := 0
	for _, n := range chunks {
		steps = append(steps, ReadStep{Data: stream[off : off+n]})
		off += n
	}
	switch eof {
	case eofSeparate:
		steps = append(steps, ReadStep{EOF: true})
	case eofWithLast:
		if len(steps) == 0 {
			steps = append(steps, ReadStep{EOF: true})
		} else {
			steps[len(steps)-1].EOF = true
		}
	}
	return steps
}

// scriptListener is the root net.Listener: Accept hands out the scripted connections one by one
// and ends with a permanent error.
type scriptListener struct {
	ch   chan net.Conn
	done chan struct{}
	once sync.Once
}

func (l *scriptListener) Accept() (net.Conn, error) {
	select {
	case c := <-l.ch:
		return c, nil
	case <-l.done:
		return nil, errors.New("scripted listener: no more connections")
	}
}
func (l *scriptListener) Close() error   { l.once.Do(func() { close(l.done) }); return nil }
func (l *scriptListener) Addr() net.Addr { return tagAddr(0) }

type accepted struct {
	idx  int
	conn net.Conn
}

// rig is one real Listener with its sub-listeners, serving scripted connections one at a time.
type rig struct {
	set       *matcherSet
	root      *scriptListener
	l         *listener.Listener
	out       chan accepted
	serveDone chan error
	seq       int64
	panicMsg  atomic.Value
}

func newRig(set *matcherSet) *rig {
	r := &rig{set: set, root: &scriptListener{ch: make(chan net.Conn), done: make(chan struct{})},
		out: make(chan accepted, 64), serveDone: make(chan error, 1)}
	r.l = listener.VerifNewListener(r.root, listener.Config{})
	for i, ls := range set.Listeners {
		var ms []listener.Matcher
		for _, m := range ls.Matchers {
			ms = append(ms, r.guard(m.build()))
		}
		sub := r.l.Match(ms...)
		go func(i int, sub net.Listener) {
			for {
				c, err := sub.Accept()
				if err != nil {
					return
				}
				r.out <- accepted{i, c}
			}
		}(i, sub)
	}
	go func() { r.serveDone <- r.l.Serve() }()
	return r
}

// guard keeps a panicking matcher from killing the process (serve runs on the listener's goroutine).
func (r *rig) guard(m listener.Matcher) listener.Matcher {
	return func(rd io.Reader) (ok bool) {
		defer func() {
			if p := recover(); p != nil {
				r.panicMsg.Store(fmt.Sprint(p))
				ok = false
			}
		}()
		return m(rd)
	}
}

func (r *rig) close() bool {
	r.root.Close()
	select {
	case <-r.serveDone:
		return true
	case <-time.After(hangAfter):
		return false
	}
}

type outcomeA struct {
	v      verdict
	got    []byte
	lis    string
	reads  int
	broken bool // the rig must not be reused
}

// exec pushes one scripted connection through the real Listener and reads it to the end.
func (r *rig) exec(stream []byte, chunks []int, eof string, buf int) (o outcomeA) {
	r.seq++
	conn := NewRecConn(scriptA(stream, chunks, eof)...)
	conn.Tag = r.seq
	conn.OpenTail = eof == eofOpen
	r.panicMsg.Store("")
	want, peeked := r.set.expect(stream)
	shape := "eof-" + eof
	switch {
	case peeked == 0:
		shape += ":peeked=0"
	case peeked > buf:
		shape += ":peeked>consumer-buffer"
	default:
		shape += ":peeked<=consumer-buffer"
	}

	t := time.NewTimer(hangAfter)
	defer t.Stop()
	select {
	case r.root.ch <- conn:
	case <-t.C:
		o.broken = true
		o.v = verdict{"hang", shape, "Listener.Serve did not accept the next connection"}
		return
	}
	var acc accepted
	for {
		select {
		case acc = <-r.out:
		case <-t.C:
			conn.Close()
			o.broken = true
			o.v = verdict{"hang", shape, fmt.Sprintf("no sub-listener delivered the connection within %v (%d of %d scripted bytes read by the matchers)", hangAfter, len(stream)-conn.Unread(), len(stream))}
			return
		}
		if ta, ok := acc.conn.RemoteAddr().(tagAddr); ok && int64(ta) == r.seq {
			break
		}
		acc.conn.Close() // left over from a case that was given up
	}
	conn.Release() // the client closes its side now (matters for open streams only)

	var rerr error
	var note string
	if p := safely(func() { o.got, rerr, o.reads, note = drain(acc.conn, buf, len(stream)+64) }); p != "" {
		acc.conn.Close()
		o.v = verdict{"panic", shape, "reading the accepted connection panicked: " + p}
		return
	}
	acc.conn.Close() // stops the 1 s flush goroutine of the real Conn
	o.lis = r.set.Listeners[acc.idx].Name

	if p, _ := r.panicMsg.Load().(string); p != "" {
		o.v = verdict{"panic", shape, "matcher panicked: " + p}
		return
	}
	if acc.idx != want {
		o.v = verdict{"wrong-listener", fmt.Sprintf("expected=%s:got=%s", r.set.Listeners[want].Name, o.lis),
			fmt.Sprintf("stream %q came out of sub-listener %q, the matching rule selects %q", stream, o.lis, r.set.Listeners[want].Name)}
		return
	}
	if k := classify(stream, o.got, rerr == io.EOF); k != "" {
		o.v = verdict{k, shape, fmt.Sprintf("fed %q, the accepted connection delivered %q then %v %s", stream, o.got, rerr, note)}
		return
	}
	if rerr != io.EOF {
		o.v = verdict{"missing-eof", shape, fmt.Sprintf("all bytes delivered but the stream ended with %v %s instead of io.EOF", rerr, note)}
	}
	return
}

// drain reads r to its end with a buffer of the given size, the way any io.Reader consumer does:
// take the n bytes, stop at the first error, retry (0, nil).
func drain(r io.Reader, size int, limit int) (got []byte, err error, calls int, note string) {
	buf := make([]byte, size)
	got = make([]byte, 0, limit)
	zero := 0
	for {
		n, e := r.Read(buf)
		calls++
		if n < 0 || n > len(buf) {
			return got, e, calls, fmt.Sprintf("(Read returned n=%d for a buffer of %d)", n, len(buf))
		}
		got = append(got, buf[:n]...)
		if e != nil {
			return got, e, calls, ""
		}
		if n == 0 {
			zero++
			if zero > 1000 {
				return got, nil, calls, "(more than 1000 consecutive (0, nil) reads: no progress)"
			}
		} else {
			zero = 0
		}
		if len(got) > limit {
			return got, nil, calls, "(runaway: more bytes than were ever sent)"
		}
	}
}

// streamsA builds the input streams: every prefix (length 0..maxLen) of a few long streams that
// start with an HTTP method, with MQTT CONNECT bytes, or that just miss a method.
func streamsA(maxLen int, seed int64) [][]byte {
	fill := make([]byte, maxLen)
	for i := range fill {
		fill[i] = 'a' + byte((int64(i)+seed%26+26)%26)
	}
	var long [][]byte
	for _, m := range httpMethods {
		long = append(long, []byte(m+" /"))
	}
	long = append(long,
		[]byte("\x10\x0c\x00\x04MQTT\x04\x02\x00\x3c"), // MQTT 3.1.1 CONNECT
		[]byte("\x10\x10\x00\x06MQIsdp\x03\x02"),       // MQTT 3.1 CONNECT
		[]byte("PRI * HTTP/2"),                         // starts like a method, is none (and a Prefix candidate)
		[]byte("GEX /"), []byte("get /"), []byte("POSX"), []byte("CONNECX"), []byte("OPTIONX"),
		[]byte("\x16\x03\x01\x02\x00\x01"), // TLS client hello head
		[]byte("\x00\x00\x00\x00"),
	)
	seen := map[string]bool{}
	var out [][]byte
	for _, l := range long {
		s := append([]byte(nil), l...)
		s = append(s, fill...)
		s = s[:maxLen]
		for n := 0; n <= maxLen; n++ {
			if !seen[string(s[:n])] {
				seen[string(s[:n])] = true
				out = append(out, s[:n])
			}
		}
	}
	sort.SliceStable(out, func(i, j int) bool { return len(out[i]) < len(out[j]) })
	return out
}

type jobA struct {
	idx    int
	stream []byte
	set    *matcherSet
}

func partA(c *core.Ctx, ag *agg, deadline time.Time) {
	maxLen := 10
	if !c.Quick() {
		maxLen = 12
	}
	streams := streamsA(maxLen, c.Seed)
	var jobs []jobA
	for _, s := range streams {
		for i := range matchSet {
			jobs = append(jobs, jobA{len(jobs), s, &matchSet[i]})
		}
	}
	ch := make(chan jobA)
	var wg sync.WaitGroup
	var skipped atomic.Int64
	for w := 0; w < workers(); w++ {
		wg.Add(1)
		go func() {
			defer wg.Done()
			rigs := map[string]*rig{}
			defer func() {
				for _, r := range rigs {
					if !r.close() {
						ag.add("sniffer:hang:serve-does-not-return", "Listener.Serve did not return after the root listener failed permanently", 1<<62, func() interface{} { return nil })
					}
				}
			}()
			for j := range ch {
				if time.Now().After(deadline) {
					skipped.Add(1)
					continue
				}
				r := rigs[j.set.Name]
				if r == nil {
					r = newRig(j.set)
					rigs[j.set.Name] = r
				}
				if !runJobA(c, ag, j, r) {
					delete(rigs, j.set.Name) // a hung listener is abandoned
					go r.close()
				}
			}
		}()
	}
	for _, j := range jobs {
		ch <- j
	}
	close(ch)
	wg.Wait()
	if n := skipped.Load(); n > 0 {
		c.NotExhaustive(fmt.Sprintf("part (a): time cap, %d of %d (stream, matcher set) jobs not run (streams are ordered by length, bound %d)", n, len(jobs), maxLen))
	}
	c.Set("sniffer_max_stream_len", maxLen)
	c.Set("sniffer_streams", len(streams))
	c.Set("sniffer_matcher_sets", len(matchSet))

	// samples: complete cases with what the implementation did
	for _, s := range []caseA{
		mkCaseA([]byte("GET /ab"), []int{1, 2, 4}, eofSeparate, "http,any", 2),
		mkCaseA([]byte("\x10\x0c\x00\x04MQTT\x04\x02"), []int{3, 7}, eofOpen, "prefix,http,any", 3),
	} {
		r := newRig(setByName(s.Matchers))
		o := r.exec(unhx(s.StreamHex), s.Chunks, s.EOF, s.Buf)
		r.close()
		c.Sample(map[string]interface{}{"case": s, "sub_listener": o.lis, "bytes_read": strconv.Quote(string(o.got)), "consumer_reads": o.reads, "verdict": o.v.Kind})
	}
}

// runJobA enumerates EOF placement x every composition x consumer buffer for one (stream, set).
func runJobA(c *core.Ctx, ag *agg, j jobA, r *rig) (rigOK bool) {
	n := len(j.stream)
	var cases, calls int64
	defer func() {
		c.Add("cases_sniffer", cases)
		c.Add("adapter_calls", calls)
	}()
	for ei, eof := range eofModes {
		if eof == eofWithLast && n == 0 {
			continue // identical to "separate"
		}
		if eof == eofOpen && n < j.set.need() {
			continue // a matcher may legitimately wait for more bytes
		}
		for mask := 0; mask < numCompositions(n); mask++ {
			chunks := compositionLens(n, mask)
			for bi, buf := range consumerBufs {
				o := r.exec(j.stream, chunks, eof, buf)
				cases++
				calls += int64(o.reads)
				if !o.v.ok() {
					ord := int64(j.idx)<<36 | int64(ei)<<32 | int64(mask)<<4 | int64(bi)
					ag.add("sniffer:"+o.v.Kind+":"+o.v.Shape, o.v.What, ord, func() interface{} { return mkCaseA(j.stream, chunks, eof, j.set.Name, buf) })
				}
				if o.broken {
					return false
				}
			}
		}
	}
	return true
}

func replayA(c *core.Ctx, ag *agg, raw json.RawMessage) {
	var cs caseA
	if err := json.Unmarshal(raw, &cs); err != nil {
		core.HarnessFailure("C17 replay: %v", err)
	}
	set := setByName(cs.Matchers)
	stream := unhx(cs.StreamHex)
	sum := 0
	for _, n := range cs.Chunks {
		sum += n
	}
	if set == nil || sum != len(stream) || cs.Buf <= 0 {
		core.HarnessFailure("C17 replay: malformed sniffer case")
	}
	r := newRig(set)
	o := r.exec(stream, cs.Chunks, cs.EOF, cs.Buf)
	r.close()
	c.Add("cases_sniffer", 1)
	if !o.v.ok() {
		ag.add("sniffer:"+o.v.Kind+":"+o.v.Shape, o.v.What, 0, func() interface{} { return cs })
	}
}
