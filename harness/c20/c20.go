// Package c20: licenses and key ciphers round-trip.
//
//	lic    generated licenses of versions 1-3 parse back to the same contract, signature, master
//	       index and an equivalent cipher
//	key    under each version's cipher every enumerated 24-byte key encrypts to 32 URL-safe characters
//	       that decrypt to the same key; the map is injective on everything enumerated
//	str    candidate key strings: every length 0..40 except 32 is rejected; length 32 is rejected iff
//	       some byte is outside the URL-safe alphabet
//	parse  license.Parse on truncated / substituted / re-suffixed license strings returns a license or
//	       an error and never panics (run in a journalled sub-process so that a fatal abort is
//	       attributed to its input)
package c20

import (
	"bytes"
	"encoding/base64"
	"encoding/hex"
	"encoding/json"
	"fmt"
	"os"
	"strconv"
	"strings"
	"time"

	"github.com/emitter-io/emitter/internal/security"
	"github.com/emitter-io/emitter/internal/security/license"
	"github.com/emitter-io/emitter/internal/verifx/engine/core"
	"github.com/emitter-io/emitter/internal/verifx/engine/sched"
)

func init() {
	core.Register(&core.Check{ID: "C20", Level: "exploration", Run: run, Replay: replay, Worker: worker})
}

const alphabet = "ABCDEFGHIJKLMNOPQRSTUVWXYZabcdefghijklmnopqrstuvwxyz0123456789-_"

func inAlphabet(b byte) bool { return strings.IndexByte(alphabet, b) >= 0 }

func safely(f func()) (panicked string) {
	defer func() {
		if r := recover(); r != nil {
			panicked = fmt.Sprint(r)
		}
	}()
	f()
	return ""
}

func pattern(n int, seed byte) []byte {
	b := make([]byte, n)
	for i := range b {
		b[i] = seed*31 + byte(i*17+3)
	}
	return b
}

func fieldClass(i int) string {
	switch {
	case i < 2:
		return "bytes0-1"
	case i < 4:
		return "bytes2-3"
	case i < 8:
		return "bytes4-7"
	case i < 12:
		return "bytes8-11"
	case i < 15:
		return "bytes12-14"
	case i == 15:
		return "byte15"
	case i < 20:
		return "bytes16-19"
	default:
		return "bytes20-23"
	}
}

// diffClass: field class of the first byte in which two keys differ.
func diffClass(a, b []byte) string {
	if len(a) != len(b) {
		return "length"
	}
	for i := range a {
		if a[i] != b[i] {
			return fieldClass(i)
		}
	}
	return "equal"
}

// ---- lic ------------------------------------------------------------------------------------

type licCase struct {
	Part    string `json:"part"` // "lic"
	Version int    `json:"version"`
	Source  string `json:"source"` // fixed | new
	KeyHex  string `json:"encryption_key_hex"`
	SaltHex string `json:"encryption_salt_hex,omitempty"`
	User    uint32 `json:"user"`
	Sign    uint32 `json:"sign"`
	Index   uint32 `json:"index,omitempty"`
	Expires int64  `json:"expires_unix,omitempty"`
	Type    uint32 `json:"type,omitempty"`
}

func (lc licCase) build() license.License {
	k, _ := hex.DecodeString(lc.KeyHex)
	s, _ := hex.DecodeString(lc.SaltHex)
	switch lc.Version {
	case 1:
		return &license.V1{EncryptionKey: base64.RawURLEncoding.EncodeToString(k), User: lc.User, Sign: lc.Sign, Expires: time.Unix(lc.Expires, 0), Type: lc.Type}
	case 2:
		return &license.V2{EncryptionKey: k, EncryptionSalt: s, User: lc.User, Sign: lc.Sign, Index: lc.Index}
	}
	return &license.V3{EncryptionKey: k, EncryptionSalt: s, User: lc.User, Sign: lc.Sign, Index: lc.Index}
}

func probeKeys() []security.Key {
	var out []security.Key
	for _, seed := range []byte{0, 3, 0xff} {
		k := security.Key(pattern(24, seed))
		if seed == 0 {
			k = security.Key(make([]byte, 24))
		}
		if seed == 0xff {
			k = security.Key(bytes.Repeat([]byte{0xff}, 24))
		}
		out = append(out, k)
	}
	return out
}

func checkLicense(c *core.Ctx, lc licCase) {
	c.Add("evaluations", 1)
	c.Add("license_roundtrips", 1)
	v := fmt.Sprintf("v%d", lc.Version)
	orig := lc.build()
	var text string
	var parsed license.License
	var err error
	if p := safely(func() { text = orig.String(); parsed, err = license.Parse(text) }); p != "" {
		c.Violate(v+":panic:generated-license", "String()/Parse of a generated license panicked: "+p, lc)
		return
	}
	if err != nil || parsed == nil {
		c.Violate(v+":license-roundtrip:parse-error", fmt.Sprintf("Parse(%q) of a generated license failed: %v", text, err), lc)
		return
	}
	wantMaster := lc.Index
	if lc.Version == 1 {
		wantMaster = 1
	}
	if parsed.Contract() != lc.User {
		c.Violate(v+":license-roundtrip:contract", fmt.Sprintf("contract %d became %d", lc.User, parsed.Contract()), lc)
	}
	if parsed.Signature() != lc.Sign {
		c.Violate(v+":license-roundtrip:signature", fmt.Sprintf("signature %d became %d", lc.Sign, parsed.Signature()), lc)
	}
	if parsed.Master() != wantMaster {
		c.Violate(v+":license-roundtrip:master", fmt.Sprintf("master index %d became %d", wantMaster, parsed.Master()), lc)
	}
	if again := parsed.String(); again != text {
		c.Violate(v+":license-roundtrip:string", fmt.Sprintf("String() of the parsed license %q differs from the original %q", again, text), lc)
	}
	c1, e1 := orig.Cipher()
	c2, e2 := parsed.Cipher()
	if e1 != nil || e2 != nil || c1 == nil || c2 == nil {
		c.Violate(v+":license-roundtrip:cipher-error", fmt.Sprintf("Cipher() failed: original %v, parsed %v", e1, e2), lc)
		return
	}
	for _, k := range probeKeys() {
		s1, ea := c1.EncryptKey(k)
		s2, eb := c2.EncryptKey(k)
		var back security.Key
		var ec error
		if ea == nil {
			back, ec = c2.DecryptKey([]byte(s1))
		}
		if ea != nil || eb != nil || ec != nil || s1 != s2 || !bytes.Equal(back, k) {
			c.Violate(v+":license-roundtrip:cipher", fmt.Sprintf("the parsed license's cipher is not the original's: key %x -> %q / %q -> %x (%v %v %v)", []byte(k), s1, s2, []byte(back), ea, eb, ec), lc)
			return
		}
	}
}

func partLic(c *core.Ctx) {
	edge := []uint32{0, 1, 0x7f, 0x80, 0x3fff, 0x4000, 0x01020304, 0xffffffff}
	idx := []uint32{0, 1, 2, 0x80, 0xffffffff}
	seedByte := byte(c.Seed)
	pats := func(n int) [][]byte {
		return [][]byte{make([]byte, n), bytes.Repeat([]byte{0xff}, n), pattern(n, seedByte+1), pattern(n, seedByte+7)}
	}
	n := 0
	for ver := 1; ver <= 3; ver++ {
		keyLen, saltLen := 32, 24
		if ver == 1 {
			keyLen, saltLen = 16, 0
		}
		if ver == 3 {
			saltLen = 16
		}
		for pi, kp := range pats(keyLen) {
			var sp []byte
			if saltLen > 0 {
				sp = pats(saltLen)[(pi+1)%4]
			}
			for _, u := range edge {
				for _, s := range edge {
					if ver == 1 {
						for _, exp := range []int64{0, 1893456000} {
							for _, ty := range []uint32{0, 1, 2} {
								lc := licCase{Part: "lic", Version: 1, Source: "fixed", KeyHex: hex.EncodeToString(kp), User: u, Sign: s, Expires: exp, Type: ty}
								checkLicense(c, lc)
								n++
							}
						}
						continue
					}
					for _, ix := range idx {
						lc := licCase{Part: "lic", Version: ver, Source: "fixed", KeyHex: hex.EncodeToString(kp), SaltHex: hex.EncodeToString(sp), User: u, Sign: s, Index: ix}
						checkLicense(c, lc)
						n++
						if n%1500 == 777 {
							c.Sample(lc)
						}
					}
				}
			}
		}
		// licenses from the real generators (their random fields are recorded, so a failure replays)
		for i := 0; i < 16; i++ {
			var lc licCase
			switch ver {
			case 1:
				l := license.NewV1()
				k, _ := base64.RawURLEncoding.DecodeString(l.EncryptionKey)
				lc = licCase{Part: "lic", Version: 1, Source: "new", KeyHex: hex.EncodeToString(k), User: l.User, Sign: l.Sign, Expires: l.Expires.Unix(), Type: l.Type}
			case 2:
				l := license.NewV2()
				lc = licCase{Part: "lic", Version: 2, Source: "new", KeyHex: hex.EncodeToString(l.EncryptionKey), SaltHex: hex.EncodeToString(l.EncryptionSalt), User: l.User, Sign: l.Sign, Index: l.Index}
			case 3:
				l := license.NewV3()
				lc = licCase{Part: "lic", Version: 3, Source: "new", KeyHex: hex.EncodeToString(l.EncryptionKey), SaltHex: hex.EncodeToString(l.EncryptionSalt), User: l.User, Sign: l.Sign, Index: l.Index}
			}
			checkLicense(c, lc)
			n++
		}
	}
	c.Add("nontrivial", int64(n))
}

// ---- key / str ------------------------------------------------------------------------------

// fixedLicense: deterministic license material per version (same shapes as brokerx.FixedLicense).
func fixedLicense(ver int, seed byte) licCase {
	switch ver {
	case 1:
		return licCase{Part: "lic", Version: 1, Source: "fixed", KeyHex: hex.EncodeToString(pattern(16, seed)), User: 0x01020304 + uint32(seed), Sign: 0x0a0b0c0d, Type: license.LicenseTypeOnPremise}
	case 2:
		return licCase{Part: "lic", Version: 2, Source: "fixed", KeyHex: hex.EncodeToString(pattern(32, seed)), SaltHex: hex.EncodeToString(pattern(24, seed+1)), User: 0x01020304 + uint32(seed), Sign: 0x0a0b0c0d, Index: 1}
	}
	return licCase{Part: "lic", Version: 3, Source: "fixed", KeyHex: hex.EncodeToString(pattern(32, seed)), SaltHex: hex.EncodeToString(pattern(16, seed+1)), User: 0x01020304 + uint32(seed), Sign: 0x0a0b0c0d, Index: 1}
}

func cipherOf(ver int, seed byte) license.Cipher {
	ci, err := fixedLicense(ver, seed).build().Cipher()
	if err != nil {
		core.HarnessFailure("C20: fixed license v%d has no cipher: %v", ver, err)
	}
	return ci
}

type keyCase struct {
	Part     string `json:"part"` // "key"
	Version  int    `json:"version"`
	LicSeed  byte   `json:"license_seed"`
	Family   string `json:"family"`
	KeyHex   string `json:"key_hex"`
	OtherHex string `json:"other_key_hex,omitempty"` // non-injective: the key that produced the same string
	Where    string `json:"where"`
}

type keyRun struct {
	ver   int
	seed  byte
	ci    license.Cipher
	seen  map[string][24]byte
	count int64
}

func (kr *keyRun) check(c *core.Ctx, k []byte, family, where string) {
	c.Add("evaluations", 1)
	c.Add("key_roundtrips", 1)
	v := fmt.Sprintf("v%d", kr.ver)
	kc := keyCase{Part: "key", Version: kr.ver, LicSeed: kr.seed, Family: family, KeyHex: hex.EncodeToString(k), Where: where}
	in := append([]byte(nil), k...)
	var s string
	var err error
	if p := safely(func() { s, err = kr.ci.EncryptKey(security.Key(in)) }); p != "" {
		c.Violate(v+":panic:encrypt:"+where, "EncryptKey panicked: "+p, kc)
		return
	}
	if err != nil {
		c.Violate(v+":key-roundtrip:encrypt-error:"+where, fmt.Sprintf("EncryptKey(%x) failed: %v", k, err), kc)
		return
	}
	if !bytes.Equal(in, k) {
		c.Violate(v+":key-roundtrip:input-modified:"+where, fmt.Sprintf("EncryptKey modified its input %x -> %x", k, in), kc)
	}
	ok := len(s) == 32
	for i := 0; ok && i < len(s); i++ {
		ok = inAlphabet(s[i])
	}
	if !ok {
		c.Violate(v+":key-format:"+where, fmt.Sprintf("EncryptKey(%x) = %q is not 32 URL-safe characters", k, s), kc)
		return
	}
	var back security.Key
	if p := safely(func() { back, err = kr.ci.DecryptKey([]byte(s)) }); p != "" {
		c.Violate(v+":panic:decrypt:"+where, "DecryptKey panicked: "+p, kc)
		return
	}
	if err != nil || !bytes.Equal(back, k) {
		// classified by the field that comes back wrong, not by the field that was varied
		cl := "decrypt-error"
		if err == nil {
			cl = diffClass(k, back)
		}
		c.Violate(v+":key-roundtrip:"+cl, fmt.Sprintf("key %x -> %q -> %x (err %v)", k, s, []byte(back), err), kc)
	}
	var arr [24]byte
	copy(arr[:], k)
	if prev, dup := kr.seen[s]; dup {
		if prev != arr {
			kc.OtherHex = hex.EncodeToString(prev[:])
			c.Violate(v+":non-injective:"+diffClass(prev[:], k), fmt.Sprintf("keys %x and %x both encrypt to %q", prev[:], k, s), kc)
		}
		return
	}
	kr.seen[s] = arr
	kr.count++
}

func backgrounds(seed byte, n int) [][]byte {
	out := [][]byte{make([]byte, 24)}
	for i := 1; i < n; i++ {
		b := make([]byte, 24)
		for j := range b {
			b[j] = byte(j*37+11) ^ (seed + byte(i)*0x5b)
		}
		out = append(out, b)
	}
	return out
}

var pairVals = []byte{0, 1, 0x7f, 0x80, 0xff}

func partKey(c *core.Ctx, ver int, licSeed byte, nbg int) {
	kr := &keyRun{ver: ver, seed: licSeed, ci: cipherOf(ver, licSeed), seen: map[string][24]byte{}}
	for bi, bg := range backgrounds(byte(c.Seed), nbg) {
		// every value of every single byte
		for i := 0; i < 24; i++ {
			for v := 0; v < 256; v++ {
				k := append([]byte(nil), bg...)
				k[i] = byte(v)
				kr.check(c, k, "single", fieldClass(i))
			}
		}
		// every salt
		for s := 0; s < 65536; s++ {
			k := append([]byte(nil), bg...)
			k[0], k[1] = byte(s>>8), byte(s)
			kr.check(c, k, "salt", "bytes0-1")
		}
		// every permission byte (with the master/contract/signature fields of a real key)
		for p := 0; p < 256; p++ {
			k := security.Key(append([]byte(nil), bg...))
			k.SetMaster(1)
			k.SetContract(0x01020305)
			k.SetSignature(0x0a0b0c0d)
			k.SetPermissions(uint8(p))
			kr.check(c, k, "perm", "byte15")
		}
		// pairs of bytes over boundary values
		for i := 0; i < 24; i++ {
			for j := i + 1; j < 24; j++ {
				for _, a := range pairVals {
					for _, b := range pairVals {
						k := append([]byte(nil), bg...)
						k[i], k[j] = a, b
						where := fieldClass(i)
						if fieldClass(j) != where {
							where += "+" + fieldClass(j)
						}
						kr.check(c, k, "pair", where)
					}
				}
			}
		}
		if bi == 1 && licSeed == 1 {
			k := append([]byte(nil), bg...)
			s, _ := kr.ci.EncryptKey(k)
			c.Sample(map[string]interface{}{"part": "key", "version": ver, "key_hex": hex.EncodeToString(k), "encrypted": s})
		}
	}
	c.Add("nontrivial", kr.count)
	c.Add("distinct_keys_roundtripped", kr.count)
}

type strCase struct {
	Part     string `json:"part"` // "str"
	Version  int    `json:"version"`
	LicSeed  byte   `json:"license_seed"`
	InputHex string `json:"input_hex"`
	Len      int    `json:"len"`
}

func byteClass(b byte) string {
	switch {
	case b == 0:
		return "nul"
	case b == '+' || b == '/':
		return "std-base64-char"
	case b == '=':
		return "padding"
	case b >= 0x80:
		return "high"
	}
	return "other-ascii"
}

func checkStr(c *core.Ctx, ver int, licSeed byte, ci license.Cipher, cand []byte) {
	c.Add("evaluations", 1)
	c.Add("candidate_strings", 1)
	v := fmt.Sprintf("v%d", ver)
	sc := strCase{Part: "str", Version: ver, LicSeed: licSeed, InputHex: hex.EncodeToString(cand), Len: len(cand)}
	lenClass := "len32"
	if len(cand) < 32 {
		lenClass = "len<32"
	} else if len(cand) > 32 {
		lenClass = "len>32"
	}
	valid := len(cand) == 32
	bad := ""
	for _, b := range cand {
		if !inAlphabet(b) {
			valid = false
			if bad == "" {
				bad = byteClass(b)
			}
		}
	}
	var k security.Key
	var err error
	buf := append([]byte(nil), cand...) // DecryptKey decodes in place: always a fresh buffer
	if p := safely(func() { k, err = ci.DecryptKey(buf) }); p != "" {
		c.Violate(v+":panic:key-string:"+lenClass, fmt.Sprintf("DecryptKey(%q) panicked: %s", cand, p), sc)
		return
	}
	switch {
	case valid && (err != nil || len(k) != 24):
		c.Violate(v+":rejected-valid:"+lenClass, fmt.Sprintf("DecryptKey(%q): 32 URL-safe characters rejected (err %v, %d bytes)", cand, err, len(k)), sc)
	case !valid && err == nil:
		cl := lenClass
		if len(cand) == 32 {
			cl += ":" + bad
		}
		c.Violate(v+":accepted-malformed:"+cl, fmt.Sprintf("DecryptKey(%q) accepted a string that is not 32 URL-safe characters (-> %x)", cand, []byte(k)), sc)
	}
}

func partStr(c *core.Ctx, ver int, licSeed byte) {
	ci := cipherOf(ver, licSeed)
	base, err := ci.EncryptKey(security.Key(backgrounds(byte(c.Seed), 2)[1]))
	if err != nil || len(base) != 32 {
		return // reported by part key
	}
	n := int64(0)
	for l := 0; l <= 40; l++ {
		if l == 32 {
			continue
		}
		checkStr(c, ver, licSeed, ci, bytes.Repeat([]byte{'A'}, l))
		ext := (base + base)[:l]
		checkStr(c, ver, licSeed, ci, []byte(ext))
		n += 2
	}
	for pos := 0; pos < 32; pos++ {
		for v := 0; v < 256; v++ {
			cand := []byte(base)
			cand[pos] = byte(v)
			checkStr(c, ver, licSeed, ci, cand)
			n++
		}
	}
	c.Add("nontrivial", n)
	if ver == 2 {
		c.Sample(strCase{Part: "str", Version: ver, LicSeed: licSeed, InputHex: hex.EncodeToString([]byte(base[:31] + "=")), Len: 32})
	}
}

// ---- parse ----------------------------------------------------------------------------------

type parseCase struct {
	Part     string `json:"part"` // "parse"
	Base     int    `json:"base_version"`
	Family   string `json:"family"` // trunc | subst | fill
	Pos      int    `json:"pos"`
	Suffix   string `json:"suffix"`
	InputHex string `json:"input_hex"`
	Input    string `json:"input_printable"`
}

var suffixes = []string{"", ":1", ":2", ":3", ":4", ":"}
var substChars = []byte{'A', '_', '-', ':', '=', 0x00, 0xff}

// parseInputs enumerates the license strings, simplest first. Deterministic for a given seed.
func parseInputs(seed byte, quick bool) []parseCase {
	var out []parseCase
	add := func(base int, fam string, pos int, body, suffix string) {
		in := body + suffix
		out = append(out, parseCase{Part: "parse", Base: base, Family: fam, Pos: pos, Suffix: suffix, InputHex: hex.EncodeToString([]byte(in)), Input: strconv.QuoteToASCII(in)})
	}
	for l := 0; l <= 48; l++ {
		for _, sf := range suffixes {
			add(0, "fill", l, strings.Repeat("A", l), sf)
		}
	}
	// three fixed licenses per version in both tiers: whether a corrupted length prefix runs into a
	// large varint depends on the key bytes that follow it
	licSeeds := []byte{1, 2, 9}
	_ = quick
	for _, ls := range licSeeds {
		for ver := 1; ver <= 3; ver++ {
			full := fixedLicense(ver, seed+ls).build().String()
			body := full[:len(full)-2]
			for l := 0; l <= len(body); l++ {
				for _, sf := range suffixes {
					add(ver, "trunc", l, body[:l], sf)
				}
			}
			for pos := 0; pos < len(body); pos++ {
				for _, ch := range substChars {
					if body[pos] == ch {
						continue
					}
					b := []byte(body)
					b[pos] = ch
					for _, sf := range suffixes {
						add(ver, "subst", pos, string(b), sf)
					}
				}
			}
		}
	}
	return out
}

// route: which parser license.Parse hands the string to, from the statement of the format
// ("<base64>:<version>", no suffix = version 1), and the class of the decoded body.
func route(in string) (ver string, class string) {
	if len(in) < 5 {
		return "short", "len<5"
	}
	body, ver := in, "v1"
	switch {
	case strings.HasSuffix(in, ":1"):
		body = in[:len(in)-2]
	case strings.HasSuffix(in, ":2"):
		body, ver = in[:len(in)-2], "v2"
	case strings.HasSuffix(in, ":3"):
		body, ver = in[:len(in)-2], "v3"
	}
	raw, err := base64.RawURLEncoding.DecodeString(body)
	switch {
	case err != nil:
		class = "not-base64"
	case ver == "v1" && len(raw) < 32:
		class = "len<32"
	case ver == "v1":
		class = "len>=32"
	default:
		class = "base64-ok"
	}
	return ver, class
}

// panicKind: coarse class of a runtime panic message (stable across runs, no addresses or sizes).
func panicKind(msg string) string {
	switch {
	case strings.Contains(msg, "makeslice"):
		return "makeslice"
	case strings.Contains(msg, "slice bounds out of range"):
		return "slice-bounds"
	case strings.Contains(msg, "index out of range"):
		return "index"
	case strings.Contains(msg, "nil pointer"):
		return "nil-deref"
	}
	return "other"
}

func checkParse(c *core.Ctx, pc parseCase) {
	c.Add("evaluations", 1)
	c.Add("license_strings", 1)
	raw, _ := hex.DecodeString(pc.InputHex)
	in := string(raw)
	ver, class := route(in)
	var l license.License
	var err error
	if p := safely(func() { l, err = license.Parse(in) }); p != "" {
		sig := fmt.Sprintf("%s:panic:%s", ver, class)
		if ver != "v1" {
			sig += ":" + panicKind(p)
		}
		c.Violate(sig, fmt.Sprintf("license.Parse(%s) panicked: %s", pc.Input, p), pc)
		return
	}
	if err != nil {
		c.Add("license_strings_rejected", 1)
		return
	}
	if l == nil {
		c.Violate(fmt.Sprintf("%s:nil-license:%s", ver, class), fmt.Sprintf("license.Parse(%s) returned neither a license nor an error", pc.Input), pc)
		return
	}
	c.Add("license_strings_accepted", 1)
	if p := safely(func() {
		_ = l.Contract()
		_ = l.Signature()
		_ = l.Master()
		_ = l.String()
		if ci, e := l.Cipher(); e == nil && ci != nil {
			c.Add("license_strings_accepted_with_cipher", 1)
		}
	}); p != "" {
		c.Violate(fmt.Sprintf("%s:panic:accessor-of-parsed:%s", ver, class), fmt.Sprintf("license.Parse(%s) succeeded but an accessor/Cipher() panicked: %s", pc.Input, p), pc)
	}
}

// worker: "parse <start> <end>" runs the license-string cases [start, end), journalling each index
// before it runs so that a fatal abort (out of memory, stack overflow) is attributed.
func worker(c *core.Ctx, args []string) {
	if len(args) > 0 && args[0] == "sched" {
		sched.WorkerMain(c, concScenarios(), args[1:])
		return
	}
	if len(args) < 3 || args[0] != "parse" {
		core.HarnessFailure("C20 worker: bad arguments %v", args)
	}
	start, _ := strconv.Atoi(args[1])
	end, _ := strconv.Atoi(args[2])
	ins := parseInputs(byte(c.Seed), c.Quick())
	if end > len(ins) {
		end = len(ins)
	}
	for i := start; i < end; i++ {
		fmt.Fprintf(os.Stdout, "J %d\n", i)
		checkParse(c, ins[i])
	}
	c.Add("nontrivial", int64(end-start))
}

func partParse(c *core.Ctx) {
	ins := parseInputs(byte(c.Seed), c.Quick())
	c.Set("license_strings_enumerated", len(ins))
	spawn := func(from, to int) core.WorkerOutcome {
		return c.SpawnWorker([]string{"parse", strconv.Itoa(from), strconv.Itoa(to)}, nil, 10*time.Minute, 8<<30)
	}
	start := 0
	for aborts := 0; start < len(ins); aborts++ {
		if aborts > 25 {
			c.NotExhaustive(fmt.Sprintf("license strings: more than 25 fatal aborts, stopped at case %d of %d", start, len(ins)))
			return
		}
		o := spawn(start, len(ins))
		if o.HasRes && o.ExitCode == 0 {
			return
		}
		// the process died: the last journalled index names the input; its own results are lost, so
		// the cases before it are run again in a process that stops short of it
		last := -1
		for _, line := range strings.Split(o.Stdout, "\n") {
			if strings.HasPrefix(line, "J ") {
				if n, err := strconv.Atoi(strings.TrimSpace(line[2:])); err == nil {
					last = n
				}
			}
		}
		if last < start {
			core.HarnessFailure("C20 parse worker died before its first case: exit=%d signal=%s killed=%v stderr:\n%s", o.ExitCode, o.Signal, o.Killed, o.Stderr)
		}
		if last > start {
			if o2 := spawn(start, last); !o2.HasRes || o2.ExitCode != 0 {
				core.HarnessFailure("C20 parse worker died at case %d and again on [%d,%d): not deterministic; stderr:\n%s", last, start, last, o2.Stderr)
			}
		}
		raw, _ := hex.DecodeString(ins[last].InputHex)
		ver, class := route(string(raw))
		kind := "fatal-abort"
		if o.Killed {
			kind = "hang"
		}
		msg := ""
		for _, line := range strings.Split(o.Stderr, "\n") {
			if strings.Contains(line, "fatal error") || strings.HasPrefix(line, "panic:") {
				msg = line
				break
			}
		}
		c.Violate(fmt.Sprintf("%s:%s:%s", ver, kind, class), fmt.Sprintf("license.Parse(%s) ended the process (exit %d %s) %s", ins[last].Input, o.ExitCode, o.Signal, msg), ins[last])
		c.Add("evaluations", 1)
		c.Add("nontrivial", 1)
		start = last + 1
	}
}

// ---- run / replay ---------------------------------------------------------------------------

func run(c *core.Ctx) {
	partLic(c)
	seeds := []byte{1}
	nbg := 2
	if !c.Quick() {
		seeds = []byte{1, 2, 9}
		nbg = 4
	}
	for _, s := range seeds {
		for ver := 1; ver <= 3; ver++ {
			partKey(c, ver, s+byte(c.Seed), nbg)
			partStr(c, ver, s+byte(c.Seed))
			partOrder(c, ver, s+byte(c.Seed))
		}
	}
	partParse(c)
	// the XTEA rounds are a long straight line of statements: one preemption (a whole call of the other caller
	// inserted at every statement boundary) in the quick tier, two in the thorough tier
	bound := 1
	if !c.Quick() {
		bound = 2
	}
	c.Set("sched_bound_completed", sched.Drive(c, concOrder, bound))
	c.Set("sched_schedules", c.Count("schedules"))
	c.Add("evaluations", c.Count("schedules"))
	c.Assume("concurrent use of a cipher: statement-level, sequentially consistent interleavings of two callers")
	c.Sample(parseCase{Part: "parse", Base: 0, Family: "fill", Pos: 8, Suffix: "", InputHex: hex.EncodeToString([]byte("AAAAAAAA")), Input: `"AAAAAAAA"`})
	c.Set("evaluations", c.Count("evaluations"))
	c.Set("distinct_nontrivial", c.Count("nontrivial"))
	c.Set("rule", "cases: (lic) one generated license per field combination [4 key patterns x 8 contract x 8 signature x 5 index values (v1: 2 expiries x 3 types), plus 16 from license.NewV1/2/3 per version], (key) one 24-byte key [per background: 24x256 single bytes, 65536 salts, 256 permission bytes, 276 byte pairs x 25 boundary values; distinct = distinct keys in the injectivity map], (str) one candidate key string [2 per length 0..40 except 32; 32x256 single-position byte substitutions], (parse) one license string [fills of length 0..48, every truncation, 7 substitutions per position, x 6 suffixes]; every case executes the real String/Parse/Cipher/EncryptKey/DecryptKey and is non-trivial")
	c.Assume("the 2^192 key space is only covered by the structured family above (per-byte, per-salt, per-pair), under fixed license material")
	c.Assume("license.New* draw from crypto/rand; their fields are recorded in the case so a failure replays deterministically")
}

func replay(c *core.Ctx, raw json.RawMessage) {
	if sched.ReplayCase(c, concScenarios(), raw) {
		return
	}
	var probe struct {
		Part string `json:"part"`
	}
	json.Unmarshal(raw, &probe)
	switch probe.Part {
	case "lic":
		var lc licCase
		json.Unmarshal(raw, &lc)
		checkLicense(c, lc)
	case "key":
		var kc keyCase
		json.Unmarshal(raw, &kc)
		kr := &keyRun{ver: kc.Version, seed: kc.LicSeed, ci: cipherOf(kc.Version, kc.LicSeed), seen: map[string][24]byte{}}
		if kc.OtherHex != "" {
			o, _ := hex.DecodeString(kc.OtherHex)
			kr.check(c, o, kc.Family, kc.Where)
		}
		k, _ := hex.DecodeString(kc.KeyHex)
		kr.check(c, k, kc.Family, kc.Where)
	case "str":
		var sc strCase
		json.Unmarshal(raw, &sc)
		in, _ := hex.DecodeString(sc.InputHex)
		checkStr(c, sc.Version, sc.LicSeed, cipherOf(sc.Version, sc.LicSeed), in)
	case "parse":
		var pc parseCase
		json.Unmarshal(raw, &pc)
		checkParse(c, pc)
	case "ord":
		var oc ordCase
		json.Unmarshal(raw, &oc)
		checkOrder(c, oc)
	default:
		core.HarnessFailure("C20 replay: unknown part %q", probe.Part)
	}
}
