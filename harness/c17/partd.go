package c17

import (
	"bufio"
	"bytes"
	"encoding/json"
	"errors"
	"fmt"
	"io"
	"net"
	"strings"
	"sync"
	"sync/atomic"
	"time"

	"github.com/emitter-io/emitter/internal/network/websocket"
	"github.com/emitter-io/emitter/internal/verifx/engine/core"
)

// ---- (d) the WebSocket adapter over a scripted frame source ------------------------------------

// RFC 6455 opcodes as handed out by a frame source.
const (
	opText   = 1
	opBinary = 2
	opClose  = 8
	opPing   = 9
	opPong   = 10
)

func isData(op int) bool { return op == opText || op == opBinary }

// frame is one message of the scripted source: its opcode, payload, how the message reader hands
// the payload out (chunk lengths) and whether io.EOF comes with the last chunk or separately.
type frame struct {
	Op          int    `json:"op"`
	Data        string `json:"data"`
	Chunks      []int  `json:"chunks"`
	EOFWithLast bool   `json:"eof_with_last_chunk"`
}

var errSourceEnd = errors.New("websocket: close 1000 (scripted end of frames)")

// frameSource is the scripted VerifFrameConn. Like gorilla's Conn, asking for the next reader
// discards what is left of the previous message.
type frameSource struct {
	frames    []frame
	readers   []msgReader
	next      int
	discarded int
	calls     int

	// write side: one entry per NextWriter
	out []*outMsg
}

type outMsg struct {
	Type   int
	Writes [][]byte
	Closed bool
	Late   bool // written to or closed after Close / after a later NextWriter
}

type msgReader struct {
	src   *frameSource
	f     *frame
	chunk int
	off   int // offset into the payload
	coff  int // offset into the current chunk
	done  bool
}

func (r *msgReader) remaining() int {
	if r.done {
		return 0
	}
	return len(r.f.Data) - r.off
}

func (r *msgReader) Read(p []byte) (int, error) {
	r.src.calls++
	if r.done || r.chunk >= len(r.f.Chunks) {
		r.done = true
		return 0, io.EOF
	}
	if len(p) == 0 {
		return 0, nil
	}
	left := r.f.Chunks[r.chunk] - r.coff
	n := copy(p, r.f.Data[r.off:r.off+left])
	r.off += n
	r.coff += n
	if r.coff == r.f.Chunks[r.chunk] {
		r.chunk++
		r.coff = 0
		if r.chunk == len(r.f.Chunks) && r.f.EOFWithLast {
			r.done = true
			return n, io.EOF
		}
	}
	return n, nil
}

func newFrameSource(frames []frame) *frameSource {
	return &frameSource{frames: frames, readers: make([]msgReader, len(frames))}
}

func (s *frameSource) reset(frames []frame) {
	s.frames = frames
	if cap(s.readers) < len(frames) {
		s.readers = make([]msgReader, len(frames))
	}
	s.readers = s.readers[:len(frames)]
	s.next, s.discarded, s.calls = 0, 0, 0
	s.out = nil
}

func (s *frameSource) NextReader() (int, io.Reader, error) {
	s.calls++
	if s.next > 0 {
		prev := &s.readers[s.next-1]
		s.discarded += prev.remaining()
		prev.done = true
	}
	if s.next >= len(s.frames) {
		return -1, nil, errSourceEnd
	}
	f := &s.frames[s.next]
	r := &s.readers[s.next]
	*r = msgReader{src: s, f: f}
	s.next++
	return f.Op, r, nil
}

type msgWriter struct {
	src *frameSource
	m   *outMsg
}

func (w *msgWriter) Write(p []byte) (int, error) {
	if w.m.Closed || w.src.out[len(w.src.out)-1] != w.m {
		w.m.Late = true
	}
	w.m.Writes = append(w.m.Writes, append([]byte(nil), p...))
	return len(p), nil
}

func (w *msgWriter) Close() error {
	if w.m.Closed {
		w.m.Late = true
	}
	w.m.Closed = true
	return nil
}

func (s *frameSource) NextWriter(mt int) (io.WriteCloser, error) {
	m := &outMsg{Type: mt}
	s.out = append(s.out, m)
	return &msgWriter{src: s, m: m}, nil
}

func (s *frameSource) Close() error                       { return nil }
func (s *frameSource) LocalAddr() net.Addr                { return tagAddr(0) }
func (s *frameSource) RemoteAddr() net.Addr               { return tagAddr(0) }
func (s *frameSource) SetReadDeadline(t time.Time) error  { return nil }
func (s *frameSource) SetWriteDeadline(t time.Time) error { return nil }

// consumer describes how the bytes are pulled out of the transport.
type consumer struct {
	Mode string `json:"consumer"`        // direct | bufio16 | bufio65536 (Read) | bufio16-readbyte | bufio65536-readbyte
	Buf  int    `json:"consumer_buffer"` // size of the Read buffer; 0 for ReadByte
}

var consumersD = []consumer{
	{"direct", 1}, {"direct", 2}, {"direct", 64},
	{"bufio16", 1}, {"bufio16", 2}, {"bufio16", 64},
	{"bufio65536", 1}, {"bufio65536", 2}, {"bufio65536", 64},
	{"bufio16-readbyte", 0}, {"bufio65536-readbyte", 0}, // mqtt.DecodePacket reads its header with ReadByte
}

type caseD struct {
	Part   string  `json:"part"`
	Frames []frame `json:"frames"`
	consumer
	Probe string `json:"probe,omitempty"` // set for cases outside the DESIGN bound (runs of empty messages)
}

// dWorker holds the reusable pieces of one enumeration goroutine.
type dWorker struct {
	src   *frameSource
	br16  *bufio.Reader
	br64k *bufio.Reader
	buf   [64]byte
	got   []byte
	calls int64
}

func newDWorker() *dWorker {
	return &dWorker{src: newFrameSource(nil), br16: bufio.NewReaderSize(bytes.NewReader(nil), 16), br64k: bufio.NewReaderSize(bytes.NewReader(nil), 65536)}
}

type byteReader interface {
	io.Reader
	ReadByte() (byte, error)
}

// pull reads the transport to its end the way the consumer says.
func (w *dWorker) pull(tr io.Reader, cons consumer, limit int) (err error, note string) {
	w.got = w.got[:0]
	var rd byteReader
	switch cons.Mode {
	case "bufio16", "bufio16-readbyte":
		w.br16.Reset(tr)
		rd = w.br16
	case "bufio65536", "bufio65536-readbyte":
		w.br64k.Reset(tr)
		rd = w.br64k
	}
	zero := 0
	if cons.Buf == 0 {
		for {
			b, e := rd.ReadByte()
			if e != nil {
				return e, ""
			}
			w.got = append(w.got, b)
			if len(w.got) > limit {
				return nil, "(runaway: more bytes than were ever sent)"
			}
		}
	}
	var r io.Reader = tr
	if rd != nil {
		r = rd
	}
	buf := w.buf[:cons.Buf]
	for {
		n, e := r.Read(buf)
		if n < 0 || n > len(buf) {
			return e, fmt.Sprintf("(Read returned n=%d for a buffer of %d)", n, len(buf))
		}
		w.got = append(w.got, buf[:n]...)
		if e != nil {
			return e, ""
		}
		if n == 0 {
			zero++
			if zero > 100000 {
				return nil, "(more than 100000 consecutive (0, nil) reads: no progress)"
			}
		} else {
			zero = 0
		}
		if len(w.got) > limit {
			return nil, "(runaway: more bytes than were ever sent)"
		}
	}
}

func describe(f *frame) string {
	switch {
	case f == nil:
		return "none"
	case !isData(f.Op):
		return "control"
	case len(f.Data) == 0:
		return "empty-message"
	case f.EOFWithLast:
		return "data:eof-with-last-chunk"
	}
	return "data:eof-separate"
}

// shapeD names where the stream went wrong: inside a message, or at the boundary after the last
// message that was delivered completely, together with the frame that follows it.
func shapeD(frames []frame, at int, cons consumer) string {
	last := -1 // index of the last non-empty data frame delivered completely
	pos := 0
	for i := range frames {
		f := &frames[i]
		if !isData(f.Op) || len(f.Data) == 0 {
			continue
		}
		if at > pos && at < pos+len(f.Data) {
			return "inside=" + describe(f)
		}
		if at < pos+len(f.Data) {
			break
		}
		pos += len(f.Data)
		last = i
	}
	after, next := "start", "end"
	if last >= 0 {
		after = describe(&frames[last])
	}
	if last+1 < len(frames) {
		next = describe(&frames[last+1])
		if strings.HasPrefix(next, "data:") {
			next = "data"
		}
	}
	return fmt.Sprintf("after=%s:next=%s", after, next)
}

func wantD(frames []frame) []byte {
	var b []byte
	for i := range frames {
		if isData(frames[i].Op) {
			b = append(b, frames[i].Data...)
		}
	}
	return b
}

// execRead replays one frame script through the real transport with one consumer.
func (w *dWorker) execRead(frames []frame, want []byte, cons consumer) (v verdict) {
	w.src.reset(frames)
	var err error
	var note string
	if p := safely(func() {
		tr := websocket.VerifNewTransport(w.src)
		err, note = w.pull(tr, cons, len(want)+64)
	}); p != "" {
		return verdict{"panic", "consumer=" + cons.Mode, "websocket read path panicked: " + p}
	}
	w.calls += int64(w.src.calls)
	got := w.got
	ended := err == errSourceEnd
	if k := classify(want, got, ended || err == io.EOF); k != "" {
		at := 0
		for at < len(got) && at < len(want) && got[at] == want[at] {
			at++
		}
		shape := shapeD(frames, at, cons)
		if err == io.ErrNoProgress {
			shape = "bufio-no-progress:" + shape
		}
		return verdict{k, shape, fmt.Sprintf("the data messages carry %q, the consumer received %q then %v %s (%d payload bytes discarded by NextReader)", want, got, err, note, w.src.discarded)}
	}
	if err == nil {
		// every byte arrived but the consumer never learns that the connection ended
		return verdict{"missing-eof", shapeD(frames, len(want), cons), "all bytes delivered, then the transport stopped making progress without reporting the end of the connection " + note}
	}
	// all bytes delivered, in order, once; whichever error ends the stream afterwards is not
	// constrained by the statement (the scripted source ends with a close error)
	return verdict{}
}

// chunkings of a message of m bytes into at most 3 reader chunks.
func chunkings(m int) [][]int {
	if m == 0 {
		return [][]int{nil}
	}
	out := [][]int{{m}}
	for i := 1; i < m; i++ {
		out = append(out, []int{i, m - i})
	}
	for i := 1; i < m; i++ {
		for j := i + 1; j < m; j++ {
			out = append(out, []int{i, j - i, m - j})
		}
	}
	return out
}

// the frames that may be inserted between (before, after) the data messages
var insertable = []frame{
	{Op: opBinary}, // empty binary message
	{Op: opText},   // empty text message
	{Op: opPing, Data: "!!", Chunks: []int{2}}, // control frames: their payload must never reach the stream
	{Op: opPong, Data: "?", Chunks: []int{1}},  //
	{Op: opClose, Data: "##", Chunks: []int{2}, EOFWithLast: true},
}

type jobD struct {
	idx     int
	n       int
	mask    int
	variant int // 0: all binary, no insertions; 1: text/binary alternating, with insertions
	maxIns  int
}

const streamD = "abcdefgh"

func (w *dWorker) runJobD(c *core.Ctx, ag *agg, j jobD, deadline time.Time) (complete bool) {
	lens := compositionLens(j.n, j.mask)
	k := len(lens)
	want := []byte(streamD[:j.n])
	base := make([]frame, k)
	scratch := make([]frame, 0, k+2)
	var cases int64
	var seq int64
	complete = true
	startCalls := w.calls

	visit := func(frames []frame) {
		for _, cons := range consumersD {
			v := w.execRead(frames, want, cons)
			cases++
			seq++
			if !v.ok() {
				ord := int64(j.idx)<<40 | seq
				ag.add("websocket-read:"+v.Kind+":"+v.Shape, v.What, ord, func() interface{} {
					return caseD{Part: "d-read", Frames: cloneFrames(frames), consumer: cons}
				})
			}
		}
	}
	insertions := func() {
		visit(base)
		if j.maxIns < 1 {
			return
		}
		for p1 := 0; p1 <= k; p1++ {
			for t1 := range insertable {
				scratch = scratch[:0]
				scratch = append(scratch, base[:p1]...)
				scratch = append(scratch, insertable[t1])
				scratch = append(scratch, base[p1:]...)
				visit(scratch)
			}
		}
		if j.maxIns < 2 {
			return
		}
		for p1 := 0; p1 <= k; p1++ {
			for p2 := p1; p2 <= k; p2++ {
				for t1 := range insertable {
					for t2 := range insertable {
						scratch = scratch[:0]
						scratch = append(scratch, base[:p1]...)
						scratch = append(scratch, insertable[t1])
						scratch = append(scratch, base[p1:p2]...)
						scratch = append(scratch, insertable[t2])
						scratch = append(scratch, base[p2:]...)
						visit(scratch)
					}
				}
			}
		}
	}
	var rec func(i, off int)
	rec = func(i, off int) {
		if !complete {
			return
		}
		if i == k {
			if time.Now().After(deadline) {
				complete = false
				return
			}
			insertions()
			return
		}
		op := opBinary
		if j.variant == 1 && i%2 == 0 {
			op = opText
		}
		for _, ch := range chunkings(lens[i]) {
			for e := 0; e < 2; e++ {
				base[i] = frame{Op: op, Data: streamD[off : off+lens[i]], Chunks: ch, EOFWithLast: e == 1}
				rec(i+1, off+lens[i])
			}
		}
	}
	rec(0, 0)
	c.Add("cases_websocket_read", cases)
	c.Add("adapter_calls", w.calls-startCalls)
	return complete
}

func cloneFrames(f []frame) []frame { return append([]frame(nil), f...) }

func partD(c *core.Ctx, ag *agg, deadline time.Time) {
	// bounds: stream length, and up to which length one / two extra frames are inserted
	maxN, ins1N, ins2N := 8, 7, 6
	if !c.Quick() {
		maxN, ins1N, ins2N = 8, 8, 8
	}
	var jobs []jobD
	for n := 0; n <= maxN; n++ {
		for mask := 0; mask < numCompositions(n); mask++ {
			for variant := 0; variant < 2; variant++ {
				ins := 0
				if variant == 1 {
					switch {
					case n <= ins2N:
						ins = 2
					case n <= ins1N:
						ins = 1
					}
				}
				jobs = append(jobs, jobD{len(jobs), n, mask, variant, ins})
			}
		}
	}
	ch := make(chan jobD)
	var wg sync.WaitGroup
	var skipped atomic.Int64
	for i := 0; i < workers(); i++ {
		wg.Add(1)
		go func() {
			defer wg.Done()
			w := newDWorker()
			for j := range ch {
				if time.Now().After(deadline) || !w.runJobD(c, ag, j, deadline) {
					skipped.Add(1)
				}
			}
		}()
	}
	for _, j := range jobs {
		ch <- j
	}
	close(ch)
	wg.Wait()
	if n := skipped.Load(); n > 0 {
		c.NotExhaustive(fmt.Sprintf("part (d): time cap, %d of %d (length, message composition, opcode pattern) jobs not completed", n, len(jobs)))
	}
	c.Set("websocket_max_stream_len", maxN)
	c.Set("websocket_two_insertions_up_to_len", ins2N)
	c.Set("websocket_one_insertion_up_to_len", ins1N)
	c.Set("websocket_opcodes_skipped_by_transport", "every opcode other than text(1)/binary(2); enumerated: close(8), ping(9), pong(10)")

	w := newDWorker()
	// a sample with what the implementation did
	sf := []frame{{Op: opText, Data: "abc", Chunks: []int{1, 2}, EOFWithLast: true}, {Op: opPing, Data: "!!", Chunks: []int{2}}, {Op: opBinary}, {Op: opBinary, Data: "de", Chunks: []int{2}}}
	sv := w.execRead(sf, wantD(sf), consumer{"bufio16-readbyte", 0})
	c.Sample(map[string]interface{}{"case": caseD{Part: "d-read", Frames: sf, consumer: consumer{"bufio16-readbyte", 0}}, "bytes_read": string(w.got), "verdict": sv.Kind})

	// probe beyond the DESIGN bound (<= 2 inserted frames): long runs of empty messages. Every empty
	// message surfaces as one (0, nil) Read; bufio gives up after 100 of those in a row.
	for _, run := range []int{3, 50, 98, 99, 100, 101, 150} {
		for _, withLast := range []bool{true, false} {
			frames := []frame{{Op: opBinary, Data: "ab", Chunks: []int{2}, EOFWithLast: withLast}}
			for i := 0; i < run; i++ {
				frames = append(frames, frame{Op: opBinary})
			}
			frames = append(frames, frame{Op: opBinary, Data: "cd", Chunks: []int{2}, EOFWithLast: withLast})
			for ci, cons := range consumersD {
				v := w.execRead(frames, []byte("abcd"), cons)
				c.Add("cases_websocket_read", 1)
				c.Add("cases_websocket_probe_empty_runs", 1)
				if !v.ok() {
					cons := cons
					ag.add("websocket-read:"+v.Kind+":"+probeShape(v, cons, frames), v.What+fmt.Sprintf(" [%d empty messages in a row; outside the DESIGN bound of <= 2 inserted frames]", run),
						int64(1)<<60|int64(run)<<8|int64(ci), func() interface{} {
							return caseD{Part: "d-read", Frames: cloneFrames(frames), consumer: cons, Probe: "empty-run"}
						})
				}
			}
		}
	}
	c.Add("adapter_calls", w.calls)

	partDWrite(c, ag)
	if !c.Quick() {
		partGorilla(c, ag, deadline)
	}
}

// probeShape keeps the out-of-bound probe under its own, small set of signatures.
func probeShape(v verdict, cons consumer, frames []frame) string {
	run, best := 0, 0
	for i := range frames {
		if isData(frames[i].Op) && len(frames[i].Data) == 0 {
			run++
			if run > best {
				best = run
			}
		} else {
			run = 0
		}
	}
	if best < 98 {
		return v.Shape // fails well below bufio's limit: an ordinary finding
	}
	mode := "direct"
	if strings.HasPrefix(cons.Mode, "bufio") {
		mode = "bufio"
	}
	if cons.Buf > 0 {
		mode += "-read"
	} else {
		mode += "-readbyte"
	}
	if v.Kind == "lost" || v.Kind == "missing-eof" {
		// one (0, nil) Read per empty message (+ one for a message end reported separately)
		return "out-of-bound-probe:100-consecutive-zero-length-reads:consumer=" + mode
	}
	return "out-of-bound-probe:run-of-empty-messages:consumer=" + mode
}

func replayDRead(c *core.Ctx, ag *agg, raw json.RawMessage) {
	var cs caseD
	if err := json.Unmarshal(raw, &cs); err != nil {
		core.HarnessFailure("C17 replay: %v", err)
	}
	okCons := false
	for _, k := range consumersD {
		okCons = okCons || k == cs.consumer
	}
	for i := range cs.Frames {
		sum := 0
		for _, n := range cs.Frames[i].Chunks {
			if n <= 0 {
				okCons = false
			}
			sum += n
		}
		if sum != len(cs.Frames[i].Data) {
			okCons = false
		}
	}
	if !okCons {
		core.HarnessFailure("C17 replay: malformed websocket case")
	}
	w := newDWorker()
	v := w.execRead(cs.Frames, wantD(cs.Frames), cs.consumer)
	c.Add("cases_websocket_read", 1)
	if !v.ok() {
		shape := v.Shape
		if cs.Probe != "" {
			shape = probeShape(v, cs.consumer, cs.Frames)
		}
		ag.add("websocket-read:"+v.Kind+":"+shape, v.What, 0, func() interface{} { return cs })
	}
}

// ---- writes: one binary message per Write ----------------------------------------------------

type caseDW struct {
	Part   string `json:"part"`
	Writes []int  `json:"write_lengths"`
}

func payloadDW(i, n int) []byte {
	b := make([]byte, n)
	for j := range b {
		b[j] = byte('A' + (7*i+j)%26)
	}
	return b
}

func execDWrite(cs caseDW) (v verdict, calls int) {
	src := newFrameSource(nil)
	if p := safely(func() {
		tr := websocket.VerifNewTransport(src)
		for i, n := range cs.Writes {
			p := payloadDW(i, n)
			got, err := tr.Write(p)
			calls++
			shape := "len=" + lenClass(n)
			if err != nil {
				v = verdict{"lost", shape + ":write-error", fmt.Sprintf("Write %d failed on a healthy connection: %v", i, err)}
				return
			}
			if len(src.out) != i+1 {
				k := "lost"
				if len(src.out) > i+1 {
					k = "duplicated"
				}
				v = verdict{k, shape + ":message-count", fmt.Sprintf("after %d writes the connection carries %d messages", i+1, len(src.out))}
				return
			}
			m := src.out[i]
			var body []byte
			for _, wr := range m.Writes {
				body = append(body, wr...)
			}
			switch {
			case m.Type != opBinary:
				v = verdict{"byte-mismatch", shape + ":message-type", fmt.Sprintf("Write %d was sent as message type %d, not binary", i, m.Type)}
			case !m.Closed || m.Late:
				v = verdict{"lost", shape + ":message-not-closed", fmt.Sprintf("the message of Write %d was not completed before Write returned (closed=%v late=%v)", i, m.Closed, m.Late)}
			case !bytes.Equal(body, p):
				v = verdict{classifyNonEmpty(p, body), shape + ":message-body", fmt.Sprintf("Write %d of %q produced the message %q", i, p, body)}
			case got != len(p):
				v = verdict{"byte-mismatch", shape + ":return-value", fmt.Sprintf("Write %d of %d bytes returned n=%d", i, len(p), got)}
			}
			if !v.ok() {
				return
			}
		}
	}); p != "" {
		v = verdict{"panic", "write", "websocket write path panicked: " + p}
	}
	return
}

func classifyNonEmpty(want, got []byte) string {
	if k := classify(want, got, false); k != "" {
		return k
	}
	return "byte-mismatch"
}

func lenClass(n int) string {
	switch {
	case n == 0:
		return "0"
	case n < 126:
		return "small"
	case n < 65536:
		return "medium"
	}
	return "large"
}

func partDWrite(c *core.Ctx, ag *agg) {
	lens := []int{0, 1, 3, 125, 126, 70000}
	var ord int64
	var cases, calls int64
	// shortest sequences first
	for depth := 1; depth <= 3; depth++ {
		var gen func(cur []int)
		gen = func(cur []int) {
			if len(cur) == depth {
				cs := caseDW{Part: "d-write", Writes: append([]int(nil), cur...)}
				v, n := execDWrite(cs)
				ord++
				cases++
				calls += int64(n)
				if !v.ok() {
					ag.add("websocket-write:"+v.Kind+":"+v.Shape, v.What, ord, func() interface{} { return cs })
				}
				return
			}
			for _, l := range lens {
				gen(append(cur, l))
			}
		}
		gen(nil)
	}
	c.Add("cases_websocket_write", cases)
	c.Add("adapter_calls", calls)
	c.Sample(map[string]interface{}{"case": caseDW{Part: "d-write", Writes: []int{3, 0, 126}}, "rule": "each Write = exactly one completed binary message with the same bytes, n == len(p)"})
}

func replayDWrite(c *core.Ctx, ag *agg, raw json.RawMessage) {
	var cs caseDW
	if err := json.Unmarshal(raw, &cs); err != nil {
		core.HarnessFailure("C17 replay: %v", err)
	}
	v, _ := execDWrite(cs)
	c.Add("cases_websocket_write", 1)
	if !v.ok() {
		ag.add("websocket-write:"+v.Kind+":"+v.Shape, v.What, 0, func() interface{} { return cs })
	}
}
