// Package c07: messages are retained and replayed exactly as requested.
// Explicit-state search over publish histories on a real broker with the in-memory history
// store; in every state a set of subscribe probes (fresh client each) checks the replay.
package c07

import (
	"crypto/sha1"
	"encoding/json"
	"fmt"
	"net"
	"sort"
	"strings"
	"sync/atomic"
	"time"

	"github.com/emitter-io/emitter/internal/message"
	"github.com/emitter-io/emitter/internal/security"
	"github.com/emitter-io/emitter/internal/verifx/engine/brokerx"
	"github.com/emitter-io/emitter/internal/verifx/engine/core"
	"github.com/emitter-io/emitter/internal/verifx/engine/refmodel"
	"github.com/emitter-io/emitter/internal/verifx/engine/session"
	"github.com/emitter-io/emitter/internal/verifx/engine/xstate"
)

func init() {
	core.Register(&core.Check{ID: "C07", Level: "model_checking", Run: run, Replay: replay})
}

const retention = 7777 // configured retention period (distinguishable from every requested ttl)
const reqTTL = 100000
const wideTTL = 3000000000 // >= 2^31, < 2^32-1 (the latter is the retain marker)

func ttlOf(mode string) uint32 {
	if strings.Contains(mode, "wide") {
		return wideTTL
	}
	return reqTTL
}

type opDesc struct {
	Kind  string // pub will
	Ch    string
	Mode  string // plain retain ttl retain+ttl
	Store bool   // key has the store permission
}

func (o opDesc) String() string {
	k := "nostore"
	if o.Store {
		k = "store"
	}
	return fmt.Sprintf("%s(%s,%s,%s)", o.Kind, o.Ch, o.Mode, k)
}

func alphabet() []opDesc {
	var ops []opDesc
	for _, ch := range []string{"a/", "a/b/"} {
		for _, m := range []string{"plain", "retain", "ttl", "retain+ttl", "ttl0", "retain+ttl0"} {
			for _, st := range []bool{true, false} {
				ops = append(ops, opDesc{"pub", ch, m, st})
			}
		}
	}
	// a message near the size limit: the store path, the reply-size cap and the replay must cope with it
	ops = append(ops, opDesc{"pub", "a/b/", "retain+ttl+big", true})
	// a ttl in the upper half of the 32-bit range the message's ttl field can hold
	ops = append(ops, opDesc{"pub", "a/", "ttl+wide", true})
	ops = append(ops, opDesc{"will", "a/", "retain", true}, opDesc{"will", "a/", "retain", false}, opDesc{"will", "a/b/", "plain", true})
	return ops
}

// bigPayload: above the usual buffer thresholds (4 KiB, 8 KiB), small enough that six of them stay below the 64 KiB
// reply-size cap of a history query (that cap is C06's subject; the deepest history here has six publishes)
const bigPayload = 10000

// short abbreviates a padded payload to "<head>..#<length>" so that comparisons stay exact and messages readable.
func short(p string) string {
	if len(p) <= 64 {
		return p
	}
	return fmt.Sprintf("%s..#%d:%x", p[:8], len(p), sha1.Sum([]byte(p)))
}

type stored struct {
	Ch      string
	Payload string
	TTL     uint32
}

type probe struct {
	F      string
	Last   string // "" default
	Load   bool
	Window string // "", "none-match", "all-match"
}

func probes() []probe {
	var ps []probe
	for _, f := range []string{"a/", "a/b/", "a/+/", "b/"} {
		for _, l := range []string{"", "0", "2", "5000"} {
			ps = append(ps, probe{F: f, Last: l, Load: true})
		}
		ps = append(ps, probe{F: f, Last: "2", Load: false})
		ps = append(ps, probe{F: f, Last: "", Load: false})
		ps = append(ps, probe{F: f, Last: "5000", Load: true, Window: "none-match"})
		ps = append(ps, probe{F: f, Last: "5000", Load: true, Window: "all-match"})
	}
	return ps
}

// wenv is reused by all paths of one worker: every path works under its own first channel level,
// so the messages stored by earlier paths never match the filters of a later one.
type wenv struct {
	env                         *brokerx.Env
	pub, sub                    *session.Client
	kStore, kNo, kLoad, kNoLoad string
}

var runCounter int64

func newWenv() *wenv {
	w := &wenv{}
	w.env = brokerx.MustNew(brokerx.Options{Storage: "inmemory", StorageRetain: retention})
	rw := security.AllowRead | security.AllowWrite
	w.kStore = w.env.MustKey("#/", rw|security.AllowStore)
	w.kNo = w.env.MustKey("#/", rw)
	w.kLoad = w.env.MustKey("#/", security.AllowRead|security.AllowLoad)
	w.kNoLoad = w.env.MustKey("#/", security.AllowRead)
	w.pub = session.NewClient("P", func(c net.Conn) { w.env.Svc.VerifAttach(c) })
	w.sub = session.NewClient("S", func(c net.Conn) { w.env.Svc.VerifAttach(c) })
	if !w.pub.Connect(session.ConnectOpts{ClientID: "pub"}) || !w.sub.Connect(session.ConnectOpts{ClientID: "sub"}) {
		panic("CONNECT not acknowledged")
	}
	return w
}

type inst struct {
	env     *brokerx.Env
	w       *wenv
	pfx     string
	ops     []opDesc
	pub     *session.Client
	kStore  string // rw + store
	kNo     string // rw only
	kLoad   string // r + load
	kNoLoad string // r only
	model   []stored
	seq     int
	hist    []opDesc
	pending string
	pwhat   string
}

func newInst(w *wenv, ops []opDesc) *inst {
	in := &inst{ops: ops, w: w, env: w.env, pub: w.pub}
	in.kStore, in.kNo, in.kLoad, in.kNoLoad = w.kStore, w.kNo, w.kLoad, w.kNoLoad
	in.pfx = fmt.Sprintf("r%d/", atomic.AddInt64(&runCounter, 1))
	return in
}

func (in *inst) fail(s, w string) {
	if in.pending == "" {
		in.pending, in.pwhat = s, w
	}
}

func (in *inst) Enabled() []int {
	out := make([]int, len(in.ops))
	for i := range out {
		out[i] = i
	}
	return out
}

func (in *inst) Apply(i int) {
	o := in.ops[i]
	in.hist = append(in.hist, o)
	in.seq++
	payload := fmt.Sprintf("m%d", in.seq)
	if strings.Contains(o.Mode, "big") {
		payload += strings.Repeat("#", bigPayload)
	}
	key := in.kNo
	if o.Store {
		key = in.kStore
	}
	retain := strings.Contains(o.Mode, "retain")
	ttl := strings.Contains(o.Mode, "ttl") && !strings.Contains(o.Mode, "ttl0")
	ttl0 := strings.Contains(o.Mode, "ttl0") // an explicit ttl=0 is not a positive ttl: only the retain flag counts
	switch o.Kind {
	case "pub":
		topic := key + "/" + in.pfx + o.Ch
		if ttl {
			topic += fmt.Sprintf("?ttl=%d", ttlOf(o.Mode))
		}
		if ttl0 {
			topic += "?ttl=0"
		}
		if !in.pub.Publish(topic, []byte(payload), retain) {
			in.fail("no-puback", "publish not acknowledged")
			return
		}
		for _, p := range in.pub.Drain() {
			if p.Type == session.PUBLISH && p.Topic == "emitter/error/" {
				in.fail("valid-publish-error", string(p.Payload))
			}
		}
	case "will":
		t := session.NewClient("T", func(c net.Conn) { in.env.Svc.VerifAttach(c) })
		if !t.Connect(session.ConnectOpts{ClientID: "t", HasWill: true, WillTopic: key + "/" + in.pfx + o.Ch, WillMessage: payload, WillRetain: retain}) {
			in.fail("no-connack", "CONNECT not acknowledged")
			return
		}
		if !t.Abort() {
			in.fail("no-close", "connection not closed")
			return
		}
	}
	if o.Store && (retain || ttl) {
		want := uint32(retention)
		if ttl {
			want = ttlOf(o.Mode)
		}
		in.model = append(in.model, stored{Ch: o.Ch, Payload: payload, TTL: want})
	}
}

func (in *inst) expected(p probe) []string {
	if !p.Load || p.Window == "none-match" {
		return nil
	}
	n := 1
	if p.Last != "" {
		fmt.Sscan(p.Last, &n)
	}
	var match []string
	for _, m := range in.model {
		if refmodel.MatchEmitter(refmodel.Levels(p.F), refmodel.Levels(m.Ch)) {
			match = append(match, in.pfx+m.Ch+"="+short(m.Payload))
		}
	}
	if len(match) > n {
		match = match[len(match)-n:]
	}
	return match
}

func (in *inst) runProbe(p probe) (string, string) {
	key := in.kNoLoad
	if p.Load {
		key = in.kLoad
	}
	topic := key + "/" + in.pfx + p.F
	var opts []string
	if p.Last != "" {
		opts = append(opts, "last="+p.Last)
	}
	now := time.Now().Unix()
	switch p.Window {
	case "none-match":
		opts = append(opts, fmt.Sprintf("from=%d", security.MinTime+100), fmt.Sprintf("until=%d", security.MinTime+200))
	case "all-match":
		opts = append(opts, fmt.Sprintf("from=%d", now-3600), fmt.Sprintf("until=%d", now+3600))
	}
	if len(opts) > 0 {
		topic += "?" + strings.Join(opts, "&")
	}
	s := in.w.sub
	s.Drain()
	defer func() {
		s.Unsubscribe(key + "/" + in.pfx + p.F) // restores the state: the probe leaves nothing behind
		s.Drain()
	}()
	// the subscription is requested twice in a row: the second SUBSCRIBE of a filter the connection
	// already holds is accepted as well, so it is owed the same replay
	for attempt, msgID := range []uint16{7, 8} {
		s.Send(session.EncSubscribe(msgID, topic))
		if !s.Await(func(q session.Packet) bool { return q.Type == session.SUBACK && q.MsgID == msgID }) {
			return "no-suback", "subscribe not acknowledged: " + topic
		}
		// everything before the SUBACK is the replay
		var before []string
		seenAck := false
		for _, q := range s.Drain() {
			if q.Type == session.SUBACK {
				if len(q.Codes) != 1 || q.Codes[0] == 0x80 {
					return "valid-subscribe-refused", fmt.Sprintf("subscribe %s refused", strings.Replace(topic, key, "KEY", 1))
				}
				seenAck = true
				continue
			}
			if q.Type != session.PUBLISH {
				return "unexpected-packet", fmt.Sprint(q)
			}
			if seenAck {
				return "replay-after-suback", fmt.Sprintf("stored message %s=%s arrived after the SUBACK", q.Topic, q.Payload)
			}
			before = append(before, q.Topic+"="+short(string(q.Payload)))
		}
		want := in.expected(p)
		g, w := append([]string(nil), before...), append([]string(nil), want...)
		sort.Strings(g)
		sort.Strings(w)
		if strings.Join(g, ",") != strings.Join(w, ",") {
			kind := "wrong-replay"
			switch {
			case !p.Load && len(g) > 0:
				kind = "replay-without-load-permission"
			case len(g) < len(w):
				kind = "missing-replay"
			case len(g) > len(w):
				kind = "extra-replay"
			}
			if attempt == 1 {
				kind += ":resubscribe"
			}
			return fmt.Sprintf("%s:last=%s:window=%s:load=%v", kind, p.Last, p.Window, p.Load), fmt.Sprintf("subscribe #%d to %s (last=%q window=%q load=%v) replayed %v, expected %v (stored: %v)", attempt+1, p.F, p.Last, p.Window, p.Load, before, want, in.model)
		}
	}
	// a live message arrives (after the SUBACK) when the filter matches
	in.seq++
	live := fmt.Sprintf("live%d", in.seq)
	if !in.pub.Publish(in.kNo+"/"+in.pfx+"a/b/", []byte(live), false) {
		return "no-puback", "live publish not acknowledged"
	}
	in.pub.Drain()
	got := 0
	for _, q := range s.Drain() {
		if q.Type == session.PUBLISH && string(q.Payload) == live {
			got++
		} else {
			return "unexpected-after-suback", fmt.Sprint(q)
		}
	}
	wantLive := 0
	if refmodel.MatchEmitter(refmodel.Levels(p.F), []string{"a", "b"}) {
		wantLive = 1
	}
	if got != wantLive {
		return "live-delivery", fmt.Sprintf("live message delivered %d times to a subscriber of %s", got, p.F)
	}
	return "", ""
}

func (in *inst) Check() (string, string) {
	if in.pending != "" {
		return in.sig(in.pending), in.pwhat
	}
	// the store holds exactly the modelled messages, each once, with channel and ttl as requested
	var got, want []string
	for _, ch := range []string{"a/"} { // a/ is a prefix of every stored channel
		c := security.ParseChannel([]byte("k/" + in.pfx + ch))
		ssid := message.NewSsid(in.env.License.Contract(), c.Query)
		fr, err := in.env.Svc.VerifStorage().Query(ssid, time.Unix(0, 0), time.Unix(0, 0), nil, 1000)
		if err != nil {
			return in.sig("store-query-error"), err.Error()
		}
		for _, m := range fr {
			got = append(got, fmt.Sprintf("%s=%s ttl=%d contract=%d", m.Channel, short(string(m.Payload)), m.TTL, m.Contract()))
		}
	}
	for _, m := range in.model {
		want = append(want, fmt.Sprintf("%s=%s ttl=%d contract=%d", in.pfx+m.Ch, short(m.Payload), m.TTL, in.env.License.Contract()))
	}
	sort.Strings(got)
	sort.Strings(want)
	if strings.Join(got, ";") != strings.Join(want, ";") {
		kind := "store-content"
		if len(got) > len(want) {
			kind = "stored-without-request-or-permission"
		} else if len(got) < len(want) {
			kind = "not-stored"
		}
		return in.sig(kind), fmt.Sprintf("history holds %v, expected %v", got, want)
	}
	for _, p := range probes() {
		if s, w := in.runProbe(p); s != "" {
			return in.sig(s), w
		}
	}
	return "", ""
}

func (in *inst) sig(kind string) string {
	var hs []string
	for _, o := range in.hist {
		hs = append(hs, o.String())
	}
	if len(hs) > 3 {
		hs = hs[len(hs)-3:]
	}
	return kind + ":" + strings.Join(hs, ",")
}

func (in *inst) Key() string {
	return fmt.Sprintf("%v|%d", in.model, in.env.Svc.VerifTrie().Count())
}

func (in *inst) Close() {
	if in.env.Svc.VerifTrie().Count() != 0 {
		in.w.renew()
	}
}

func (w *wenv) renew() {
	w.env.Close()
	*w = *newWenv()
}

func run(c *core.Ctx) {
	runNodes(c)
	c.Assume("part (nodes): two pubsub services over in-memory stores whose cluster survey is answered by the other store's real OnSurvey (no mesh transport); messages one second apart (ids carry the wall-clock second)")
	ops := alphabet()
	names := make([]string, len(ops))
	for i, o := range ops {
		names[i] = o.String()
	}
	depth := 4
	if !c.Quick() {
		depth = 6
	}
	n := core.NumWorkers()
	envs := make([]*wenv, n)
	spec := &xstate.Spec{Name: "c07", Alphabet: names, Depth: depth, Workers: n, Deadline: c.Deadline,
		New: func(w int) xstate.Instance {
			if envs[w] == nil {
				envs[w] = newWenv()
			}
			return newInst(envs[w], ops)
		}}
	res := xstate.Run(spec)
	for _, e := range envs {
		if e != nil {
			e.env.Close()
		}
	}
	c.Set("states", res.States)
	c.Set("transitions", res.Transitions)
	c.Set("traces_validated_against_impl", res.Replays)
	c.Set("depth_completed", res.DepthCompleted)
	c.Set("alphabet", len(ops))
	c.Set("subscribe_probes_per_state", len(probes()))
	if !res.Exhaustive {
		c.NotExhaustive(fmt.Sprintf("time cap at depth %d (%d frontier states unexpanded)", res.DepthCompleted, res.FrontierLeft))
	}
	for _, p := range res.SamplePaths {
		c.Sample(map[string]interface{}{"history": p})
	}
	for _, f := range res.Violations {
		c.Violate(f.Sig, f.What+" | history: "+strings.Join(f.Path, ", "), map[string]interface{}{"ops": f.Ops, "history": f.Path})
	}
	c.Assume("all messages of a history are stored within a few seconds; ttl values are >= 7777 s so nothing expires during a run")
	c.Assume("in-memory (badger InMemory) history provider; the disk provider shares the code path and is covered by C06/C15")
}

func replay(c *core.Ctx, raw json.RawMessage) {
	var cs struct {
		Ops []int `json:"ops"`
	}
	json.Unmarshal(raw, &cs)
	var nc nodesCase
	if json.Unmarshal(raw, &nc) == nil && nc.Part == "nodes" {
		runNodes(c)
		return
	}
	w := newWenv()
	defer w.env.Close()
	in := newInst(w, alphabet())
	for _, o := range cs.Ops {
		in.Apply(o)
	}
	if s, w := in.Check(); s != "" {
		c.Violate(s, w, cs)
	}
	in.Close()
}
