package session

import (
	"encoding/json"
	"fmt"
	"net"
	"time"

	"github.com/emitter-io/emitter/internal/verifx/engine/memconn"
)

// Attacher attaches a transport to a broker.
type Attacher func(net.Conn)

// Timeout is the hang detector for acknowledgements (generous; a normal round trip takes microseconds).
var Timeout = 120 * time.Second

// Client is one scripted client.
type Client struct {
	Name   string
	Conn   *memconn.Conn
	nextID uint16
	Inbox  []Packet // packets received and not consumed by the harness
	Err    error    // first protocol error seen in the broker's output
}

// NewClient attaches a fresh connection.
func NewClient(name string, attach Attacher) *Client {
	c := &Client{Name: name, Conn: memconn.New(), nextID: 1}
	attach(c.Conn)
	return c
}

func (c *Client) id() uint16 {
	c.nextID++
	if c.nextID == 0 {
		c.nextID = 1
	}
	return c.nextID
}

// Send feeds raw bytes.
func (c *Client) Send(b []byte) { c.Conn.Feed(b) }

// pump parses everything buffered; returns false when the broker closed and nothing is left.
func (c *Client) pump() {
	for {
		buf := c.Conn.Peek()
		if len(buf) == 0 {
			return
		}
		p, n, err := Decode(buf)
		if err == ErrShort {
			return
		}
		if err != nil {
			if c.Err == nil {
				c.Err = fmt.Errorf("broker output unparsable: %v (% x)", err, head(buf, 32))
			}
			c.Conn.Take(0)
			return
		}
		c.Conn.Take(n)
		c.Inbox = append(c.Inbox, p)
	}
}

func head(b []byte, n int) []byte {
	if len(b) > n {
		return b[:n]
	}
	return b
}

// Await waits until a packet satisfying pred is in the inbox; it returns false on timeout/close.
func (c *Client) Await(pred func(Packet) bool) bool {
	deadline := time.Now().Add(Timeout)
	for {
		c.pump()
		for _, p := range c.Inbox {
			if pred(p) {
				return true
			}
		}
		if c.Err != nil {
			return false
		}
		if c.Conn.IsClosed() {
			c.pump()
			for _, p := range c.Inbox {
				if pred(p) {
					return true
				}
			}
			return false
		}
		if time.Now().After(deadline) {
			return false
		}
		c.Conn.WaitOut(1, 50*time.Millisecond)
	}
}

// Drain parses what is buffered and returns and clears the inbox.
func (c *Client) Drain() []Packet {
	c.pump()
	out := c.Inbox
	c.Inbox = nil
	return out
}

// Connect sends CONNECT and waits for CONNACK.
func (c *Client) Connect(o ConnectOpts) bool {
	c.Send(EncConnect(o))
	ok := c.Await(func(p Packet) bool { return p.Type == CONNACK })
	c.remove(func(p Packet) bool { return p.Type == CONNACK })
	return ok
}

func (c *Client) remove(pred func(Packet) bool) {
	var keep []Packet
	removed := false
	for _, p := range c.Inbox {
		if !removed && pred(p) {
			removed = true
			continue
		}
		keep = append(keep, p)
	}
	c.Inbox = keep
}

// Subscribe sends SUBSCRIBE and waits for the SUBACK; returns the granted code and whether acked.
func (c *Client) Subscribe(topic string) (code byte, acked bool) {
	id := c.id()
	c.Send(EncSubscribe(id, topic))
	var got Packet
	acked = c.Await(func(p Packet) bool {
		if p.Type == SUBACK && p.MsgID == id {
			got = p
			return true
		}
		return false
	})
	c.remove(func(p Packet) bool { return p.Type == SUBACK && p.MsgID == id })
	if acked && len(got.Codes) > 0 {
		code = got.Codes[0]
	}
	return
}

// SubscribeMulti sends one SUBSCRIBE packet with several topics and returns the granted codes.
func (c *Client) SubscribeMulti(topics ...string) (codes []byte, acked bool) {
	id := c.id()
	c.Send(EncSubscribe(id, topics...))
	var got Packet
	acked = c.Await(func(p Packet) bool {
		if p.Type == SUBACK && p.MsgID == id {
			got = p
			return true
		}
		return false
	})
	c.remove(func(p Packet) bool { return p.Type == SUBACK && p.MsgID == id })
	return got.Codes, acked
}

// UnsubscribeMulti sends one UNSUBSCRIBE packet with several topics and waits for the UNSUBACK.
func (c *Client) UnsubscribeMulti(topics ...string) bool {
	id := c.id()
	c.Send(EncUnsubscribe(id, topics...))
	ok := c.Await(func(p Packet) bool { return p.Type == UNSUBACK && p.MsgID == id })
	c.remove(func(p Packet) bool { return p.Type == UNSUBACK && p.MsgID == id })
	return ok
}

// Unsubscribe sends UNSUBSCRIBE and waits for UNSUBACK.
func (c *Client) Unsubscribe(topic string) bool {
	id := c.id()
	c.Send(EncUnsubscribe(id, topic))
	ok := c.Await(func(p Packet) bool { return p.Type == UNSUBACK && p.MsgID == id })
	c.remove(func(p Packet) bool { return p.Type == UNSUBACK && p.MsgID == id })
	return ok
}

// Publish sends a QoS-1 PUBLISH and waits for the PUBACK (the broker acknowledges after it
// has handed the message to every subscriber, so the ack is a delivery barrier).
func (c *Client) Publish(topic string, payload []byte, retain bool) bool {
	id := c.id()
	c.Send(EncPublish(topic, payload, 1, retain, id))
	ok := c.Await(func(p Packet) bool { return p.Type == PUBACK && p.MsgID == id })
	c.remove(func(p Packet) bool { return p.Type == PUBACK && p.MsgID == id })
	return ok
}

// Request publishes to emitter/<name>/ and returns the first response publish on that topic.
func (c *Client) Request(name string, body interface{}) (Packet, bool) {
	b, _ := json.Marshal(body)
	id := c.id()
	topic := "emitter/" + name + "/"
	c.Send(EncPublish(topic, b, 1, false, id))
	ok := c.Await(func(p Packet) bool { return p.Type == PUBACK && p.MsgID == id })
	c.remove(func(p Packet) bool { return p.Type == PUBACK && p.MsgID == id })
	if !ok {
		return Packet{}, false
	}
	// the response (or an emitter/error/) is written before the PUBACK
	for i, p := range c.Inbox {
		if p.Type == PUBLISH && (p.Topic == topic || p.Topic == "emitter/error/") {
			c.Inbox = append(c.Inbox[:i:i], c.Inbox[i+1:]...)
			return p, true
		}
	}
	return Packet{}, false
}

// Disconnect sends DISCONNECT and waits for the broker to close the socket.
func (c *Client) Disconnect() bool {
	c.Send(EncDisconnect())
	return c.WaitClosed()
}

// Abort closes the client side abruptly and waits for the broker to close the socket.
func (c *Client) Abort() bool {
	c.Conn.CloseClient(false)
	return c.WaitClosed()
}

// WaitClosed waits for the broker-side Close.
func (c *Client) WaitClosed() bool {
	select {
	case <-c.Conn.Closed():
		return true
	case <-time.After(Timeout):
		return false
	}
}

// Publishes filters the PUBLISH packets of a packet list.
func Publishes(ps []Packet) []Packet {
	var out []Packet
	for _, p := range ps {
		if p.Type == PUBLISH {
			out = append(out, p)
		}
	}
	return out
}
