// Package c04: replicated cluster state converges regardless of delivery order.
//
// Explicit-state search (engine/xstate) over histories of add / del / merge on three replicas of
// the REAL last-write-wins sets (crdt.Volatile, crdt.Durable, event.State). The reference is a ghost
// variable per replica: the set of primitive updates (key, add|del, clock, origin) the replica has
// received directly or through merges. On every reachable state, every replica, every key, the times
// read through Get / Has / Range must equal the point-wise maximum over the ghost set and the entry
// must be reported active exactly when add != 0 and add >= del.
package c04

import (
	"encoding/json"
	"fmt"
	"os"
	"runtime/pprof"
	"sort"
	"strconv"
	"strings"
	"sync"
	"time"

	"github.com/emitter-io/emitter/internal/event/crdt"
	"github.com/emitter-io/emitter/internal/verifx/engine/core"
	"github.com/emitter-io/emitter/internal/verifx/engine/sched"
	"github.com/emitter-io/emitter/internal/verifx/engine/xstate"
)

func init() {
	core.Register(&core.Check{ID: "C04", Level: "model_checking", Run: run, Worker: worker, Replay: replay})
}

const nRep = 3

var clocks = []int64{1, 2, 3}

// ---- alphabet ------------------------------------------------------------------------------------

type opDesc struct {
	Kind string // add del merge fwd
	R    int    // add/del: replica; merge: source
	K    int
	T    int64
	Dst  int
	How  int
}

func (o opDesc) name(b *backendDef) string {
	switch o.Kind {
	case "add", "del":
		return fmt.Sprintf("%s(r%d,%s,t=%d)", o.Kind, o.R, b.Keys[o.K], o.T)
	case "merge":
		return fmt.Sprintf("merge(r%d->r%d,%s)", o.R, o.Dst, howNames[o.How])
	}
	return fmt.Sprintf("fwd(delta->r%d)", o.Dst)
}

// kind is the op kind used in signatures.
func (o opDesc) kind() string {
	if o.Kind == "merge" {
		return "merge-" + howNames[o.How]
	}
	return o.Kind
}

func alphabet(b *backendDef) []opDesc {
	var ops []opDesc
	for r := 0; r < nRep; r++ {
		for k := range b.Keys {
			for _, t := range clocks {
				ops = append(ops, opDesc{Kind: "add", R: r, K: k, T: t})
			}
		}
	}
	for r := 0; r < nRep; r++ {
		for k := range b.Keys {
			for _, t := range clocks {
				ops = append(ops, opDesc{Kind: "del", R: r, K: k, T: t})
			}
		}
	}
	for _, how := range b.Hows {
		for s := 0; s < nRep; s++ {
			for d := 0; d < nRep; d++ {
				if s != d {
					ops = append(ops, opDesc{Kind: "merge", R: s, Dst: d, How: how})
				}
			}
		}
	}
	for d := 0; d < nRep; d++ {
		ops = append(ops, opDesc{Kind: "fwd", Dst: d})
	}
	return ops
}

// ---- ghost sets ------------------------------------------------------------------------------------

// A primitive update is (origin, key, add|del, clock); a ghost set is a bit mask over them.
func bitOf(origin, k int, del bool, t int64) uint64 {
	kind := 0
	if del {
		kind = 1
	}
	return 1 << uint(((origin*3+k)*2+kind)*3+int(t)-1)
}

// expect is the point-wise maximum over a ghost set: the statement's expected contents.
func expect(mask uint64, nKeys int) []tm {
	out := make([]tm, nKeys)
	for origin := 0; origin < nRep; origin++ {
		for k := 0; k < nKeys; k++ {
			for _, t := range clocks {
				if mask&bitOf(origin, k, false, t) != 0 && t > out[k].A {
					out[k].A = t
				}
				if mask&bitOf(origin, k, true, t) != 0 && t > out[k].D {
					out[k].D = t
				}
			}
		}
	}
	return out
}

// restrict keeps the updates of mask whose effect the payload contents carry: for each key and
// component, the updates with a clock not above the carried time. It reports a carried time that no
// update of the mask explains.
func restrict(mask uint64, cont []tm) (out uint64, unexplained string) {
	for k, c := range cont {
		okA, okD := c.A == 0, c.D == 0
		for origin := 0; origin < nRep; origin++ {
			for _, t := range clocks {
				if b := bitOf(origin, k, false, t); mask&b != 0 && t <= c.A {
					out |= b
					okA = okA || t == c.A
				}
				if b := bitOf(origin, k, true, t); mask&b != 0 && t <= c.D {
					out |= b
					okD = okD || t == c.D
				}
			}
		}
		if !okA || !okD {
			unexplained = fmt.Sprintf("key #%d carries %v", k, c)
		}
	}
	return
}

type ghostStr struct {
	mask uint64
	b    *backendDef
}

func (g ghostStr) String() string { return describeGhost(g.mask, g.b) }

func describeGhost(mask uint64, b *backendDef) string {
	var s []string
	for k := range b.Keys {
		for _, del := range []bool{false, true} {
			for _, t := range clocks {
				for origin := 0; origin < nRep; origin++ {
					if mask&bitOf(origin, k, del, t) != 0 {
						n := "add"
						if del {
							n = "del"
						}
						s = append(s, fmt.Sprintf("%s(%s,t=%d)@r%d", n, b.Keys[k], t, origin))
					}
				}
			}
		}
	}
	if len(s) == 0 {
		return "{}"
	}
	return "{" + strings.Join(s, " ") + "}"
}

// ---- shared bookkeeping of one search -----------------------------------------------------------------

type found struct {
	kind string
	what string
	ops  []int
}

// better orders violating histories of one kind: shorter first, then (same length) the one whose
// wrong answer is visible in "is this entry active", then the lexicographically first.
func better(aOps []int, aWhat string, bOps []int, bWhat string) bool {
	if len(aOps) != len(bOps) {
		return len(aOps) < len(bOps)
	}
	av, bv := strings.Contains(aWhat, activityMark), strings.Contains(bWhat, activityMark)
	if av != bv {
		return av
	}
	return lessOps(aOps, bOps)
}

const activityMark = "[wrong answer to 'is this entry active']"

type stats struct {
	mu       sync.Mutex
	best     map[string]*found // per kind: the shortest (then lexicographically first) violating history
	violByOp map[string]int64  // violating transitions per kind/last-op
	counters map[string]int64
	byOp     map[string]int64
	keyMode  string
}

func newStats(keyMode string) *stats {
	return &stats{best: map[string]*found{}, violByOp: map[string]int64{}, byOp: map[string]int64{}, keyMode: keyMode,
		counters: map[string]int64{"merges_leaving_a_delta": 0, "delta_differs_from_contract": 0, "writes_with_stale_or_equal_clock": 0, "delta_forwards": 0}}
}

func lessOps(a, b []int) bool {
	if len(a) != len(b) {
		return len(a) < len(b)
	}
	for i := range a {
		if a[i] != b[i] {
			return a[i] < b[i]
		}
	}
	return false
}

// ---- instance --------------------------------------------------------------------------------------

type inst struct {
	b     *backendDef
	ops   []opDesc
	st    *stats
	reps  [nRep]replica
	ghost [nRep]uint64
	seenE [nRep][][]tm // per replica and key: the expected values it went through (oldest first)

	pend      payload
	pendGhost uint64
	pendCont  []tm

	hist     []int
	failKind string
	failWhat string

	// facts about the last operation, for coverage
	lastDeltaNonEmpty bool
	lastDeltaDiffers  string
	lastIgnoredWrite  bool
}

func newInst(b *backendDef, ops []opDesc, st *stats) *inst {
	in := &inst{b: b, ops: ops, st: st}
	for r := 0; r < nRep; r++ {
		in.reps[r] = b.New()
		in.seenE[r] = make([][]tm, len(b.Keys))
		for k := range b.Keys {
			in.seenE[r][k] = []tm{{}}
		}
	}
	in.touchAll()
	return in
}

func (in *inst) fail(kind, what string) {
	if in.failKind == "" {
		in.failKind, in.failWhat = kind, what
	}
}

func (in *inst) Enabled() []int {
	out := make([]int, 0, len(in.ops))
	for i, o := range in.ops {
		if o.Kind == "fwd" && in.pend == nil {
			continue
		}
		out = append(out, i)
	}
	return out
}

func (in *inst) touchAll() {
	for r := 0; r < nRep; r++ {
		in.reps[r].touch()
	}
}

func (in *inst) Apply(i int) {
	in.hist = append(in.hist, i)
	if in.failKind != "" {
		return
	}
	o := in.ops[i]
	defer func() {
		if p := recover(); p != nil {
			in.fail("panic", fmt.Sprintf("%s panicked: %v", o.name(in.b), p))
		}
	}()
	in.lastDeltaNonEmpty, in.lastDeltaDiffers, in.lastIgnoredWrite = false, "", false
	nk := len(in.b.Keys)
	switch o.Kind {
	case "add", "del":
		del := o.Kind == "del"
		before := expect(in.ghost[o.R], nk)[o.K]
		in.lastIgnoredWrite = (!del && o.T <= before.A) || (del && o.T <= before.D)
		in.reps[o.R].write(o.K, del, o.T, o.R)
		in.ghost[o.R] |= bitOf(o.R, o.K, del, o.T)
	case "merge":
		p := in.reps[o.R].snapshot(o.How)
		g := in.ghost[o.R] // a full snapshot carries everything its source has received
		in.deliver(p, g, expect(g, nk), o.Dst)
	case "fwd":
		if in.pend == nil {
			return
		}
		in.deliver(in.pend, in.pendGhost, in.pendCont, o.Dst)
	}
	for r := 0; r < nRep; r++ {
		e := expect(in.ghost[r], nk)
		for k := range e {
			l := in.seenE[r][k]
			if l[len(l)-1] != e[k] {
				in.seenE[r][k] = append(l, e[k])
			}
		}
	}
	in.touchAll()
}

// deliver merges payload p (ghost g, contents cont as far as the model knows) into replica dst and
// keeps what Merge left in p as the pending delta.
func (in *inst) deliver(p payload, g uint64, cont []tm, dst int) {
	nk := len(in.b.Keys)
	before := expect(in.ghost[dst], nk)
	in.reps[dst].merge(p)
	in.ghost[dst] |= g

	// what Merge left behind: the delta. Its ghost is derived from what it actually carries.
	left, extra := p.read()
	if len(extra) > 0 {
		in.fail("wrong-time", "after merging into r"+strconv.Itoa(dst)+": "+extra[0])
	}
	// (a delta is computed from the payload and the target, so updates of either may explain a time)
	lg, unexplained := restrict(in.ghost[dst], left)
	if unexplained != "" {
		in.fail("wrong-time", fmt.Sprintf("the delta left by the merge into r%d carries a time that none of the updates in the merged payload or in r%d explains: %s; together they held %s", dst, dst, unexplained, describeGhost(in.ghost[dst], in.b)))
	}
	// informational: compare with the delta the merge contract describes (C13 judges this)
	var diff []string
	for k := range left {
		want := tm{}
		if cont[k].A > before[k].A {
			want.A = cont[k].A
		}
		if cont[k].D > before[k].D {
			want.D = cont[k].D
		}
		if want != left[k] {
			diff = append(diff, fmt.Sprintf("%s: delta %v, contract %v", in.b.Keys[k], left[k], want))
		}
	}
	in.lastDeltaDiffers = strings.Join(diff, "; ")
	empty := true
	for _, t := range left {
		if t != (tm{}) {
			empty = false
		}
	}
	if empty {
		in.pend, in.pendGhost, in.pendCont = nil, 0, nil
		return
	}
	in.lastDeltaNonEmpty = true
	in.pend, in.pendGhost, in.pendCont = p, lg, left
}

// mismatch describes one disagreement between a replica and its ghost set.
type mismatch struct {
	kind string
	what string
}

// Check is the oracle on the current state.
func (in *inst) Check() (string, string) {
	kind, what := in.evaluate()
	in.account(kind, what)
	return kind, what
}

func (in *inst) evaluate() (string, string) {
	if in.failKind != "" {
		return in.failKind, in.failWhat
	}
	nk := len(in.b.Keys)
	var observed [nRep]obs
	var paniced string
	func() {
		defer func() {
			if p := recover(); p != nil {
				paniced = fmt.Sprint(p)
			}
		}()
		for r := 0; r < nRep; r++ {
			observed[r] = in.reps[r].observe()
		}
	}()
	if paniced != "" {
		return "panic", "reading a replica panicked: " + paniced
	}
	var storeBad, readBad, actBad []mismatch
	for r := 0; r < nRep; r++ {
		o := observed[r]
		e := expect(in.ghost[r], nk)
		received := ghostStr{in.ghost[r], in.b}
		entries := 0
		for k := 0; k < nk; k++ {
			if e[k] != (tm{}) {
				entries++
			}
			if o.rng[k] == e[k] && o.get[k] == e[k] && o.has[k] == e[k].active() && o.listed[k] == e[k].active() {
				continue
			}
			id := fmt.Sprintf("replica r%d key %s", r, in.b.Keys[k])
			if o.rng[k] != e[k] {
				storeBad = append(storeBad, mismatch{"wrong-time", fmt.Sprintf("%s: Range reports %v but the replica has received %s, so the entry must be %v", id, o.rng[k], received, e[k])})
				continue
			}
			if o.get[k] != e[k] {
				kind := "wrong-time"
				if in.isEarlier(r, k, func(t tm) bool { return t == o.get[k] }) {
					kind = "stale-read"
				}
				mark := ""
				if o.has[k] != e[k].active() {
					mark = " " + activityMark
				}
				readBad = append(readBad, mismatch{kind, fmt.Sprintf("%s: Get reports %v, Has reports %v, but the replica has received %s, so the entry must be %v active=%v; Range reports %v%s", id, o.get[k], o.has[k], received, e[k], e[k].active(), o.rng[k], mark)})
				continue
			}
			if o.has[k] != e[k].active() {
				readBad = append(readBad, mismatch{"wrong-activity", fmt.Sprintf("%s: Has reports %v but the entry is %v (received %s), active must be %v", id, o.has[k], e[k], received, e[k].active())})
				continue
			}
			if o.listed[k] != e[k].active() {
				actBad = append(actBad, mismatch{"wrong-activity", fmt.Sprintf("%s: listed among active entries = %v but the entry is %v (received %s), active must be %v", id, o.listed[k], e[k], received, e[k].active())})
			}
		}
		if len(o.extra) > 0 {
			storeBad = append(storeBad, mismatch{"wrong-time", fmt.Sprintf("replica r%d: %s", r, o.extra[0])})
		} else if o.count != entries {
			storeBad = append(storeBad, mismatch{"wrong-time", fmt.Sprintf("replica r%d: Count reports %d entries, the updates received %s make %d", r, o.count, received, entries)})
		}
	}
	if len(storeBad) > 0 {
		// two replicas that received the same updates but hold different entries: divergence
		for a := 0; a < nRep; a++ {
			for b := a + 1; b < nRep; b++ {
				if in.ghost[a] == in.ghost[b] && fmt.Sprint(observed[a].rng) != fmt.Sprint(observed[b].rng) {
					return "diverged", fmt.Sprintf("r%d and r%d have received the same updates %s but hold %v and %v | %s", a, b, describeGhost(in.ghost[a], in.b), observed[a].rng, observed[b].rng, storeBad[0].what)
				}
			}
		}
		return storeBad[0].kind, storeBad[0].what
	}
	for pass := 0; pass < 2; pass++ {
		for _, m := range readBad {
			if m.kind == "stale-read" && (pass == 1 || strings.Contains(m.what, activityMark)) {
				return m.kind, m.what + " | the answer is the one that was correct before a later update arrived"
			}
		}
	}
	if len(readBad) > 0 {
		return readBad[0].kind, readBad[0].what
	}
	if len(actBad) > 0 {
		return actBad[0].kind, actBad[0].what
	}
	return "", ""
}

// isEarlier reports whether an expected value the replica went through earlier satisfies f.
func (in *inst) isEarlier(r, k int, f func(tm) bool) bool {
	l := in.seenE[r][k]
	for _, t := range l[:len(l)-1] {
		if f(t) {
			return true
		}
	}
	return false
}

// account records coverage facts and the minimal violating history per kind.
func (in *inst) account(kind, what string) {
	st := in.st
	if st == nil {
		return
	}
	nk := len(in.b.Keys)
	last := "root"
	if len(in.hist) > 0 {
		last = in.ops[in.hist[len(in.hist)-1]].kind()
	}
	pairs, ties := false, false
	if kind == "" {
		for a := 0; a < nRep; a++ {
			for b := a + 1; b < nRep; b++ {
				if in.ghost[a] != 0 && in.ghost[a] == in.ghost[b] {
					pairs = true
				}
			}
			for _, e := range expect(in.ghost[a], nk) {
				if e.A != 0 && e.A == e.D {
					ties = true
				}
			}
		}
	}
	st.mu.Lock()
	defer st.mu.Unlock()
	st.byOp[last]++
	if kind != "" {
		st.violByOp[kind+" after "+last]++
		f := st.best[kind]
		if f == nil || better(in.hist, what, f.ops, f.what) {
			st.best[kind] = &found{kind: kind, what: what, ops: append([]int(nil), in.hist...)}
		}
		return
	}
	if in.lastDeltaNonEmpty {
		st.counters["merges_leaving_a_delta"]++
	}
	if in.lastDeltaDiffers != "" {
		st.counters["delta_differs_from_contract"]++
	}
	if in.lastIgnoredWrite {
		st.counters["writes_with_stale_or_equal_clock"]++
	}
	if last == "fwd" {
		st.counters["delta_forwards"]++
	}
	if pairs {
		st.counters["transitions_ending_with_two_replicas_holding_equal_update_sets"]++
	}
	if ties {
		st.counters["transitions_ending_with_an_add_del_tie"]++
	}
}

// Key: replica contents (equal to the expected contents once Check passed) + ghost sets + pending
// delta. Key modes:
//
//	full  the ghost sets enter with every primitive update (origins included)
//	max   the ghost sets enter through their point-wise maxima per key and component. The code under
//	      test never sees a ghost set, and the oracle and the ghost-set updates (union, restriction to
//	      a delta) depend on a ghost set only through these maxima, so states that agree on them have
//	      the same futures (bisimulation quotient).
//	+sym  replicas are interchangeable (same constructor, no shared state, the alphabet is closed
//	      under renaming replicas; origins are ghost labels): the key is the least one over the six
//	      renamings.
func (in *inst) Key() string {
	mode := "full"
	if in.st != nil {
		mode = in.st.keyMode
	}
	full := strings.HasPrefix(mode, "full")
	if !strings.HasSuffix(mode, "+sym") {
		return in.keyUnder(identityPerm, full)
	}
	best := ""
	for i, p := range perms {
		if k := in.keyUnder(p, full); i == 0 || k < best {
			best = k
		}
		if !full {
			break // without origins the renamings only reorder the replica blocks: sort instead
		}
	}
	if !full {
		blocks := strings.SplitN(best, "|", nRep+1)
		sort.Strings(blocks[:nRep])
		return strings.Join(blocks, "|")
	}
	return best
}

var identityPerm = [nRep]int{0, 1, 2}
var perms = [][nRep]int{{0, 1, 2}, {0, 2, 1}, {1, 0, 2}, {1, 2, 0}, {2, 0, 1}, {2, 1, 0}}

// renameOrigins moves the updates of origin p[i] to origin i.
func renameOrigins(mask uint64, p [nRep]int) uint64 {
	const block = 18 // 3 keys * 2 kinds * 3 clocks
	var out uint64
	for i, o := range p {
		out |= (mask >> uint(block*o) & (1<<block - 1)) << uint(block*i)
	}
	return out
}

// keyUnder renders the state with replica p[i] in position i.
func (in *inst) keyUnder(p [nRep]int, full bool) string {
	nk := len(in.b.Keys)
	var sb strings.Builder
	for _, r := range p {
		for _, e := range expect(in.ghost[r], nk) {
			sb.WriteByte(byte('0' + e.A))
			sb.WriteByte(byte('0' + e.D))
		}
		if full {
			sb.WriteString(strconv.FormatUint(renameOrigins(in.ghost[r], p), 36))
		}
		sb.WriteByte('|')
	}
	if in.pend != nil {
		for _, e := range in.pendCont {
			sb.WriteByte(byte('0' + e.A))
			sb.WriteByte(byte('0' + e.D))
		}
		if full {
			sb.WriteString(strconv.FormatUint(renameOrigins(in.pendGhost, p), 36))
		}
	}
	return sb.String()
}

func (in *inst) Close() {
	if in.failKind == "panic" {
		return // a panic may have left a lock held: do not touch (or recycle) these replicas again
	}
	for r := 0; r < nRep; r++ {
		in.reps[r].close()
	}
}

// ---- signatures --------------------------------------------------------------------------------------

func multiset(ops []opDesc, path []int) string {
	n := map[string]int{}
	for _, i := range path {
		n[ops[i].kind()]++
	}
	var ks []string
	for k := range n {
		ks = append(ks, k)
	}
	sort.Strings(ks)
	for i, k := range ks {
		if n[k] > 1 {
			ks[i] = fmt.Sprintf("%s*%d", k, n[k])
		}
	}
	return strings.Join(ks, "+")
}

func signature(b *backendDef, kind string, ops []opDesc, path []int) string {
	return b.ID + ":" + kind + ":" + multiset(ops, path)
}

type caseT struct {
	Backend string   `json:"backend"`
	Ops     []int    `json:"ops"`
	History []string `json:"history"`
	Kind    string   `json:"kind"`
}

func names(b *backendDef, ops []opDesc, path []int) []string {
	out := make([]string, len(path))
	for i, p := range path {
		out[i] = ops[p].name(b)
	}
	return out
}

// ---- driver ------------------------------------------------------------------------------------------

type plan struct {
	backend string
	depth   int // the bound: every history of at most this many operations
	keyMode string
	extra   int // further levels explored only as far as the time budget allows (not part of the bound)
	weight  int // share of the time budget
}

// Depth bounds. Measured on the 16-core verification machine while it was heavily shared (load 40-90;
// CPU time suggests a third of these wall times on an idle machine), on a tree with the read-cache
// defect repaired (on the defective tree the durable searches are pruned at every violating state and
// finish much earlier): vol<-vol 5: 5-15 s, 6: 20-40 s; dur<-vol 4: 8 s, 5: 30-40 s, 6: 130-200 s;
// state-vol 4: 14 s, 5: 50-120 s; state-dur 3: 10 s, 4: 26-48 s, 5: 590 s. Where the bound is followed by
// an extra level (durable backends), that level normally completes too; it is kept out of the promised
// bound so that a loaded machine does not turn the run into a non-exhaustive one.
func plans(c *core.Ctx) []plan {
	if c.Quick() {
		return []plan{
			{"vol<-vol", 5, "max+sym", 0, 3}, {"state-vol", 4, "max+sym", 0, 3}, {"state-dur", 3, "max+sym", 1, 4}, {"dur<-vol", 4, "max+sym", 1, 4},
		}
	}
	return []plan{
		{"vol<-vol", 6, "max+sym", 0, 3}, {"state-vol", 5, "max+sym", 0, 8}, {"state-dur", 4, "max+sym", 0, 4}, {"dur<-vol", 5, "max+sym", 1, 8},
	}
}

func run(c *core.Ctx) {
	ps := plans(c)
	if v := strings.TrimSpace(os.Getenv("C04_PLAN")); v != "" { // e.g. "vol<-vol:6:max,dur<-vol:5:full+sym" (experiments)
		ps = nil
		for _, s := range strings.Split(v, ",") {
			f := strings.Split(s, ":")
			d, _ := strconv.Atoi(f[1])
			ps = append(ps, plan{f[0], d, f[2], 0, 1})
		}
	}
	orig := crdt.Now
	defer func() { crdt.Now = orig }()
	summary := map[string]interface{}{}
	for i, p := range ps {
		// the remaining budget is split over the remaining searches by weight
		rest := 0
		for _, q := range ps[i:] {
			rest += q.weight
		}
		left := time.Until(c.Deadline)
		deadline := time.Now().Add(left * time.Duration(p.weight) / time.Duration(rest))
		summary[p.backend] = search(c, p, deadline)
	}
	c.Set("search", summary)
	crdt.Now = orig
	partBig(c)
	bound := 2
	if !c.Quick() {
		bound = 3
	}
	c.Set("sched_bound_completed", sched.Drive(c, concOrder, bound))
	c.Set("sched_schedules", c.Count("schedules"))
	c.Add("transitions", c.Count("schedules"))
	c.Add("traces_validated_against_impl", c.Count("schedules"))
	c.Set("replicas", nRep)
	c.Set("clock_values", clocks)
	c.Set("merge_kinds", append(append([]string{}, howNames...), "forward the delta left by the previous merge"))
	c.Set("reads_per_state", "Get + Has of every key on every replica after every operation (cache-populating); Get, Has, Range(nil,true), Range(prefix,false), Count (+ State.Has, Subscriptions, SubscriptionsOf, ConnectionsOf) in the oracle")
	c.Assume("the searches apply operations one at a time (histories); two merges and a local update arriving at one volatile replica at the same time are explored separately as statement-level interleavings (part conc); the durable set relies on buntdb's transaction lock, which the scheduler does not instrument")
	c.Assume("clock values 1..3 stand for arbitrary timestamps: only their order and equality matter to the code under test")
	c.Assume("entry payload bytes (after the 16-byte time header) are outside the statement and are not compared")
	c.Assume("merging the live durable State as an argument (panics: *Durable is not *Volatile) and the completeness of deltas are judged by C13/C05; here a delta's ghost set is derived from the times it actually carries")
	c.Assume("event.State internals are read through reflect on the unexported field 'subsets' (read-only)")
	c.Assume("the 60 s read-cache TTL and the 6 h tombstone TTL of crdt.Durable are not reached: every history runs in milliseconds")
	c.Assume("state identity: ghost sets enter the canonical key through their point-wise maxima, replicas are interchangeable (see Key); both reductions are cross-checked against the unreduced key at a smaller depth with C04_PLAN")
}

func specOf(b *backendDef, depth int, st *stats, deadline time.Time) (*xstate.Spec, []opDesc) {
	ops := alphabet(b)
	an := make([]string, len(ops))
	for i, o := range ops {
		an[i] = o.name(b)
	}
	return &xstate.Spec{Name: "c04-" + b.ID, Alphabet: an, Depth: depth, Workers: 1, Deadline: deadline,
		New: func(int) xstate.Instance { return newInst(b, ops, st) }}, ops
}

// worker is the expander process: worker C04 <tier> expand <backend> <keyMode>
func worker(c *core.Ctx, args []string) {
	if len(args) > 0 && args[0] == "sched" {
		sched.WorkerMain(c, concScenarios(), args[1:])
		return
	}
	if len(args) < 3 || args[0] != "expand" {
		core.HarnessFailure("C04 worker: bad arguments %v", args)
	}
	b := backendByID(args[1])
	if b == nil {
		core.HarnessFailure("C04 worker: unknown backend %q", args[1])
	}
	if pf := os.Getenv("C04_PROF"); pf != "" {
		f, _ := os.Create(fmt.Sprintf("%s.%d", pf, os.Getpid()))
		pprof.StartCPUProfile(f)
		defer pprof.StopCPUProfile()
	}
	st := newStats(args[2])
	spec, _ := specOf(b, 0, st, time.Time{})
	expandLoop(spec, st, os.Stdin, os.Stdout)
}

func search(c *core.Ctx, p plan, deadline time.Time) map[string]interface{} {
	b := backendByID(p.backend)
	if b == nil {
		core.HarnessFailure("C04: unknown backend %q", p.backend)
	}
	t0 := time.Now()
	st := newStats(p.keyMode)
	spec, ops := specOf(b, p.depth+p.extra, st, deadline)
	var res *xstate.Result
	if os.Getenv("C04_INPROC") != "" { // the engine's in-process runner (cross-check of the distributed one)
		res = xstate.Run(spec)
	} else {
		var reports []workerReport
		res, reports = distRun(c, spec, []string{"expand", b.ID, p.keyMode}, core.NumWorkers())
		for _, r := range reports {
			for k, v := range r.Counters {
				st.counters[k] += v
			}
			for k, v := range r.ByOp {
				st.byOp[k] += v
			}
			for k, v := range r.ViolByOp {
				st.violByOp[k] += v
			}
			for k, f := range r.Best {
				if cur := st.best[k]; cur == nil || better(f.Ops, f.What, cur.ops, cur.what) {
					st.best[k] = &found{kind: f.Kind, what: f.What, ops: f.Ops}
				}
			}
		}
	}
	for _, f := range res.Violations { // only a violating root ends up here
		if len(f.Ops) == 0 {
			st.best[f.Sig] = &found{kind: f.Sig, what: f.What}
		}
	}
	c.Add("states", int64(res.States))
	c.Add("transitions", res.Transitions)
	c.Add("traces_validated_against_impl", res.Replays)
	cov := map[string]interface{}{
		"backend": b.Descr, "alphabet": len(ops), "depth_bound": p.depth, "depth_completed": res.DepthCompleted,
		"states": res.States, "transitions": res.Transitions, "key": p.keyMode, "wall_s": float64(int(time.Since(t0).Seconds()*10)) / 10,
		"transitions_by_last_op": st.byOp, "facts": st.counters,
	}
	if len(st.violByOp) > 0 {
		cov["violating_transitions"] = st.violByOp
	}
	if os.Getenv("C04_VERBOSE") != "" {
		fmt.Fprintf(os.Stderr, "C04 %s key=%s depth=%d/%d states=%d transitions=%d wall=%.1fs violating=%v\n", b.ID, p.keyMode, res.DepthCompleted, p.depth, res.States, res.Transitions, time.Since(t0).Seconds(), st.violByOp)
	}
	if res.DepthCompleted < p.depth && !res.Exhaustive {
		c.NotExhaustive(fmt.Sprintf("%s: time cap hit after completing depth %d of %d (%d frontier states unexpanded)", b.ID, res.DepthCompleted, p.depth, res.FrontierLeft))
	} else if !res.Exhaustive {
		cov["beyond_the_bound"] = fmt.Sprintf("level %d explored as far as the time budget allowed (%d frontier states unexpanded); violations found there are reported", res.DepthCompleted+1, res.FrontierLeft)
	}
	// samples: the last state of the deepest completed level, and one from the middle
	if n := len(res.SamplePaths); n > 0 {
		c.Sample(sampleOf(b, ops, spec.Alphabet, res.SamplePaths[n-1]))
		if n >= 2 {
			c.Sample(sampleOf(b, ops, spec.Alphabet, res.SamplePaths[n-2]))
		}
	}
	var kinds []string
	for k := range st.best {
		kinds = append(kinds, k)
	}
	sort.Strings(kinds)
	for _, k := range kinds {
		f := st.best[k]
		h := names(b, ops, f.ops)
		c.Violate(signature(b, f.kind, ops, f.ops), f.what+" | history: "+strings.Join(h, ", "),
			caseT{Backend: b.ID, Ops: f.ops, History: h, Kind: f.kind})
	}
	return cov
}

func sampleOf(b *backendDef, ops []opDesc, an []string, path []string) interface{} {
	in := newInst(b, ops, nil)
	defer in.Close()
	for _, n := range path {
		for i, a := range an {
			if a == n {
				in.Apply(i)
			}
		}
	}
	held := map[string]interface{}{}
	for r := 0; r < nRep; r++ {
		o := in.reps[r].observe()
		held[fmt.Sprintf("r%d", r)] = map[string]interface{}{"received": describeGhost(in.ghost[r], b), "range": fmt.Sprint(o.rng), "get": fmt.Sprint(o.get), "has": o.has}
	}
	return map[string]interface{}{"backend": b.ID, "history": path, "replicas": held}
}

func replay(c *core.Ctx, raw json.RawMessage) {
	if sched.ReplayCase(c, concScenarios(), raw) {
		return
	}
	var bc bigCase
	if json.Unmarshal(raw, &bc) == nil && bc.Part == "big" {
		runBig(c, bc)
		return
	}
	var cs caseT
	if err := json.Unmarshal(raw, &cs); err != nil {
		core.HarnessFailure("bad replay case: %v", err)
	}
	b := backendByID(cs.Backend)
	if b == nil {
		core.HarnessFailure("unknown backend %q", cs.Backend)
	}
	orig := crdt.Now
	defer func() { crdt.Now = orig }()
	ops := alphabet(b)
	in := newInst(b, ops, nil)
	defer in.Close()
	for n, o := range cs.Ops {
		if o < 0 || o >= len(ops) {
			core.HarnessFailure("bad op index %d", o)
		}
		in.Apply(o)
		if kind, what := in.evaluate(); kind != "" {
			path := cs.Ops[:n+1]
			h := names(b, ops, path)
			c.Violate(signature(b, kind, ops, path), what+" | history: "+strings.Join(h, ", "), caseT{Backend: b.ID, Ops: path, History: h, Kind: kind})
			return
		}
	}
}
